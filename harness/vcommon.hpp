// Shared helpers for /verif harness drivers (JSON escaping, exact double printing, VAR printing).
#ifndef VCOMMON_HPP
#define VCOMMON_HPP
#include <cstdio>
#include <cstring>
#include <string>
#include <sstream>
#include <fstream>
#include <vector>
#include <cstdint>
#include "Var.h"

inline std::string jesc(const std::string &s) {
  std::string o;
  o.reserve(s.size() + 8);
  char b[8];
  for (unsigned char c : s) {
    switch (c) {
    case '"': o += "\\\""; break;
    case '\\': o += "\\\\"; break;
    case '\n': o += "\\n"; break;
    case '\r': o += "\\r"; break;
    case '\t': o += "\\t"; break;
    default:
      if (c < 0x20 || c >= 0x7f) { snprintf(b, sizeof b, "\\u%04x", c); o += b; }
      else o += (char)c;
    }
  }
  return o;
}
inline std::string jstr(const std::string &s) { return "\"" + jesc(s) + "\""; }
inline std::string jstr(const char *s) { return s ? jstr(std::string(s)) : std::string("null"); }

// exact rendering of a double: C99 hex float (finite), or "nan"/"inf"/"-inf"
inline std::string hexd(double d) {
  char b[64];
  snprintf(b, sizeof b, "%a", d);
  return b;
}
inline std::string bitsd(double d) {
  uint64_t u; memcpy(&u, &d, 8);
  char b[32]; snprintf(b, sizeof b, "%llu", (unsigned long long)u);
  return b;
}

// VAR as a compact JSON value: null (empty) | {"e":code} | {"l":n} | {"d":"hex"} | {"s":"text"}
inline std::string jvar(const VAR &v) {
  char b[64];
  switch (v.type) {
  case TT_EMPTY: return "null";
  case TT_ERROR: snprintf(b, sizeof b, "{\"e\":%d}", (int)v.vresult); return b;
  case TT_LONG: snprintf(b, sizeof b, "{\"l\":%ld}", v.lVal); return b;
  case TT_DOUBLE: return "{\"d\":\"" + hexd(v.dVal) + "\"}";
  case TT_STRING: return "{\"s\":" + jstr(v.sVal) + "}";
  }
  snprintf(b, sizeof b, "{\"badtype\":%d}", (int)v.type);
  return b;
}

inline std::string slurp(const std::string &path, bool *ok = 0) {
  std::ifstream f(path.c_str(), std::ios::binary);
  if (ok) *ok = f.is_open();
  std::ostringstream o; o << f.rdbuf();
  return o.str();
}
#endif
