// c14_drive: keyed-store history driver for property C14.
//   c14_drive <histories-file>
// histories-file (plain text):
//   @@HISTORY <id> <database path>        start a new history = a fresh IPhreeqc instance + LoadDatabase
//   @@STEP <flags>                        start a step; the following lines (up to the next @@ line) are its input
//                                         flags: comma separated subset of {obs,nodump}; "-" for none
//                                           obs    : after the step run a separate observation RunString
//                                                    ("DUMP; -all; END") and report its dump as "after"
//   @@END                                 end of file (optional)
// Each step is run with RunString in the SAME instance as the previous steps of its history.
// For every step one JSON line is printed:
//   {"h":id,"s":k,"rc":n,"err":"..","warn":"..","dump":"<dump string produced by the step itself>",
//    "comps":[..],"after":"<dump of the observation run>","after_rc":n,"comps_after":[..]}
// The dump string is cleared (by an empty non-append dump) before each step so that "dump" is "" when the
// step contained no DUMP block.
#include "vcommon.hpp"
#include "IPhreeqc.hpp"
#include <iostream>
#include <set>

static std::string comps_json(IPhreeqc &ip) {
  std::ostringstream o;
  o << "[";
  size_t nc = ip.GetComponentCount();
  for (size_t i = 0; i < nc; ++i) o << (i ? "," : "") << jstr(ip.GetComponent((int)i));
  o << "]";
  return o.str();
}

struct Step { std::string flags, text; };

static void run_history(const std::string &id, const std::string &db, std::vector<Step> &steps) {
  IPhreeqc ip;
  if (ip.LoadDatabase(db.c_str()) != 0) {
    std::cout << "{\"h\":" << jstr(id) << ",\"s\":-1,\"dberr\":" << jstr(ip.GetErrorString()) << "}" << std::endl;
    return;
  }
  ip.SetDumpStringOn(true);
  ip.SetOutputStringOn(false);
  ip.SetOutputFileOn(false);
  ip.SetDumpFileOn(false);
  ip.SetErrorFileOn(false);
  ip.SetLogFileOn(false);
  ip.SetSelectedOutputFileOn(false);
  for (size_t k = 0; k < steps.size(); ++k) {
    bool obs = steps[k].flags.find("obs") != std::string::npos;
    std::ostringstream o;
    std::string before = ip.GetDumpString();
    int rc = ip.RunString(steps[k].text.c_str());
    std::string d = ip.GetDumpString();
    bool has_dump = steps[k].text.find("DUMP") != std::string::npos;
    o << "{\"h\":" << jstr(id) << ",\"s\":" << k << ",\"rc\":" << rc;
    o << ",\"err\":" << jstr(ip.GetErrorString()) << ",\"warn\":" << jstr(ip.GetWarningString());
    o << ",\"dump\":" << jstr(has_dump ? d : std::string(""));
    o << ",\"comps\":" << comps_json(ip);
    if (obs) {
      int rc2 = ip.RunString("DUMP\n-all\nEND\n");
      o << ",\"after_rc\":" << rc2 << ",\"after\":" << jstr(ip.GetDumpString());
      o << ",\"comps_after\":" << comps_json(ip);
    }
    o << "}";
    std::cout << o.str() << std::endl;
  }
}

int main(int argc, char **argv) {
  if (argc < 2) { fprintf(stderr, "usage: c14_drive histories-file\n"); return 2; }
  std::ifstream f(argv[1]);
  std::string line, id, db;
  std::vector<Step> steps;
  bool have = false;
  while (std::getline(f, line)) {
    if (line.compare(0, 10, "@@HISTORY ") == 0) {
      if (have) run_history(id, db, steps);
      steps.clear();
      std::istringstream is(line.substr(10));
      is >> id >> db;
      have = true;
    } else if (line.compare(0, 6, "@@STEP") == 0) {
      Step s; s.flags = line.size() > 7 ? line.substr(7) : "";
      steps.push_back(s);
    } else if (line.compare(0, 5, "@@END") == 0) {
      break;
    } else if (!steps.empty()) {
      steps.back().text += line + "\n";
    }
  }
  if (have) run_history(id, db, steps);
  return 0;
}
