// wdrive: script-driven driver for the wrapper family (C04 C05 C07 C08 C09 C13).
//   wdrive <script>     script = tab separated, C-escaped fields, one op per line; one JSON line out per op.
// ops:
//   spy | create                      new recording Spy instance / CreateIPhreeqc()            -> {"id":n}
//   destroy id                        DestroyIPhreeqc(id)                                      -> {"r":rc}
//   c Name id [arg]                   C function                                               -> {"r":...}
//   f Name id [arg]                   Fortran-binding function ( *F ), string-out: arg = n, buflen
//   m Name id [arg]                   C++ method on the object with that id (must be live)
//   cval id row col | cval2 id row col buflen | fval id row col buflen | mval id row col
//   obs id [lines]                    all observables of the instance
//   events id                         recorded engine->io events since the last call (Spy only)
//   file path                         content of a file in cwd
//   live                              ids currently in the registry
#include "spy.hpp"
#include "IPhreeqc.h"
#include "IPhreeqc_interface_F.h"
#include <functional>

static std::string unesc(const std::string &s) {
  std::string o;
  for (size_t i = 0; i < s.size(); ++i) {
    if (s[i] == '\\' && i + 1 < s.size()) {
      char c = s[++i];
      if (c == 'n') o += '\n'; else if (c == 't') o += '\t'; else if (c == 'r') o += '\r'; else if (c == '0') o += '\0';
      else if (c == 'x' && i + 2 < s.size()) { o += (char)strtol(s.substr(i + 1, 2).c_str(), 0, 16); i += 2; }
      else o += c;
    } else o += s[i];
  }
  return o;
}
static std::vector<std::string> split(const std::string &s, char c) {
  std::vector<std::string> v; std::string cur;
  for (char ch : s) { if (ch == c) { v.push_back(cur); cur.clear(); } else cur += ch; }
  v.push_back(cur); return v;
}
static std::string jint(long n) { char b[32]; snprintf(b, sizeof b, "%ld", n); return b; }
static std::string jany(bool b) { return b ? "1" : "0"; }
static std::string jany(int n) { return jint(n); }
static std::string jany(long n) { return jint(n); }
static std::string jany(size_t n) { return jint((long)n); }
static std::string jany(VRESULT n) { return jint((long)n); }
static std::string jany(const char *s) { return jstr(s); }
static std::string jany(const std::string &s) { return jstr(s); }
template <class F> static auto jwrap(F f) -> typename std::enable_if<std::is_void<decltype(f())>::value, std::string>::type { f(); return "null"; }
template <class F> static auto jwrap(F f) -> typename std::enable_if<!std::is_void<decltype(f())>::value, std::string>::type { return jany(f()); }

typedef std::function<std::string(int)> FC0;
typedef std::function<std::string(int, int)> FC1I;
typedef std::function<std::string(int, const char *)> FC1S;
typedef std::function<std::string(IPhreeqc *)> FM0;
typedef std::function<std::string(IPhreeqc *, int)> FM1I;
typedef std::function<std::string(IPhreeqc *, const char *)> FM1S;
static std::map<std::string, FC0> C0, F0;
static std::map<std::string, FC1I> C1I, F1I;
static std::map<std::string, FC1S> C1S, F1S;
static std::map<std::string, FM0> M0;
static std::map<std::string, FM1I> M1I;
static std::map<std::string, FM1S> M1S;
static std::map<std::string, std::function<void(int, int, char *, int *)> > FSN;
static std::map<std::string, std::function<void(int, char *, int *)> > FS;
static std::vector<std::string> UNHANDLED;
static void init_dispatch() {
#include "dispatch.inc"
}

static IPhreeqc *live(int id) {
  std::map<size_t, IPhreeqc *>::iterator it = IPhreeqc::Instances.find((size_t)id);
  return (id >= 0 && it != IPhreeqc::Instances.end()) ? it->second : 0;
}

static std::string obs(IPhreeqc *p, bool lines) {
  std::ostringstream o;
  o << "{\"id\":" << p->GetId();
  o << ",\"sw\":{\"OutputFileOn\":" << p->GetOutputFileOn() << ",\"OutputStringOn\":" << p->GetOutputStringOn()
    << ",\"LogFileOn\":" << p->GetLogFileOn() << ",\"LogStringOn\":" << p->GetLogStringOn()
    << ",\"ErrorFileOn\":" << p->GetErrorFileOn() << ",\"ErrorStringOn\":" << p->GetErrorStringOn() << ",\"ErrorOn\":" << p->GetErrorOn()
    << ",\"DumpFileOn\":" << p->GetDumpFileOn() << ",\"DumpStringOn\":" << p->GetDumpStringOn() << "}";
  o << ",\"names\":{\"Output\":" << jstr(p->GetOutputFileName()) << ",\"Log\":" << jstr(p->GetLogFileName()) << ",\"Error\":" << jstr(p->GetErrorFileName())
    << ",\"Dump\":" << jstr(p->GetDumpFileName()) << "}";
  int cur = p->GetCurrentSelectedOutputUserNumber();
  o << ",\"cur\":" << cur;
  o << ",\"accum\":" << jstr(p->GetAccumulatedLines());
  o << ",\"out\":" << jstr(p->GetOutputString()) << ",\"log\":" << jstr(p->GetLogString()) << ",\"err\":" << jstr(p->GetErrorString())
    << ",\"warn\":" << jstr(p->GetWarningString()) << ",\"dump\":" << jstr(p->GetDumpString());
  struct LN { const char *key; int (IPhreeqc::*cnt)() const; };
  o << ",\"nlines\":{\"out\":" << p->GetOutputStringLineCount() << ",\"log\":" << p->GetLogStringLineCount() << ",\"err\":" << p->GetErrorStringLineCount()
    << ",\"warn\":" << p->GetWarningStringLineCount() << ",\"dump\":" << p->GetDumpStringLineCount() << "}";
  if (lines) {
    o << ",\"lines\":{";
    o << "\"out\":["; for (int i = -1; i <= p->GetOutputStringLineCount(); ++i) o << (i > -1 ? "," : "") << jstr(p->GetOutputStringLine(i)); o << "]";
    o << ",\"log\":["; for (int i = -1; i <= p->GetLogStringLineCount(); ++i) o << (i > -1 ? "," : "") << jstr(p->GetLogStringLine(i)); o << "]";
    o << ",\"err\":["; for (int i = -1; i <= p->GetErrorStringLineCount(); ++i) o << (i > -1 ? "," : "") << jstr(p->GetErrorStringLine(i)); o << "]";
    o << ",\"warn\":["; for (int i = -1; i <= p->GetWarningStringLineCount(); ++i) o << (i > -1 ? "," : "") << jstr(p->GetWarningStringLine(i)); o << "]";
    o << ",\"dump\":["; for (int i = -1; i <= p->GetDumpStringLineCount(); ++i) o << (i > -1 ? "," : "") << jstr(p->GetDumpStringLine(i)); o << "]";
    o << "}";
  }
  // per user number: union of engine definitions, wrapper maps and the current number
  std::set<int> uns;
  int cnt = p->GetSelectedOutputCount();
  o << ",\"selcount\":" << cnt << ",\"nth\":[";
  for (int k = 0; k < cnt; ++k) { int n = p->GetNthSelectedOutputUserNumber(k); uns.insert(n); o << (k ? "," : "") << n; }
  o << "]";
  uns.insert(cur); uns.insert(1);
  for (std::map<int, bool>::iterator it = p->SelectedOutputFileOnMap.begin(); it != p->SelectedOutputFileOnMap.end(); ++it) uns.insert(it->first);
  for (std::map<int, bool>::iterator it = p->SelectedOutputStringOn.begin(); it != p->SelectedOutputStringOn.end(); ++it) uns.insert(it->first);
  o << ",\"sel\":{";
  bool first = true;
  for (std::set<int>::iterator it = uns.begin(); it != uns.end(); ++it) {
    int n = *it;
    if (n < 0) continue;
    p->SetCurrentSelectedOutputUserNumber(n);
    o << (first ? "" : ",") << "\"" << n << "\":{"; first = false;
    o << "\"fileOn\":" << p->GetSelectedOutputFileOn() << ",\"stringOn\":" << p->GetSelectedOutputStringOn() << ",\"fileName\":" << jstr(p->GetSelectedOutputFileName());
    o << ",\"string\":" << jstr(p->GetSelectedOutputString()) << ",\"nlines\":" << p->GetSelectedOutputStringLineCount();
    if (lines) { o << ",\"lines\":["; for (int i = -1; i <= p->GetSelectedOutputStringLineCount(); ++i) o << (i > -1 ? "," : "") << jstr(p->GetSelectedOutputStringLine(i)); o << "]"; }
    int R = p->GetSelectedOutputRowCount(), C = p->GetSelectedOutputColumnCount();
    o << ",\"rows\":" << R << ",\"cols\":" << C << ",\"table\":[";
    for (int r = 0; r < R; ++r) {
      o << (r ? ",[" : "[");
      for (int c = 0; c < C; ++c) { VAR v; VarInit(&v); p->GetSelectedOutputValue(r, c, &v); o << (c ? "," : "") << jvar(v); VarClear(&v); }
      o << "]";
    }
    o << "]}";
  }
  o << "}";
  p->SetCurrentSelectedOutputUserNumber(cur);
  o << ",\"comps\":[";
  size_t nc = p->GetComponentCount();
  for (size_t i = 0; i < nc; ++i) o << (i ? "," : "") << jstr(p->GetComponent((int)i));
  o << "]}";
  return o.str();
}

int main(int argc, char **argv) {
  if (argc < 2) { fprintf(stderr, "usage: wdrive script\n"); return 2; }
  init_dispatch();
  M0["GetId"] = [](IPhreeqc *m) -> std::string { return jany(m->GetId()); };
  std::ifstream sf(argv[1]);
  std::string line;
  long lineno = 0;
  bool skipping = false; long last_r = 0;
  while (std::getline(sf, line)) {
    ++lineno;
    if (line.empty() || line[0] == '#') continue;
    // history guards: "iffail_skip" starts skipping when the previous call returned non-zero; "resume" ends it
    if (line == "resume") { skipping = false; std::cout << "{\"line\":" << lineno << ",\"res\":{\"resumed\":1}}" << std::endl; continue; }
    if (line == "iffail_skip") { if (last_r != 0) skipping = true; std::cout << "{\"line\":" << lineno << ",\"res\":{\"skipping\":" << (skipping ? 1 : 0) << "}}" << std::endl; continue; }
    if (skipping) { std::cout << "{\"line\":" << lineno << ",\"res\":{\"skipped\":1}}" << std::endl; continue; }
    std::vector<std::string> f = split(line, '\t');
    std::vector<bool> isnull(f.size(), false);
    for (size_t i = 0; i < f.size(); ++i) { isnull[i] = (f[i] == "\\NULL"); f[i] = unesc(f[i]); }
    const std::string &op = f[0];
    std::string out;
    try {
      if (op == "spy") { Spy *s = new Spy(); out = "{\"id\":" + jint(s->GetId()) + "}"; }
      else if (op == "create") { out = "{\"id\":" + jint(::CreateIPhreeqc()) + "}"; }
      else if (op == "createF") { out = "{\"id\":" + jint(::CreateIPhreeqcF()) + "}"; }
      else if (op == "createM") { IPhreeqc *q = new IPhreeqc(); out = "{\"id\":" + jint(q->GetId()) + "}"; }        // C++ construction
      else if (op == "destroyM") { IPhreeqc *q = live(atoi(f[1].c_str())); if (q) { delete q; out = "{\"r\":0}"; } else out = "{\"r\":-6}"; }   // C++ destruction of a live object
      else if (op == "destroy") { out = "{\"r\":" + jint(::DestroyIPhreeqc(atoi(f[1].c_str()))) + "}"; }
      else if (op == "destroyF") { int id = atoi(f[1].c_str()); out = "{\"r\":" + jint(::DestroyIPhreeqcF(&id)) + "}"; }
      else if (op == "live") {
        out = "{\"live\":[";
        bool first = true;
        for (std::map<size_t, IPhreeqc *>::iterator it = IPhreeqc::Instances.begin(); it != IPhreeqc::Instances.end(); ++it) { out += (first ? "" : ",") + jint((long)it->first); first = false; }
        out += "],\"next\":" + jint((long)IPhreeqc::InstancesIndex) + "}";
      }
      else if (op == "c" || op == "f" || op == "m") {
        const std::string &name = f[1];
        int id = atoi(f[2].c_str());
        std::string r = "\"?\"";
        bool found = true;
        if (op == "m") {
          IPhreeqc *p = live(id);
          if (!p) r = "\"notlive\"";
          else if (f.size() == 3 && M0.count(name)) r = M0[name](p);
          else if (f.size() == 4 && M1I.count(name)) r = M1I[name](p, atoi(f[3].c_str()));
          else if (f.size() == 4 && M1S.count(name)) r = M1S[name](p, isnull[3] ? (const char *)0 : f[3].c_str());
          else found = false;
        } else if (op == "c") {
          if (f.size() == 3 && C0.count(name)) r = C0[name](id);
          else if (f.size() == 4 && C1I.count(name)) r = C1I[name](id, atoi(f[3].c_str()));
          else if (f.size() == 4 && C1S.count(name)) r = C1S[name](id, isnull[3] ? (const char *)0 : f[3].c_str());
          else found = false;
        } else {
          if (f.size() == 3 && F0.count(name)) r = F0[name](id);
          else if (f.size() == 4 && F1I.count(name)) r = F1I[name](id, atoi(f[3].c_str()));
          else if (f.size() == 4 && F1S.count(name)) r = F1S[name](id, f[3].c_str());
          else if (f.size() == 5 && FSN.count(name)) {
            int n = atoi(f[3].c_str()), len = atoi(f[4].c_str()), cap = len;
            std::vector<char> buf(cap + 8, '#');
            FSN[name](id, n, &buf[0], &len);
            r = "{\"buf\":" + jstr(std::string(&buf[0], cap + 4)) + ",\"len\":" + jint(len) + "}";
          } else if (f.size() == 4 && FS.count(name)) {
            int len = atoi(f[3].c_str()), cap = len;
            std::vector<char> buf(cap + 8, '#');
            FS[name](id, &buf[0], &len);
            r = "{\"buf\":" + jstr(std::string(&buf[0], cap + 4)) + ",\"len\":" + jint(len) + "}";
          } else found = false;
        }
        out = found ? "{\"r\":" + r + "}" : "{\"unknown\":" + jstr(name) + "}";
        if (found && (name.find("Run") == 0 || name.find("LoadDatabase") == 0)) last_r = atol(r.c_str());
      }
      else if (op == "cval") {
        VAR v; VarInit(&v);
        int rc = ::GetSelectedOutputValue(atoi(f[1].c_str()), atoi(f[2].c_str()), atoi(f[3].c_str()), &v);
        out = "{\"r\":" + jint(rc) + ",\"v\":" + jvar(v) + "}"; VarClear(&v);
      }
      else if (op == "mval") {
        IPhreeqc *p = live(atoi(f[1].c_str()));
        if (!p) out = "{\"r\":\"notlive\"}";
        else { VAR v; VarInit(&v); int rc = p->GetSelectedOutputValue(atoi(f[2].c_str()), atoi(f[3].c_str()), &v); out = "{\"r\":" + jint(rc) + ",\"v\":" + jvar(v) + "}"; VarClear(&v); }
      }
      else if (op == "cval2" || op == "fval") {
        int id = atoi(f[1].c_str()), row = atoi(f[2].c_str()), col = atoi(f[3].c_str()), len = atoi(f[4].c_str()), cap = len;
        std::vector<char> buf(cap + 8, '#');
        int vt = -77; double dv = -7777.0;
        int rc;
        if (op == "cval2") rc = ::GetSelectedOutputValue2(id, row, col, &vt, &dv, &buf[0], (unsigned)len);
        else rc = ::GetSelectedOutputValueF(&id, &row, &col, &vt, &dv, &buf[0], &len);
        out = "{\"r\":" + jint(rc) + ",\"vt\":" + jint(vt) + ",\"d\":\"" + hexd(dv) + "\",\"buf\":" + jstr(std::string(&buf[0], cap + 4)) + ",\"len\":" + jint(len) + "}";
      }
      else if (op == "probe") {
        // probe id buflen : all accessors on every (row, col) of the current user number, borders and far values included
        int id = atoi(f[1].c_str()), cap = atoi(f[2].c_str());
        IPhreeqc *p = live(id);
        if (!p) out = "{\"notlive\":1}";
        else {
          int R = p->GetSelectedOutputRowCount(), C = p->GetSelectedOutputColumnCount();
          std::vector<int> rs, cs;
          for (int r = -2; r <= R + 1; ++r) rs.push_back(r);
          for (int c = -2; c <= C + 1; ++c) cs.push_back(c);
          rs.push_back(INT_MAX); rs.push_back(INT_MIN); cs.push_back(INT_MAX); cs.push_back(INT_MIN);
          std::ostringstream o;
          o << "{\"R\":" << R << ",\"C\":" << C << ",\"RF\":" << ::GetSelectedOutputRowCountF(&id) << ",\"CF\":" << ::GetSelectedOutputColumnCountF(&id) << ",\"cells\":[";
          bool first = true;
          for (size_t i = 0; i < rs.size(); ++i) for (size_t j = 0; j < cs.size(); ++j) {
            int r = rs[i], c = cs[j];
            VAR v; VarInit(&v); int rc1 = ::GetSelectedOutputValue(id, r, c, &v);
            VAR w; VarInit(&w); int rc2 = p->GetSelectedOutputValue(r, c, &w);
            o << (first ? "" : ",") << "{\"r\":" << r << ",\"c\":" << c << ",\"crc\":" << rc1 << ",\"cv\":" << jvar(v) << ",\"mrc\":" << rc2 << ",\"mv\":" << jvar(w);
            first = false;
            VarClear(&v); VarClear(&w);
            { std::vector<char> buf(cap + 8, '#'); int vt = -77; double dv = -7777.0;
              int rc = ::GetSelectedOutputValue2(id, r, c, &vt, &dv, &buf[0], (unsigned)cap);
              o << ",\"v2\":{\"rc\":" << rc << ",\"vt\":" << vt << ",\"d\":\"" << hexd(dv) << "\",\"buf\":" << jstr(std::string(&buf[0], cap + 4)) << "}"; }
            if (c < INT_MAX) { std::vector<char> buf(cap + 8, '#'); int vt = -77; double dv = -7777.0; int len = cap; int rr = r, cc = c + 1, idd = id;
              int rc = ::GetSelectedOutputValueF(&idd, &rr, &cc, &vt, &dv, &buf[0], &len);
              o << ",\"vf\":{\"rc\":" << rc << ",\"vt\":" << vt << ",\"d\":\"" << hexd(dv) << "\",\"buf\":" << jstr(std::string(&buf[0], cap + 4)) << ",\"len\":" << len << "}"; }
            o << "}";
          }
          o << "]}";
          out = o.str();
        }
      }
      else if (op == "obs") {
        IPhreeqc *p = live(atoi(f[1].c_str()));
        out = p ? obs(p, f.size() > 2 && f[2] == "lines") : "{\"notlive\":1}";
      }
      else if (op == "events") {
        Spy *s = dynamic_cast<Spy *>(live(atoi(f[1].c_str())));
        if (!s) out = "{\"events\":null}";
        else {
          s->sync_tables();
          out = "{\"events\":[";
          for (size_t i = 0; i < s->events.size(); ++i) out += (i ? "," : "") + s->events[i];
          out += "]}";
          s->events.clear();
        }
      }
      else if (op == "file") { bool ok; std::string c = slurp(f[1], &ok); out = std::string("{\"exists\":") + (ok ? "1" : "0") + ",\"content\":" + jstr(c) + "}"; }
      else out = "{\"badop\":" + jstr(op) + "}";
    } catch (const std::exception &e) {
      out = std::string("{\"exception\":") + jstr(e.what()) + "}";
    } catch (...) {
      out = "{\"exception\":\"unknown\"}";
    }
    std::cout << "{\"line\":" << lineno << ",\"res\":" << out << "}" << std::endl;
  }
  return 0;
}
