// runsel: generic observation driver.
//   runsel <jobs-file>
// jobs-file: one JSON-ish job per line, tab separated fields:
//   <jobid> \t <database path> \t <input file path> \t <flags>
// flags: comma separated subset of {out,log,dump,selstr,lines,comps,noreload,err}
//   out    : OutputStringOn, report output string
//   dump   : DumpStringOn, report dump string
//   selstr : selected-output string on for every user number (set before the run for 1..N listed in `un=` flag), report strings
//   comps  : report component list
//   noreload: keep the instance (and database) from the previous job when the database path is the same
// For every job one line of JSON is printed to stdout:
//   {"job":id,"rc":n,"err":"...","warn":"...","tables":{"<n_user>":[[cell,...],...]},"out":...,"dump":...,"selstr":{...},"comps":[...]}
// Doubles are C99 hex floats (exact). The driver never writes into cwd unless the input asks for files.
#include "vcommon.hpp"
#include "IPhreeqc.hpp"
#include <iostream>
#include <map>
#include <set>

static std::vector<std::string> split(const std::string &s, char c) {
  std::vector<std::string> v; std::string cur;
  for (char ch : s) { if (ch == c) { v.push_back(cur); cur.clear(); } else cur += ch; }
  v.push_back(cur); return v;
}

int main(int argc, char **argv) {
  if (argc < 2) { fprintf(stderr, "usage: runsel jobs\n"); return 2; }
  std::ifstream jf(argv[1]);
  std::string line;
  IPhreeqc *ip = 0; std::string curdb;
  while (std::getline(jf, line)) {
    if (line.empty()) continue;
    std::vector<std::string> f = split(line, '\t');
    if (f.size() < 3) continue;
    std::string id = f[0], db = f[1], inp = f[2];
    std::set<std::string> fl; std::vector<int> uns;
    if (f.size() > 3) for (auto &x : split(f[3], ',')) { if (x.rfind("un=", 0) == 0) uns.push_back(atoi(x.c_str() + 3)); else fl.insert(x); }
    bool reload = !(fl.count("noreload") && ip && curdb == db);
    std::ostringstream o;
    o << "{\"job\":" << jstr(id);
    if (reload) {
      if (!ip) ip = new IPhreeqc();
      int n = ip->LoadDatabase(db.c_str());
      curdb = db;
      if (n != 0) { o << ",\"dberr\":" << jstr(ip->GetErrorString()) << "}"; std::cout << o.str() << std::endl; curdb = ""; continue; }
    }
    ip->SetOutputStringOn(fl.count("out") > 0);
    ip->SetDumpStringOn(fl.count("dump") > 0);
    ip->SetLogStringOn(fl.count("log") > 0);
    if (fl.count("selstr")) {
      if (uns.empty()) uns.push_back(1);
      for (int n : uns) { ip->SetCurrentSelectedOutputUserNumber(n); ip->SetSelectedOutputStringOn(true); }
    }
    int rc = ip->RunFile(inp.c_str());
    o << ",\"rc\":" << rc;
    o << ",\"err\":" << jstr(ip->GetErrorString()) << ",\"warn\":" << jstr(ip->GetWarningString());
    o << ",\"tables\":{";
    int cnt = ip->GetSelectedOutputCount();
    for (int k = 0; k < cnt; ++k) {
      int n = ip->GetNthSelectedOutputUserNumber(k);
      ip->SetCurrentSelectedOutputUserNumber(n);
      if (k) o << ",";
      o << "\"" << n << "\":[";
      int R = ip->GetSelectedOutputRowCount(), C = ip->GetSelectedOutputColumnCount();
      for (int r = 0; r < R; ++r) {
        o << (r ? ",[" : "[");
        for (int c = 0; c < C; ++c) {
          VAR v; VarInit(&v);
          ip->GetSelectedOutputValue(r, c, &v);
          o << (c ? "," : "") << jvar(v);
          VarClear(&v);
        }
        o << "]";
      }
      o << "]";
    }
    o << "}";
    if (fl.count("selstr")) {
      o << ",\"selstr\":{";
      for (int k = 0; k < cnt; ++k) {
        int n = ip->GetNthSelectedOutputUserNumber(k);
        ip->SetCurrentSelectedOutputUserNumber(n);
        o << (k ? "," : "") << "\"" << n << "\":" << jstr(ip->GetSelectedOutputString());
      }
      o << "}";
    }
    if (fl.count("out")) o << ",\"out\":" << jstr(ip->GetOutputString());
    if (fl.count("log")) o << ",\"log\":" << jstr(ip->GetLogString());
    if (fl.count("dump")) o << ",\"dump\":" << jstr(ip->GetDumpString());
    if (fl.count("comps")) {
      o << ",\"comps\":[";
      size_t nc = ip->GetComponentCount();
      for (size_t i = 0; i < nc; ++i) o << (i ? "," : "") << jstr(ip->GetComponent((int)i));
      o << "]";
    }
    o << "}";
    std::cout << o.str() << std::endl;
    ip->SetCurrentSelectedOutputUserNumber(1);
  }
  delete ip;
  return 0;
}
