// sodrive: drives the real CSelectedOutput class with the same op protocol as ocaml/wrapper_driver.ml
//   NEW | P <hexkey> <cell> | E | C | G r c | R | T        (cell: e | l<int> | d<bits> | s<hex> | x<code>)
#include "vcommon.hpp"
#include "CSelectedOutput.hxx"
#include "CVar.hxx"
#include <iostream>
#include <cstdlib>
#include <cstdint>
static std::string unhex(const std::string &h) { std::string o; for (size_t i = 0; i + 1 < h.size(); i += 2) o += (char)strtol(h.substr(i, 2).c_str(), 0, 16); return o; }
static std::string hex(const std::string &s) { std::string o; char b[4]; for (unsigned char c : s) { snprintf(b, sizeof b, "%02x", c); o += b; } return o; }
static std::string cellstr(const VAR &v) {
  char b[64];
  switch (v.type) {
  case TT_EMPTY: return "e";
  case TT_ERROR: snprintf(b, sizeof b, "x%d", (int)v.vresult); return b;
  case TT_LONG: snprintf(b, sizeof b, "l%ld", v.lVal); return b;
  case TT_DOUBLE: return "d" + bitsd(v.dVal);
  case TT_STRING: return "s" + hex(v.sVal);
  }
  return "?";
}
int main() {
  CSelectedOutput *so = new CSelectedOutput();
  std::string line;
  while (std::getline(std::cin, line)) {
    std::vector<std::string> f; { std::string cur; for (char c : line) { if (c == '\t') { f.push_back(cur); cur.clear(); } else cur += c; } f.push_back(cur); }
    if (f[0] == "NEW") { delete so; so = new CSelectedOutput(); }
    else if (f[0] == "P") {
      std::string key = unhex(f[1]); const std::string &c = f[2];
      if (c == "e") so->PushBackEmpty(key.c_str());
      else if (c[0] == 'l') so->PushBackLong(key.c_str(), atol(c.c_str() + 1));
      else if (c[0] == 'd') { uint64_t u = strtoull(c.c_str() + 1, 0, 10); double d; memcpy(&d, &u, 8); so->PushBackDouble(key.c_str(), d); }
      else if (c[0] == 's') so->PushBackString(key.c_str(), unhex(c.substr(1)).c_str());
      else if (c[0] == 'x') { CVar v; v.type = TT_ERROR; v.vresult = (VRESULT)atoi(c.c_str() + 1); so->PushBack(key.c_str(), v); }
    }
    else if (f[0] == "E") so->EndRow();
    else if (f[0] == "C") so->Clear();
    else if (f[0] == "G") { VAR v; VarInit(&v); int rc = so->Get(atoi(f[1].c_str()), atoi(f[2].c_str()), &v); std::cout << "G " << rc << " " << cellstr(v) << "\n"; VarClear(&v); }
    else if (f[0] == "R") std::cout << "R " << so->GetRowCount() << " " << so->GetColCount() << "\n";
    else if (f[0] == "T") {
      int R = (int)so->GetRowCount(), C = (int)so->GetColCount();
      std::cout << "T " << R << " " << C;
      for (int i = 0; i < R; ++i) for (int j = 0; j < C; ++j) { VAR v; VarInit(&v); so->Get(i, j, &v); std::cout << "\t" << cellstr(v); VarClear(&v); }
      std::cout << "\n";
    }
    else std::cout << "? " << line << "\n";
  }
  delete so;
  return 0;
}
