"""T-gen back end `fwd` (C13): transliterate every extern "C" wrapper of src/IPhreeqcLib.cpp and every *F function of
src/IPhreeqc_interface_F.cpp into a shape record (callee, argument transforms, result handling, invalid-instance
result) -> coq/Gen/Gen_C13.v.  Token based (comments, layout, local renaming of the instance pointer are
invisible); anything outside the recognised statement forms is emitted as WOther so that the Coq obligation
`wrapper_ok` fails for it (never silently skipped)."""
import os, re, sys

TOK = re.compile(r'''\s+|("(?:\\.|[^"\\])*")|('(?:\\.|[^'\\])*')|([A-Za-z_]\w*)|(\d[\w.]*)|(->|::|!=|==|<<|>>|<=|>=|-=|\+=|\+\+|--|&&|\|\|)|(.)''', re.S)


def strip(src):
    src = re.sub(r"/\*.*?\*/", " ", src, flags=re.S)
    src = re.sub(r"//[^\n]*", " ", src)
    # drop preprocessor lines but keep #if SKIP ... #endif blocks out entirely
    out, skip = [], 0
    for ln in src.split("\n"):
        t = ln.strip()
        if t.startswith("#ifdef SKIP"):
            skip += 1
            continue
        if skip and t.startswith("#endif"):
            skip -= 1
            continue
        if skip or t.startswith("#"):
            continue
        out.append(ln)
    return "\n".join(out)


def tokens(src):
    return [m.group(0) for m in TOK.finditer(src) if not m.group(0).isspace()]


def functions(toks):
    """yield (ret_tokens, name, param_tokens, body_tokens) for every top-level function definition"""
    i, n, depth = 0, len(toks), 0
    start = 0
    while i < n:
        t = toks[i]
        if t == "{" and depth == 0:
            # find the ')' before, then its '(' and the name
            j = i - 1
            if toks[j] != ")":
                # class body / extern "C" { : skip by descending one level only for extern/namespace
                k = i - 1
                if k >= 1 and toks[k].startswith('"') and toks[k - 1] == "extern":
                    i += 1
                    start = i
                    continue
                depth += 1
                i += 1
                continue
            d, k = 0, j
            while k >= 0:
                if toks[k] == ")":
                    d += 1
                elif toks[k] == "(":
                    d -= 1
                    if d == 0:
                        break
                k -= 1
            name = toks[k - 1]
            # name may be Class::name
            rs = k - 1
            if rs >= 2 and toks[rs - 1] == "::":
                name = toks[rs - 2] + "::" + name
                rs -= 2
            ret = toks[start:rs]
            params = toks[k + 1:j]
            # body
            d, e = 0, i
            while e < n:
                if toks[e] == "{":
                    d += 1
                elif toks[e] == "}":
                    d -= 1
                    if d == 0:
                        break
                e += 1
            yield ret, name, params, toks[i + 1:e]
            i = e + 1
            start = i
            continue
        if t == "}" and depth > 0:
            depth -= 1
            start = i + 1
        if t == ";" and depth == 0:
            start = i + 1
        i += 1


def split_commas(ts):
    out, cur, d = [], [], 0
    for t in ts:
        if t in "([{":
            d += 1
        elif t in ")]}":
            d -= 1
        if t == "," and d == 0:
            out.append(cur)
            cur = []
        else:
            cur.append(t)
    if cur or out:
        out.append(cur)
    return out


def param_names(params):
    names = []
    for p in split_commas(params):
        if not p or p == ["void"]:
            continue
        if "(" in p and p[p.index("(") + 1] == "*":          # function pointer: ret (*name)(...)
            names.append(p[p.index("(") + 2])
            continue
        ids = [t for t in p if re.match(r"[A-Za-z_]\w*$", t)]
        names.append(ids[-1])
    return names


def find_call(body, pred):
    """first call `X ( ... )` whose head tokens satisfy pred(body, i) -> (start, end_exclusive, callee, args)"""
    for i in range(len(body)):
        r = pred(body, i)
        if r:
            head_len, callee = r
            k = i + head_len
            if k < len(body) and body[k] == "(":
                d, e = 0, k
                while e < len(body):
                    if body[e] == "(":
                        d += 1
                    elif body[e] == ")":
                        d -= 1
                        if d == 0:
                            break
                    e += 1
                return i, e + 1, callee, split_commas(body[k + 1:e])
    return None


def cq(s):
    return '"' + s.replace('"', '""') + '"'


def c_arg(a, params):
    if len(a) == 1 and a[0] in params:
        return "AParam %s" % cq(a[0])
    if len(a) == 3 and a[0] in params and a[1] == "!=" and a[2] == "0":
        return "ANeqZero %s" % cq(a[0])
    return "AOther %s" % cq(" ".join(a))


def classify_result(rest, statics):
    """rest = body tokens of the live branch with the call replaced by the token CALL"""
    s = " ".join(rest)
    if s == "return CALL ;":
        return "RDirect"
    if s == "return ( int ) CALL ;":
        return "RCastInt"
    if s == "CALL ; return IPQ_OK ;":
        return "ROkAfter"
    if s == "CALL ; return ;":
        return "RVoid"
    if s == "if ( CALL ) { return 1 ; } else { return 0 ; }" or s == "return CALL ? 1 : 0 ;":
        return "RBool01"
    m = re.match(r"switch \( CALL \) \{ ((?:case \w+ : return \w+ ; )+)default : assert \( false \) ; \}$", s)
    if m:
        cases = re.findall(r"case (\w+) : return (\w+) ;", m.group(1))
        return "RSwitch [%s] false" % "; ".join("(%s, %s)" % (cq(a), cq(b)) for a, b in cases)
    m = re.match(r"int (\w+) = CALL ; switch \( \1 \) \{ ((?:case \w+ : return \w+ ; )+)\} return \1 ;$", s)
    if m:
        cases = re.findall(r"case (\w+) : return (\w+) ;", m.group(2))
        return "RSwitch [%s] true" % "; ".join("(%s, %s)" % (cq(a), cq(b)) for a, b in cases)
    return "ROther %s" % cq(s[:200])


def c_wrapper(ret, name, params, body):
    pn = param_names(params)
    statics = {}
    toks = list(body)
    # static const char X[] = "literal";
    while len(toks) > 8 and toks[0] == "static":
        semi = toks.index(";")
        decl = toks[:semi]
        lit = [t for t in decl if t.startswith('"')]
        idn = [t for t in decl if re.match(r"[A-Za-z_]\w*$", t) and t not in ("static", "const", "char")]
        if lit and idn:
            statics[idn[0]] = lit[0][1:-1]
        toks = toks[semi + 1:]
    s = " ".join(toks)
    # plain forwards to IPhreeqcLib:: / IPhreeqc:: (Create, Destroy, GetVersionString)
    m = re.match(r"return (IPhreeqcLib|IPhreeqc) :: (\w+) \( ?(\w*) ?\) ;$", s)
    if m:
        return 'mkW %s %s [%s] RDirect BNone' % (cq(name), cq(m.group(1) + "::" + m.group(2)), ("AParam %s" % cq(m.group(3))) if m.group(3) else "")
    m = re.match(r"IPhreeqc \* (\w+) = IPhreeqcLib :: GetInstance \( (\w+) \) ; if \( \1 \) \{ (.*) \} (.*)$", s)
    if not m:
        return 'mkW %s "" [] (ROther %s) BNone' % (cq(name), cq(s[:200]))
    v, idp, live, tail = m.group(1), m.group(2), m.group(3).split(" "), m.group(4)
    # the brace matching of the regex above is greedy: re-split at the matching close brace
    full = toks
    i_if = full.index("if")
    ob = full.index("{", i_if)
    d, e = 0, ob
    while e < len(full):
        if full[e] == "{":
            d += 1
        elif full[e] == "}":
            d -= 1
            if d == 0:
                break
        e += 1
    live, tail = full[ob + 1:e], " ".join(full[e + 1:])
    call = find_call(live, lambda b, i: (3, b[i + 2]) if b[i] == v and i + 2 < len(b) and b[i + 1] == "->" else None)
    if not call or idp != (pn[0] if pn else None):
        return 'mkW %s "" [] (ROther %s) BNone' % (cq(name), cq(s[:200]))
    st, en, callee, args = call
    rest = live[:st] + ["CALL"] + live[en:]
    if any(t == v for t in rest):
        res = "ROther %s" % cq("instance pointer used more than once")
    else:
        res = classify_result(rest, statics)
    argl = "; ".join(c_arg(a, pn) for a in args)
    # invalid-instance result
    t = tail.strip()
    mt = re.match(r"return (\w+) ;$", t)
    if mt and mt.group(1) in statics:
        lit = statics[mt.group(1)]
        bad = "BEmpty" if lit == "" else "BMsg %s" % cq(lit.replace("\\n", "\n"))
    elif mt and mt.group(1) == "0":
        bad = "BZero"
    elif mt:
        bad = "BCode %s" % cq(mt.group(1))
    elif re.match(r"std :: cout << (\w+) << std :: endl ;$", t) and re.match(r"std :: cout << (\w+)", t).group(1) in statics:
        bad = "BPrint %s" % cq(statics[re.match(r"std :: cout << (\w+)", t).group(1)].replace("\\n", "\n"))
    else:
        bad = "BOther %s" % cq(t[:120])
    return "mkW %s %s [%s] (%s) (%s)" % (cq(name), cq(callee), argl, res, bad)


def f_arg(a, params, locals_):
    s = " ".join(a)
    if s == "* id":
        return "FDerefId"
    m = re.match(r"\* (\w+)$", s)
    if m and m.group(1) in params:
        return "FDeref %s" % cq(m.group(1))
    m = re.match(r"\( \* (\w+) \) - 1$", s) or re.match(r"\* (\w+) - 1$", s)
    if m and m.group(1) in params:
        return "FDerefM1 %s" % cq(m.group(1))
    if len(a) == 1 and a[0] in locals_:
        return locals_[a[0]]
    if len(a) == 1 and a[0] in params:
        return "FParam %s" % cq(a[0])
    m = re.match(r"& (\w+)$", s)
    if m:
        return "FAddr %s" % cq(m.group(1))
    return "FOther %s" % cq(s)


def f_wrapper(ret, name, params, body):
    pn = param_names(params)
    s = " ".join(body)
    locals_ = {}
    for m in re.finditer(r"int (\w+) = \* (\w+) - 1 ;", s):
        if m.group(2) in pn:
            locals_[m.group(1)] = "FDerefM1 %s" % cq(m.group(2))
    call = find_call(body, lambda b, i: (2, b[i + 1]) if b[i] == "::" and (i == 0 or b[i - 1] in ("return", "=", ",", "(", ";", "{")) and i + 1 < len(b) else None)
    if not call:
        return 'mkF %s "" [] (FROther %s)' % (cq(name), cq(s[:160]))
    st, en, callee, args = call
    rest = " ".join(body[:st] + ["CALL"] + body[en:])
    argl = "; ".join(f_arg(a, pn, locals_) for a in args)
    if rest == "return CALL ;" or re.match(r"(int|IPQ_RESULT) (\w+) = CALL ; return \2 ;$", rest) or re.match(r"(int|IPQ_RESULT) (\w+) ; \2 = CALL ; return \2 ;$", rest):
        res = "FRDirect"
    elif rest == "CALL ;":
        res = "FRVoid"
    elif re.match(r"padfstring \( (\w+) , CALL , (\w+) \) ;$", rest):
        m = re.match(r"padfstring \( (\w+) , CALL , (\w+) \) ;$", rest)
        res = "FRPad %s %s" % (cq(m.group(1)), cq(m.group(2)))
    elif re.match(r"int (\w+) = CALL ; if \( \1 > 0 \) \{ \1 -= 1 ; \} return \1 ;$", rest):
        res = "FRMinusHeading"
    elif name == "GetSelectedOutputValueF":
        # result = CALL; then a switch on v.type filling vtype / dvalue / svalue
        ok = bool(re.search(r"result = CALL ;", rest)) and "return result ;" in rest
        conv = []
        for case, pat in (("TT_LONG", r'case TT_LONG : \* vtype = TT_DOUBLE ; \* dvalue = \( double \) v \. lVal ; :: snprintf \( buffer , sizeof \( buffer \) , "%ld" , v \. lVal \) ; padfstring \( svalue , buffer , svalue_length \) ; break ;'),
                          ("TT_DOUBLE", r'case TT_DOUBLE : \* vtype = v \. type ; \* dvalue = v \. dVal ; :: snprintf \( buffer , sizeof \( buffer \) , "%23\.15e" , v \. dVal \) ; padfstring \( svalue , buffer , svalue_length \) ; break ;'),
                          ("TT_STRING", r'case TT_STRING : \* vtype = v \. type ; padfstring \( svalue , v \. sVal , svalue_length \) ; break ;'),
                          ("TT_EMPTY", r'case TT_EMPTY : \* vtype = v \. type ; break ;'),
                          ("TT_ERROR", r'case TT_ERROR : \* vtype = v \. type ; break ;')):
            if re.search(pat, rest):
                conv.append(case)
        res = "FRValue [%s]" % "; ".join(cq(c) for c in conv) if ok else "FROther %s" % cq(rest[:160])
    else:
        res = "FROther %s" % cq(rest[:160])
    return "mkF %s %s [%s] (%s)" % (cq(name), cq(callee), argl, res)


def generate(repo):
    csrc = strip(open(os.path.join(repo, "src", "IPhreeqcLib.cpp")).read())
    fsrc = strip(open(os.path.join(repo, "src", "IPhreeqc_interface_F.cpp")).read())
    cw, fw = [], []
    for ret, name, params, body in functions(tokens(csrc)):
        if "::" in name:
            continue
        cw.append(c_wrapper(ret, name, params, body))
    for ret, name, params, body in functions(tokens(fsrc)):
        if not name.endswith("F") or name in ("padfstring",):
            continue
        fw.append(f_wrapper(ret, name, params, body))
    # prototypes declared in the public header: every one must have a wrapper
    hdr = strip(open(os.path.join(repo, "src", "IPhreeqc.h")).read())
    protos = sorted(set(re.findall(r"IPQ_DLL_EXPORT\s+[\w\s\*]+?\b(\w+)\s*\(", hdr)))
    fh = strip(open(os.path.join(repo, "src", "IPhreeqc_interface_F.h")).read())
    fprotos = sorted(set(re.findall(r"IPQ_DLL_EXPORT\s+[\w\s\*]+?\b(\w+)\s*\(", fh)))
    out = ["(* GENERATED by translator/c13_fwd.py from src/IPhreeqcLib.cpp, src/IPhreeqc_interface_F.cpp and the public headers. Do not edit. *)",
           "From Coq Require Import List String.", "From IPV.Wrapper Require Import Fwd.", "Import ListNotations.", "Local Open Scope string_scope.", "",
           "Definition capi : list cwrap := [", ";\n".join("  " + w for w in cw), "].", "",
           "Definition fapi : list fwrap := [", ";\n".join("  " + w for w in fw), "].", "",
           "Definition c_prototypes : list string := [%s]." % "; ".join(cq(p) for p in protos),
           "Definition f_prototypes : list string := [%s]." % "; ".join(cq(p) for p in fprotos), ""]
    return "\n".join(out)


if __name__ == "__main__":
    print(generate(sys.argv[1] if len(sys.argv) > 1 else "/repo"))
