"""T-gen back end for C11: regenerate coq/Gen/Gen_C11_initmix.v from the CURRENT source of
Phreeqc::init_mix (src/phreeqcpp/transport.cpp), using clang's JSON AST.

What is emitted
  * one Gallina function  L_<lhs>_<k> : (string -> Q) -> Q  per assignment / compound assignment /
    interesting call argument / return value found in the common prefix of init_mix and in the
    `multi_D false` branch, in source order (the right-hand side as an exact rational expression;
    floating literals from their value, `(int) floor(x)` as inject_Z (Qfloor x));
  * `shape`: the list of (statement kind and target, enclosing guards) in source order, with
    canonical names (locals are numbered by declaration order, so renaming a local changes nothing;
    `a > b` is rendered as `b < a`).
The translator only transliterates; which leaf must equal which model expression, and what the
shape must be, is stated and proved in coq/C11/GenTie.v (semantic comparison by ring/field).
Anything outside the subset raises Refusal (a broken tie, handled by the check).
"""
import json, os, re, subprocess, sys
from fractions import Fraction

sys.path.insert(0, os.path.join(os.path.dirname(os.path.dirname(os.path.abspath(__file__))), "lib"))
import vlib


class Refusal(Exception):
    pass


def clang_ast(src, fn):
    cmd = ["clang++", "-std=c++11", "-fsyntax-only", "-DSWIG_SHARED_OBJ", "-DUSE_PHRQ_ALLOC", "-D" + vlib.GUARD] + vlib.inc_flags() + \
          ["-Xclang", "-ast-dump=json", "-Xclang", "-ast-dump-filter=" + fn, src]
    p = subprocess.run(cmd, stdout=subprocess.PIPE, stderr=subprocess.PIPE, text=True, timeout=300)
    if p.returncode != 0 and not p.stdout.strip():
        raise Refusal("clang failed: " + p.stderr[-800:])
    dec = json.JSONDecoder()
    txt, i, objs = p.stdout, 0, []
    while i < len(txt):
        while i < len(txt) and txt[i].isspace():
            i += 1
        if i >= len(txt):
            break
        o, i = dec.raw_decode(txt, i)
        objs.append(o)
    return objs


PASS_THROUGH = ("ImplicitCastExpr", "ParenExpr", "ExprWithCleanups", "MaterializeTemporaryExpr", "CXXBindTemporaryExpr",
                "ConstantExpr", "CXXFunctionalCastExpr", "CXXStaticCastExpr")


class Walker:
    def __init__(self, fn, prefix="L_", take_then=False, cell_prefix=""):
        self.fn = fn
        self.cell_prefix = cell_prefix
        self.lazy = False          # name locals v00, v01, ... at first USE instead of at their declaration
        self.prefix = prefix
        self.take_then = take_then
        self.locals = {}       # decl id -> canonical name
        self.realname = {}
        self.leaves = []       # (name, coq expr, comment)
        self.shape = []        # (text, [guards])
        self.count = {}

    # ---- locals are numbered in declaration order
    def collect_locals(self, n):
        if n.get("kind") == "VarDecl":
            if n["id"] not in self.locals:
                self.locals[n["id"]] = "v%02d" % len(self.locals)
                self.realname[self.locals[n["id"]]] = n.get("name", "?")
        for c in n.get("inner", []) or []:
            self.collect_locals(c)

    def strip(self, n):
        while n.get("kind") in PASS_THROUGH and n.get("castKind") not in ("FloatingToBoolean", "IntegralToBoolean", "PointerToBoolean"):
            n = n["inner"][0]
        return n

    # ---- canonical text of an lvalue / index / guard
    def ref(self, n):
        n = self.strip(n)
        k = n.get("kind")
        if k == "DeclRefExpr":
            d = n["referencedDecl"]
            if d["id"] in self.locals:
                return self.locals[d["id"]]
            if self.lazy and d.get("kind") == "VarDecl":
                self.locals[d["id"]] = "v%02d" % len(self.locals)
                self.realname[self.locals[d["id"]]] = d.get("name", "?")
                return self.locals[d["id"]]
            return d.get("name", "?")
        if k == "MemberExpr":
            base = self.strip(n["inner"][0])
            if base.get("kind") == "CXXThisExpr":
                return n["name"]
            return "%s.%s" % (self.ref(base), n["name"]) if base.get("kind") != "CXXOperatorCallExpr" else \
                "%s%s[%s]" % (self.cell_prefix, n["name"], self.index(base["inner"][2])) if self.ref(base["inner"][1]) == "cell_data" else \
                "%s[%s].%s" % (self.ref(base["inner"][1]), self.index(base["inner"][2]), n["name"])
        if k == "ArraySubscriptExpr":
            return "%s[%s]" % (self.ref(n["inner"][0]), self.index(n["inner"][1]))
        if k == "CXXOperatorCallExpr":          # vector / map operator[]
            return "%s[%s]" % (self.ref(n["inner"][1]), self.index(n["inner"][2]))
        if k == "IntegerLiteral":
            return n["value"]
        if k in ("GNUNullExpr", "CXXNullPtrLiteralExpr"):
            return "NULL"
        if k == "StringLiteral":
            return "<str>"
        if k == "UnaryExprOrTypeTraitExpr":
            return "sizeof"
        raise Refusal("unsupported lvalue " + str(k))

    def index(self, n):
        n = self.strip(n)
        k = n.get("kind")
        if k == "IntegerLiteral":
            return n["value"]
        if k in ("DeclRefExpr", "MemberExpr"):
            return self.ref(n)
        if k == "BinaryOperator" and n["opcode"] in "+-":
            return self.index(n["inner"][0]) + n["opcode"] + self.index(n["inner"][1])
        raise Refusal("unsupported index " + str(k))

    def lit(self, n):
        v = n["value"]
        try:
            fr = Fraction(v)
        except Exception:
            raise Refusal("unsupported literal " + v)
        return "(%d # %d)" % (fr.numerator, fr.denominator) if fr.numerator >= 0 else "((%d) # %d)" % (fr.numerator, fr.denominator)

    # ---- guards as canonical text
    def gtext(self, n):
        if n.get("kind") == "ImplicitCastExpr" and n.get("castKind") in ("FloatingToBoolean", "IntegralToBoolean"):
            return "nz(%s)" % self.gtext(n["inner"][0])
        n = self.strip(n)
        k = n.get("kind")
        if k == "BinaryOperator":
            a, b, op = self.gtext(n["inner"][0]), self.gtext(n["inner"][1]), n["opcode"]
            if op in (">", ">="):
                a, b, op = b, a, {">": "<", ">=": "<="}[op]
            return "(%s%s%s)" % (a, op, b)
        if k == "UnaryOperator":
            return "%s(%s)" % (n["opcode"], self.gtext(n["inner"][0]))
        if k in ("IntegerLiteral", "FloatingLiteral"):
            return str(Fraction(n["value"]))
        if k == "CXXBoolLiteralExpr":
            return "true" if n.get("value") else "false"
        if k == "CStyleCastExpr":
            return self.gtext(n["inner"][0])
        if k == "CallExpr":
            return "%s(%s)" % (self.ref(n["inner"][0]), ",".join(self.gtext(a) for a in n["inner"][1:]))
        return self.ref(n)

    # ---- real-valued right-hand sides as Gallina over an environment e : string -> Q
    def rexpr(self, n):
        n = self.strip(n)
        k = n.get("kind")
        if k in ("IntegerLiteral", "FloatingLiteral"):
            return self.lit(n)
        if k == "CXXBoolLiteralExpr":
            return "1" if n.get("value") else "0"
        if k == "BinaryOperator" and n["opcode"] in ("+", "-", "*", "/"):
            return "(%s %s %s)" % (self.rexpr(n["inner"][0]), n["opcode"], self.rexpr(n["inner"][1]))
        if k == "UnaryOperator" and n["opcode"] == "-":
            return "(- %s)" % self.rexpr(n["inner"][0])
        if k == "CStyleCastExpr":
            return self.rexpr(n["inner"][0])
        if k == "CallExpr":
            f = self.ref(n["inner"][0])
            if f == "floor" and len(n["inner"]) == 2:
                return "(inject_Z (Qfloor %s))" % self.rexpr(n["inner"][1])
            if f == "ceil" and len(n["inner"]) == 2:
                return "(inject_Z (Qceiling %s))" % self.rexpr(n["inner"][1])
            raise Refusal("unsupported call in expression: " + f)
        if k in ("DeclRefExpr", "MemberExpr", "ArraySubscriptExpr", "CXXOperatorCallExpr"):
            return '(e "%s"%%string)' % self.ref(n)
        raise Refusal("unsupported expression " + str(k))

    def leaf(self, target, expr, comment):
        key = re.sub(r"[^A-Za-z0-9]+", "_", target).strip("_")
        self.count[key] = self.count.get(key, 0) + 1
        name = "%s%s_%d" % (self.prefix, key, self.count[key])
        self.leaves.append((name, expr, comment))
        return name

    # ---- statements
    def stmt(self, n, guards):
        if n is None or not n.get("kind"):
            return
        k = n["kind"]
        if k in ("ExprWithCleanups",):
            return self.stmt(n["inner"][0], guards)
        if k == "CompoundStmt":
            for c in n.get("inner", []) or []:
                self.stmt(c, guards)
        elif k == "IfStmt":
            inner = n["inner"]
            g = self.gtext(inner[0])
            if g == "nz(multi_Dflag)":
                if not n.get("hasElse"):
                    raise Refusal("init_mix: no else branch for multi_Dflag")
                if self.take_then:
                    self.stmt(inner[1], guards + ["nz(multi_Dflag)"])
                else:
                    self.stmt(inner[2], guards + ["!nz(multi_Dflag)"])
                return
            self.stmt(inner[1], guards + [g])
            if n.get("hasElse"):
                self.stmt(inner[2], guards + ["!" + g])
        elif k == "ForStmt":
            init, cond, inc, body = n["inner"][0], n["inner"][2], n["inner"][3], n["inner"][4]
            if init.get("kind") == "DeclStmt":
                d = init["inner"][0]
                if d["id"] not in self.locals:
                    self.locals[d["id"]] = "v%02d" % len(self.locals)
                    self.realname[self.locals[d["id"]]] = d.get("name", "?")
                itxt = "(%s=%s)" % (self.locals[d["id"]], self.gtext(d["inner"][-1]))
            else:
                itxt = self.gtext(init)
            g = "for(%s;%s;%s)" % (itxt, self.gtext(cond), self.gtext(inc))
            self.stmt(body, guards + [g])
        elif k in ("BinaryOperator", "CompoundAssignOperator") and n["opcode"] in ("=", "+=", "-=", "*=", "/="):
            lhs = self.ref(n["inner"][0])
            rhs_node = self.strip(n["inner"][1])
            op = n["opcode"]
            if rhs_node.get("kind") in ("CStyleCastExpr", "CallExpr", "CXXMemberCallExpr") and self.is_alloc(rhs_node):
                self.shape.append(("alloc %s" % lhs, list(guards)))
                return
            if rhs_node.get("kind") in ("CXXMemberCallExpr", "CallExpr") and op == "=":
                try:
                    self.rexpr(n["inner"][1])
                except Refusal:
                    self.shape.append(("assign %s := call %s" % (lhs, self.callee_name(rhs_node)), list(guards)))
                    return
            rhs = self.rexpr(n["inner"][1])
            if op != "=":
                rhs = '((e "%s"%%string) %s %s)' % (lhs, op[0], rhs)
            name = self.leaf(lhs, rhs, "%s %s ..." % (lhs, op))
            self.shape.append(("assign %s := %s" % (lhs, name), list(guards)))
        elif k == "CXXOperatorCallExpr":            # Dispersion_mix_map[i] = temp_mix
            self.shape.append(("store %s := %s" % (self.ref(n["inner"][1]), self.ref(n["inner"][2])), list(guards)))
        elif k == "CXXMemberCallExpr":
            callee = self.strip(n["inner"][0])
            base = self.strip(callee["inner"][0]) if callee.get("inner") else {}
            obj = "this" if base.get("kind") == "CXXThisExpr" else (self.ref(base) if base else "?")
            meth = callee.get("name", "?")
            if obj == "this":
                self.shape.append(("call %s" % meth, list(guards)))
                return
            args = []
            for j, a in enumerate(n["inner"][1:]):
                a0 = self.strip(a)
                ty = (a0.get("type") or {}).get("qualType", "")
                if meth == "Add" and j == 0:
                    args.append(self.index(a0))
                elif ty in ("double", "LDBLE") or meth == "Add":
                    args.append(self.leaf("%s_%s_arg%d" % (obj, meth, j), self.rexpr(a0), "%s.%s argument %d" % (obj, meth, j)))
                else:
                    args.append(self.gtext(a0))
            self.shape.append(("call %s.%s(%s)" % (obj, meth, ",".join(args)), list(guards)))
        elif k == "CallExpr":
            f = self.ref(n["inner"][0])
            self.shape.append(("call %s" % f, list(guards)))
        elif k == "DeclStmt":
            # locals are numbered in the order in which their declarations are met in the walked region
            # (renaming a local, or editing the multi_D branch, changes nothing)
            for d in n.get("inner", []) or []:
                if d.get("kind") == "VarDecl" and d["id"] not in self.locals:
                    self.locals[d["id"]] = "v%02d" % len(self.locals)
                    self.realname[self.locals[d["id"]]] = d.get("name", "?")
            for d in n.get("inner", []) or []:
                if d.get("kind") == "VarDecl" and d.get("inner") and d["id"] in self.locals:
                    init = self.strip(d["inner"][-1])
                    if init.get("kind") in ("FloatingLiteral", "IntegerLiteral", "CXXBoolLiteralExpr"):
                        name = self.leaf(self.locals[d["id"]], self.rexpr(init), "%s initialiser" % self.locals[d["id"]])
                        self.shape.append(("assign %s := %s" % (self.locals[d["id"]], name), list(guards)))
        elif k == "ReturnStmt":
            name = self.leaf("return", self.rexpr(n["inner"][0]), "return value")
            self.shape.append(("return %s" % name, list(guards)))
        elif k == "NullStmt":
            pass
        else:
            raise Refusal("unsupported statement " + k)

    def callee_name(self, n):
        c = self.strip(n["inner"][0])
        if c.get("kind") == "MemberExpr":
            return c.get("name", "?")
        return self.ref(c)

    def is_alloc(self, n):
        n = self.strip(n)
        if n.get("kind") == "CStyleCastExpr":
            return self.is_alloc(n["inner"][0])
        if n.get("kind") in ("CallExpr", "CXXMemberCallExpr"):
            try:
                f = self.callee_name(n)
            except Refusal:
                return False
            return "malloc" in f.lower() or f == "free_check_null"
        return False


def coq_string(s):
    return '"%s"%%string' % s.replace('"', '""')


def render(w, w2=None):
    out = ["(* GENERATED by translator/c11_initmix.py from src/phreeqcpp/transport.cpp (Phreeqc::init_mix). Do not edit. *)",
           "From Coq Require Import QArith Qround ZArith String List.", "Import ListNotations.", "Open Scope Q_scope.", "",
           "(* canonical local names: " + ", ".join("%s=%s" % (k, v) for k, v in sorted(w.realname.items())) + " *)", ""]
    for name, expr, comment in w.leaves:
        out.append("(* %s *)" % comment)
        out.append("Definition %s (e : string -> Q) : Q := %s." % (name, expr))
    out.append("")
    out.append("Definition shape : list (string * list string) := [")
    out.append(";\n".join("  (%s, [%s])" % (coq_string(t), "; ".join(coq_string(g) for g in gs)) for t, gs in w.shape))
    out.append("].")
    if w2 is not None:
        out.append("")
        out.append("(* ---- the multi_D (multicomponent diffusion) branch; canonical local names: " +
                   ", ".join("%s=%s" % (k, v) for k, v in sorted(w2.realname.items())) + " *)")
        for name, expr, comment in w2.leaves:
            out.append("(* %s *)" % comment)
            out.append("Definition %s (e : string -> Q) : Q := %s." % (name, expr))
        out.append("")
        out.append("Definition shape_mcd : list (string * list string) := [")
        out.append(";\n".join("  (%s, [%s])" % (coq_string(t), "; ".join(coq_string(g) for g in gs)) for t, gs in w2.shape))
        out.append("].")
    return "\n".join(out) + "\n"


def translate():
    src = os.path.join(vlib.REPO, "src", "phreeqcpp", "transport.cpp")
    objs = clang_ast(src, "init_mix")
    fns = [o for o in objs if o.get("kind") == "CXXMethodDecl" and o.get("name") == "init_mix" and o.get("inner")]
    if len(fns) != 1:
        raise Refusal("expected exactly one definition of Phreeqc::init_mix, found %d" % len(fns))
    body = [c for c in fns[0]["inner"] if c.get("kind") == "CompoundStmt"]
    if len(body) != 1:
        raise Refusal("init_mix has no body")
    w = Walker(fns[0])
    w.stmt(body[0], [])
    # second pass: the `if (multi_Dflag)` branch itself (same numbering of the function-level locals)
    w2 = Walker(fns[0], prefix="D_", take_then=True)
    top = [c for c in body[0].get("inner", []) if c.get("kind") == "DeclStmt"]
    for d in top:
        w2.stmt(d, [])
    w2.leaves, w2.shape, w2.count = [], [], {}
    ifs = [c for c in body[0].get("inner", []) if c.get("kind") == "IfStmt" and w2.gtext(c["inner"][0]) == "nz(multi_Dflag)"]
    if len(ifs) != 1:
        raise Refusal("init_mix: expected exactly one top-level if (multi_Dflag)")
    w2.stmt(ifs[0], [])
    return render(w, w2)


# ----------------------------------------------------------------------------- multi_D: the element-name tests

class CText:
    """canonical text of a C++ condition / small expression; locals are named x0, x1, ... by first appearance"""
    def __init__(self):
        self.names = {}

    def t(self, n):
        k = n.get("kind")
        if k in ("ImplicitCastExpr", "CStyleCastExpr", "ParenExpr", "ExprWithCleanups", "MaterializeTemporaryExpr",
                 "CXXBindTemporaryExpr", "CXXStaticCastExpr", "CXXFunctionalCastExpr", "ConstantExpr"):
            return self.t(n["inner"][0])
        if k == "BinaryOperator":
            a, b, op = self.t(n["inner"][0]), self.t(n["inner"][1]), n["opcode"]
            if op in (">", ">="):
                a, b, op = b, a, {">": "<", ">=": "<="}[op]
            return "(%s%s%s)" % (a, op, b)
        if k == "UnaryOperator":
            return "%s(%s)" % (n["opcode"], self.t(n["inner"][0]))
        if k == "CallExpr":
            return "%s(%s)" % (self.t(n["inner"][0]), ",".join(self.t(a) for a in n["inner"][1:]))
        if k == "CXXMemberCallExpr":
            return "%s(%s)" % (self.t(n["inner"][0]), ",".join(self.t(a) for a in n["inner"][1:]))
        if k == "MemberExpr":
            base = n["inner"][0]
            while base.get("kind") in ("ImplicitCastExpr", "ParenExpr"):
                base = base["inner"][0]
            if base.get("kind") == "CXXThisExpr":
                return n["name"]
            return "%s.%s" % (self.t(base), n["name"])
        if k == "CXXOperatorCallExpr":
            op = self.t(n["inner"][0])
            if op == "operator->":
                return self.t(n["inner"][1])
            if op == "operator[]":
                return "%s[%s]" % (self.t(n["inner"][1]), self.t(n["inner"][2]))
            return "%s(%s)" % (op, ",".join(self.t(a) for a in n["inner"][1:]))
        if k == "ArraySubscriptExpr":
            return "%s[%s]" % (self.t(n["inner"][0]), self.t(n["inner"][1]))
        if k == "DeclRefExpr":
            d = n["referencedDecl"]
            if d.get("kind") == "VarDecl":
                if d["id"] not in self.names:
                    self.names[d["id"]] = "x%d" % len(self.names)
                return self.names[d["id"]]
            return d.get("name", "?")
        if k == "StringLiteral":
            return n.get("value", "?").replace('"', "'")
        if k in ("IntegerLiteral", "FloatingLiteral"):
            return n["value"]
        raise Refusal("multi_D name test: unsupported node " + str(k))


def name_tests():
    """every `if` of Phreeqc::multi_D whose condition calls strncmp, with the latest assignments to the integer
    locals it reads, in source order"""
    src = os.path.join(vlib.REPO, "src", "phreeqcpp", "transport.cpp")
    objs = clang_ast(src, "multi_D")
    fns = [o for o in objs if o.get("kind") == "CXXMethodDecl" and o.get("name") == "multi_D"
           and any(c.get("kind") == "CompoundStmt" for c in o.get("inner", []))]
    if len(fns) != 1:
        raise Refusal("expected exactly one definition of Phreeqc::multi_D, found %d" % len(fns))
    items = []
    last_assign = {}

    def refs(n, acc):
        if n.get("kind") == "DeclRefExpr" and n["referencedDecl"].get("kind") == "VarDecl":
            acc.append(n["referencedDecl"])
        for c in n.get("inner", []) or []:
            refs(c, acc)
        return acc

    def uses_strncmp(n):
        if n.get("kind") == "DeclRefExpr" and n["referencedDecl"].get("name") == "strncmp":
            return True
        return any(uses_strncmp(c) for c in n.get("inner", []) or [])

    def walk(n):
        k = n.get("kind")
        if k == "BinaryOperator" and n.get("opcode") == "=":
            lhs = n["inner"][0]
            if lhs.get("kind") == "DeclRefExpr" and lhs["referencedDecl"].get("kind") == "VarDecl" and \
                    (lhs.get("type") or {}).get("qualType") == "int":
                last_assign[lhs["referencedDecl"]["id"]] = n
        if k == "IfStmt" and uses_strncmp(n["inner"][0]):
            ct = CText()
            cond = ct.t(n["inner"][0])
            assigns = []
            for d in refs(n["inner"][0], []):
                if d["id"] in last_assign and (d.get("type") or {}).get("qualType") == "int":
                    txt = ct.t(last_assign[d["id"]])
                    if txt not in assigns:
                        assigns.append(txt)
            items.append((cond, assigns))
        for c in n.get("inner", []) or []:
            walk(c)

    walk(fns[0])
    return items


def render_mcd(items):
    out = ["(* GENERATED by translator/c11_initmix.py from src/phreeqcpp/transport.cpp (Phreeqc::multi_D). Do not edit. *)",
           "From Coq Require Import String List.", "Import ListNotations.", "",
           "(* every `if` whose condition calls strncmp, with the latest assignments to the int locals it reads (canonical local names) *)",
           "Definition name_tests : list (string * list string) := ["]
    out.append(";\n".join("  (%s, [%s])" % (coq_string(c), "; ".join(coq_string(a) for a in asg)) for c, asg in items))
    out.append("].")
    return "\n".join(out) + "\n"


# ----------------------------------------------------------------------------- read_transport: the cell set-up

SETUP_CONDS = ("(max_cells<count_length)", "(max_cells<count_disp)", "(count_length==0)", "(count_disp==0)",
               "((ishift!=0)&&((bcon_first==2)||(bcon_last==2)))")


def setup_blocks():
    """the statements of Phreeqc::read_transport that determine max_cells and fill cell_data[].length / .disp"""
    src = os.path.join(vlib.REPO, "src", "phreeqcpp", "readtr.cpp")
    objs = clang_ast(src, "read_transport")
    fns = [o for o in objs if o.get("kind") == "CXXMethodDecl" and o.get("name") == "read_transport"
           and any(c.get("kind") == "CompoundStmt" for c in o.get("inner", []))]
    if len(fns) != 1:
        raise Refusal("expected exactly one definition of Phreeqc::read_transport, found %d" % len(fns))
    body = [c for c in fns[0]["inner"] if c.get("kind") == "CompoundStmt"][0]
    w = Walker(fns[0], prefix="S_", cell_prefix="cell.")
    w.lazy = True
    picked = 0
    w0 = Walker(fns[0])          # no locals registered: conditions are recognised by the real names
    for st in body.get("inner", []):
        k = st.get("kind")
        sel = False
        try:
            if k == "IfStmt":
                sel = w0.gtext(st["inner"][0]) in SETUP_CONDS
            elif k == "BinaryOperator" and st.get("opcode") == "=":
                sel = w0.ref(st["inner"][0]) == "max_cells"
        except Refusal:
            sel = False
        if sel:
            w.stmt(st, [])
            picked += 1
    if picked < 5:
        raise Refusal("read_transport: cell set-up statements not found (%d)" % picked)
    out = ["(* GENERATED by translator/c11_initmix.py from src/phreeqcpp/readtr.cpp (Phreeqc::read_transport). Do not edit. *)",
           "From Coq Require Import QArith Qround ZArith String List.", "Import ListNotations.", "Open Scope Q_scope.", "",
           "(* canonical local names: " + ", ".join("%s=%s" % (k, v) for k, v in sorted(w.realname.items())) + " *)", ""]
    for name, expr, comment in w.leaves:
        out.append("(* %s *)" % comment)
        out.append("Definition %s (e : string -> Q) : Q := %s." % (name, expr))
    out.append("")
    out.append("Definition shape_setup : list (string * list string) := [")
    out.append(";\n".join("  (%s, [%s])" % (coq_string(t), "; ".join(coq_string(g) for g in gs)) for t, gs in w.shape))
    out.append("].")
    return "\n".join(out) + "\n"


def generate():
    text = translate()
    vlib.write_if_changed(os.path.join(vlib.COQ, "Gen", "Gen_C11_initmix.v"), text)
    vlib.write_if_changed(os.path.join(vlib.COQ, "Gen", "Gen_C11_mcd.v"), render_mcd(name_tests()))
    vlib.write_if_changed(os.path.join(vlib.COQ, "Gen", "Gen_C11_setup.v"), setup_blocks())


if __name__ == "__main__":
    sys.stdout.write(translate())
    sys.stdout.write(render_mcd(name_tests()))
    sys.stdout.write(setup_blocks())
