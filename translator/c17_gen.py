#!/usr/bin/env python3
"""C17 translator: regenerates coq/Gen/Gen_C17_basic.v from the current PBasic.cpp / PBasic.h.

Everything is read from the clang JSON AST (never from the text), so reformatting, renaming of
locals and equivalent rewrites of the conditions do not change the output:

  command_tokens   the (spelling, BASIC_TOKEN enumerator) pairs of the initializer `temp_tokens[]`
  basic_token_enum the enumerators of PBasic::BASIC_TOKEN in value order
  level_table      for expr/andexpr/relexpr/sexpr/term/upexpr: the function called first, the function
                   called for the right operand inside the while loop, and the set of enumerators k for
                   which the loop condition holds (the condition is *evaluated* for every enumerator
                   value with `LINK->t != NULL` true and `LINK->t->kind` = k)
  exec_dispatch    (case enumerator, first member function called) of the switch in PBasic::exec
  factor_calls     (case enumerator, free/member functions called) of the switch in PBasic::factor
                   for the cases the model covers
  host_calls       functions of the host files that call basic_run / basic_compile

The translator raises on anything it does not understand (a broken tie, never skipped).
"""
import hashlib, json, os, subprocess, sys

sys.path.insert(0, os.path.join(os.path.dirname(os.path.abspath(__file__)), "..", "lib"))
import vlib

LEVEL_FUNCS = ["expr", "andexpr", "relexpr", "sexpr", "term", "upexpr"]
FACTOR_CASES = ["toksqr", "toksqrt", "tokceil", "tokfloor", "toklog10", "toksin", "tokcos", "toktan", "tokarctan",
                "toklog", "tokexp", "tokabs", "toksgn", "tokstr_", "tokval", "tokchr_", "tokasc", "tokmid_",
                "toklen", "tokinstr", "tokltrim", "tokrtrim", "toktrim", "tokpad", "tokget", "tokexists",
                "tokminus", "tokplus", "toknot", "toklp"]
HOSTS = [("print.cpp", ["punch_user_punch", "print_user_print"]), ("kinetics.cpp", ["calc_kinetic_reaction"]),
         ("isotopes.cpp", ["calculate_values", "punch_calculate_values"])]


class Refuse(Exception):
    pass


def clang_json(src, flt):
    cmd = ["clang++", "-std=c++14", "-fsyntax-only", "-w", "-DSWIG_SHARED_OBJ", "-DUSE_PHRQ_ALLOC"] + vlib.inc_flags() + \
          ["-Xclang", "-ast-dump=json", "-Xclang", "-ast-dump-filter=" + flt, src]
    p = subprocess.run(cmd, stdout=subprocess.PIPE, stderr=subprocess.PIPE, text=True, timeout=300)
    if p.returncode != 0 and not p.stdout.strip():
        raise Refuse("clang failed on %s (%s): %s" % (src, flt, p.stderr[-800:]))
    out, docs, i, dec = p.stdout, [], 0, json.JSONDecoder()
    while i < len(out):
        while i < len(out) and out[i] in " \r\n\t":
            i += 1
        if i >= len(out):
            break
        o, i = dec.raw_decode(out, i)
        docs.append(o)
    return docs


def walk(n):
    yield n
    for c in n.get("inner", []) or []:
        if isinstance(c, dict):
            yield from walk(c)


def find_decl(docs, kind, name, need_body=True):
    for d in docs:
        for n in walk(d):
            if n.get("kind") == kind and n.get("name") == name:
                if not need_body or any(c.get("kind") == "CompoundStmt" for c in n.get("inner", [])):
                    return n
    raise Refuse("declaration %s %s not found" % (kind, name))


def strip(n):
    while n.get("kind") in ("ImplicitCastExpr", "ParenExpr", "CStyleCastExpr", "CXXStaticCastExpr", "MaterializeTemporaryExpr",
                            "ExprWithCleanups", "CXXFunctionalCastExpr", "ConstantExpr", "CXXBindTemporaryExpr"):
        n = n["inner"][0]
    return n


def is_null(n):
    n = strip(n)
    return n.get("kind") in ("GNUNullExpr", "CXXNullPtrLiteralExpr") or (n.get("kind") == "IntegerLiteral" and n.get("value") == "0")


def member_chain(n):
    """names of a member access chain, innermost object first: LINK->t->kind -> ['LINK','t','kind']"""
    n = strip(n)
    if n.get("kind") == "MemberExpr":
        return member_chain(n["inner"][0]) + [n.get("name")]
    if n.get("kind") == "DeclRefExpr":
        return [n["referencedDecl"]["name"]]
    if n.get("kind") == "CXXThisExpr":
        return ["this"]
    return ["?"]


class CondEval:
    """evaluates a loop condition for LINK->t->kind == k"""

    def __init__(self, enum, k):
        self.enum, self.k = enum, k

    def ev(self, n):
        n = strip(n)
        kd = n.get("kind")
        if kd == "IntegerLiteral":
            return int(n["value"])
        if kd == "CXXBoolLiteralExpr":
            return 1 if n.get("value") else 0
        if kd == "DeclRefExpr":
            rd = n.get("referencedDecl", {})
            if rd.get("kind") == "EnumConstantDecl" and rd.get("name") in self.enum:
                return self.enum[rd["name"]]
            raise Refuse("condition refers to %s" % rd.get("name"))
        if kd == "MemberExpr":
            ch = member_chain(n)
            if ch[-1] == "kind" and ch[-2:] == ["t", "kind"]:
                return self.k
            raise Refuse("condition reads member " + ".".join(ch))
        if kd == "UnaryOperator":
            v = self.ev(n["inner"][0])
            op = n.get("opcode")
            if op == "!":
                return 0 if v else 1
            if op == "-":
                return -v
            if op == "~":
                return ~v
            if op == "+":
                return v
            raise Refuse("unary " + str(op))
        if kd == "BinaryOperator":
            op = n.get("opcode")
            a, b = n["inner"]
            if op in ("!=", "==") and (is_null(a) or is_null(b)):
                other = b if is_null(a) else a
                ch = member_chain(other)
                if ch[-1] == "t":          # LINK->t != NULL : a token is present
                    return 1 if op == "!=" else 0
            if op == "&&":
                return 1 if (self.ev(a) and self.ev(b)) else 0
            if op == "||":
                return 1 if (self.ev(a) or self.ev(b)) else 0
            x, y = self.ev(a), self.ev(b)
            if op == "<<":
                if y < 0 or y > 62:
                    raise Refuse("shift by %d" % y)
                return x << y
            table = {"+": x + y, "-": x - y, "*": x * y, "&": x & y, "|": x | y, "^": x ^ y,
                     "<": int(x < y), "<=": int(x <= y), ">": int(x > y), ">=": int(x >= y),
                     "==": int(x == y), "!=": int(x != y)}
            if op in table:
                return table[op]
            raise Refuse("binary " + str(op))
        raise Refuse("condition node " + str(kd))


def callee_name(call):
    c = strip(call["inner"][0])
    if c.get("kind") == "MemberExpr":
        return c.get("name")
    if c.get("kind") == "DeclRefExpr":
        return c["referencedDecl"]["name"]
    return None


def calls_in(n):
    out = []
    for x in walk(n):
        if x.get("kind") in ("CXXMemberCallExpr", "CallExpr"):
            nm = callee_name(x)
            if nm:
                out.append(nm)
    return out


def level_entry(docs, fn, enum):
    d = find_decl(docs, "CXXMethodDecl", fn)
    body = [c for c in d["inner"] if c.get("kind") == "CompoundStmt"][0]
    whiles = [s for s in body.get("inner", []) if s.get("kind") == "WhileStmt"]
    if len(whiles) != 1:
        raise Refuse("%s: expected exactly one top-level while loop, found %d" % (fn, len(whiles)))
    w = whiles[0]
    before = []
    for s in body["inner"]:
        if s is w:
            break
        before += [c for c in calls_in(s) if c in LEVEL_FUNCS + ["factor"]]
    if len(before) != 1:
        raise Refuse("%s: expected one sub-level call before the loop, found %r" % (fn, before))
    cond, wbody = w["inner"][0], w["inner"][1]
    inner = [c for c in calls_in(wbody) if c in LEVEL_FUNCS + ["factor"]]
    if len(inner) != 1:
        raise Refuse("%s: expected one right-operand call in the loop, found %r" % (fn, inner))
    ops = [name for name, k in sorted(enum.items(), key=lambda kv: kv[1]) if CondEval(enum, k).ev(cond)]
    return (fn, before[0], inner[0], ops)


def switch_cases(fn_decl):
    """[(enumerator names of the labels, [statements])] for the first switch on ...->kind in the function"""
    for n in walk(fn_decl):
        if n.get("kind") == "SwitchStmt":
            body = [c for c in n["inner"] if c.get("kind") == "CompoundStmt"]
            if not body:
                continue
            res, cur = [], None
            for st in body[0].get("inner", []):
                labels, s = [], st
                while s.get("kind") in ("CaseStmt", "DefaultStmt"):
                    if s["kind"] == "CaseStmt":
                        lab = strip(s["inner"][0])
                        rd = lab.get("referencedDecl", {})
                        labels.append(rd.get("name", "?"))
                        s = s["inner"][-1]
                    else:
                        labels.append("default")
                        s = s["inner"][-1]
                if labels:
                    cur = (labels, [s])
                    res.append(cur)
                elif cur is not None:
                    cur[1].append(st)
            if len(res) > 20:
                return res
    raise Refuse("switch not found in " + fn_decl.get("name", "?"))


def coq_str(s):
    return '"' + s.replace('"', '""') + '"'


def coq_list(xs):
    return "[" + "; ".join(xs) + "]"


def generate():
    src = os.path.join(vlib.REPO, "src/phreeqcpp/PBasic.cpp")
    # --- enum
    docs = clang_json(src, "BASIC_TOKEN")
    en = None
    for d in docs:
        for n in walk(d):
            if n.get("kind") == "EnumDecl" and n.get("name") == "BASIC_TOKEN" and n.get("inner"):
                en = n
    if en is None:
        raise Refuse("enum BASIC_TOKEN not found")
    enum, val = {}, 0
    for c in en["inner"]:
        if c.get("kind") != "EnumConstantDecl":
            continue
        if c.get("inner"):
            v = [x for x in walk(c) if x.get("kind") == "ConstantExpr" and "value" in x] or \
                [x for x in walk(c) if x.get("kind") == "IntegerLiteral"]
            if not v:
                raise Refuse("explicit enumerator value not understood: " + c.get("name"))
            val = int(v[0]["value"])
        enum[c["name"]] = val
        val += 1
    # --- token table
    docs = clang_json(src, "temp_tokens")
    vd = None
    for d in docs:
        for n in walk(d):
            if n.get("kind") == "VarDecl" and n.get("name") == "temp_tokens":
                vd = n
    if vd is None:
        raise Refuse("temp_tokens not found")
    il = [n for n in walk(vd) if n.get("kind") == "InitListExpr"]
    if not il:
        raise Refuse("temp_tokens has no initializer list")
    table = []
    for item in il[0].get("inner", []):
        strs = [n for n in walk(item) if n.get("kind") == "StringLiteral"]
        refs = [n for n in walk(item) if n.get("kind") == "DeclRefExpr" and n.get("referencedDecl", {}).get("kind") == "EnumConstantDecl"]
        if len(strs) != 1 or len(refs) != 1:
            raise Refuse("temp_tokens entry not understood")
        table.append((json.loads(strs[0]["value"]), refs[0]["referencedDecl"]["name"]))
    # command_tokens is a std::map built from the array: later duplicates of a key are ignored by the range constructor
    seen, uniq = set(), []
    for k, v in table:
        if k not in seen:
            seen.add(k)
            uniq.append((k, v))
    # --- level functions, exec, factor (one clang run: all PBasic:: members)
    docs = clang_json(src, "PBasic::")
    levels = [level_entry(docs, fn, enum) for fn in LEVEL_FUNCS]
    ex = find_decl(docs, "CXXMethodDecl", "exec")
    dispatch = []
    for labels, stmts in switch_cases(ex):
        calls = []
        for s in stmts:
            calls += [c for c in calls_in(s) if c.startswith("cmd")]
        for lab in labels:
            dispatch.append((lab, calls[0] if calls else ""))
    fa = find_decl(docs, "CXXMethodDecl", "factor")
    fcalls = []
    for labels, stmts in switch_cases(fa):
        if not any(l in FACTOR_CASES for l in labels):
            continue
        calls = []
        for s in stmts:
            for c in calls_in(s):
                if c not in calls:
                    calls.append(c)
        for lab in labels:
            if lab in FACTOR_CASES:
                fcalls.append((lab, calls))
    # --- hosts
    hosts = []
    for fname, fns in HOSTS:
        hsrc = os.path.join(vlib.REPO, "src/phreeqcpp", fname)
        for fn in fns:
            hd = clang_json(hsrc, "Phreeqc::" + fn)
            d = find_decl(hd, "CXXMethodDecl", fn)
            cs = [c for c in calls_in(d) if c in ("basic_run", "basic_compile")]
            hosts.append((fn, sorted(set(cs))))
    fw = clang_json(os.path.join(vlib.REPO, "src/phreeqcpp/basicsubs.cpp"), "Phreeqc::basic_")
    for fn in ("basic_run", "basic_compile"):
        d = find_decl(fw, "CXXMethodDecl", fn)
        hosts.append(("Phreeqc::" + fn, calls_in(d)))

    L = []
    L.append("(* GENERATED by translator/c17_gen.py from PBasic.cpp / PBasic.h / host files -- do not edit *)")
    L.append("From Coq Require Import List String ZArith.")
    L.append("Import ListNotations.")
    L.append("Open Scope string_scope.")
    L.append("")
    L.append("Definition command_tokens : list (string * string) :=\n  " +
             coq_list(["(%s, %s)" % (coq_str(k), coq_str(v)) for k, v in uniq]).replace("; ", ";\n   ") + ".")
    L.append("")
    L.append("Definition basic_token_enum : list (string * Z) :=\n  " +
             coq_list(["(%s, %d%%Z)" % (coq_str(k), v) for k, v in sorted(enum.items(), key=lambda kv: kv[1])]).replace("; ", ";\n   ") + ".")
    L.append("")
    L.append("(* function, function called first, function called for the right operand, enumerators accepted by the while condition *)")
    L.append("Definition level_table : list (string * string * string * list string) :=\n  " +
             coq_list(["(%s, %s, %s, %s)" % (coq_str(a), coq_str(b), coq_str(c), coq_list([coq_str(o) for o in ops]))
                       for a, b, c, ops in levels]).replace("); ", ");\n   ") + ".")
    L.append("")
    L.append("Definition exec_dispatch : list (string * string) :=\n  " +
             coq_list(["(%s, %s)" % (coq_str(a), coq_str(b)) for a, b in dispatch]).replace("; ", ";\n   ") + ".")
    L.append("")
    L.append("Definition factor_calls : list (string * list string) :=\n  " +
             coq_list(["(%s, %s)" % (coq_str(a), coq_list([coq_str(c) for c in cs])) for a, cs in fcalls]).replace("); ", ");\n   ") + ".")
    L.append("")
    L.append("Definition host_calls : list (string * list string) :=\n  " +
             coq_list(["(%s, %s)" % (coq_str(a), coq_list([coq_str(c) for c in cs])) for a, cs in hosts]).replace("); ", ");\n   ") + ".")
    L.append("")
    return "\n".join(L)


def source_key():
    h = hashlib.sha256()
    base = os.path.join(vlib.REPO, "src/phreeqcpp")
    files = ["PBasic.cpp", "basicsubs.cpp", "print.cpp", "kinetics.cpp", "isotopes.cpp"]
    for root, _, fs in os.walk(base):
        for f in fs:
            if f.endswith((".h", ".hpp", ".hxx")):
                files.append(os.path.relpath(os.path.join(root, f), base))
    for f in sorted(set(files)):
        h.update(f.encode())
        h.update(open(os.path.join(base, f), "rb").read())
    h.update(open(os.path.abspath(__file__), "rb").read())
    return h.hexdigest()


def gen():
    """regenerate (memoised on the content hash of every file that is read: the output is a pure function of them)"""
    out = os.path.join(vlib.COQ, "Gen", "Gen_C17_basic.v")
    key = source_key()
    cdir = os.path.join(vlib.CACHE, "c17gen")
    os.makedirs(cdir, exist_ok=True)
    cf = os.path.join(cdir, key + ".v")
    if os.path.exists(cf):
        text = open(cf).read()
    else:
        text = generate()
        open(cf + ".tmp", "w").write(text)
        os.replace(cf + ".tmp", cf)
    vlib.write_if_changed(out, text)
    return out


if __name__ == "__main__":
    if len(sys.argv) > 1 and sys.argv[1] == "--print":
        print(generate())
    else:
        print(gen())
