#!/usr/bin/env python3
"""C17 translator: regenerates coq/Gen/Gen_C17_basic.v from the current PBasic.cpp / PBasic.h.

Everything is read from the clang JSON AST (never from the text), so reformatting, renaming of
locals and equivalent rewrites of the conditions do not change the output:

  command_tokens   the (spelling, BASIC_TOKEN enumerator) pairs of the initializer `temp_tokens[]`
  basic_token_enum the enumerators of PBasic::BASIC_TOKEN in value order
  level_table      for expr/andexpr/relexpr/sexpr/term/upexpr: the function called first, the function
                   called for the right operand inside the while loop, and the set of enumerators k for
                   which the loop condition holds (the condition is *evaluated* for every enumerator
                   value with `LINK->t != NULL` true and `LINK->t->kind` = k)
  exec_dispatch    (case enumerator, first member function called) of the switch in PBasic::exec
  factor_calls     (case enumerator, free/member functions called) of the switch in PBasic::factor
                   for the cases the model covers
  host_calls       functions of the host files that call basic_run / basic_compile

The translator raises on anything it does not understand (a broken tie, never skipped).
"""
import hashlib, json, os, subprocess, sys

sys.path.insert(0, os.path.join(os.path.dirname(os.path.abspath(__file__)), "..", "lib"))
import vlib

LEVEL_FUNCS = ["expr", "andexpr", "relexpr", "sexpr", "term", "upexpr"]
FACTOR_CASES = ["toksqr", "toksqrt", "tokceil", "tokfloor", "toklog10", "toksin", "tokcos", "toktan", "tokarctan",
                "toklog", "tokexp", "tokabs", "toksgn", "tokstr_", "tokval", "tokchr_", "tokasc", "tokmid_",
                "toklen", "tokinstr", "tokltrim", "tokrtrim", "toktrim", "tokpad", "tokget", "tokexists",
                "tokminus", "tokplus", "toknot", "toklp"]
HOSTS = [("print.cpp", ["punch_user_punch", "print_user_print"]), ("kinetics.cpp", ["calc_kinetic_reaction"]),
         ("isotopes.cpp", ["calculate_values", "punch_calculate_values"])]


class Refuse(Exception):
    pass


def clang_json(src, flt):
    cmd = ["clang++", "-std=c++14", "-fsyntax-only", "-w", "-DSWIG_SHARED_OBJ", "-DUSE_PHRQ_ALLOC"] + vlib.inc_flags() + \
          ["-Xclang", "-ast-dump=json", "-Xclang", "-ast-dump-filter=" + flt, src]
    p = subprocess.run(cmd, stdout=subprocess.PIPE, stderr=subprocess.PIPE, text=True, timeout=300)
    if p.returncode != 0 and not p.stdout.strip():
        raise Refuse("clang failed on %s (%s): %s" % (src, flt, p.stderr[-800:]))
    out, docs, i, dec = p.stdout, [], 0, json.JSONDecoder()
    while i < len(out):
        while i < len(out) and out[i] in " \r\n\t":
            i += 1
        if i >= len(out):
            break
        o, i = dec.raw_decode(out, i)
        docs.append(o)
    return docs


def walk(n):
    yield n
    for c in n.get("inner", []) or []:
        if isinstance(c, dict):
            yield from walk(c)


def find_decl(docs, kind, name, need_body=True):
    for d in docs:
        for n in walk(d):
            if n.get("kind") == kind and n.get("name") == name:
                if not need_body or any(c.get("kind") == "CompoundStmt" for c in n.get("inner", [])):
                    return n
    raise Refuse("declaration %s %s not found" % (kind, name))


def strip(n):
    while n.get("kind") in ("ImplicitCastExpr", "ParenExpr", "CStyleCastExpr", "CXXStaticCastExpr", "MaterializeTemporaryExpr",
                            "ExprWithCleanups", "CXXFunctionalCastExpr", "ConstantExpr", "CXXBindTemporaryExpr"):
        n = n["inner"][0]
    return n


def is_null(n):
    n = strip(n)
    return n.get("kind") in ("GNUNullExpr", "CXXNullPtrLiteralExpr") or (n.get("kind") == "IntegerLiteral" and n.get("value") == "0")


def member_chain(n):
    """names of a member access chain, innermost object first: LINK->t->kind -> ['LINK','t','kind']"""
    n = strip(n)
    if n.get("kind") == "MemberExpr":
        return member_chain(n["inner"][0]) + [n.get("name")]
    if n.get("kind") == "DeclRefExpr":
        return [n["referencedDecl"]["name"]]
    if n.get("kind") == "CXXThisExpr":
        return ["this"]
    return ["?"]


class CondEval:
    """evaluates a loop condition for LINK->t->kind == k"""

    def __init__(self, enum, k):
        self.enum, self.k = enum, k

    def ev(self, n):
        n = strip(n)
        kd = n.get("kind")
        if kd == "IntegerLiteral":
            return int(n["value"])
        if kd == "CXXBoolLiteralExpr":
            return 1 if n.get("value") else 0
        if kd == "DeclRefExpr":
            rd = n.get("referencedDecl", {})
            if rd.get("kind") == "EnumConstantDecl" and rd.get("name") in self.enum:
                return self.enum[rd["name"]]
            raise Refuse("condition refers to %s" % rd.get("name"))
        if kd == "MemberExpr":
            ch = member_chain(n)
            if ch[-1] == "kind" and ch[-2:] == ["t", "kind"]:
                return self.k
            raise Refuse("condition reads member " + ".".join(ch))
        if kd == "UnaryOperator":
            v = self.ev(n["inner"][0])
            op = n.get("opcode")
            if op == "!":
                return 0 if v else 1
            if op == "-":
                return -v
            if op == "~":
                return ~v
            if op == "+":
                return v
            raise Refuse("unary " + str(op))
        if kd == "BinaryOperator":
            op = n.get("opcode")
            a, b = n["inner"]
            if op in ("!=", "==") and (is_null(a) or is_null(b)):
                other = b if is_null(a) else a
                ch = member_chain(other)
                if ch[-1] == "t":          # LINK->t != NULL : a token is present
                    return 1 if op == "!=" else 0
            if op == "&&":
                return 1 if (self.ev(a) and self.ev(b)) else 0
            if op == "||":
                return 1 if (self.ev(a) or self.ev(b)) else 0
            x, y = self.ev(a), self.ev(b)
            if op == "<<":
                if y < 0 or y > 62:
                    raise Refuse("shift by %d" % y)
                return x << y
            table = {"+": x + y, "-": x - y, "*": x * y, "&": x & y, "|": x | y, "^": x ^ y,
                     "<": int(x < y), "<=": int(x <= y), ">": int(x > y), ">=": int(x >= y),
                     "==": int(x == y), "!=": int(x != y)}
            if op in table:
                return table[op]
            raise Refuse("binary " + str(op))
        raise Refuse("condition node " + str(kd))


def callee_name(call):
    c = strip(call["inner"][0])
    if c.get("kind") == "MemberExpr":
        return c.get("name")
    if c.get("kind") == "DeclRefExpr":
        return c["referencedDecl"]["name"]
    return None


def calls_in(n):
    out = []
    for x in walk(n):
        if x.get("kind") in ("CXXMemberCallExpr", "CallExpr"):
            nm = callee_name(x)
            if nm:
                out.append(nm)
    return out


def level_entry(docs, fn, enum):
    d = find_decl(docs, "CXXMethodDecl", fn)
    body = [c for c in d["inner"] if c.get("kind") == "CompoundStmt"][0]
    whiles = [s for s in body.get("inner", []) if s.get("kind") == "WhileStmt"]
    if len(whiles) != 1:
        raise Refuse("%s: expected exactly one top-level while loop, found %d" % (fn, len(whiles)))
    w = whiles[0]
    before = []
    for s in body["inner"]:
        if s is w:
            break
        before += [c for c in calls_in(s) if c in LEVEL_FUNCS + ["factor"]]
    if len(before) != 1:
        raise Refuse("%s: expected one sub-level call before the loop, found %r" % (fn, before))
    cond, wbody = w["inner"][0], w["inner"][1]
    inner = [c for c in calls_in(wbody) if c in LEVEL_FUNCS + ["factor"]]
    if len(inner) != 1:
        raise Refuse("%s: expected one right-operand call in the loop, found %r" % (fn, inner))
    ops = [name for name, k in sorted(enum.items(), key=lambda kv: kv[1]) if CondEval(enum, k).ev(cond)]
    return (fn, before[0], inner[0], ops)


def switch_cases(fn_decl):
    """[(enumerator names of the labels, [statements])] for the first switch on ...->kind in the function"""
    for n in walk(fn_decl):
        if n.get("kind") == "SwitchStmt":
            body = [c for c in n["inner"] if c.get("kind") == "CompoundStmt"]
            if not body:
                continue
            res, cur = [], None
            for st in body[0].get("inner", []):
                labels, s = [], st
                while s.get("kind") in ("CaseStmt", "DefaultStmt"):
                    if s["kind"] == "CaseStmt":
                        lab = strip(s["inner"][0])
                        rd = lab.get("referencedDecl", {})
                        labels.append(rd.get("name", "?"))
                        s = s["inner"][-1]
                    else:
                        labels.append("default")
                        s = s["inner"][-1]
                if labels:
                    cur = (labels, [s])
                    res.append(cur)
                elif cur is not None:
                    cur[1].append(st)
            if len(res) > 20:
                return res
    raise Refuse("switch not found in " + fn_decl.get("name", "?"))


# ----------------------------------------------------------------------------- findvar: subscript fold
class Poly(dict):
    """integer polynomial over symbols: {sorted tuple of symbols: coefficient}"""

    @staticmethod
    def const(c):
        return Poly({(): c}) if c else Poly()

    @staticmethod
    def sym(x):
        return Poly({(x,): 1})

    def add(self, o, sign=1):
        r = Poly(self)
        for m, c in o.items():
            r[m] = r.get(m, 0) + sign * c
            if r[m] == 0:
                del r[m]
        return r

    def mul(self, o):
        r = Poly()
        for m1, c1 in self.items():
            for m2, c2 in o.items():
                m = tuple(sorted(m1 + m2))
                r[m] = r.get(m, 0) + c1 * c2
                if r[m] == 0:
                    del r[m]
        return r

    def as_int(self):
        if not self:
            return 0
        if list(self.keys()) == [()]:
            return self[()]
        return None


class FoldExec:
    """symbolic execution of the subscript loop of PBasic::findvar for a fixed number of dimensions n: subscripts read by
    intexpr are symbols j0 j1 ..., v->dims[e] is the symbol d<e>, v->numdims is n.  Yields the final value of k as a
    polynomial, the (subscript, dimension) pairs of the bounds tests and whether a comma is required after each subscript."""

    def __init__(self, n, env):
        self.n, self.env = n, dict(env)
        self.nsub = 0
        self.bounds, self.commas = [], []

    def ev(self, x):
        x = strip(x)
        kd = x.get("kind")
        if kd == "IntegerLiteral":
            return Poly.const(int(x["value"]))
        if kd == "DeclRefExpr":
            nm = x["referencedDecl"]["name"]
            if nm in self.env and self.env[nm] is not None:
                return self.env[nm]
            raise Refuse("findvar: value of %s unknown" % nm)
        if kd == "MemberExpr":
            ch = member_chain(x)
            if ch[-1] == "numdims":
                return Poly.const(self.n)
            raise Refuse("findvar: reads member " + ".".join(ch))
        if kd == "ArraySubscriptExpr":
            base, idx = x["inner"]
            ch = member_chain(base)
            if ch[-1] != "dims":
                raise Refuse("findvar: subscript of " + ".".join(ch))
            e = self.ev(idx).as_int()
            if e is None or e < 0 or e >= self.n:
                raise Refuse("findvar: dims[%r] with %d dimensions" % (e, self.n))
            return Poly.sym("d%d" % e)
        if kd in ("CXXMemberCallExpr", "CallExpr"):
            if callee_name(x) in ("intexpr", "intfactor"):
                self.nsub += 1
                return Poly.sym("j%d" % (self.nsub - 1))
            raise Refuse("findvar: call of %s in an expression" % callee_name(x))
        if kd == "ConditionalOperator":
            c = self.ev(x["inner"][0]).as_int()
            if c is None:
                raise Refuse("findvar: symbolic condition")
            return self.ev(x["inner"][1] if c else x["inner"][2])
        if kd == "UnaryOperator" and x.get("opcode") == "-":
            return Poly().add(self.ev(x["inner"][0]), -1)
        if kd == "BinaryOperator":
            op = x.get("opcode")
            a, b = self.ev(x["inner"][0]), self.ev(x["inner"][1])
            if op == "+":
                return a.add(b)
            if op == "-":
                return a.add(b, -1)
            if op == "*":
                return a.mul(b)
            ia, ib = a.as_int(), b.as_int()
            if ia is not None and ib is not None:
                t = {"<": ia < ib, "<=": ia <= ib, ">": ia > ib, ">=": ia >= ib, "==": ia == ib, "!=": ia != ib,
                     "&&": bool(ia) and bool(ib), "||": bool(ia) or bool(ib)}
                if op in t:
                    return Poly.const(int(t[op]))
            raise Refuse("findvar: operator %s on symbolic values" % op)
        raise Refuse("findvar: expression node " + str(kd))

    def assign(self, st):
        lhs = strip(st["inner"][0])
        if lhs.get("kind") != "DeclRefExpr":
            raise Refuse("findvar: assignment to a non-local")
        nm = lhs["referencedDecl"]["name"]
        op = st.get("opcode")
        v = self.ev(st["inner"][1])
        if op == "=":
            self.env[nm] = v
        elif op == "+=":
            self.env[nm] = self.env[nm].add(v)
        elif op == "*=":
            self.env[nm] = self.env[nm].mul(v)
        else:
            raise Refuse("findvar: assignment operator " + str(op))

    def stmt(self, st):
        kd = st.get("kind")
        if kd == "CompoundStmt":
            for c in st.get("inner", []):
                self.stmt(c)
        elif kd in ("BinaryOperator", "CompoundAssignOperator"):
            self.assign(st)
        elif kd == "UnaryOperator" and st.get("opcode") in ("++", "--"):
            nm = strip(st["inner"][0])["referencedDecl"]["name"]
            self.env[nm] = self.env[nm].add(Poly.const(1 if st["opcode"] == "++" else -1))
        elif kd == "IfStmt":
            cond, then = st["inner"][0], st["inner"][1]
            calls = calls_in(then)
            if "badsubscr" in calls:
                c = strip(cond)
                if c.get("kind") != "BinaryOperator" or c.get("opcode") not in (">=", "<=", ">", "<"):
                    raise Refuse("findvar: bounds test not understood")
                a, b = self.ev(c["inner"][0]), self.ev(c["inner"][1])
                if c["opcode"] in ("<=", "<"):
                    a, b = b, a
                    strict = c["opcode"] == "<"
                else:
                    strict = c["opcode"] == ">"
                ka, kb = list(a.keys()), list(b.keys())
                if strict or len(ka) != 1 or len(kb) != 1 or len(ka[0]) != 1 or len(kb[0]) != 1 or a[ka[0]] != 1 or b[kb[0]] != 1:
                    raise Refuse("findvar: bounds test is not `subscript >= extent`")
                self.bounds.append((ka[0][0], kb[0][0]))
            elif "require" in calls and len(st["inner"]) == 2:
                c = self.ev(cond).as_int()
                if c is None:
                    raise Refuse("findvar: symbolic comma condition")
                if c:
                    self.commas.append(self.nsub - 1)
            else:
                raise Refuse("findvar: if statement not understood")
        else:
            raise Refuse("findvar: statement " + str(kd))

    def run_for(self, f):
        init, _, cond, inc, body = (f["inner"] + [None] * 5)[:5]
        if init is None or cond is None or inc is None:
            raise Refuse("findvar: for loop shape")
        self.stmt(init)
        for _ in range(16):
            c = self.ev(cond).as_int()
            if c is None:
                raise Refuse("findvar: symbolic loop condition")
            if not c:
                return
            self.stmt(body)
            self.stmt(inc)
        raise Refuse("findvar: loop does not terminate")


def findvar_fold(docs):
    d = find_decl(docs, "CXXMethodDecl", "findvar")
    body = [c for c in d["inner"] if c.get("kind") == "CompoundStmt"][0]
    fors = [i for i, st in enumerate(body["inner"]) if st.get("kind") == "ForStmt" and "intexpr" in calls_in(st)]
    if len(fors) != 1:
        raise Refuse("findvar: expected one top-level subscript loop, found %d" % len(fors))
    res = []
    for n in (1, 2, 3, 4):
        ex = FoldExec(n, {})
        # simple assignments to locals before the loop (k = 0; FORLIM = v->numdims; ...): later ones win
        for st in body["inner"][:fors[0]]:
            if st.get("kind") == "BinaryOperator" and st.get("opcode") == "=" and strip(st["inner"][0]).get("kind") == "DeclRefExpr":
                try:
                    ex.assign(st)
                except Refuse:
                    ex.env[strip(st["inner"][0])["referencedDecl"]["name"]] = None
        ex.nsub = 0
        ex.run_for(body["inner"][fors[0]])
        # the element addressed is arr[k]
        tail = body["inner"][fors[0] + 1:]
        used = [x for st in tail for x in walk(st) if x.get("kind") == "ArraySubscriptExpr" and member_chain(x["inner"][0])[-1] in ("arr", "sarr")]
        if len(used) != 2:
            raise Refuse("findvar: element address not understood")
        polys = []
        for u in used:
            polys.append(ex.ev(u["inner"][1]))
        if polys[0] != polys[1]:
            raise Refuse("findvar: numeric and string arrays use different offsets")
        if ex.nsub != n:
            raise Refuse("findvar: %d subscripts read for %d dimensions" % (ex.nsub, n))
        res.append((n, sorted(polys[0].items()), ex.bounds, sorted(ex.commas)))
    return res


def coq_str(s):
    return '"' + s.replace('"', '""') + '"'


def coq_list(xs):
    return "[" + "; ".join(xs) + "]"


def generate():
    src = os.path.join(vlib.REPO, "src/phreeqcpp/PBasic.cpp")
    # --- enum
    docs = clang_json(src, "BASIC_TOKEN")
    en = None
    for d in docs:
        for n in walk(d):
            if n.get("kind") == "EnumDecl" and n.get("name") == "BASIC_TOKEN" and n.get("inner"):
                en = n
    if en is None:
        raise Refuse("enum BASIC_TOKEN not found")
    enum, val = {}, 0
    for c in en["inner"]:
        if c.get("kind") != "EnumConstantDecl":
            continue
        if c.get("inner"):
            v = [x for x in walk(c) if x.get("kind") == "ConstantExpr" and "value" in x] or \
                [x for x in walk(c) if x.get("kind") == "IntegerLiteral"]
            if not v:
                raise Refuse("explicit enumerator value not understood: " + c.get("name"))
            val = int(v[0]["value"])
        enum[c["name"]] = val
        val += 1
    # --- token table
    docs = clang_json(src, "temp_tokens")
    vd = None
    for d in docs:
        for n in walk(d):
            if n.get("kind") == "VarDecl" and n.get("name") == "temp_tokens":
                vd = n
    if vd is None:
        raise Refuse("temp_tokens not found")
    il = [n for n in walk(vd) if n.get("kind") == "InitListExpr"]
    if not il:
        raise Refuse("temp_tokens has no initializer list")
    table = []
    for item in il[0].get("inner", []):
        strs = [n for n in walk(item) if n.get("kind") == "StringLiteral"]
        refs = [n for n in walk(item) if n.get("kind") == "DeclRefExpr" and n.get("referencedDecl", {}).get("kind") == "EnumConstantDecl"]
        if len(strs) != 1 or len(refs) != 1:
            raise Refuse("temp_tokens entry not understood")
        table.append((json.loads(strs[0]["value"]), refs[0]["referencedDecl"]["name"]))
    # command_tokens is a std::map built from the array: later duplicates of a key are ignored by the range constructor
    seen, uniq = set(), []
    for k, v in table:
        if k not in seen:
            seen.add(k)
            uniq.append((k, v))
    # --- level functions, exec, factor (one clang run: all PBasic:: members)
    docs = clang_json(src, "PBasic::")
    levels = [level_entry(docs, fn, enum) for fn in LEVEL_FUNCS]
    ex = find_decl(docs, "CXXMethodDecl", "exec")
    dispatch = []
    for labels, stmts in switch_cases(ex):
        calls = []
        for s in stmts:
            calls += [c for c in calls_in(s) if c.startswith("cmd")]
        for lab in labels:
            dispatch.append((lab, calls[0] if calls else ""))
    fold = findvar_fold(docs)
    fa = find_decl(docs, "CXXMethodDecl", "factor")
    fcalls = []
    for labels, stmts in switch_cases(fa):
        if not any(l in FACTOR_CASES for l in labels):
            continue
        calls = []
        for s in stmts:
            for c in calls_in(s):
                if c not in calls:
                    calls.append(c)
        for lab in labels:
            if lab in FACTOR_CASES:
                fcalls.append((lab, calls))
    # --- hosts
    hosts = []
    for fname, fns in HOSTS:
        hsrc = os.path.join(vlib.REPO, "src/phreeqcpp", fname)
        for fn in fns:
            hd = clang_json(hsrc, "Phreeqc::" + fn)
            d = find_decl(hd, "CXXMethodDecl", fn)
            cs = [c for c in calls_in(d) if c in ("basic_run", "basic_compile")]
            hosts.append((fn, sorted(set(cs))))
    fw = clang_json(os.path.join(vlib.REPO, "src/phreeqcpp/basicsubs.cpp"), "Phreeqc::basic_")
    for fn in ("basic_run", "basic_compile"):
        d = find_decl(fw, "CXXMethodDecl", fn)
        hosts.append(("Phreeqc::" + fn, calls_in(d)))

    L = []
    L.append("(* GENERATED by translator/c17_gen.py from PBasic.cpp / PBasic.h / host files -- do not edit *)")
    L.append("From Coq Require Import List String ZArith.")
    L.append("Import ListNotations.")
    L.append("Open Scope string_scope.")
    L.append("")
    L.append("Definition command_tokens : list (string * string) :=\n  " +
             coq_list(["(%s, %s)" % (coq_str(k), coq_str(v)) for k, v in uniq]).replace("; ", ";\n   ") + ".")
    L.append("")
    L.append("Definition basic_token_enum : list (string * Z) :=\n  " +
             coq_list(["(%s, %d%%Z)" % (coq_str(k), v) for k, v in sorted(enum.items(), key=lambda kv: kv[1])]).replace("; ", ";\n   ") + ".")
    L.append("")
    L.append("(* function, function called first, function called for the right operand, enumerators accepted by the while condition *)")
    L.append("Definition level_table : list (string * string * string * list string) :=\n  " +
             coq_list(["(%s, %s, %s, %s)" % (coq_str(a), coq_str(b), coq_str(c), coq_list([coq_str(o) for o in ops]))
                       for a, b, c, ops in levels]).replace("); ", ");\n   ") + ".")
    L.append("")
    L.append("Definition exec_dispatch : list (string * string) :=\n  " +
             coq_list(["(%s, %s)" % (coq_str(a), coq_str(b)) for a, b in dispatch]).replace("; ", ";\n   ") + ".")
    L.append("")
    L.append("Definition factor_calls : list (string * list string) :=\n  " +
             coq_list(["(%s, %s)" % (coq_str(a), coq_list([coq_str(c) for c in cs])) for a, cs in fcalls]).replace("); ", ");\n   ") + ".")
    L.append("")
    L.append("(* PBasic::findvar, n = 1..4 dimensions, by symbolic execution of the subscript loop: offset polynomial (coefficient, symbols;"
             " j<t> = t-th subscript, d<e> = dims[e]), bounds tests (subscript, extent), subscripts followed by a required comma *)")
    L.append("Definition findvar_index : list (nat * list (Z * list string)) :=\n  " +
             coq_list(["(%d, %s)" % (n, coq_list(["(%d%%Z, %s)" % (c, coq_list([coq_str(x) for x in m])) for m, c in poly]))
                       for n, poly, _, _ in fold]).replace("); (", ");\n   (") + ".")
    L.append("Definition findvar_bounds : list (nat * list (string * string)) :=\n  " +
             coq_list(["(%d, %s)" % (n, coq_list(["(%s, %s)" % (coq_str(a), coq_str(b)) for a, b in bd])) for n, _, bd, _ in fold]) + ".")
    L.append("Definition findvar_commas : list (nat * list nat) :=\n  " +
             coq_list(["(%d, %s)" % (n, coq_list([str(c) for c in cm])) for n, _, _, cm in fold]) + ".")
    L.append("")
    L.append("Definition host_calls : list (string * list string) :=\n  " +
             coq_list(["(%s, %s)" % (coq_str(a), coq_list([coq_str(c) for c in cs])) for a, cs in hosts]).replace("); ", ");\n   ") + ".")
    L.append("")
    return "\n".join(L)


def source_key():
    h = hashlib.sha256()
    base = os.path.join(vlib.REPO, "src/phreeqcpp")
    files = ["PBasic.cpp", "basicsubs.cpp", "print.cpp", "kinetics.cpp", "isotopes.cpp"]
    for root, _, fs in os.walk(base):
        for f in fs:
            if f.endswith((".h", ".hpp", ".hxx")):
                files.append(os.path.relpath(os.path.join(root, f), base))
    for f in sorted(set(files)):
        h.update(f.encode())
        h.update(open(os.path.join(base, f), "rb").read())
    h.update(open(os.path.abspath(__file__), "rb").read())
    return h.hexdigest()


def gen():
    """regenerate (memoised on the content hash of every file that is read: the output is a pure function of them)"""
    out = os.path.join(vlib.COQ, "Gen", "Gen_C17_basic.v")
    key = source_key()
    cdir = os.path.join(vlib.CACHE, "c17gen")
    os.makedirs(cdir, exist_ok=True)
    cf = os.path.join(cdir, key + ".v")
    if os.path.exists(cf):
        text = open(cf).read()
    else:
        text = generate()
        open(cf + ".tmp", "w").write(text)
        os.replace(cf + ".tmp", cf)
    vlib.write_if_changed(out, text)
    return out


if __name__ == "__main__":
    if len(sys.argv) > 1 and sys.argv[1] == "--print":
        print(generate())
    else:
        print(gen())
