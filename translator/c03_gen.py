"""C03 translator back end: regenerates coq/Gen/Gen_C03_model.v from the *current* sources of
vlib.REPO (model.cpp, prep.cpp, mainsubs.cpp, utilities.cpp, Phreeqc.cpp, global_structures.h).

What is emitted (all as terms of the deep embedding IPV.C03.Syntax):
  res_pp_residual / res_pp            residuals(): PP row — residual expression and the convergence guards
  chk_pp                              check_residuals(): PP row
  res_exch_residual / res_exch / chk_exch, res_surf_residual / res_surf / chk_surf, res_ss_residual / res_ss / chk_ss
  model_while / model_tail / model_ret   model(): condition of the inner while, statements after it inside for(;;),
                                         statements after the for(;;)
  pp_f_terms / ss_f_terms             store_mb(...) calls that define x[i]->f in build_pure_phases / build_ss_assemblage
  ss_acc / ss_frac / ss_dispatch      calc_ss_fractions(): bodies of the two component loops, the ideal/binary dispatch
  ss_ideal_body                       ss_ideal(): body of the component loop
  ss_binary_body                      ss_binary(): whole body
  reset_pp, save_pp, set_inert, unset_inert, equal_body
  c_convergence_tolerance, c_MIN_TOTAL, c_MIN_TOTAL_SS, c_MIN_RELATED_SURFACE, c_ineq_tol : Q ; c_LOG_10 : expr
"""
import os, sys
from fractions import Fraction

sys.path.insert(0, os.path.dirname(os.path.abspath(__file__)))
import c03_cparse as cp
from c03_cparse import Refuse, Parser, match

PP_DIR = "src/phreeqcpp"


class Unit:
    def __init__(self, repo, rel):
        self.path = os.path.join(repo, rel)
        src = open(self.path, errors="replace").read()
        text, self.defined = cp.preprocess(src)
        self.toks = cp.tokenize(text)


def load_consts(repo):
    """TRUE/FALSE/OK/ERROR/CONVERGED from global_structures.h (#define NAME number)."""
    src = open(os.path.join(repo, PP_DIR, "global_structures.h"), errors="replace").read()
    _, defined = cp.preprocess(src)
    consts = {}
    for k in ("TRUE", "FALSE", "OK", "ERROR", "CONVERGED", "STOP", "CONTINUE"):
        if k not in defined:
            raise Refuse("#define %s not found in global_structures.h" % k)
        try:
            consts[k] = ("num", Fraction(defined[k]))
        except Exception:
            raise Refuse("#define %s is not a number: %r" % (k, defined[k]))
    consts["NULL"] = ("num", Fraction(0))
    consts["true"] = ("num", Fraction(1))
    consts["false"] = ("num", Fraction(0))
    return consts


# ----------------------------------------------------------------------------- locating code

def toks_eq(toks, i, seqv):
    return all(i + k < len(toks) and toks[i + k][1] == v for k, v in enumerate(seqv))


def find_type_branches(toks, lo, hi, typ):
    """indices of the statement that follows  if ( x [ <id> ] -> type == typ )"""
    out = []
    for i in range(lo, hi):
        if toks[i][1] == "if" and toks_eq(toks, i + 1, ["(", "x", "["]) and toks_eq(toks, i + 5, ["]", "->", "type", "==", typ, ")"]):
            out.append(i + 11)
    return out


def contains(toks, lo, hi, needle):
    n = len(needle)
    return any(toks_eq(toks, i, needle) for i in range(lo, hi - n + 1))


def stmt_end(toks, i):
    """index just past the statement starting at i (block or simple / if-else chains handled by the parser)"""
    p = Parser(toks)
    p.p = i
    p.parse_block_or_stmt()
    return p.p


def loops_in(toks, lo, hi):
    """(kw_index, body_index) of every for/while between lo and hi"""
    out = []
    for i in range(lo, hi):
        if toks[i][0] == "id" and toks[i][1] in ("for", "while") and toks[i + 1][1] == "(":
            j = match(toks, i + 1)
            out.append((i, j + 1))
    return out


def innermost_loop_with(toks, lo, hi, needle):
    best = None
    for kw, b in loops_in(toks, lo, hi):
        e = match(toks, b) + 1 if toks[b][1] == "{" else stmt_end(toks, b)
        if contains(toks, b, e, needle):
            if best is None or (e - b) < (best[1] - best[0]):
                best = (b, e)
    if best is None:
        raise Refuse("no loop containing " + " ".join(needle))
    return best


def single_assign_locals(toks, lo, hi, consts):
    """Scalar locals assigned exactly once in the function, by a plain  `id = expr ;` at the top level of the
    function body: returned as {name: expr} for inlining (so `l_toler`, `epsilon` can be renamed freely)."""
    counts = {}
    for i in range(lo, hi):
        if toks[i][0] == "id" and toks[i - 1][1] not in ("->", ".", "::"):
            nx = toks[i + 1][1]
            if nx in ("=", "+=", "-=", "*=", "/=", "++", "--") or toks[i - 1][1] in ("++", "--"):
                counts[toks[i][1]] = counts.get(toks[i][1], 0) + 1
    env = {}
    depth = 0
    i = lo
    while i < hi:
        v = toks[i][1]
        if v == "{":
            depth += 1
        elif v == "}":
            depth -= 1
        elif depth == 1 and toks[i][0] == "id" and toks[i + 1][1] == "=" and toks[i - 1][1] in (";", "{", "}") and counts.get(v) == 1:
            p = Parser(toks, consts)
            p.p = i + 2
            try:
                e = p.e_add()
                if p.at(";"):
                    env[v] = cp.subst_expr(e, {k: w for k, w in env.items()})
            except Refuse:
                pass
        i += 1
    return env


def parse_at(toks, i, consts, inline=None, aliases=None):
    p = Parser(toks, consts, aliases)
    p.p = i
    s = p.parse_block_or_stmt()
    if inline:
        s = cp.subst_stmt(s, {k: v for k, v in inline.items()})
    return s


def split_residual(s, name="residual"):
    """(expr assigned to `residual` by the leading assignments, remaining statement). A leading
    `if (..) continue;` (row skipped) is kept in the remaining statement."""
    items = []
    while s[0] == "seq":
        items.append(s[1])
        s = s[2]
    items.append(s)
    res = None
    rest = []
    for k, it in enumerate(items):
        if it[0] == "assign" and it[1] == name and not rest_has_if(rest):
            res = it[2] if res is None else cp.subst_expr(it[2], {name: res})
        else:
            rest.append(it)
    if res is None:
        raise Refuse("no assignment to residual[i] at the head of the branch")
    return res, cp.seq(rest)


def rest_has_if(rest):
    return any(r[0] == "if" and not is_skip_row(r) for r in rest)


def is_skip_row(s):
    return s[0] == "if" and s[2] == ("continue",) and s[3] == ("skip",)


# ----------------------------------------------------------------------------- pieces

def branch_pair(model, consts, typ, needle=None):
    t = model.toks
    out = {}
    for fn in ("residuals", "check_residuals"):
        lo, hi = cp.find_function(t, fn)
        inl = single_assign_locals(t, lo, hi, consts)
        br = find_type_branches(t, lo, hi, typ)
        if len(br) != 1:
            raise Refuse("%s: expected exactly one `if (x[i]->type == %s)` branch, found %d" % (fn, typ, len(br)))
        out[fn] = parse_at(t, br[0], consts, inl)
    return out


def model_pieces(model, consts):
    t = model.toks
    lo, hi = cp.find_function(t, "model")
    fors = [(kw, b) for kw, b in loops_in(t, lo, hi) if t[kw][1] == "for" and toks_eq(t, kw + 1, ["(", ";", ";", ")"])]
    if len(fors) != 1:
        raise Refuse("model(): expected exactly one for(;;)")
    kw, b = fors[0]
    if t[b][1] != "{":
        raise Refuse("model(): for(;;) without block")
    e = match(t, b)
    whiles = [(k2, b2) for k2, b2 in loops_in(t, b + 1, e) if t[k2][1] == "while"]
    # the outermost while directly in the for body
    top = []
    for k2, b2 in whiles:
        depth = 0
        for q in range(b + 1, k2):
            if t[q][1] == "{":
                depth += 1
            elif t[q][1] == "}":
                depth -= 1
        if depth == 0:
            top.append((k2, b2))
    if len(top) != 1:
        raise Refuse("model(): expected exactly one while directly inside for(;;)")
    k2, b2 = top[0]
    p = Parser(t, consts)
    p.p = k2 + 2
    wcond = p.parse_cond()
    if p.p != b2 - 1:
        raise Refuse("model(): while condition not fully parsed")
    # statements before the while inside the for body
    pre = []
    p = Parser(t, consts)
    p.p = b + 1
    while p.p < k2:
        s = p.parse_stmt()
        if s is not None:
            pre.append(s)
    wend = match(t, b2) + 1 if t[b2][1] == "{" else stmt_end(t, b2)
    wbody = parse_at(t, b2, consts)
    tail = []
    p = Parser(t, consts)
    p.p = wend
    while p.p < e:
        s = p.parse_stmt()
        if s is not None:
            tail.append(s)
    head = []
    p = Parser(t, consts)
    p.p = lo + 1
    while p.p < kw:
        s0 = p.parse_stmt()
        if s0 is not None:
            head.append(s0)
    if p.p != kw:
        raise Refuse("model(): statements before for(;;) not fully parsed")
    ret = []
    p = Parser(t, consts)
    p.p = e + 1
    while p.p < hi:
        s = p.parse_stmt()
        if s is not None:
            ret.append(s)
    return wcond, cp.seq(pre), wbody, cp.seq(tail), cp.seq(ret), cp.seq(head)


def f_terms(prep, consts, fn):
    t = prep.toks
    lo, hi = cp.find_function(t, fn)
    # outermost loop over the unknowns that contains store_mb
    cands = []
    for kw, b in loops_in(t, lo, hi):
        e = match(t, b) + 1 if t[b][1] == "{" else stmt_end(t, b)
        if contains(t, b, e, ["store_mb", "("]):
            cands.append((b, e))
    if not cands:
        raise Refuse(fn + ": no store_mb loop")
    b, e = max(cands, key=lambda be: be[1] - be[0])
    body = parse_at(t, b, consts)
    terms = []

    def walk(s, inloop, guarded):
        k = s[0]
        if k == "seq":
            walk(s[1], inloop, guarded)
            walk(s[2], inloop, guarded)
        elif k == "loop":
            walk(s[1], True, guarded)
        elif k == "if":
            if is_skip_row(s):
                return
            walk(s[2], inloop, True)
            walk(s[3], inloop, True)
        elif k == "call" and s[1] == "store_mb":
            a = s[2]
            if len(a) != 3 or a[0][0] != "var" or a[1][0] != "var":
                raise Refuse(fn + ": store_mb arguments not (path, path, coef)")
            if guarded:
                raise Refuse(fn + ": store_mb under a condition")
            terms.append((a[1][1], a[0][1], a[2], inloop))

    walk(body, False, False)
    if not terms:
        raise Refuse(fn + ": no store_mb terms")
    # canonical name "tok" for the pointer that runs over the reaction tokens (so that it can be renamed freely)
    out = []
    for tg, srcv, cf, lp in terms:
        if lp:
            if not srcv.endswith(".s.la"):
                raise Refuse(fn + ": store_mb source inside the token loop is not <token>->s->la: " + srcv)
            pref = srcv[:-len(".s.la")]
            ren = {}
            collect_vars(cf, ren)
            env = {v: ("var", "tok" + v[len(pref):]) for v in ren if v.startswith(pref + ".")}
            cf = cp.subst_expr(cf, env)
            srcv = "tok.s.la"
        out.append((tg, srcv, cf, lp))
    return out


def collect_vars(e, acc):
    if e[0] == "var":
        acc[e[1]] = 1
    else:
        for a in e[1:]:
            if isinstance(a, tuple):
                collect_vars(a, acc)


def assigned_vars(s, acc):
    k = s[0]
    if k == "assign":
        acc.append((s[1], s[2]))
    elif k in ("seq",):
        assigned_vars(s[1], acc)
        assigned_vars(s[2], acc)
    elif k == "if":
        assigned_vars(s[2], acc)
        assigned_vars(s[3], acc)
    elif k == "loop":
        assigned_vars(s[1], acc)


def init_consts(repo, consts):
    u = Unit(repo, os.path.join(PP_DIR, "Phreeqc.cpp"))
    t = u.toks
    lo, hi = cp.find_function(t, "init")
    want = ["convergence_tolerance", "MIN_TOTAL", "MIN_TOTAL_SS", "MIN_RELATED_SURFACE", "ineq_tol", "LOG_10"]
    got = {}
    env = dict(consts)
    env["DBL_DIG"] = ("num", Fraction(15))
    for name in want:
        idx = [i for i in range(lo, hi) if t[i] == ("id", name) and t[i + 1][1] == "=" and t[i - 1][1] in (";", "{", "}")]
        if len(idx) != 1:
            raise Refuse("Phreeqc::init: expected exactly one assignment to %s, found %d" % (name, len(idx)))
        p = Parser(t, env)
        p.p = idx[0] + 2
        e = p.e_add()
        if not p.at(";"):
            raise Refuse("Phreeqc::init: cannot parse initialiser of " + name)
        e = cp.subst_expr(e, {k: v for k, v in got.items() if v[0] == "num"})
        v = const_eval(e)
        got[name] = ("num", v) if v is not None else e
    return got


def const_eval(e):
    k = e[0]
    if k == "num":
        return e[1]
    if k in ("add", "sub", "mul", "div"):
        a, b = const_eval(e[1]), const_eval(e[2])
        if a is None or b is None:
            return None
        if k == "div" and b == 0:
            return None
        return {"add": a + b, "sub": a - b, "mul": a * b, "div": a / b if b != 0 else None}[k]
    if k == "neg":
        a = const_eval(e[1])
        return None if a is None else -a
    if k == "fun2" and e[1] == "pow":
        a, b = const_eval(e[2]), const_eval(e[3])
        if a is None or b is None or b.denominator != 1 or a == 0:
            return None
        return a ** int(b)
    return None


def loop_body(unit, consts, fn, needle):
    t = unit.toks
    lo, hi = cp.find_function(t, fn)
    b, e = innermost_loop_with(t, lo, hi, needle)
    return parse_at(t, b, consts)


def whole_body(unit, consts, fn):
    t = unit.toks
    lo, hi = cp.find_function(t, fn)
    return parse_at(t, lo, consts)


def ss_dispatch(model, consts):
    t = model.toks
    lo, hi = cp.find_function(t, "calc_ss_fractions")
    pos = [i for i in range(lo, hi) if t[i] == ("id", "ss_binary")]
    if len(pos) != 1:
        raise Refuse("calc_ss_fractions: expected one call of ss_binary")
    ifs = [i for i in range(lo, pos[0]) if t[i] == ("id", "if")]
    if not ifs:
        raise Refuse("calc_ss_fractions: no if before ss_binary")
    return parse_at(t, ifs[-1], consts)


def reset_pp(model, consts):
    t = model.toks
    lo, hi = cp.find_function(t, "reset")
    inl = {}
    brs = find_type_branches(t, lo, hi, "PP")
    sel = [b for b in brs if contains(t, b, stmt_end(t, b), ["equal", "("])]
    if len(sel) != 1:
        raise Refuse("reset(): expected one PP branch using equal(), found %d" % len(sel))
    return parse_at(t, sel[0], consts)


# ----------------------------------------------------------------------------- main

def generate(repo):
    consts = load_consts(repo)
    model = Unit(repo, os.path.join(PP_DIR, "model.cpp"))
    prep = Unit(repo, os.path.join(PP_DIR, "prep.cpp"))
    mains = Unit(repo, os.path.join(PP_DIR, "mainsubs.cpp"))
    util = Unit(repo, os.path.join(PP_DIR, "utilities.cpp"))
    out = []
    w = out.append
    w("(* GENERATED by translator/c03_gen.py from the current sources of the checked tree. Do not edit. *)")
    w("From Coq Require Import QArith String List.")
    w("Require Import IPV.C03.Syntax.")
    w("Import ListNotations.")
    w("Open Scope string_scope.")
    w("Open Scope Q_scope.")
    w("")

    def defstmt(name, s, comment):
        w("(* %s *)" % comment)
        w("Definition %s : stmt :=\n  %s.\n" % (name, cp.coq_stmt(s, 3)))

    def defexpr(name, e, comment):
        w("(* %s *)" % comment)
        w("Definition %s : expr := %s.\n" % (name, cp.coq_expr(e)))

    for typ, tag in (("PP", "pp"), ("EXCH", "exch"), ("SURFACE", "surf"), ("SS_MOLES", "ss")):
        pr = branch_pair(model, consts, typ)
        res_e, res_s = split_residual(pr["residuals"])
        defexpr("res_%s_residual" % tag, res_e, "residuals(): value assigned to residual[i] in the %s row" % typ)
        defstmt("res_%s" % tag, res_s, "residuals(): %s row, statements after the assignment of residual[i]" % typ)
        defstmt("chk_%s" % tag, pr["check_residuals"], "check_residuals(): %s row" % typ)

    wcond, pre, wbody, tail, ret, head = model_pieces(model, consts)
    defstmt("model_head", head, "model(): statements before the for(;;) (input checks, Pitzer / SIT dispatch, set-up)")
    w("(* model(): condition of the inner while loop *)")
    w("Definition model_while : cond := %s.\n" % cp.coq_cond(wcond))
    defstmt("model_pre", pre, "model(): statements of the for(;;) body before the while")
    defstmt("model_tail", tail, "model(): statements of the for(;;) body after the while")
    defstmt("model_ret", ret, "model(): statements after the for(;;)")

    for fn, name in (("build_pure_phases", "pp_f_terms"), ("build_ss_assemblage", "ss_f_terms")):
        terms = f_terms(prep, consts, fn)
        w("(* %s(): store_mb(source, target, coef) calls; last field: inside the loop over reaction tokens *)" % fn)
        w("Definition %s : list fterm :=\n  [ %s ].\n" % (name, ";\n    ".join(
            'FT "%s" "%s" %s %s' % (tg, srcv, cp.coq_expr(cf), "true" if lp else "false") for tg, srcv, cf, lp in terms)))

    sacc = loop_body(model, consts, "calc_ss_fractions", ["n_tot", "+="])
    sfrac = loop_body(model, consts, "calc_ss_fractions", ["Set_fraction_x", "("])
    defstmt("ss_acc", sacc, "calc_ss_fractions(): body of the loop that accumulates n_tot")
    defstmt("ss_frac", sfrac, "calc_ss_fractions(): body of the loop that sets fraction_x")
    av = []
    assigned_vars(sacc, av)
    bind = [e[1] for v, e in av if e[0] == "var" and e[1].endswith(".moles")]
    av2 = []
    assigned_vars(sfrac, av2)
    outv = [v for v, _ in av2 if v.endswith(".fraction_x") and not v.endswith("log10_fraction_x")]
    if len(set(bind)) != 1 or len(outv) != 1:
        raise Refuse("calc_ss_fractions: cannot identify the component amount / fraction_x variables")
    w('Definition ss_bind_var : string := "%s".  (* amount of the current component (Get_moles) *)' % bind[0])
    w('Definition ss_frac_var : string := "%s".  (* Set_fraction_x target *)\n' % outv[0])
    defstmt("ss_dispatch", ss_dispatch(model, consts), "calc_ss_fractions(): ideal / binary dispatch")
    sid = loop_body(model, consts, "ss_ideal", ["Set_log10_lambda", "("])
    defstmt("ss_ideal_body", sid, "ss_ideal(): body of the component loop")
    av3 = []
    assigned_vars(sid, av3)
    lv = sorted(set(v for v, _ in av3 if v.endswith(".log10_lambda")))
    if len(lv) != 1:
        raise Refuse("ss_ideal: cannot identify the log10_lambda variable")
    w('Definition ss_lambda_var : string := "%s".  (* Set_log10_lambda target *)\n' % lv[0])
    defstmt("ss_binary_body", whole_body(model, consts, "ss_binary"), "ss_binary(): whole body")
    defstmt("reset_pp", reset_pp(model, consts), "reset(): PP row (update of the amount of the phase)")
    sv = loop_body(mains, consts, "xpp_assemblage_save", ["Set_moles", "("])
    defstmt("save_pp", sv, "xpp_assemblage_save(): loop body")
    av = []
    assigned_vars(sv, av)
    mv = [v for v, _ in av if v.endswith(".moles")]
    if len(mv) != 1:
        raise Refuse("xpp_assemblage_save: expected exactly one Set_moles in the loop")
    w('Definition save_pp_moles_var : string := "%s".  (* the saved amount of the phase *)\n' % mv[0])
    defstmt("set_inert", loop_body(model, consts, "set_inert_moles", ["inert_moles"]), "set_inert_moles(): loop body")
    defstmt("unset_inert", loop_body(model, consts, "unset_inert_moles", ["inert_moles"]), "unset_inert_moles(): loop body")
    defstmt("equal_body", whole_body(util, consts, "equal"), "equal(a, b, eps)")

    # ineq(): body of the loop that copies the EQUALITY equations into the cl1 problem (force_equality phases among them)
    t = model.toks
    lo, hi = cp.find_function(t, "ineq")
    best = None
    for kw, b in loops_in(t, lo, hi):
        e = match(t, b) + 1 if t[b][1] == "{" else stmt_end(t, b)
        if contains(t, b, e, ["Get_force_equality", "(", ")"]) and contains(t, b, e, ["PITZER_GAMMA"]) and contains(t, b, e, ["memcpy", "("]):
            if best is None or (e - b) < (best[1] - best[0]):
                best = (b, e)
    if best is None:
        raise Refuse("ineq(): loop copying the equality equations not found")
    src_gs = open(os.path.join(repo, PP_DIR, "global_structures.h"), errors="replace").read()
    _, defs_gs = cp.preprocess(src_gs)
    consts_t = dict(consts)
    for k in ("MB", "ALK", "CB", "SOLUTION_PHASE_BOUNDARY", "MU", "AH2O", "MH", "MH2O", "PP", "EXCH", "SURFACE", "SURFACE_CB",
              "SURFACE_CB1", "SURFACE_CB2", "GAS_MOLES", "SS_MOLES", "PITZER_GAMMA"):
        try:
            consts_t[k] = ("num", Fraction(defs_gs[k]))
        except Exception:
            raise Refuse("#define %s (type of an unknown) not found as a number in global_structures.h" % k)
    defstmt("ineq_equalities", parse_at(t, best[0], consts_t), "ineq(): body of the loop that copies the equality equations (types of unknowns as numbers)")
    w("Definition c_PP : Q := %s.  (* global_structures.h *)\n" % cp.coq_q(consts_t["PP"][1]))

    # reactions(): body of the loop over the reaction steps
    defstmt("reaction_step_body", loop_body(mains, consts, "reactions", ["run_reactions", "("]),
            "reactions(): body of the loop over reaction steps")

    # full build (setup_pure_phases) versus reuse of the equation system (quick_setup): the PP unknown's fields
    t = prep.toks
    lo, hi = cp.find_function(t, "quick_setup")
    brs = find_type_branches(t, lo, hi, "PP")
    if len(brs) != 1:
        raise Refuse("quick_setup: expected exactly one `if (x[i]->type == PP)` branch, found %d" % len(brs))
    qs = parse_at(t, brs[0], consts)
    st = loop_body(prep, consts, "setup_pure_phases", ["Get_si", "("])
    defstmt("quick_pp", qs, "quick_setup(): PP row (model reused: values refreshed from the assemblage component)")
    defstmt("setup_pp", st, "setup_pure_phases(): loop body (model built)")
    # solid-solution unknowns: copy of the component state into the shared phase record (full build and reuse)
    for nm, fn in (("setup_ss", "setup_ss_assemblage"), ("quick_ss", "quick_setup")):
        body = loop_body(prep, consts, fn, ["log10_lambda"])
        defstmt(nm, body, "%s(): body of the loop over the components of a solid solution" % fn)
        av = []
        assigned_vars(body, av)
        src = sorted(set(e[1][:-len(".log10_lambda")] for v, e in av
                         if v == "x.phase.log10_lambda" and e[0] == "var" and e[1].endswith(".log10_lambda")))
        if len(src) != 1:
            raise Refuse("%s: cannot identify the component phase->log10_lambda is copied from" % fn)
        w('Definition %s_comp : string := "%s".  (* the solid-solution component the phase record is filled from *)\n' % (nm, src[0]))
    for nm, stm in (("quick_comp", qs), ("setup_comp", st)):
        av = []
        assigned_vars(stm, av)
        src = sorted(set(e[1][:-len(".moles")] for v, e in av if v == "x.moles" and e[0] == "var" and e[1].endswith(".moles")))
        if len(src) != 1:
            raise Refuse("%s: cannot identify the component the amount of the PP unknown is read from" % nm)
        w('Definition %s : string := "%s".  (* the assemblage component the PP unknown is filled from *)' % (nm, src[0]))
    w("")

    for k in ("TRUE", "FALSE", "OK", "ERROR", "CONVERGED"):
        w("Definition c_%s : Q := %s.  (* global_structures.h *)" % (k, cp.coq_q(consts[k][1])))
    ic = init_consts(repo, consts)
    for name in ("convergence_tolerance", "MIN_TOTAL", "MIN_TOTAL_SS", "MIN_RELATED_SURFACE", "ineq_tol"):
        v = ic[name]
        if v[0] != "num":
            raise Refuse("Phreeqc::init: %s is not a rational constant" % name)
        w("Definition c_%s : Q := %s.  (* Phreeqc::init *)" % (name, cp.coq_q(v[1])))
    w("Definition c_LOG_10 : expr := %s.  (* Phreeqc::init *)" % cp.coq_expr(ic["LOG_10"]))
    w("")
    return "\n".join(out)


if __name__ == "__main__":
    repo = sys.argv[1] if len(sys.argv) > 1 else "/repo"
    sys.stdout.write(generate(repo))
