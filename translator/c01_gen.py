"""C01 translator back end: regenerates coq/Gen/Gen_C01_code.v from the CURRENT /repo sources
   prep.cpp      Phreeqc::k_calc                 log K(T,P) from the log K vector
   Phreeqc.cpp   Phreeqc::init                   LOG_10
   read.cpp      Phreeqc::read_delta_h_only      unit factors of delta_h
   model.cpp     Phreeqc::molalities             lm = lk - lg + sum la*coef ;  la(master) = lm + lg
   model.cpp     Phreeqc::sum_species            pH, pe, charge balance, alkalinity, valence-state totals (increments)
   basicsubs.cpp log_activity, saturation_index, saturation_ratio   read-outs
Only syntax is transliterated (translator/leaf.py, on the clang AST); WHICH formula each right-hand side is, is decided
by the theorems of coq/C01/KCalcProofs.v and coq/C01/Sums.v.  Fixed variable orders make the theorems independent of
the order in which the code mentions its operands; allow_new_vars=False refuses any new operand."""
import os, sys
_HERE = os.path.dirname(os.path.abspath(__file__))
sys.path.insert(0, os.path.join(os.path.dirname(_HERE), "lib"))
sys.path.insert(0, os.path.dirname(_HERE))
import vlib
from translator import leaf

K = ["l_logk[logK_T0]", "l_logk[delta_h]", "l_logk[T_A1]", "l_logk[T_A2]", "l_logk[T_A3]", "l_logk[T_A4]", "l_logk[T_A5]", "l_logk[T_A6]"]
OUT = os.path.join(vlib.COQ, "Gen", "Gen_C01_code.v")


def cs(s):
    return '"' + s.replace('"', '""') + '"'


class _DerefTr(leaf._Translator):
    """leaf's translator plus `*p` (dereference of an out-parameter) as an opaque variable named "*p" """
    def tr(self, n):
        if n.get("kind") == "UnaryOperator" and n.get("opcode") == "*":
            return self.var(leaf.render(n))
        return super().tr(n)


def deref_leaf(fn, name, site, vars_, increment=False):
    tr = _DerefTr(fn, list(vars_), {}, {}, False)
    e = tr.tr(site.node)
    if increment and site.op == "-=":
        e = ('neg', e)
    return leaf.Leaf(name, e, tr.vars, [c for t, c in site.conds if t == "if"], sorted(site.cases), fn, site)


def build():
    P = os.path.join(vlib.REPO, "src/phreeqcpp")
    leaves = []
    extra = ""
    # ---- k_calc
    fn = leaf.load_function(os.path.join(P, "prep.cpp"), "k_calc")
    leaves.append(fn.leaf("kcalc_lk", lhs="lk", kind="init", vars=K + ["tempk", "LOG_10"], auto_inline=True, allow_new_vars=False))
    leaves.append(fn.leaf("kcalc_dp", lhs="delta_p", kind="init", vars=["presPa"], allow_new_vars=False))
    corr = fn.leaf("kcalc_pcorr", lhs="lk", kind="compound", increment=True, vars=["l_logk[delta_v]", "delta_p", "tempk", "LOG_10"],
                   auto_inline=True, allow_new_vars=False)
    leaves.append(corr)
    leaves.append(fn.leaf("kcalc_ret", ret=True, vars=["lk"], allow_new_vars=False))
    lk_sites = [s for s in fn.sites if s.lhs == "lk"]
    extra += "Definition kcalc_lk_site_kinds : list string := [%s].\n" % "; ".join(cs(s.kind) for s in lk_sites)
    extra += "Definition kcalc_return_sites : nat := %d.\n" % len([s for s in fn.sites if s.kind == "return"])
    # ---- LOG_10
    fi = leaf.load_function(os.path.join(P, "Phreeqc.cpp"), "init")
    leaves.append(fi.leaf("c01_LOG_10", lhs="LOG_10", vars=[]))
    # ---- delta_h unit factors
    fd = leaf.load_function(os.path.join(P, "read.cpp"), "read_delta_h_only")
    comp = [s for s in fd.sites if s.lhs == "*delta_h" and s.kind == "compound"]
    extra += "Definition dh_compound_ops : list string := [%s].\n" % "; ".join(cs(s.op) for s in comp)
    extra += "Definition dh_compound_conds : list (list string) := [%s].\n" % "; ".join(
        "[" + "; ".join(cs(c) for t, c in s.conds if t == "if") + "]" for s in comp)
    for k, s in enumerate(comp):
        leaves.append(deref_leaf(fd, "dh_factor_%d" % k, s, []))
    # ---- molalities
    fm = leaf.load_function(os.path.join(P, "model.cpp"), "molalities")
    leaves.append(fm.leaf("mol_lm_init", lhs="s_x[i]->lm", kind="assign", vars=["s_x[i]->lk", "s_x[i]->lg"], allow_new_vars=False))
    leaves.append(fm.leaf("mol_lm_inc", lhs="s_x[i]->lm", kind="compound", increment=True, vars=["rxn_ptr->s->la", "rxn_ptr->coef"], allow_new_vars=False))
    leaves.append(fm.leaf("mol_master_la", lhs="master[i]->s->la", vars=["master[i]->s->lm", "master[i]->s->lg"], allow_new_vars=False))
    lm_sites = [s for s in fm.sites if s.lhs == "s_x[i]->lm"]
    extra += "Definition mol_lm_site_kinds : list string := [%s].\n" % "; ".join(cs(s.kind + (":" + s.op if s.kind == "compound" else "")) for s in lm_sites)
    # ---- sum_species
    fs = leaf.load_function(os.path.join(P, "model.cpp"), "sum_species")
    leaves.append(fs.leaf("ss_ph", lhs="ph_x", vars=["s_hplus->la"], allow_new_vars=False))
    leaves.append(fs.leaf("ss_pe", lhs="solution_pe_x", vars=["s_eminus->la"], allow_new_vars=False))
    leaves.append(fs.leaf("ss_cb_inc", lhs="cb_x", kind="compound", increment=True, vars=["s_x[i]->z", "s_x[i]->moles"], allow_new_vars=False))
    leaves.append(fs.leaf("ss_alk_inc", lhs="total_alkalinity", kind="compound", increment=True, vars=["s_x[i]->alk", "s_x[i]->moles"], allow_new_vars=False))
    leaves.append(fs.leaf("ss_tot_inc", lhs="master_ptr->total", kind="compound", increment=True,
                          vars=["species_list[i].coef", "species_list[i].s->moles"], allow_new_vars=False))
    leaves.append(fs.leaf("ss_cb_init", lhs="cb_x", kind="assign", vars=[], allow_new_vars=False))
    leaves.append(fs.leaf("ss_alk_init", lhs="total_alkalinity", kind="assign", vars=[], allow_new_vars=False))
    # ---- read-outs
    fa = leaf.load_function(os.path.join(P, "basicsubs.cpp"), "log_activity")
    leaves.append(fa.leaf("ro_la", lhs="la", nth=-1, vars=["s_ptr->lm", "s_ptr->lg"], allow_new_vars=False))
    fsi = leaf.load_function(os.path.join(P, "basicsubs.cpp"), "saturation_index")
    si_sites = [s for s in fsi.sites if s.lhs == "*si" and s.kind == "assign"]
    leaves.append(deref_leaf(fsi, "ro_si", si_sites[-1], ["*iap", "phase_ptr->lk"]))
    iap_inc = [s for s in fsi.sites if s.lhs == "*iap" and s.kind == "compound"]
    if len(iap_inc) != 1 or iap_inc[0].op != "+=":
        raise leaf.LeafError("saturation_index: expected exactly one `*iap += ...`")
    leaves.append(deref_leaf(fsi, "ro_iap_inc", iap_inc[0], ["rxn_ptr->s->la", "rxn_ptr->coef"], increment=True))
    iap_init = [s for s in fsi.sites if s.lhs == "*iap" and s.kind == "assign"]
    if len(iap_init) != 1:
        raise leaf.LeafError("saturation_index: expected exactly one `*iap = ...`")
    leaves.append(deref_leaf(fsi, "ro_iap_init", iap_init[0], []))
    # ---- write_mass_action_eqn_x (prep.cpp): the multipliers with which a REWRITE-flagged secondary master species is
    # replaced by its rxn_secondary, and the e- this introduces by the element's redox-couple reaction (pe_x[...])
    fw = leaf.load_function(os.path.join(P, "prep.cpp"), "write_mass_action_eqn_x")
    calls = []

    def wcalls(n):
        if not isinstance(n, dict):
            return
        if n.get("kind") in ("CXXMemberCallExpr", "CallExpr"):
            inner = n.get("inner", [])
            if inner and inner[0].get("name") == "trxn_add" and len(inner) >= 3:
                calls.append((leaf.render(inner[1]), inner[2]))
        for x in n.get("inner", []) or []:
            wcalls(x)
    wcalls(fw.decl)
    sec = [c for c in calls if c[0].endswith("rxn_secondary")]
    cpl = [c for c in calls if not c[0].endswith("rxn_secondary")]
    if len(sec) != 1 or not cpl:
        raise leaf.LeafError("write_mass_action_eqn_x: expected one trxn_add of rxn_secondary and at least one of a couple reaction, found %d / %d" % (len(sec), len(cpl)))
    wv = ["trxn.token[i].coef", "coef_e"]
    for nm, (what, node) in [("wma_secondary_mult", sec[0])] + [("wma_couple_mult_%d" % k, c) for k, c in enumerate(cpl)]:
        tr = leaf._Translator(fw, list(wv), {}, {}, False)
        leaves.append(leaf.Leaf(nm, tr.tr(node), tr.vars, [what], [], fw, leaf.Site("argument", nm, node, frozenset(), (), 0, None, None, None)))
    extra += "Definition wma_couple_mults : list rexpr := [%s].\n" % "; ".join("wma_couple_mult_%d" % k for k in range(len(cpl)))
    ce = [s_ for s_ in fw.sites if s_.lhs == "coef_e"]
    if len(ce) != 1:
        raise leaf.LeafError("write_mass_action_eqn_x: expected exactly one assignment to coef_e")
    extra += "Definition wma_coef_e_source : string := %s.\n" % cs(leaf.render(ce[0].node))
    # ---- convergence test of the ionic-strength row: residuals() and check_residuals(), default tolerance
    MU = "x[i]->type == 14"          # `#define MU 14` (global_structures.h), expanded by the preprocessor
    fr = leaf.load_function(os.path.join(P, "model.cpp"), "residuals")
    cand = [s for s in fr.sites if s.lhs == "residual[i]" and s.kind == "assign" and s.conds and s.conds[-1] == ("if", MU)]
    if len(cand) != 1:
        raise leaf.LeafError("residuals: expected exactly one assignment to residual[i] directly under `if (x[i]->type == MU)`, found %d" % len(cand))
    tr = leaf._Translator(fr, ["mass_water_aq_x", "mu_x", "x[i]->f"], {}, {}, False)
    leaves.append(leaf.Leaf("res_mu", tr.tr(cand[0].node), tr.vars, [c for t, c in cand[0].conds if t == "if"][-1:], [], fr, cand[0]))
    fc = leaf.load_function(os.path.join(P, "model.cpp"), "check_residuals")
    guards = []

    def walk(n, under_mu):
        if not isinstance(n, dict):
            return
        if n.get("kind") == "IfStmt":
            inner = n.get("inner", [])
            c = leaf.render(inner[0])
            if under_mu:
                guards.append(inner[0])
                return
            if c == MU and len(inner) > 1:
                walk(inner[1], True)
                for x in inner[2:]:
                    walk(x, False)
                return
        for x in n.get("inner", []) or []:
            walk(x, under_mu)
    walk(fc.decl, False)
    if len(guards) != 1:
        raise leaf.LeafError("check_residuals: expected exactly one guard under `if (x[i]->type == MU)`, found %d" % len(guards))
    g = leaf._strip(guards[0])
    if g.get("kind") != "BinaryOperator" or g.get("opcode") not in (">=", ">"):
        raise leaf.LeafError("check_residuals: MU guard is not a `>=` / `>` comparison: " + leaf.render(g))
    gv = ["residual[i]", "epsilon", "mu_x", "mass_water_aq_x"]
    for nm, side in (("cr_mu_lhs", g["inner"][0]), ("cr_mu_rhs", g["inner"][1])):
        tr = leaf._Translator(fc, list(gv), {}, {}, False)
        leaves.append(leaf.Leaf(nm, tr.tr(side), tr.vars, [MU], [], fc, leaf.Site("guard", nm, side, frozenset(), (("if", MU),), 0, None, None, None)))
    extra += "Definition cr_mu_op : string := %s.\n" % cs(g.get("opcode"))
    leaves.append(fc.leaf("cr_epsilon", lhs="epsilon", vars=["convergence_tolerance"], allow_new_vars=False))
    leaves.append(fi.leaf("init_convergence_tolerance", lhs="convergence_tolerance", vars=[], allow_new_vars=False))
    return leaf.emit_coq(leaves, header="C01: k_calc (prep.cpp), init (Phreeqc.cpp), read_delta_h_only (read.cpp), molalities, sum_species (model.cpp), "
                         "log_activity, saturation_index (basicsubs.cpp)", extra=extra), leaves


def generate():
    txt, leaves = build()
    vlib.write_if_changed(OUT, txt)
    return leaves


if __name__ == "__main__":
    txt, leaves = build()
    print(txt)
