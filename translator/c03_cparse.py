"""C03 translator front end: a small tokenizer + recursive-descent parser for the very regular
C++ subset used in the convergence tests of PHREEQC (model.cpp, prep.cpp, mainsubs.cpp, utilities.cpp).

It only *transliterates* syntax into a tiny AST (expr / cond / stmt, see coq/C03/Syntax.v); meaning lives in Coq.
Anything outside the subset raises Refuse (a broken tie, never silently skipped).

Canonical variable names: a postfix chain  x[i]->phase->lk  becomes "x.phase.lk"  (array indices are dropped:
every chain is relative to the current row i), getters  p->Get_moles()  become  "p.moles", `.size()` becomes
".size", pointer/reference locals declared with an initialiser are replaced by the canonical name of the
initialiser (so renaming a local changes nothing), single-assignment scalar locals are inlined by the caller.
"""
import re
from fractions import Fraction


class Refuse(Exception):
    pass


# ----------------------------------------------------------------------------- preprocessor conditionals

def strip_comments(src):
    out = []
    i = 0
    n = len(src)
    while i < n:
        c = src[i]
        if c == '"' or c == "'":
            j = i + 1
            while j < n and src[j] != c:
                j += 2 if src[j] == "\\" else 1
            out.append(src[i:j + 1])
            i = j + 1
        elif src.startswith("//", i):
            j = src.find("\n", i)
            j = n if j < 0 else j
            i = j
        elif src.startswith("/*", i):
            j = src.find("*/", i + 2)
            j = n - 2 if j < 0 else j
            out.append("\n" * src.count("\n", i, j + 2))
            i = j + 2
        else:
            out.append(c)
            i += 1
    return "".join(out)


def _pp_eval(expr, defined):
    toks = re.findall(r"defined|\w+|&&|\|\||[!()]|[<>=]=?|\S", expr)
    pos = [0]

    def peek():
        return toks[pos[0]] if pos[0] < len(toks) else None

    def nxt():
        t = peek()
        pos[0] += 1
        return t

    def prim():
        t = nxt()
        if t == "!":
            return 0 if prim() else 1
        if t == "(":
            v = ors()
            if nxt() != ")":
                raise Refuse("preprocessor expression: " + expr)
            return v
        if t == "defined":
            if peek() == "(":
                nxt()
                name = nxt()
                nxt()
            else:
                name = nxt()
            return 1 if name in defined else 0
        if t is None:
            raise Refuse("preprocessor expression: " + expr)
        if re.match(r"\d+$", t):
            return int(t)
        if re.match(r"\w+$", t):
            v = defined.get(t)
            try:
                return int(v) if v not in (None, "") else (1 if t in defined else 0)
            except ValueError:
                return 1
        raise Refuse("preprocessor expression: " + expr)

    def cmp_():
        v = prim()
        while peek() in ("<", ">", "<=", ">=", "=="):
            op = nxt()
            w = prim()
            v = int({"<": v < w, ">": v > w, "<=": v <= w, ">=": v >= w, "==": v == w}[op])
        return v

    def ands():
        v = cmp_()
        while peek() == "&&":
            nxt()
            w = cmp_()
            v = 1 if (v and w) else 0
        return v

    def ors():
        v = ands()
        while peek() == "||":
            nxt()
            w = ands()
            v = 1 if (v or w) else 0
        return v

    return ors()


def preprocess(src, predefined=()):
    """Resolve #if/#ifdef/#else/#endif with only `predefined` + in-file #defines known. Other directives are
    dropped. Line structure is kept."""
    src = strip_comments(src)
    defined = {k: "1" for k in predefined}
    out = []
    stack = []  # (active_before, taken_any, active_now)
    active = True
    lines = src.split("\n")
    k = 0
    while k < len(lines):
        line = lines[k]
        s = line.strip()
        if s.startswith("#"):
            while s.endswith("\\") and k + 1 < len(lines):
                k += 1
                s = s[:-1] + " " + lines[k].strip()
                out.append("")
            m = re.match(r"#\s*(\w+)\s*(.*)$", s)
            d, rest = (m.group(1), m.group(2).strip()) if m else ("", "")
            if d in ("ifdef", "ifndef", "if"):
                if d == "ifdef":
                    c = rest.split()[0] in defined
                elif d == "ifndef":
                    c = rest.split()[0] not in defined
                else:
                    c = bool(_pp_eval(rest, defined)) if active else False
                stack.append((active, c, active and c))
                active = active and c
            elif d == "elif":
                pa, taken, _ = stack[-1]
                c = (not taken) and pa and bool(_pp_eval(rest, defined))
                stack[-1] = (pa, taken or c, c)
                active = c
            elif d == "else":
                pa, taken, _ = stack[-1]
                c = pa and not taken
                stack[-1] = (pa, True, c)
                active = c
            elif d == "endif":
                pa, _, _ = stack.pop()
                active = pa
            elif d == "define" and active:
                mm = re.match(r"(\w+)(\([^)]*\))?\s*(.*)$", rest)
                if mm and not mm.group(2):
                    defined[mm.group(1)] = mm.group(3).strip()
            elif d == "undef" and active:
                defined.pop(rest.split()[0], None)
            out.append("")
        else:
            out.append(line if active else "")
        k += 1
    return "\n".join(out), defined


# ----------------------------------------------------------------------------- tokenizer

TOK = re.compile(r"""
    (?P<ws>\s+|\\\n)
  | (?P<str>"(?:\\.|[^"\\])*")
  | (?P<chr>'(?:\\.|[^'\\])*')
  | (?P<num>(?:\d+\.?\d*|\.\d+)(?:[eE][+-]?\d+)?[fFlLuU]*)
  | (?P<id>[A-Za-z_]\w*)
  | (?P<op>->|::|\+\+|--|<=|>=|==|!=|&&|\|\||\+=|-=|\*=|/=|<<|>>|[{}()\[\];,<>=+\-*/!&|.?:~%^])
""", re.X)


def tokenize(src):
    toks = []
    i = 0
    while i < len(src):
        m = TOK.match(src, i)
        if not m:
            raise Refuse("cannot tokenize at: " + src[i:i + 30])
        i = m.end()
        k = m.lastgroup
        if k == "ws":
            continue
        toks.append((k, m.group(k)))
    return toks


def find_function(toks, name, cls="Phreeqc"):
    """Token index range (lo, hi) of the body `{ ... }` (inclusive braces) of  cls::name( ... ) { """
    for i in range(len(toks) - 4):
        if toks[i] == ("id", cls) and toks[i + 1] == ("op", "::") and toks[i + 2] == ("id", name) and toks[i + 3] == ("op", "("):
            j = match(toks, i + 3)
            k = j + 1
            while k < len(toks) and toks[k][1] in ("const",):
                k += 1
            if k < len(toks) and toks[k] == ("op", "{"):
                return k, match(toks, k)
    raise Refuse("function %s::%s not found" % (cls, name))


PAIRS = {"(": ")", "{": "}", "[": "]"}


def match(toks, i):
    """index of the bracket closing the one at i"""
    o = toks[i][1]
    c = PAIRS[o]
    d = 0
    for j in range(i, len(toks)):
        if toks[j][0] == "op":
            if toks[j][1] == o:
                d += 1
            elif toks[j][1] == c:
                d -= 1
                if d == 0:
                    return j
    raise Refuse("unbalanced " + o)


# ----------------------------------------------------------------------------- AST (python tuples)
# expr:  ("var", name) ("num", Fraction) ("add"|"sub"|"mul"|"div", a, b) ("neg", a) ("abs", a) ("fun1", f, a) ("fun2", f, a, b)
# cond:  ("lt"|"le"|"gt"|"ge"|"eq"|"ne", a, b) ("and"|"or", c, d) ("not", c) ("nz", e) ("equal", a, b, eps)
# stmt:  ("skip",) ("seq", s, t) ("if", c, s, t) ("assign", name, e) ("call", name) ("break",) ("continue",) ("return", e)
#        ("loop", s)   (for/while with its body; header dropped)

TYPEWORDS = {"void", "int", "double", "LDBLE", "bool", "size_t", "class", "struct", "const", "unsigned", "long", "char", "float",
             "cxxPPassemblageComp", "cxxPPassemblage", "cxxSScomp", "cxxSS", "cxxSurfaceCharge", "cxxSurfaceComp",
             "cxxExchComp", "cxxGasPhase", "std", "phase", "master", "rxn_token", "unknown"}
PRINT_CALLS = {"output_msg", "log_msg", "sformatf", "status", "screen_msg", "assert"}
MATH1 = {"fabs": "abs", "log10": "log10", "log": "ln", "exp": "exp", "sqrt": "sqrt", "sinh": "sinh", "tanh": "tanh"}


def parse_number(text):
    t = text.rstrip("fFlLuU")
    return Fraction(t)   # Fraction parses "1e-8", "10.", ".5", "0e-8" exactly from the source spelling


class Parser:
    def __init__(self, toks, consts=None, aliases=None):
        self.t = toks
        self.p = 0
        self.consts = consts or {}
        self.aliases = dict(aliases or {})

    def peek(self, k=0):
        return self.t[self.p + k] if self.p + k < len(self.t) else ("eof", "")

    def at(self, v, k=0):
        return self.peek(k)[1] == v and self.peek(k)[0] in ("op", "id")

    def eat(self, v=None):
        tk = self.peek()
        if v is not None and tk[1] != v:
            raise Refuse("expected %r, found %r near %s" % (v, tk[1], " ".join(x[1] for x in self.t[max(0, self.p - 8):self.p + 8])))
        self.p += 1
        return tk

    # ---- expressions (everything is a number; conditions are a separate syntactic class built on top)
    def parse_cond(self):
        return self.c_or()

    def c_or(self):
        c = self.c_and()
        while self.at("||"):
            self.eat()
            c = ("or", c, self.c_and())
        return c

    def c_and(self):
        c = self.c_not()
        while self.at("&&"):
            self.eat()
            c = ("and", c, self.c_not())
        return c

    def c_not(self):
        if self.at("!"):
            self.eat()
            return ("not", self.c_not())
        # parenthesised condition or relational
        if self.at("("):
            # try: ( cond )  followed by && || ) or end;  else it is an arithmetic parenthesis
            save = self.p
            j = match(self.t, self.p)
            nxt = self.t[j + 1][1] if j + 1 < len(self.t) else ""
            if nxt in ("&&", "||", ")", ";", ",", "?", "") and not self._is_cast(self.p):
                self.eat("(")
                c = self.c_or()
                self.eat(")")
                return c
            self.p = save
        return self.c_rel()

    def c_rel(self):
        a = self.e_add()
        ops = {"<": "lt", "<=": "le", ">": "gt", ">=": "ge", "==": "eq", "!=": "ne"}
        if self.peek()[1] in ops and self.peek()[0] == "op":
            op = ops[self.eat()[1]]
            b = self.e_add()
            return (op, a, b)
        if isinstance(a, tuple) and a[0] == "condexpr":
            return a[1]
        return ("nz", a)

    def e_add(self):
        a = self.e_mul()
        while self.peek()[0] == "op" and self.peek()[1] in ("+", "-"):
            op = self.eat()[1]
            b = self.e_mul()
            a = ("add" if op == "+" else "sub", a, b)
        return a

    def e_mul(self):
        a = self.e_un()
        while self.peek()[0] == "op" and self.peek()[1] in ("*", "/"):
            op = self.eat()[1]
            b = self.e_un()
            a = ("mul" if op == "*" else "div", a, b)
        return a

    def _is_cast(self, i):
        """( type-words [*&]* ) at token i"""
        if self.t[i][1] != "(":
            return False
        j = i + 1
        n = 0
        while j < len(self.t) and self.t[j][0] == "id" and self.t[j][1] in TYPEWORDS:
            j += 1
            n += 1
        while j < len(self.t) and self.t[j][1] in ("*", "&"):
            j += 1
        return n > 0 and j < len(self.t) and self.t[j][1] == ")"

    def e_un(self):
        if self.at("-"):
            self.eat()
            return ("neg", self.e_un())
        if self.at("+"):
            self.eat()
            return self.e_un()
        if self.at("(") and self._is_cast(self.p):
            self.p = match(self.t, self.p) + 1
            return self.e_un()
        if self.at("&") or self.at("*"):     # address-of / deref inside an initialiser: transparent
            self.eat()
            return self.e_un()
        return self.e_post()

    def e_post(self):
        k, v = self.peek()
        if k == "num":
            self.eat()
            return ("num", parse_number(v))
        if v == "(":
            self.eat("(")
            e = self.e_add()
            if self.at("="):          # (r = f())  : value of the assignment expression
                self.eat()
                e = self.e_add()
            self.eat(")")
            return e
        if k != "id":
            raise Refuse("unexpected token %r in expression near %s" % (v, " ".join(x[1] for x in self.t[max(0, self.p - 8):self.p + 8])))
        self.eat()
        name = v
        # scoped names a::b
        while self.at("::"):
            self.eat()
            name = name + "::" + self.eat()[1]
        # function call?
        if self.at("("):
            args = self.call_args()
            if name in MATH1:
                if len(args) != 1:
                    raise Refuse("arity of " + name)
                return ("abs", args[0]) if name == "fabs" else ("fun1", MATH1[name], args[0])
            if name == "pow":
                return ("fun2", "pow", args[0], args[1])
            if name == "equal" and len(args) == 3:
                return ("condexpr", ("equal", args[0], args[1], args[2]))
            self.last_call = (name, args)
            return self.postfix(("var", name + "(" + argnames(args) + ")"))
        base = self.aliases.get(name, name)
        return self.postfix(("var", base))

    def call_args(self):
        self.eat("(")
        args = []
        if not self.at(")"):
            while True:
                if self.peek()[0] in ("str", "chr"):
                    while self.peek()[0] in ("str", "chr"):
                        self.eat()
                    args.append(("var", "<string>"))
                else:
                    args.append(self.e_add_or_cond())
                if self.at(","):
                    self.eat()
                    continue
                break
        self.eat(")")
        return args

    def e_add_or_cond(self):
        save = self.p
        try:
            e = self.e_add()
            if self.at(",") or self.at(")") or self.at(";") or self.at("?") or self.at("="):
                return e
        except Refuse:
            pass
        self.p = save
        c = self.c_or()
        return ("condexpr", c)

    def postfix(self, e):
        name = e[1]
        while True:
            if self.at("->") or self.at("."):
                self.eat()
                f = self.eat()[1]
                if self.at("("):
                    args = self.call_args()
                    if f.startswith("Get_") and not args:
                        name = name + "." + f[4:]
                    elif f == "size" and not args:
                        name = name + ".size"
                    elif f.startswith("Set_") and len(args) == 1:
                        return ("setter", name + "." + f[4:], args[0])
                    else:
                        name = name + "." + f + "(" + argnames(args) + ")"
                else:
                    name = name + "." + f
            elif self.at("["):
                j = match(self.t, self.p)
                if j == self.p + 2 and self.t[self.p + 1][0] == "num":
                    name = name + "[" + self.t[self.p + 1][1] + "]"   # literal index kept
                self.p = j + 1      # variable index dropped: chains are relative to the current row / component
            else:
                break
        if name in self.consts:
            return self.consts[name]
        return ("var", name)

    # ---- statements
    def parse_block_or_stmt(self):
        if self.at("{"):
            self.eat("{")
            ss = []
            while not self.at("}"):
                s = self.parse_stmt()
                if s is not None:
                    ss.append(s)
            self.eat("}")
            return seq(ss)
        s = self.parse_stmt()
        return s if s is not None else ("skip",)

    def parse_stmt(self):
        k, v = self.peek()
        if v == ";":
            self.eat()
            return None
        if v == "{":
            return self.parse_block_or_stmt()
        if v == "if":
            self.eat()
            self.eat("(")
            c = self.parse_cond()
            self.eat(")")
            a = self.parse_block_or_stmt()
            b = ("skip",)
            if self.at("else"):
                self.eat()
                b = self.parse_block_or_stmt()
            return ("if", c, a, b)
        if v in ("for", "while"):
            self.eat()
            j = match(self.t, self.p)
            self.p = j + 1
            body = self.parse_block_or_stmt()
            return ("loop", body)
        if v in ("continue", "break"):
            self.eat()
            self.eat(";")
            return (v,)
        if v == "return":
            self.eat()
            if self.at(";"):
                self.eat()
                return ("return", ("num", Fraction(0)))
            e = self.e_add()
            self.eat(";")
            return ("return", e)
        # std::container<...> name;  /  std::...::iterator it;   (no initialiser): skipped
        if k == "id" and v == "std" and self.at("::", 1):
            j = self.p
            while self.t[j][1] not in (";", "=", "(", "{"):
                j += 1
            if self.t[j][1] == ";":
                self.p = j + 1
                return None
            raise Refuse("unsupported std:: declaration with initialiser")
        # declaration?   type-words [*&]* name [= init] ;
        if k == "id" and v in TYPEWORDS:
            j = self.p
            while self.t[j][0] == "id" and self.t[j][1] in TYPEWORDS or self.t[j][1] in ("::", "<", ">", "*", "&"):
                j += 1
            # j at declared name
            name = self.t[j][1]
            isptr = any(self.t[q][1] in ("*", "&") for q in range(self.p, j))
            self.p = j + 1
            out = []
            while True:
                if self.at("="):
                    self.eat()
                    init = self.e_add_or_cond()
                    if isptr:
                        if init[0] == "num" and init[1] == 0:
                            out.append(("assign", name, init))     # T *p = NULL;  (assigned later)
                        elif init[0] != "var":
                            raise Refuse("pointer local %s initialised by a non-path" % name)
                        else:
                            self.aliases[name] = init[1]
                    else:
                        out.append(("assign", name, init))
                if self.at(","):
                    self.eat()
                    while self.at("*") or self.at("&"):
                        self.eat()
                    name = self.eat()[1]
                    continue
                break
            self.eat(";")
            return seq(out) if out else None
        # expression statement
        lhs = self.e_un()
        if lhs[0] == "setter":
            self.eat(";")
            return ("assign", lhs[1], lhs[2])
        if lhs[0] == "condexpr":
            self.eat(";")
            return None
        if self.peek()[1] in ("=", "+=", "-=", "*=", "/=") and lhs[0] == "var":
            op = self.eat()[1]
            if self.peek()[0] == "str":
                while self.peek()[0] == "str":
                    self.eat()
                rhs = ("var", "<string>")
            else:
                rhs = self.e_add_or_cond()
            if rhs[0] == "setter":
                raise Refuse("setter on rhs")
            if self.at("=") and op == "=" and rhs[0] == "var":
                # a = b = e;   is transliterated as   b = e; a = e;
                chain = [lhs[1], rhs[1]]
                self.eat("=")
                r2 = self.e_add_or_cond()
                while self.at("=") and r2[0] == "var":
                    chain.append(r2[1])
                    self.eat("=")
                    r2 = self.e_add_or_cond()
                if r2[0] in ("condexpr", "setter"):
                    raise Refuse("unsupported chained assignment")
                self.eat(";")
                return seq([("assign", v, r2) for v in reversed(chain)])
            if self.at("?") and op == "=":
                # v = c ? a : b;   is transliterated as   if (c) v = a; else v = b;
                c = rhs[1] if rhs[0] == "condexpr" else ("nz", rhs)
                self.eat("?")
                a = self.e_add()
                self.eat(":")
                b = self.e_add()
                self.eat(";")
                return ("if", c, ("assign", lhs[1], a), ("assign", lhs[1], b))
            self.eat(";")
            if rhs[0] == "condexpr":
                raise Refuse("boolean assigned to " + lhs[1])
            if op != "=":
                rhs = ({"+=": "add", "-=": "sub", "*=": "mul", "/=": "div"}[op], lhs, rhs)
            return ("assign", lhs[1], rhs)
        if self.at("++") or self.at("--"):
            op = self.eat()[1]
            self.eat(";")
            return ("assign", lhs[1], ("add" if op == "++" else "sub", lhs, ("num", Fraction(1))))
        if lhs[0] == "var" and lhs[1].endswith(")"):
            self.eat(";")
            nm = lhs[1][:lhs[1].index("(")]
            if nm in PRINT_CALLS:
                return None
            args = self.last_call[1] if getattr(self, "last_call", None) and self.last_call[0] == nm else []
            return ("call", nm, args)
        raise Refuse("unsupported statement near " + " ".join(x[1] for x in self.t[max(0, self.p - 6):self.p + 6]))


def argnames(args):
    out = []
    for a in args:
        if a[0] == "var":
            out.append(a[1])
        elif a[0] == "num":
            out.append(str(a[1]))
        else:
            return ""
    return ",".join(out)


def seq(ss):
    ss = [s for s in ss if s is not None and s != ("skip",)]
    if not ss:
        return ("skip",)
    r = ss[-1]
    for s in reversed(ss[:-1]):
        r = ("seq", s, r)
    return r


# ----------------------------------------------------------------------------- helpers on the AST

def subst_expr(e, env):
    k = e[0]
    if k == "var":
        return env.get(e[1], e)
    if k == "num":
        return e
    if k in ("add", "sub", "mul", "div"):
        return (k, subst_expr(e[1], env), subst_expr(e[2], env))
    if k in ("neg", "abs"):
        return (k, subst_expr(e[1], env))
    if k == "fun1":
        return (k, e[1], subst_expr(e[2], env))
    if k == "fun2":
        return (k, e[1], subst_expr(e[2], env), subst_expr(e[3], env))
    raise Refuse("subst_expr: " + repr(e))


def subst_cond(c, env):
    k = c[0]
    if k in ("lt", "le", "gt", "ge", "eq", "ne"):
        return (k, subst_expr(c[1], env), subst_expr(c[2], env))
    if k in ("and", "or"):
        return (k, subst_cond(c[1], env), subst_cond(c[2], env))
    if k == "not":
        return (k, subst_cond(c[1], env))
    if k == "nz":
        return (k, subst_expr(c[1], env))
    if k == "equal":
        return (k, subst_expr(c[1], env), subst_expr(c[2], env), subst_expr(c[3], env))
    raise Refuse("subst_cond: " + repr(c))


def subst_stmt(s, env):
    k = s[0]
    if k in ("skip", "break", "continue", "call"):
        return s
    if k == "seq":
        return (k, subst_stmt(s[1], env), subst_stmt(s[2], env))
    if k == "if":
        return (k, subst_cond(s[1], env), subst_stmt(s[2], env), subst_stmt(s[3], env))
    if k == "assign":
        return (k, s[1], subst_expr(s[2], env))
    if k == "return":
        return (k, subst_expr(s[1], env))
    if k == "loop":
        return (k, subst_stmt(s[1], env))
    raise Refuse("subst_stmt: " + repr(s))


# ----------------------------------------------------------------------------- Coq printing

def coq_q(fr):
    fr = Fraction(fr)
    if fr.numerator < 0:
        return "((%d) # %d)" % (fr.numerator, fr.denominator)
    return "(%d # %d)" % (fr.numerator, fr.denominator)


def coq_expr(e):
    k = e[0]
    if k == "var":
        return '(EVar "%s")' % e[1]
    if k == "num":
        return "(ENum %s)" % coq_q(e[1])
    if k in ("add", "sub", "mul", "div"):
        return "(E%s %s %s)" % (k.capitalize(), coq_expr(e[1]), coq_expr(e[2]))
    if k == "neg":
        return "(ENeg %s)" % coq_expr(e[1])
    if k == "abs":
        return "(EAbs %s)" % coq_expr(e[1])
    if k == "fun1":
        return '(EFun1 "%s" %s)' % (e[1], coq_expr(e[2]))
    if k == "fun2":
        return '(EFun2 "%s" %s %s)' % (e[1], coq_expr(e[2]), coq_expr(e[3]))
    raise Refuse("coq_expr: " + repr(e))


def coq_cond(c):
    k = c[0]
    if k in ("lt", "le", "gt", "ge", "eq", "ne"):
        return "(C%s %s %s)" % (k.capitalize(), coq_expr(c[1]), coq_expr(c[2]))
    if k in ("and", "or"):
        return "(C%s %s %s)" % (k.capitalize(), coq_cond(c[1]), coq_cond(c[2]))
    if k == "not":
        return "(CNot %s)" % coq_cond(c[1])
    if k == "nz":
        return "(CNz %s)" % coq_expr(c[1])
    if k == "equal":
        return "(CEqual %s %s %s)" % (coq_expr(c[1]), coq_expr(c[2]), coq_expr(c[3]))
    raise Refuse("coq_cond: " + repr(c))


def coq_stmt(s, ind=2):
    k = s[0]
    pad = " " * ind
    if k == "skip":
        return "SSkip"
    if k == "break":
        return "SBreak"
    if k == "continue":
        return "SContinue"
    if k == "call":
        return '(SCall "%s")' % s[1]
    if k == "seq":
        return "(SSeq %s\n%s%s)" % (coq_stmt(s[1], ind + 1), pad, coq_stmt(s[2], ind + 1))
    if k == "if":
        return "(SIf %s\n%s%s\n%s%s)" % (coq_cond(s[1]), pad, coq_stmt(s[2], ind + 1), pad, coq_stmt(s[3], ind + 1))
    if k == "assign":
        return '(SAssign "%s" %s)' % (s[1], coq_expr(s[2]))
    if k == "return":
        return "(SReturn %s)" % coq_expr(s[1])
    if k == "loop":
        return "(SLoop %s)" % coq_stmt(s[1], ind + 1)
    raise Refuse("coq_stmt: " + repr(s))
