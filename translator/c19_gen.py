"""C19 translator back end: regenerates coq/Gen/Gen_C19_gases.v from the CURRENT /repo sources:

  prep.cpp   Phreeqc::calc_PR(phase_ptrs, P, TK, V_m)   (prefix p_)  - Peng-Robinson used by calc_gas_pressures, tidy, pure phases
  gases.cpp  Phreeqc::calc_PR()                          (prefix g_)  - the copy used by the numerical fixed-volume method
  model.cpp  Phreeqc::calc_gas_pressures                 (prefix cg_) - equilibrium partial pressures, moles of each gas
  gases.cpp  Phreeqc::calc_fixed_volume_gas_pressures    (prefix fv_)
  model.cpp  Phreeqc::mb_gases                           (mb_)        - existence test of a fixed-pressure gas phase
  gases.cpp  Phreeqc::calc_gas_binary_parameter          (bip_)       - built-in (1 - k_ij) factors

Only syntax is transliterated (translator/leaf.py for real expressions; the small walkers below for comparison guards and
for the C conditional operator of the ln(phi) clamp).  Which formula each right-hand side is, is decided by the theorems of
coq/C19/*.v.  Fixed variable orders make the theorems independent of the order in which the code mentions its operands."""
import os, sys
_HERE = os.path.dirname(os.path.abspath(__file__))
sys.path.insert(0, os.path.join(os.path.dirname(_HERE), "lib"))
sys.path.insert(0, os.path.dirname(_HERE))
import vlib
from translator import leaf
from translator.leaf import LeafError

PH = "phase_ptr->"
PH1 = "phase_ptr1->"
BIP = "bip(i,j)"
BIP_RENDERED = "calc_gas_binary_parameter(<CXXConstructExpr>,<CXXConstructExpr>)"


def bip_call_args(fn):
    """the (rendered) arguments of every call of calc_gas_binary_parameter in fn, looking through the std::string
    temporaries constructed from the `const char *` names"""
    out = []

    def deep(n):
        n = leaf._strip(n)
        while n.get("kind") in ("CXXConstructExpr", "CXXBindTemporaryExpr", "MaterializeTemporaryExpr", "ImplicitCastExpr", "CXXFunctionalCastExpr") and n.get("inner"):
            n = leaf._strip(n["inner"][0])
        return leaf.render(n)

    def walk(n):
        if isinstance(n, dict):
            if n.get("kind") == "CXXMemberCallExpr":
                callee = leaf._strip(n["inner"][0])
                if callee.get("kind") == "MemberExpr" and callee.get("name") == "calc_gas_binary_parameter":
                    out.append(tuple(deep(a) for a in n["inner"][1:]))
            for c in n.get("inner", []) or []:
                walk(c)
    walk(fn.decl)
    return out


# ------------------------------------------------------------------------------------------------ guards / conditionals
_CMP = {"<": "BLt", "<=": "BLe", ">": "BGt", ">=": "BGe", "==": "BEq", "!=": "BNe"}


def tr_bool(tr, n):
    """clang expression node of boolean type -> Coq bexpr text (comparisons of real expressions, && || !)"""
    n = leaf._strip(n)
    k = n.get("kind")
    if k == "BinaryOperator":
        op = n.get("opcode")
        if op in _CMP:
            return "(%s %s %s)" % (_CMP[op], leaf.coq_of(tr.tr(n["inner"][0])), leaf.coq_of(tr.tr(n["inner"][1])))
        if op == "&&":
            return "(BAnd %s %s)" % (tr_bool(tr, n["inner"][0]), tr_bool(tr, n["inner"][1]))
        if op == "||":
            return "(BOr %s %s)" % (tr_bool(tr, n["inner"][0]), tr_bool(tr, n["inner"][1]))
    if k == "UnaryOperator" and n.get("opcode") == "!":
        return "(BNot %s)" % tr_bool(tr, n["inner"][0])
    if k in ("MemberExpr", "DeclRefExpr"):
        return "(BNe %s (Const (0 # 1)))" % leaf.coq_of(tr.tr(n))          # C truthiness of a bool / number
    raise LeafError("unsupported guard expression: " + leaf.render(n))


def tr_cond(tr, n):
    """expression possibly containing the conditional operator -> Coq cexpr text"""
    s = leaf._strip(n)
    if s.get("kind") == "ConditionalOperator":
        c, a, b = s["inner"]
        return "(CIte %s %s %s)" % (tr_bool(tr, c), tr_cond(tr, a), tr_cond(tr, b))
    return "(CE %s)" % leaf.coq_of(tr.tr(n))


def _local_refs(node, acc):
    if isinstance(node, dict):
        if node.get("kind") == "DeclRefExpr" and node.get("referencedDecl", {}).get("kind") == "VarDecl":
            acc.add(leaf._norm_name(node["referencedDecl"].get("name", "?")))
        if node.get("kind") == "MemberExpr" and node.get("inner") and leaf._strip(node["inner"][0]).get("kind") == "CXXThisExpr":
            acc.add(leaf._norm_name(node.get("name", "?")))      # data member of Phreeqc used as a scratch variable (b2, R_TK ...)
        for c in node.get("inner", []) or []:
            _local_refs(c, acc)


def rd_inline(fn, site, keep):
    """reaching-definition inlining: every LOCAL variable mentioned by the right-hand side (transitively) that is not one of
    the theorem's named operands is replaced by the last assignment to it that precedes the statement in source order.
    Introducing, removing or renaming a temporary is therefore invisible to the theorems."""
    keep = {leaf._norm_name(k) for k in keep}
    inl = {}

    def visit(s):
        names = set()
        _local_refs(s.node, names)
        if s.kind == "compound" and s.prev is not None:
            visit(s.prev)
        for nm in sorted(names):
            if nm in keep or nm in inl:
                continue
            cands = [t for t in fn.sites if t.lhs == nm]
            before = [t for t in cands if t.order < s.order]
            if not before:
                continue
            d = before[-1]
            inl[nm] = {"nth": cands.index(d)}
            visit(d)
    visit(site)
    return inl


def mk(fn, name, vars_, consts=None, increment=False, **sel):
    sel2 = dict(sel)
    if increment:
        sel2.setdefault("kind", "compound")
    site = fn.select(**sel2)
    inl = rd_inline(fn, site, vars_)
    return fn.leaf(name, vars=list(vars_), inline=inl, consts=consts or {}, allow_new_vars=False, increment=increment, **sel)


def cs(s):
    return '"' + s.replace('"', '""') + '"'


def strlist(l):
    return "[%s]" % "; ".join(cs(x) for x in l)


def if_node_of(fn, cond_text):
    """find the IfStmt whose rendered condition equals cond_text (whitespace-insensitive); returns its condition node"""
    want = cond_text.replace(" ", "")
    found = []

    def walk(n):
        if isinstance(n, dict):
            if n.get("kind") == "IfStmt" and n.get("inner"):
                if leaf.render(n["inner"][0]).replace(" ", "") == want:
                    found.append(n["inner"][0])
            for c in n.get("inner", []) or []:
                walk(c)
    walk(fn.decl)
    return found


# ------------------------------------------------------------------------------------------------ Peng-Robinson core
def pr_leaves(fn, pre, vbranch, pbranch):
    """leaves of one copy of calc_PR.  vbranch / pbranch: the if-conditions selecting the `volume given` / `pressure given`
    branches in that copy."""
    L = []

    def lf(name, vars_, **sel):
        L.append(mk(fn, pre + name, vars_, **sel))
    crit = ["R", PH + "t_c", PH + "p_c"]
    lf("R", [], lhs="R", kind="init")
    lf("pr_a", crit, lhs=PH + "pr_a")
    lf("pr_b", crit, lhs=PH + "pr_b")
    for k in (0, 1):
        lf("alpha%d" % k, ["TK", PH + "t_c", PH + "omega"], lhs=PH + "pr_alpha", nth=k)
    lf("bsum_inc", [PH + "fraction_x", PH + "pr_b"], increment=True, lhs="b_sum")
    L.append(mk(fn, pre + "aa", [PH + "pr_a", PH + "pr_alpha", PH1 + "pr_a", PH1 + "pr_alpha", BIP],
                consts={BIP_RENDERED: leaf.Var(4)}, lhs="a_aa", kind="compound"))
    args = bip_call_args(fn)
    if args != [("phase_ptr->name", "phase_ptr1->name")]:
        raise LeafError("%scalc_PR: binary interaction factor is not taken for the pair (i, j): %r" % (pre, args))
    lf("aasum_inc", [PH + "fraction_x", PH1 + "fraction_x", "a_aa"], increment=True, lhs="a_aa_sum")
    lf("aasum2_inc", [PH1 + "fraction_x", "a_aa"], increment=True, lhs="a_aa_sum2")
    lf("aasum2_store", ["a_aa_sum2"], lhs=PH + "pr_aa_sum2")
    lf("x_frac", [PH + "moles_x" if pre == "p_" else "gas_unknowns[i]->moles", "m_sum"], lhs=PH + "fraction_x", nth=-1)   # x_i = n_i / sum n
    # pressure from the molar volume; P at the spinodal volume v1 (three-root region); cubic coefficients in both branches
    lf("P", ["R_TK", "V_m", "b_sum", "a_aa_sum"], lhs="P", under=[vbranch], nth=(0 if pre == "p_" else 1))
    lf("P_v1", ["R_TK", "v1", "b_sum", "a_aa_sum"], lhs="P", under=[vbranch, "disct > 0"])
    for br, tag in ((vbranch, "v"), (pbranch, "p")):
        for k in (1, 2, 3):
            lf("r3%d_%s" % (k, tag), ["b_sum", "R_TK", "a_aa_sum", "P"], lhs="r3[%d]" % k, under=[br])
    lf("disct", ["r3[1]", "r3[2]", "r3[3]"], lhs="disct")
    # depressed cubic t^3 + rp t + rq (pressure branch)
    lf("rp", ["r3[1]", "r3[2]", "r3[3]"], lhs="rp")
    lf("rq", ["r3[1]", "r3[2]", "r3[3]"], lhs="rq")
    lf("rzc", ["rp", "rq"], lhs="rz", nth=0)
    # Cardano branches (one real root)
    lf("Vm_card1", ["ri", "rq", "r3[1]", "one_3"], lhs="V_m", under=[pbranch, "rz >= 0", "ri + rq / 2 <= 0"])
    lf("ri_card2", ["ri", "rq", "one_3"], lhs="ri", under=[pbranch, "rz >= 0", "!(ri + rq / 2 <= 0)"])
    lf("Vm_card2", ["ri", "rp", "r3[1]"], lhs="V_m", under=[pbranch, "rz >= 0", "!(ri + rq / 2 <= 0)"])
    lf("one_3", [], lhs="one_3", kind="init")
    # trigonometric branch (three real roots): ri = sqrt(-rp^3/27); ri1 = acos(-rq/2/ri); V_m = 2 ri^(1/3) cos(ri1/3) - r1/3
    lf("ri_trig", ["rp"], lhs="ri", under=[pbranch, "!(rz >= 0)"])
    lf("Vm_trig", ["ri", "one_3", "ri1", "r3[1]"], lhs="V_m", under=[pbranch, "!(rz >= 0)"])
    s_acos = fn.select(lhs="ri1", under=[pbranch, "!(rz >= 0)"])
    call = leaf._strip(s_acos.node)
    callee = leaf._strip(call["inner"][0]) if call.get("kind") == "CallExpr" else {}
    if callee.get("referencedDecl", {}).get("name") not in ("acos", "acosl") or len(call.get("inner", [])) != 2:
        raise LeafError("%scalc_PR: ri1 is not acos(<expr>)" % pre)
    class _A:                       # pseudo-site: the argument of acos
        node, kind, prev, order = call["inner"][1], "arg", None, s_acos.order
    tr_a = leaf._Translator(fn, ["rq", "ri"], rd_inline(fn, _A, ["rq", "ri"]), {}, False)
    acos_arg = "Definition %sacos_arg : rexpr :=\n  %s.\n" % (pre, leaf.coq_of(tr_a.tr(call["inner"][1])))
    # fugacity coefficients
    lf("pr_p", [PH + "fraction_x", "P"], lhs=PH + "pr_p", nth=-1)
    lf("Z", ["P", "V_m", "R_TK"], lhs="rz", nth=-1)
    lf("A", ["a_aa_sum", "P", "R_TK"], lhs="A")
    lf("B", ["b_sum", "P", "R_TK"], lhs="B")
    lf("lnphi", ["P", "V_m", "R_TK", "b_sum", "a_aa_sum", PH + "pr_b", PH + "pr_aa_sum2"], lhs="phi", under=["rz > B"], nth=0)
    lf("lnphi_else", [], lhs="phi", under=["!(rz > B)"])
    lf("pr_phi", ["phi"], lhs=PH + "pr_phi", nth=-1)
    lf("si_f", ["phi", "LOG_10"], lhs=PH + "pr_si_f", nth=-1)
    # the clamp  phi = (phi > hi ? hi : (phi < lo ? lo : phi))  and the guard  rz > B
    site = fn.select(lhs="phi", under=["rz > B"], nth=1)
    tr = leaf._Translator(fn, ["phi"], {}, {}, False)
    extra = acos_arg + "Definition %slnphi_clamp : cexpr :=\n  %s.\n" % (pre, tr_cond(tr, site.node))
    conds = if_node_of(fn, "rz > B")
    if len(conds) != 1:
        raise LeafError("%scalc_PR: expected exactly one `if (rz > B)`" % pre)
    gsite = fn.select(lhs="phi", under=["rz > B"], nth=0)
    class _G:                       # pseudo-site for the condition expression (placed just before the first guarded statement)
        node, kind, prev, order = conds[0], "cond", None, gsite.order
    tr = leaf._Translator(fn, ["P", "V_m", "R_TK", "b_sum"], rd_inline(fn, _G, ["P", "V_m", "R_TK", "b_sum"]), {}, False)
    extra += "Definition %slnphi_guard : bexpr :=\n  %s.\n" % (pre, tr_bool(tr, conds[0]))
    # alpha(T) is recomputed whenever the temperature differs from the one it was computed for; a / b only when not yet set
    sa = fn.select(lhs=PH + "pr_alpha", nth=1)
    ac = [c for t, c in sa.conds if t == "if"]
    if len(ac) != 1:
        raise LeafError("%scalc_PR: the refresh of pr_alpha sits under %r" % (pre, ac))
    nodes = if_node_of(fn, ac[0])
    if len(nodes) != 1:
        raise LeafError("%scalc_PR: refresh guard of pr_alpha not found" % pre)
    tr = leaf._Translator(fn, [PH + "pr_tk", "TK"], {}, {}, False)
    extra += "Definition %salpha_refresh_guard : bexpr :=\n  %s.\n" % (pre, tr_bool(tr, nodes[0]))
    st = [s_ for s_ in fn.sites if s_.lhs == leaf._norm_name(PH + "pr_tk")]
    extra += "Definition %spr_tk_stores : list (list string * string) := [%s].\n" % (
        pre, "; ".join("(%s, %s)" % (strlist([c for t, c in s_.conds if t == "if"]), cs(leaf.render(s_.node))) for s_ in st))
    # shape facts: every assignment to pr_phi / pr_si_f / pr_p, and the conditions they sit under
    for lhs in ("pr_phi", "pr_si_f", "pr_p"):
        sites = [s for s in fn.sites if s.lhs == leaf._norm_name(PH + lhs)]
        extra += "Definition %s%s_site_conds : list (list string) := [%s].\n" % (
            pre, lhs, "; ".join(strlist([c for t, c in s.conds if t == "if"]) for s in sites))
    return L, extra


def gen_pr():
    fp = leaf.load_function(os.path.join(vlib.REPO, "src/phreeqcpp/prep.cpp"), "calc_PR")
    fg = leaf.load_function(os.path.join(vlib.REPO, "src/phreeqcpp/gases.cpp"), "calc_PR")
    Lp, ep = pr_leaves(fp, "p_", "V_m", "!(V_m)")
    Lg, eg = pr_leaves(fg, "g_", "gas_phase_ptr->Get_type() == GP_VOLUME", "!(gas_phase_ptr->Get_type() == GP_VOLUME)")
    return Lp + Lg, ep + eg


# ------------------------------------------------------------------------------------------------ equilibrium partial pressures
def gen_pressures():
    L = []
    fc = leaf.load_function(os.path.join(vlib.REPO, "src/phreeqcpp/model.cpp"), "calc_gas_pressures")
    ff = leaf.load_function(os.path.join(vlib.REPO, "src/phreeqcpp/gases.cpp"), "calc_fixed_volume_gas_pressures")
    TP, VOL, VM = "gas_phase_ptr->Get_total_p()", "gas_phase_ptr->Get_volume()", "gas_phase_ptr->Get_v_m()"
    for fn, pre in ((fc, "cg_"), (ff, "fv_")):
        def lf(name, vars_, inline=None, **sel):
            L.append(fn.leaf(pre + name, vars=vars_, inline=inline or {}, allow_new_vars=False, **sel))
        lf("lp0", [PH + "lk"], lhs="lp", nth=0)
        L.append(fn.leaf(pre + "lp_inc", vars=["rxn_ptr->s->la", "rxn_ptr->coef"], allow_new_vars=False, increment=True, lhs="lp", nth=0))
        lf("p_soln", ["LOG_10", "lp", PH + "pr_si_f"], lhs=PH + "p_soln_x", under=[PH + "in == 1"])
        lf("moles_ideal", [PH + "p_soln_x", VOL, "tk_x"], lhs=PH + "moles_x", under=["!(pr_done)"])
        L.append(_setter_arg(fn, pre + "totp_ideal", "Set_total_p", ["!(pr_done)"], [TP, PH + "p_soln_x"]))
    # fixed pressure: moles and mole fraction from the equilibrium partial pressure
    def lfc(name, vars_, inline=None, **sel):
        L.append(fc.leaf("cg_" + name, vars=vars_, inline=inline or {}, allow_new_vars=False, **sel))
    GP = "gas_phase_ptr->Get_type() == GP_PRESSURE"
    lfc("moles_fp", [PH + "p_soln_x", "gas_unknown->moles", TP], lhs=PH + "moles_x", under=[GP, PH + "in == 1"])
    lfc("frac_fp", [PH + "p_soln_x", "gas_unknown->moles", TP], {PH + "moles_x": {"under": [GP, PH + "in == 1"]}},
        lhs=PH + "fraction_x", under=[GP, PH + "in == 1"])
    lfc("moles_pr_fv", [PH + "p_soln_x", TP, VOL, "V_m"], lhs="lp", under=["pr_done"], kind="assign")
    lfc("Vm0", [VOL, "gas_phase_ptr->Get_total_moles()"], lhs="V_m", nth=0, under=["PR", "gas_phase_ptr->Get_total_moles() > 0"])
    L.append(ff.leaf("fv_moles_pr", vars=[PH + "p_soln_x", TP, VOL, VM], allow_new_vars=False, lhs="lp", under=["pr_done"]))
    return L


def _setter_arg(fn, name, method, under, vars_):
    """leaf for the argument of a setter call `gas_phase_ptr->Set_xxx(expr)` under the given conditions"""
    want = [u.replace(" ", "") for u in under]
    hits = []

    def walk(n, conds):
        if not isinstance(n, dict):
            return
        k = n.get("kind")
        if k == "IfStmt" and n.get("inner"):
            inner = n["inner"]
            c = leaf.render(inner[0]).replace(" ", "")
            if len(inner) > 1:
                walk(inner[1], conds + [c])
            if len(inner) > 2:
                walk(inner[2], conds + ["!(" + c + ")"])
            return
        if k == "CXXMemberCallExpr":
            callee = leaf._strip(n["inner"][0])
            if callee.get("kind") == "MemberExpr" and callee.get("name") == method and all(u in conds for u in want):
                hits.append(n["inner"][1])
        for c in n.get("inner", []) or []:
            walk(c, conds)
    walk(fn.decl, [])
    if len(hits) != 1:
        raise LeafError("%s: %d calls of %s under %s" % (fn.name, len(hits), method, under))
    tr = leaf._Translator(fn, list(vars_), {}, {}, False)
    e = tr.tr(hits[0])

    class _S:
        lhs, kind, cases, conds = method + "(...)", "call-arg", frozenset(), tuple(("if", u) for u in under)
    return leaf.Leaf(name, e, tr.vars, list(under), [], fn, _S)


# ------------------------------------------------------------------------------------------------ initial moles (tidy.cpp)
def gen_tidy():
    fn = leaf.load_function(os.path.join(vlib.REPO, "src/phreeqcpp/tidy.cpp"), "tidy_gas_phase")
    PRD, VOL, TMP = "gas_phase_ptr->Get_gas_comps()[j].Get_p_read()", "gas_phase_ptr->Get_volume()", "gas_phase_ptr->Get_temperature()"
    GP = "gas_phase_ptr->Get_type() == GP_PRESSURE"
    L = [mk(fn, "td_moles_ideal_fp", [PRD, VOL, TMP], lhs="moles", kind="init", under=[GP, "!PR"]),
         mk(fn, "td_moles_ideal_fv", [PRD, VOL, TMP], lhs="moles", kind="init", under=["!(" + GP + ")", "!PR"]),
         mk(fn, "td_P_inc_fp", [PRD], increment=True, lhs="P", under=[GP]),
         mk(fn, "td_P_inc_fv", [PRD], increment=True, lhs="P", under=["!(" + GP + ")"]),
         mk(fn, "td_x", ["gc[j_PR].Get_p_read()", "P"], lhs="phase_ptr->moles_x"),
         _setter_arg(fn, "td_moles_pr", "Set_moles", ["PR&&P>0", "phase_ptr", "!(gc[j_PR].Get_p_read()==0)"], ["phase_ptr->moles_x", VOL, "V_m"])]
    return L


# ------------------------------------------------------------------------------------------------ phase (re)initialisation
def _calls_under(fn, callee_name):
    """[(conditions, rendered call)] for every call of a function / method named callee_name inside fn"""
    out = []

    def walk(n, conds):
        if not isinstance(n, dict):
            return
        k = n.get("kind")
        if k == "IfStmt" and n.get("inner"):
            inner = n["inner"]
            c = leaf.render(inner[0])
            if len(inner) > 1:
                walk(inner[1], conds + [c])
            if len(inner) > 2:
                walk(inner[2], conds + ["!(" + c + ")"])
            return
        if k in ("CallExpr", "CXXMemberCallExpr"):
            callee = leaf._strip(n["inner"][0])
            nm = callee.get("name") or callee.get("referencedDecl", {}).get("name")
            if nm == callee_name:
                out.append((list(conds), leaf.render(n)))
        for c in n.get("inner", []) or []:
            walk(c, conds)
    walk(fn.decl, [])
    return out


def gen_phase_init():
    """structures.cpp: phase_init is what (re)initialises a phase: phase_alloc (new phase) and phase_store (EXISTING phase that a
    PHASES block redefines) both call it.  The cached Peng-Robinson state (pr_si_f = log10 phi is read by the gas-pressure code for
    ideal gases too) must be reset there.  Emits the constant stores of phase_init and where it is called from."""
    src = os.path.join(vlib.REPO, "src/phreeqcpp/structures.cpp")
    fn = leaf.load_function(src, "phase_init")
    consts, others = [], []
    for s_ in fn.sites:
        if not s_.lhs.startswith("phase_ptr->") or s_.kind != "assign" or any(t == "loop" for t, c in s_.conds) \
                or [c for t, c in s_.conds if t == "if"]:
            continue
        field = s_.lhs[len("phase_ptr->"):]
        try:
            e = leaf._Translator(fn, [], {}, {}, False).tr(s_.node)
        except LeafError:
            e = None
        if e is not None and e[0] == 'const':
            consts.append((field, e[1]))
        elif e is not None and e[0] == 'neg' and e[1][0] == 'const':
            consts.append((field, -e[1][1]))
        else:
            others.append((field, leaf.render(s_.node)))
    txt = "Definition phase_init_consts : list (string * Q) := [\n  %s].\n" % ";\n  ".join(
        "(%s, %s)" % (cs(f), leaf.coq_Q(v)) for f, v in consts)
    txt += "Definition phase_init_others : list (string * string) := [%s].\n" % "; ".join("(%s, %s)" % (cs(f), cs(v)) for f, v in others)
    fs = leaf.load_function(src, "phase_store")
    fa = leaf.load_function(src, "phase_alloc")
    txt += "Definition phase_store_reinit_calls : list (list string * string) := [%s].\n" % "; ".join(
        "(%s, %s)" % (strlist(c), cs(r)) for c, r in _calls_under(fs, "phase_init"))
    txt += "Definition phase_alloc_init_calls : nat := %d.\n" % len(_calls_under(fa, "phase_init"))
    return txt


# ------------------------------------------------------------------------------------------------ caller-side cache of phi
def gen_phi_cache():
    """prep.cpp: adjust_setup_pure_phases (gas as EQUILIBRIUM_PHASES) and adjust_setup_solution (gas as a solution phase boundary)
    call calc_PR(phase_ptrs, p, t, 0) only when the phase's cached Peng-Robinson state is not valid for (p, t).  Emits the guard of
    each call as a bexpr over [pr_in; p; pr_p; t; pr_tk] and the temperature handed to calc_PR."""
    src = os.path.join(vlib.REPO, "src/phreeqcpp/prep.cpp")
    txt = ""
    for fname, pre in (("adjust_setup_pure_phases", "pp_"), ("adjust_setup_solution", "sb_")):
        fn = leaf.load_function(src, fname)
        calls = [(c, r) for c, r in _calls_under(fn, "calc_PR")]
        if len(calls) != 1:
            raise LeafError("%s: expected exactly one call of calc_PR, found %d" % (fname, len(calls)))
        conds, rendered = calls[0]
        nodes = if_node_of(fn, conds[-1])
        if len(nodes) != 1:
            raise LeafError("%s: guard of calc_PR not found" % fname)
        tr = leaf._Translator(fn, [PH + "pr_in", "p", PH + "pr_p", "t", PH + "pr_tk"], {}, {}, False)
        txt += "Definition %sphi_cache_guard : bexpr :=\n  %s.\n" % (pre, tr_bool(tr, nodes[0]))
        txt += "Definition %scalc_PR_call : string := %s.\n" % (pre, cs(rendered.replace("<CXXConstructExpr>", "phase_ptrs")))
        txt += "Definition %scalc_PR_outer_conds : list string := %s.\n" % (pre, strlist(conds[:-1]))
    return txt


# ------------------------------------------------------------------------------------------------ reader of GAS_BINARY_PARAMETERS
def gen_bip_reader():
    """read.cpp: read_gas_binary_parameters.  calc_PR looks k_ij up as (name_i, name_j) in a double loop, so the reader must keep
    the table symmetric under ANY sequence of (re)definitions: both orderings overwritten by assignment.  Emits the stores
    `gas_binary_parameters[<key>] = <value>` as (first name, second name, value) with local pair variables resolved, and every
    other mutating member call on the table."""
    fn = leaf.load_function(os.path.join(vlib.REPO, "src/phreeqcpp/read.cpp"), "read_gas_binary_parameters")

    def names_in(n, acc):
        if isinstance(n, dict):
            if n.get("kind") == "DeclRefExpr" and n.get("referencedDecl", {}).get("kind") == "VarDecl":
                nm = n["referencedDecl"].get("name", "?")
                inits = [t for t in fn.sites if t.lhs == nm and t.kind == "init"]
                # a local std::pair variable: replace it by the names it was constructed from
                if inits and nm not in ("gas1", "gas2") and "pair" in (n.get("type", {}).get("qualType", "")):
                    names_in(inits[0].node, acc)
                else:
                    acc.append(nm)
            for c in n.get("inner", []) or []:
                names_in(c, acc)
    stores, other = [], []

    def walk(n):
        if not isinstance(n, dict):
            return
        k = n.get("kind")
        if k == "BinaryOperator" and n.get("opcode") == "=":
            l = leaf._strip(n["inner"][0])
            if l.get("kind") == "CXXOperatorCallExpr" and leaf.render(l).startswith("gas_binary_parameters["):
                acc = []
                for a in l["inner"][2:]:
                    names_in(a, acc)
                stores.append((acc, leaf.render(n["inner"][1])))
        if k == "CXXMemberCallExpr":
            callee = leaf._strip(n["inner"][0])
            if callee.get("kind") == "MemberExpr" and callee.get("inner") and "gas_binary_parameters" in leaf.render(callee["inner"][0]) \
                    and callee.get("name") in ("insert", "emplace", "emplace_hint", "erase", "clear", "swap", "try_emplace", "insert_or_assign", "merge"):
                other.append(callee.get("name"))
        for c in n.get("inner", []) or []:
            walk(c)
    walk(fn.decl)
    txt = "Definition bip_reader_stores : list (string * string * string) := [%s].\n" % "; ".join(
        "(%s, %s, %s)" % (cs(a[0] if len(a) > 0 else "?"), cs(a[1] if len(a) > 1 else "?"), cs(v)) for a, v in stores)
    txt += "Definition bip_reader_other_mutations : list string := %s.\n" % strlist(other)
    return txt


# ------------------------------------------------------------------------------------------------ mb_gases
def gen_mb():
    fn = leaf.load_function(os.path.join(vlib.REPO, "src/phreeqcpp/model.cpp"), "mb_gases")
    sites = [s for s in fn.sites if s.lhs == "gas_in"]
    GP = "gas_phase_ptr->Get_type() == GP_PRESSURE"
    # the assignments gas_in = TRUE inside the fixed-pressure branch
    on = [s for s in sites if ("if", GP) in s.conds and leaf.render(s.node).strip() in ("1", "TRUE", "true")]
    if len(on) != 1:
        raise LeafError("mb_gases: expected exactly one `gas_in = TRUE` in the fixed-pressure branch, found %d" % len(on))
    conds = [c for t, c in on[0].conds if t == "if"]
    if len(conds) != 2:
        raise LeafError("mb_gases: unexpected nesting of the fixed-pressure test: %r" % (conds,))
    nodes = if_node_of(fn, conds[1])
    if len(nodes) != 1:
        raise LeafError("mb_gases: guard not found")
    tr = leaf._Translator(fn, ["gas_unknown->f", "gas_phase_ptr->Get_total_p()", "gas_unknown->moles", "MIN_TOTAL"], {}, {}, False)
    txt = "Definition mb_gas_in_guard : bexpr :=\n  %s.\n" % tr_bool(tr, nodes[0])
    first = sites[0]
    txt += "Definition mb_gas_in_initially_false : bool := %s.\n" % (
        "true" if (not first.conds and leaf.render(first.node).strip() in ("0", "FALSE", "false")) else "false")
    txt += "Definition mb_gas_in_sites_fixed_pressure : nat := %d.\n" % len([s for s in sites if ("if", GP) in s.conds])
    # MIN_TOTAL is a macro: take its value from the literal the preprocessor substituted (exact source spelling)
    return txt


# ------------------------------------------------------------------------------------------------ built-in binary factors
def gen_bip():
    """calc_gas_binary_parameter: the table lookup `f = 1.0 - it->second` and the built-in pairs (strcmp chains) as a list
    (name1-or-name2 literal, partner literal, factor)."""
    fn = leaf.load_function(os.path.join(vlib.REPO, "src/phreeqcpp/gases.cpp"), "calc_gas_binary_parameter")
    L = [fn.leaf("bip_from_table", vars=["->gas_pair_it->second"], allow_new_vars=False, lhs="f", under=["gas_pair_it != gas_binary_parameters.end()"]),
         fn.leaf("bip_default", vars=[], allow_new_vars=False, lhs="f", kind="init")]
    rows = []
    for s in fn.sites:
        if s.lhs != "f" or s.kind != "assign":
            continue
        conds = [c for t, c in s.conds if t == "if"]
        if "gas_pair_it != gas_binary_parameters.end()" in conds:
            continue
        import re
        lits = []
        for c in conds:
            lits.append(re.findall(r'strcmp\((name[12])\.c_str\(\), ("[^"]*")\)', c))
        tr = leaf._Translator(fn, [], {}, {}, False)
        val = tr.tr(s.node)
        if val[0] != 'const':
            raise LeafError("calc_gas_binary_parameter: non-literal built-in factor")
        outer = [l for l in lits if l and not conds[lits.index(l)].startswith("!(")]
        # outer condition names H2O(g) on one side, innermost positive condition lists the partner names
        pos = [c for c in conds if not c.startswith("!(") and "strcmp" in c]
        if len(pos) < 2:
            raise LeafError("calc_gas_binary_parameter: unexpected shape of the built-in table")
        o = re.findall(r'strcmp\((name[12])\.c_str\(\), ("[^"]*")\)', pos[0])
        for side, partner in re.findall(r'strcmp\((name[12])\.c_str\(\), ("[^"]*")\)', pos[-1]):
            rows.append((o[0][1], partner, val[1], o[0][0]))
    txt = "Definition bip_builtin : list (string * string * Q) := [\n  %s].\n" % ";\n  ".join(
        "(%s, %s, %s)" % (a, b, leaf.coq_Q(v)) for a, b, v, side in rows)
    return L, txt, rows


def generate():
    try:
        return _generate()
    except Exception as ex:
        # a refused translation must not leave the file generated from an OLDER source in place
        vlib.write_if_changed(os.path.join(vlib.COQ, "Gen", "Gen_C19_gases.v"),
                              "(* translator/c19_gen.py refused the current source: %s *)\n" % str(ex).replace("*)", "* )"))
        raise


def _generate():
    Lpr, extra_pr = gen_pr()
    Lcg = gen_pressures()
    extra_mb = gen_mb()
    Lb, extra_b, rows = gen_bip()
    leaves = Lpr + Lcg + gen_tidy() + Lb
    text = leaf.emit_coq(leaves, header="C19: calc_PR (prep.cpp, gases.cpp), calc_gas_pressures, mb_gases (model.cpp), "
                         "calc_fixed_volume_gas_pressures, calc_gas_binary_parameter (gases.cpp)", extra="")
    text = text.replace("From IPV Require Import Base.RExpr.", "From IPV Require Import Base.RExpr C19.BExpr.")
    text += "Open Scope Q_scope.\n" + extra_pr + extra_mb + extra_b + gen_phase_init() + gen_bip_reader() + gen_phi_cache()
    vlib.write_if_changed(os.path.join(vlib.COQ, "Gen", "Gen_C19_gases.v"), text)
    return {l.name: l for l in leaves}, rows


if __name__ == "__main__":
    L, rows = generate()
    for n, l in L.items():
        print(n, "=", leaf.pretty(l.expr, l.vars), "   ", l.conds)
    print(rows)
