"""C16 translator back end: regenerates coq/Gen/Gen_C16_gammas.v and coq/Gen/Gen_C16_aw.v from the CURRENT
/repo sources (model.cpp: Phreeqc::gammas; Phreeqc.cpp: Phreeqc::init (LOG_10); pitzer.cpp: pitzer; sit.cpp: sit).
Only syntax is transliterated (translator/leaf.py); which formula each right-hand side is, is decided by the
theorems of coq/C16/GammaProofs.v.  Fixed variable orders make the theorems independent of the order in which the
code happens to mention its operands."""
import os, sys
_HERE = os.path.dirname(os.path.abspath(__file__))
sys.path.insert(0, os.path.join(os.path.dirname(_HERE), "lib"))
sys.path.insert(0, os.path.dirname(_HERE))
import vlib
from translator import leaf

LG = "s_x[i]->lg"
DG = "s_x[i]->dg"
Z, DHA, DHB, MOLES = "s_x[i]->z", "s_x[i]->dha", "s_x[i]->dhb", "s_x[i]->moles"
EQUIV, ALK = "s_x[i]->equiv", "s_x[i]->alk"
CO2 = ["llnl_co2_coefs[%d]" % k for k in range(5)]
INL = {"a": {}, "b": {}, "muhalf": {}}                  # a = DH_A; b = DH_B; muhalf = sqrt(mu)
PITZ_EX = "!(!use.Get_exchange_ptr()->Get_pitzer_exchange_gammas())"

# name, selector, fixed variable order, inlined locals       (every entry becomes a Definition in Gen_C16_gammas.v)
GAMMA_LEAVES = [
    ("g0_lg", dict(lhs=LG, case=0), [DHB, "mu"], {}),
    ("g1_lg", dict(lhs=LG, case=1), [Z, "DH_A", "mu"], INL),
    ("g2_lg", dict(lhs=LG, case=2), [Z, "DH_A", "DH_B", DHA, DHB, "mu"], INL),
    ("g3_lg", dict(lhs=LG, case=3), [], {}),
    ("g5_lg", dict(lhs=LG, case=5), [], {}),
    ("g7_lg", dict(lhs=LG, case=7, under=["llnl_temp.size() > 0", "!(s_x[i]->z == 0)"]), [Z, "a_llnl", "b_llnl", "bdot_llnl", DHA, "mu"], {"muhalf": {}}),
    ("g7_lg_z0", dict(lhs=LG, case=7, under=["llnl_temp.size() > 0", "s_x[i]->z == 0"]), [], {}),
    ("g8_lg", dict(lhs=LG, case=8, under=["llnl_temp.size() > 0"]), CO2 + ["tk_x", "mu", "LOG_10"], {"log_g_co2": {"nth": -1}}),
    ("g9_lg", dict(lhs=LG, case=9), ["s_h2o->la", "LOG_10", "gfw_water"], {}),
    # exchange species (case 4), Pitzer-exchange-gammas branch: coef * (ion model) + log10(|equiv| / CEC)
    ("g4_lg_davies", dict(lhs=LG, case=4, under=[PITZ_EX, "s_x[i]->exch_gflag == 1 && s_x[i]->alk > 0"]),
     ["coef", "z", "DH_A", "mu", EQUIV, ALK], INL),
    ("g4_lg_dh", dict(lhs=LG, case=4, under=[PITZ_EX, "s_x[i]->exch_gflag == 2 && s_x[i]->alk > 0"]),
     ["coef", "z", "DH_A", "DH_B", DHA, DHB, "mu", EQUIV, ALK], INL),
    ("g4_lg_llnl", dict(lhs=LG, case=4, under=[PITZ_EX, "s_x[i]->exch_gflag == 7 && s_x[i]->alk > 0", "llnl_temp.size() > 0"]),
     ["coef", "z", "a_llnl", "b_llnl", "bdot_llnl", DHA, "mu", EQUIV, ALK], {"muhalf": {}}),
    ("g4_lg_plain", dict(lhs=LG, case=4, under=["!use.Get_exchange_ptr()->Get_pitzer_exchange_gammas()", "!(s_x[i]->primary != NULL)", "!(s_x[i]->alk <= 0)"]),
     [EQUIV, ALK], {}),
    # surface species (case 6)
    ("g6_lg", dict(lhs=LG, case=6, under=["s_x[i]->alk > 0"]), ["equiv", ALK], {}),
    # moles * d(ln gamma)/d mu terms that feed the Jacobian
    ("g0_dg", dict(lhs=DG, case=0), [DHB, "LOG_10", MOLES], {}),
    ("g1_dg", dict(lhs=DG, case=1), [Z, "DH_A", "mu", "LOG_10", MOLES], dict(INL, c1={})),
    ("g2_dg", dict(lhs=DG, case=2), [Z, "DH_A", "DH_B", DHA, DHB, "mu", "LOG_10", MOLES], dict(INL, c2={})),
    ("g7_dg", dict(lhs=DG, case=7, under=["llnl_temp.size() > 0", "!(s_x[i]->z == 0)"]),
     [Z, "a_llnl", "b_llnl", "bdot_llnl", DHA, "mu", "LOG_10", MOLES], {"muhalf": {}, "c2_llnl": {"nth": -1}}),
    ("g8_dg", dict(lhs=DG, case=8, under=["llnl_temp.size() > 0"]), CO2 + ["tk_x", "mu", MOLES], {"dln_g_co2": {"nth": -1}}),
    # LLNL temperature interpolation of the Debye-Hueckel parameters
    ("llnl_f", dict(lhs="f", under=["llnl_temp.size() > 0", "!(ilast == ifirst)"]), ["tc_x", "llnl_temp[ifirst]", "llnl_temp[ilast]"], {}),
    ("llnl_a", dict(lhs="a_llnl", nth=-1), ["f", "llnl_adh[ifirst]", "llnl_adh[ilast]"], {}),
    ("llnl_b", dict(lhs="b_llnl", nth=-1), ["f", "llnl_bdh[ifirst]", "llnl_bdh[ilast]"], {}),
    ("llnl_bdot", dict(lhs="bdot_llnl", nth=-1), ["f", "llnl_bdot[ifirst]", "llnl_bdot[ilast]"], {}),
]


def gen_gammas():
    src = os.path.join(vlib.REPO, "src/phreeqcpp/model.cpp")
    fn = leaf.load_function(src, "gammas")
    leaves = []
    for name, sel, vars_, inl in GAMMA_LEAVES:
        lf = fn.leaf(name, vars=vars_, inline=inl, allow_new_vars=False, auto_inline=True, **sel)
        leaves.append(lf)
    # the constant LOG_10 (a data member set once in Phreeqc::init)
    fi = leaf.load_function(os.path.join(vlib.REPO, "src/phreeqcpp/Phreeqc.cpp"), "init")
    leaves.append(fi.leaf("init_LOG_10", lhs="LOG_10", vars=[]))
    # the list of case labels of the gflag switch that assign lg at all (shape fact used by the theorems' comments)
    extra = "Definition gammas_lg_cases : list string := [%s].\n" % "; ".join(
        '"%s"' % c for c in sorted({c for s in fn.sites if s.lhs == LG for c in s.cases}, key=lambda x: (len(x), x)))
    # assignments to lg that are NOT under a case label of the gflag switch (none expected: nothing may overwrite the model value)
    extra += "Definition gammas_lg_sites_outside_switch : nat := %d.\n" % len([s for s in fn.sites if s.lhs == LG and not s.cases])
    return leaf.emit_coq(leaves, header="C16: Phreeqc::gammas (model.cpp), Phreeqc::init (Phreeqc.cpp)", extra=extra), leaves


def gen_aw():
    leaves = []
    fp = leaf.load_function(os.path.join(vlib.REPO, "src/phreeqcpp/pitzer.cpp"), "pitzer")
    leaves.append(fp.leaf("pitzer_AW", lhs="AW", nth=-1, vars=["OSUM", "COSMOT"], allow_new_vars=False))
    leaves.append(fp.leaf("pitzer_COSMOT", lhs="COSMOT", nth=-1, vars=["OSMOT", "OSUM"], allow_new_vars=False))
    fs = leaf.load_function(os.path.join(vlib.REPO, "src/phreeqcpp/sit.cpp"), "sit")
    leaves.append(fs.leaf("sit_AW", lhs="AW", nth=-1, vars=["OSUM", "COSMOT"], allow_new_vars=False))
    leaves.append(fs.leaf("sit_COSMOT", lhs="COSMOT", nth=-1, vars=["OSMOT", "OSUM", "LOG_10"], allow_new_vars=False))
    return leaf.emit_coq(leaves, header="C16: Phreeqc::pitzer (pitzer.cpp), Phreeqc::sit (sit.cpp): water activity from the osmotic coefficient"), leaves


# ---------------------------------------------------------------------------------------------------------------
# Pitzer sums (pitzer.cpp: Phreeqc::pitzer, G, GP): per parameter type the increments of LGAMMA[...], of the F sum
# (F_var), of CSUM and of OSMOT; the Debye-Hueckel F and OSMOT start values; the final assembly.
M0, M1, M2, PAR = "M[i0]", "M[i1]", "M[i2]", "param"
GX, GPX = "G(l_alpha*DI)", "GP(l_alpha*DI)"
PZ_TERMS = [
    # name, lhs, case, kind(increment/assign), fixed vars
    ("pz_B0_g0", "LGAMMA[i0]", "TYPE_B0", True, [M0, M1, PAR]),
    ("pz_B0_g1", "LGAMMA[i1]", "TYPE_B0", True, [M0, M1, PAR]),
    ("pz_B0_os", "OSMOT", "TYPE_B0", True, [M0, M1, PAR]),
    ("pz_B1_g0", "LGAMMA[i0]", "TYPE_B1", True, [M0, M1, PAR, GX]),
    ("pz_B1_g1", "LGAMMA[i1]", "TYPE_B1", True, [M0, M1, PAR, GX]),
    ("pz_B1_F", "F_var", "TYPE_B1", False, [M0, M1, PAR, GPX, "I"]),
    ("pz_B1_os", "OSMOT", "TYPE_B1", True, [M0, M1, PAR, "l_alpha", "I"]),
    ("pz_B2_g0", "LGAMMA[i0]", "TYPE_B2", True, [M0, M1, PAR, GX]),
    ("pz_B2_g1", "LGAMMA[i1]", "TYPE_B2", True, [M0, M1, PAR, GX]),
    ("pz_B2_F", "F_var", "TYPE_B2", False, [M0, M1, PAR, GPX, "I"]),
    ("pz_B2_os", "OSMOT", "TYPE_B2", True, [M0, M1, PAR, "l_alpha", "I"]),
    ("pz_C0_g0", "LGAMMA[i0]", "TYPE_C0", True, [M0, M1, PAR, "BIGZ", "z0", "z1"]),
    ("pz_C0_g1", "LGAMMA[i1]", "TYPE_C0", True, [M0, M1, PAR, "BIGZ", "z0", "z1"]),
    ("pz_C0_csum", "CSUM", "TYPE_C0", True, [M0, M1, "pitz_params[i]->p", "z0", "z1"]),
    ("pz_C0_os", "OSMOT", "TYPE_C0", True, [M0, M1, PAR, "BIGZ", "z0", "z1"]),
    ("pz_TH_g0", "LGAMMA[i0]", "TYPE_THETA", True, [M0, M1, PAR]),
    ("pz_TH_g1", "LGAMMA[i1]", "TYPE_THETA", True, [M0, M1, PAR]),
    ("pz_TH_os", "OSMOT", "TYPE_THETA", True, [M0, M1, PAR]),
    ("pz_ET_g0", "LGAMMA[i0]", "TYPE_ETHETA", True, [M0, M1, "etheta"]),
    ("pz_ET_g1", "LGAMMA[i1]", "TYPE_ETHETA", True, [M0, M1, "etheta"]),
    ("pz_ET_F", "F_var", "TYPE_ETHETA", False, [M0, M1, "ethetap"]),
    ("pz_ET_os", "OSMOT", "TYPE_ETHETA", True, [M0, M1, "etheta", "ethetap", "I"]),
]
for _t in ("PSI", "ZETA", "ETA"):
    PZ_TERMS += [("pz_%s_g%d" % (_t, k), "LGAMMA[i%d]" % k, "TYPE_" + _t, True, [M0, M1, M2, PAR]) for k in range(3)]
    PZ_TERMS += [("pz_%s_os" % _t, "OSMOT", "TYPE_" + _t, True, [M0, M1, M2, PAR])]
LN0, LN1, LN2, OSC = ["pitz_params[i]->ln_coef[%d]" % k for k in range(3)] + ["pitz_params[i]->os_coef"]
PZ_TERMS += [
    ("pz_LA_g0", "LGAMMA[i0]", "TYPE_LAMBDA", True, [M0, M1, PAR, LN0, LN1, OSC]),
    ("pz_LA_g1", "LGAMMA[i1]", "TYPE_LAMBDA", True, [M0, M1, PAR, LN0, LN1, OSC]),
    ("pz_LA_os", "OSMOT", "TYPE_LAMBDA", True, [M0, M1, PAR, LN0, LN1, OSC]),
    ("pz_MU_g0", "LGAMMA[i0]", "TYPE_MU", True, [M0, M1, M2, PAR, LN0, LN1, LN2, OSC]),
    ("pz_MU_g1", "LGAMMA[i1]", "TYPE_MU", True, [M0, M1, M2, PAR, LN0, LN1, LN2, OSC]),
    ("pz_MU_g2", "LGAMMA[i2]", "TYPE_MU", True, [M0, M1, M2, PAR, LN0, LN1, LN2, OSC]),
    ("pz_MU_os", "OSMOT", "TYPE_MU", True, [M0, M1, M2, PAR, LN0, LN1, LN2, OSC]),
]


def gen_pitzer():
    src = os.path.join(vlib.REPO, "src/phreeqcpp/pitzer.cpp")
    fn = leaf.load_function(src, "pitzer")
    leaves = []
    inl = {"DI": {}}                 # DI = sqrt(I)
    for name, lhs, case, inc, vars_ in PZ_TERMS:
        leaves.append(fn.leaf(name, lhs=lhs, case=case, increment=inc, vars=vars_, inline=inl, allow_new_vars=False,
                              **({} if inc else {"kind": "assign"})))
    # Debye-Hueckel part: F (= F1 = F2 at patm <= 1), start value of OSMOT, with B = 1.2 and DI = sqrt(I) inlined
    leaves.append(fn.leaf("pz_DH_F", lhs="F", kind="assign", nth=0, vars=["A0", "I"], inline={"DI": {}, "B": {}}, allow_new_vars=False))
    leaves.append(fn.leaf("pz_DH_os", lhs="OSMOT", kind="assign", nth=0, vars=["A0", "I"], inline={"DI": {}, "B": {}}, allow_new_vars=False))
    # assembly: LGAMMA[i] += z0*z0*F_var + z0*CSUM  (z0 = |z|),  COSMOT = 1 + 2 OSMOT / OSUM
    leaves.append(fn.leaf("pz_asm_g", lhs="LGAMMA[i]", increment=True, vars=["z0", "F_var", "CSUM"], allow_new_vars=False))
    leaves.append(fn.leaf("pz_asm_z0", lhs="z0", kind="assign", nth=-1, vars=["spec[i]->z"], allow_new_vars=False))
    leaves.append(fn.leaf("pz_I", lhs="I", kind="assign", nth=0, vars=["mu_x"], allow_new_vars=False))
    for f in ("G", "GP"):
        ff = leaf.load_function(src, f)
        leaves.append(ff.leaf("pz_%s_body" % f, lhs="d", kind="assign", under=["L_Y != 0.0"], vars=["L_Y"], allow_new_vars=False))
    # pitzer_tidy: the data-dependent weights of the LAMBDA (neutral-x) and MU (neutral-neutral-x) terms
    ft = leaf.load_function(src, "pitzer_tidy")
    LA, MU_ = "pitz_params[i]->type == TYPE_LAMBDA", "pitz_params[i]->type == TYPE_MU"
    OS, LN0, LN1, LNJ = "pitz_params[i]->os_coef", "pitz_params[i]->ln_coef[0]", "pitz_params[i]->ln_coef[1]", "pitz_params[i]->ln_coef[j]"
    DIST3 = "!(i0 == i1 || i1 == i2 || i0 == i2)"
    for nm, lhs, und, nth in [
            ("tidy_LA_os_self", OS, [LA, "i0 == i1"], None), ("tidy_LA_ln0_self", LN0, [LA, "i0 == i1"], None), ("tidy_LA_ln1_self", LN1, [LA, "i0 == i1"], None),
            ("tidy_LA_os_dist", OS, [LA, "!(i0 == i1)"], None), ("tidy_LA_ln0_dist", LN0, [LA, "!(i0 == i1)"], None), ("tidy_LA_ln1_dist", LN1, [LA, "!(i0 == i1)"], None),
            ("tidy_MU_os_dist_nnn", OS, [MU_, "count_neut == 3", DIST3], None), ("tidy_MU_os_dist", OS, [MU_, DIST3], -1),
            ("tidy_MU_ln_ion_dist", LNJ, [MU_, "spec[pitz_params[i]->ispec[j]]->z < 0 || spec[pitz_params[i]->ispec[j]]->z > 0", "!(count[0] > 1 || count[1] > 1)"], None),
            ("tidy_MU_ln_neutral_dist", LNJ, [MU_, "count[j] == 1", "!(count[0] > 1 || count[1] > 1)"], None)]:
        leaves.append(ft.leaf(nm, lhs=lhs, kind="assign", under=und, nth=nth, vars=[], allow_new_vars=False))
    # no other assignment to these weights in a TYPE_LAMBDA context (e.g. a later override)
    extra = "Definition tidy_LAMBDA_assignments : nat := %d.\n" % len(
        [x for x in ft.sites if ("os_coef" in x.lhs or "ln_coef" in x.lhs) and any(c == LA for t, c in x.conds if t == "if")])
    return leaf.emit_coq(leaves, header="C16: Phreeqc::pitzer, G, GP, pitzer_tidy (pitzer.cpp): increments of the Pitzer sums per parameter type", extra=extra), leaves


def gen_sit():
    src = os.path.join(vlib.REPO, "src/phreeqcpp/sit.cpp")
    fn = leaf.load_function(src, "sit")
    SM0, SM1 = "sit_M[i0]", "sit_M[i1]"
    ch = ["!(z0 == 0.0 && z1 == 0.0)"]
    leaves = [
        fn.leaf("sit_EPS_g0", lhs="sit_LGAMMA[i0]", case="TYPE_SIT_EPSILON", increment=True, vars=[SM0, SM1, "param"], allow_new_vars=False),
        fn.leaf("sit_EPS_g1", lhs="sit_LGAMMA[i1]", case="TYPE_SIT_EPSILON", increment=True, vars=[SM0, SM1, "param"], allow_new_vars=False),
        fn.leaf("sit_EPS_os", lhs="OSMOT", case="TYPE_SIT_EPSILON", increment=True, under=ch, vars=[SM0, SM1, "param"], allow_new_vars=False),
        # Debye-Hueckel part (log10 units): F = -A sqrt(I)/(1 + 1.5 sqrt I), OSMOT start value, with B, T, DI inlined
        fn.leaf("sit_DH_F", lhs="F", kind="assign", vars=["A", "I"], inline={"DI": {}, "B": {}}, allow_new_vars=False),
        fn.leaf("sit_DH_os", lhs="OSMOT", kind="assign", nth=0, vars=["A", "I"], inline={"DI": {}, "B": {}, "T": {}}, allow_new_vars=False),
        fn.leaf("sit_asm_g", lhs="sit_LGAMMA[i]", increment=True, vars=["z0", "F"], allow_new_vars=False),
    ]
    return leaf.emit_coq(leaves, header="C16: Phreeqc::sit (sit.cpp): increments of the SIT sums"), leaves


def generate():
    """write both Gen files (only when their text changed); returns dict name -> Leaf"""
    t1, l1 = gen_gammas()
    t2, l2 = gen_aw()
    t3, l3 = gen_pitzer()
    vlib.write_if_changed(os.path.join(vlib.COQ, "Gen", "Gen_C16_pitzer.v"), t3)
    t4, l4 = gen_sit()
    vlib.write_if_changed(os.path.join(vlib.COQ, "Gen", "Gen_C16_sit.v"), t4)
    vlib.write_if_changed(os.path.join(vlib.COQ, "Gen", "Gen_C16_gammas.v"), t1)
    vlib.write_if_changed(os.path.join(vlib.COQ, "Gen", "Gen_C16_aw.v"), t2)
    return {lf.name: lf for lf in l1 + l2 + l3 + l4}


if __name__ == "__main__":
    d = generate()
    for k, lf in d.items():
        print("%-14s %s\n      vars=%s" % (k, leaf.pretty(lf.expr, lf.vars), lf.vars))
