def generate():
    pass
