"""C18 translator back end: regenerates coq/Gen/Gen_C18_bits.v from the CURRENT /repo/src/phreeqcpp/inverse.cpp.

It transliterates (clang JSON AST, no interpretation of meaning):
  * superset_minimal / subset_bad / subset_minimal : the scanned vector, the loop bound, the test
    `lhs == rhs` of the loop body (local temporaries inlined), the two return values  -> Bits.looptest
  * set_bit : the value returned in the `value == 0` branch and in the other branch    -> Bits.bexpr
  * minimal_solve : the expression that removes bit i from minimal_bits and the two "put bit back"
    expressions                                                                        -> Bits.bexpr
In the emitted terms BA is the word argument (`bits`, resp. minimal_bits at the top of the loop body) and
BB is the array element (loop functions) resp. the one-bit word `1 << position` (bit updates).
What the expressions MEAN is decided in Coq (C18/Bits.v: truth-table classifier, proved sound).
Anything outside this small subset raises Refuse -> the check records a broken tie.
"""
import json, os, subprocess, sys, concurrent.futures as cf

sys.path.insert(0, os.path.join(os.path.dirname(os.path.dirname(os.path.abspath(__file__))), "lib"))
import vlib


class Refuse(Exception):
    pass


def clang_ast(filt):
    src = os.path.join(vlib.REPO, "src", "phreeqcpp", "inverse.cpp")
    cmd = ["clang++", "-std=c++11", "-fsyntax-only", "-Xclang", "-ast-dump=json", "-Xclang", "-ast-dump-filter=" + filt,
           "-DSWIG_SHARED_OBJ", "-DUSE_PHRQ_ALLOC"] + vlib.inc_flags() + [src]
    rc, out, err = vlib.sh(cmd, timeout=300)
    if not out.strip():
        raise Refuse("clang produced no AST for %s: %s" % (filt, err[-500:]))
    dec = json.JSONDecoder()
    i = 0
    docs = []
    while i < len(out):
        while i < len(out) and out[i].isspace():
            i += 1
        if i >= len(out):
            break
        o, j = dec.raw_decode(out, i)
        docs.append(o)
        i = j
    return docs


def method_body(docs, name):
    for d in docs:
        if d.get("kind") == "CXXMethodDecl" and d.get("name") == name:
            for c in d.get("inner", []):
                if c.get("kind") == "CompoundStmt":
                    params = [p["name"] for p in d.get("inner", []) if p.get("kind") == "ParmVarDecl"]
                    return params, c
    raise Refuse("definition of Phreeqc::%s not found" % name)


def strip(n):
    while n.get("kind") in ("ImplicitCastExpr", "ParenExpr", "CStyleCastExpr", "CXXStaticCastExpr", "CXXFunctionalCastExpr", "ExprWithCleanups"):
        n = n["inner"][0]
    return n


def refname(n):
    n = strip(n)
    if n.get("kind") == "DeclRefExpr":
        return n["referencedDecl"]["name"]
    if n.get("kind") == "MemberExpr":
        return n.get("name")
    return None


class Sym:
    """symbolic evaluator for the bit expressions of one function"""

    def __init__(self, word, elem_arrays=(), onebit_of=None):
        self.word = word              # name bound to BA
        self.arrays = set()           # vectors indexed (-> BB)
        self.elem_arrays = elem_arrays
        self.onebit_of = onebit_of    # if set: `1 << <this var>` is BB
        self.env = {}

    def expr(self, n):
        n = strip(n)
        k = n.get("kind")
        if k == "DeclRefExpr":
            nm = n["referencedDecl"]["name"]
            if nm in self.env:
                return self.env[nm]
            if nm == self.word:
                return "BA"
            raise Refuse("unexpected variable %s in a bit expression" % nm)
        if k in ("CXXOperatorCallExpr", "ArraySubscriptExpr"):
            inner = n["inner"]
            if k == "CXXOperatorCallExpr":
                if refname(inner[0]) != "operator[]":
                    raise Refuse("unexpected operator call")
                base, idx = inner[1], inner[2]
            else:
                base, idx = inner[0], inner[1]
            b = refname(base)
            if b is None:
                raise Refuse("unexpected array base")
            self.arrays.add(b)
            self.index = refname(idx)
            return "BB"
        if k == "BinaryOperator":
            op = n["opcode"]
            a, b = n["inner"]
            if op == "<<":
                sa = strip(a)
                if sa.get("kind") == "IntegerLiteral" and sa.get("value") == "1" and self.onebit_of is not None and refname(b) == self.onebit_of:
                    return "BB"
                raise Refuse("unexpected shift")
            if op in ("|", "&", "^"):
                return "(%s %s %s)" % ({"|": "BOr", "&": "BAnd", "^": "BXor"}[op], self.expr(a), self.expr(b))
            raise Refuse("unexpected binary operator %s" % op)
        if k == "UnaryOperator" and n.get("opcode") == "~":
            return "(BNot %s)" % self.expr(n["inner"][0])
        if k == "IntegerLiteral" and n.get("value") == "0":
            return "BZero"
        raise Refuse("unexpected expression kind %s" % k)

    def assign(self, n):
        """n: BinaryOperator '=' with a local or the word on the left"""
        lhs, rhs = n["inner"]
        nm = refname(lhs)
        if nm is None:
            raise Refuse("unexpected assignment target")
        v = self.expr(rhs)
        self.env[nm] = v
        return nm


def int_lit(n):
    n = strip(n)
    if n.get("kind") == "IntegerLiteral":
        return int(n["value"])
    if n.get("kind") == "UnaryOperator" and n.get("opcode") == "-":
        return -int_lit(n["inner"][0])
    raise Refuse("integer literal expected")


def stmts(comp):
    if comp.get("kind") == "CompoundStmt":
        return [s for s in comp.get("inner", [])]
    return [comp]


def translate_loop(docs, name):
    params, body = method_body(docs, name)
    if len(params) != 1:
        raise Refuse("%s: one parameter expected" % name)
    sym = Sym(params[0])
    loop = None
    notfound = None
    for s in stmts(body):
        k = s.get("kind")
        if k == "DeclStmt":
            continue
        if k == "ForStmt":
            if loop is not None:
                raise Refuse("%s: more than one loop" % name)
            loop = s
        elif k == "ReturnStmt":
            notfound = int_lit(s["inner"][0])
        else:
            raise Refuse("%s: unexpected statement %s" % (name, k))
    if loop is None or notfound is None:
        raise Refuse("%s: loop / final return not found" % name)
    init, _cv, cond, inc, lbody = loop["inner"]
    # for (i = 0; i < count; i++)
    if not (init.get("kind") == "BinaryOperator" and init.get("opcode") == "=" and int_lit(init["inner"][1]) == 0):
        raise Refuse("%s: loop does not start at 0" % name)
    ivar = refname(init["inner"][0])
    c = strip(cond)
    if not (c.get("kind") == "BinaryOperator" and c.get("opcode") == "<" and refname(c["inner"][0]) == ivar):
        raise Refuse("%s: loop condition is not i < count" % name)
    count = refname(c["inner"][1])
    if not (inc.get("kind") == "UnaryOperator" and inc.get("opcode") in ("++",) and refname(inc["inner"][0]) == ivar):
        raise Refuse("%s: loop increment is not i++" % name)
    test = None
    found = None
    for s in stmts(lbody):
        k = s.get("kind")
        if k == "BinaryOperator" and s.get("opcode") == "=":
            sym.assign(s)
        elif k == "IfStmt":
            if test is not None:
                raise Refuse("%s: more than one test in the loop" % name)
            cnd = strip(s["inner"][0])
            if not (cnd.get("kind") == "BinaryOperator" and cnd.get("opcode") == "=="):
                raise Refuse("%s: loop test is not an equality" % name)
            test = (sym.expr(cnd["inner"][0]), sym.expr(cnd["inner"][1]))
            th = stmts(s["inner"][1])
            if len(th) != 1 or th[0].get("kind") != "ReturnStmt" or len(s["inner"]) > 2:
                raise Refuse("%s: the test does not guard a single return" % name)
            found = int_lit(th[0]["inner"][0])
        elif k in ("NullStmt", "DeclStmt"):
            continue
        else:
            raise Refuse("%s: unexpected statement %s in the loop" % (name, k))
    if test is None:
        raise Refuse("%s: no test in the loop" % name)
    if len(sym.arrays) != 1 or getattr(sym, "index", None) != ivar:
        raise Refuse("%s: the loop does not index exactly one vector with its counter" % name)
    return ('{| lt_array := "%s"; lt_count := "%s"; lt_test := (%s, %s); lt_found := %d; lt_notfound := %d |}'
            % (list(sym.arrays)[0], count, test[0], test[1], found, notfound))


def translate_set_bit(docs):
    params, body = method_body(docs, "set_bit")
    if len(params) != 3:
        raise Refuse("set_bit: three parameters expected")
    word, pos, val = params
    sym = Sym(word, onebit_of=pos)
    out = {}
    ret_var = None
    for s in stmts(body):
        k = s.get("kind")
        if k == "DeclStmt":
            for v in s.get("inner", []):
                if v.get("kind") == "VarDecl" and v.get("inner"):
                    sym.env[v["name"]] = sym.expr(v["inner"][0])
            continue
        if k == "BinaryOperator" and s.get("opcode") == "=":
            sym.assign(s)
        elif k == "IfStmt":
            cnd = strip(s["inner"][0])
            if not (cnd.get("kind") == "BinaryOperator" and cnd.get("opcode") == "==" and refname(cnd["inner"][0]) == val and int_lit(cnd["inner"][1]) == 0):
                raise Refuse("set_bit: condition is not `value == 0`")
            if len(s["inner"]) != 3:
                raise Refuse("set_bit: if without else")
            envs = []
            for br in (s["inner"][1], s["inner"][2]):
                sub = Sym(word, onebit_of=pos)
                sub.env = dict(sym.env)
                for t in stmts(br):
                    if t.get("kind") == "BinaryOperator" and t.get("opcode") == "=":
                        sub.assign(t)
                    else:
                        raise Refuse("set_bit: unexpected statement in a branch")
                envs.append(sub.env)
            out["envs"] = envs
        elif k == "ReturnStmt":
            ret_var = refname(s["inner"][0])
        else:
            raise Refuse("set_bit: unexpected statement %s" % k)
    if "envs" not in out or ret_var is None:
        raise Refuse("set_bit: shape not recognised")
    return out["envs"][0].get(ret_var), out["envs"][1].get(ret_var)


def find_for_over_bits(body):
    for s in stmts(body):
        if s.get("kind") == "ForStmt":
            return s
    raise Refuse("minimal_solve: loop not found")


def translate_minimal_solve(docs):
    params, body = method_body(docs, "minimal_solve")
    word = params[1] if len(params) == 2 else None
    if word is None:
        raise Refuse("minimal_solve: two parameters expected")
    loop = find_for_over_bits(body)
    init, _cv, cond, inc, lbody = loop["inner"]
    # loop variable
    if init.get("kind") == "DeclStmt":
        ivar = init["inner"][0]["name"]
    else:
        ivar = refname(init["inner"][0])
    sym = Sym(word, onebit_of=ivar)
    clear = None
    putbacks = []
    calls = []

    def called(n):
        n = strip(n)
        if n.get("kind") == "CXXMemberCallExpr":
            return strip(n["inner"][0]).get("name")
        if n.get("kind") == "BinaryOperator":
            for c in n["inner"]:
                r = called(c)
                if r:
                    return r
        return None

    for s in stmts(lbody):
        k = s.get("kind")
        if k == "BinaryOperator" and s.get("opcode") == "=":
            nm = sym.assign(s)
            if nm == word and clear is None:
                clear = sym.env[word]
        elif k == "IfStmt":
            fn = called(s["inner"][0])
            if fn in ("subset_bad", "solve_with_mask"):
                sub = Sym(word, onebit_of=ivar)
                sub.env = dict(sym.env)
                for t in stmts(s["inner"][1]):
                    if t.get("kind") == "BinaryOperator" and t.get("opcode") == "=":
                        sub.assign(t)
                if word not in sub.env or sub.env[word] == sym.env.get(word):
                    raise Refuse("minimal_solve: the %s branch does not restore the bit" % fn)
                putbacks.append((fn, sub.env[word]))
                calls.append(fn)
            # other ifs (get_bits test with continue, debug prints) carry no bit update
        elif k in ("DeclStmt", "NullStmt", "ContinueStmt"):
            continue
    if clear is None or [f for f, _ in putbacks] != ["subset_bad", "solve_with_mask"]:
        raise Refuse("minimal_solve: clear / put-back expressions not found (%r)" % (calls,))
    return clear, putbacks[0][1], putbacks[1][1]


def generate():
    with cf.ThreadPoolExecutor(max_workers=4) as ex:
        fut = {f: ex.submit(clang_ast, f) for f in ("superset_minimal", "subset_", "set_bit", "minimal_solve")}
        docs = {f: fu.result() for f, fu in fut.items()}
    sup = translate_loop(docs["superset_minimal"], "superset_minimal")
    sbad = translate_loop(docs["subset_"], "subset_bad")
    smin = translate_loop(docs["subset_"], "subset_minimal")
    sb0, sb1 = translate_set_bit(docs["set_bit"])
    clr, pb1, pb2 = translate_minimal_solve(docs["minimal_solve"])
    text = """(* GENERATED by translator/c18_bits.py from %s — do not edit *)
From Coq Require Import ZArith String List.
From IPV Require Import C18.Bits.
Open Scope string_scope.
Open Scope Z_scope.

Definition gen_superset_minimal : looptest := %s.
Definition gen_subset_bad : looptest := %s.
Definition gen_subset_minimal : looptest := %s.

(* set_bit(bits, position, value): BA = bits, BB = 1 << position *)
Definition gen_set_bit_value0 : bexpr := %s.
Definition gen_set_bit_value1 : bexpr := %s.

(* minimal_solve loop body: BA = minimal_bits at the top of the body, BB = 1 << i *)
Definition gen_ms_clear : bexpr := %s.
Definition gen_ms_putback_subset_bad : bexpr := %s.
Definition gen_ms_putback_infeasible : bexpr := %s.
""" % ("src/phreeqcpp/inverse.cpp", sup, sbad, smin, sb0, sb1, clr, pb1, pb2)
    vlib.write_if_changed(os.path.join(vlib.COQ, "Gen", "Gen_C18_bits.v"), text)
    return text


if __name__ == "__main__":
    print(generate())
