"""C20 translator back end: regenerates coq/Gen/Gen_C20_surface.v from the CURRENT /repo sources

  model.cpp     Phreeqc::residuals          SURFACE row, SURFACE_CB (DDL sinh form, CCM, CD-MUSIC plane 0), SURFACE_CB1,
                                            SURFACE_CB2 (explicit diffuse layer / Grahame form) residual expressions, the
                                            arguments of Set_sigma0/1/2/ddl and of cd_psi.push_back, and the guards under which
                                            `converge = FALSE` is assigned for those rows
  basicsubs.cpp Phreeqc::diff_layer_total   what EDL("psi"/"psi1"/"psi2"/"sigma"/"charge"/...) return
  prep.cpp      Phreeqc::add_potential_factor   coefficient of the potential master species in a surface mass action
  model.cpp     Phreeqc::gammas case 6      lg of a surface species

Only syntax is transliterated (translator/leaf.py); which law each right-hand side is, is decided by the theorems of
coq/C20/*.v.  The numeric values of the unknown-type macros (SURFACE, SURFACE_CB ...) and species-type macros are read from
global_structures.h so that a renumbering is harmless.  leaf.py only records assignments / returns; the CD-MUSIC code
passes its values through setter calls (`charge_ptr->Set_sigma0(e)`, `cd_psi.push_back(e)`), so this file adds
"call" sites for single-argument member calls in a subclass (leaf.py itself is shared and untouched)."""
import os, re, sys
_HERE = os.path.dirname(os.path.abspath(__file__))
sys.path.insert(0, os.path.join(os.path.dirname(_HERE), "lib"))
sys.path.insert(0, os.path.dirname(_HERE))
import vlib
from translator import leaf
from translator.leaf import LeafError


class CFunction(leaf.Function):
    """leaf.Function + sites for `obj->Setter(expr)` / `vec.push_back(expr)` statements (kind 'call')."""

    def _stmt(self, n, cases, conds, block):
        m = n
        while m.get("kind") in ("ExprWithCleanups", "ParenExpr") and m.get("inner"):
            m = m["inner"][0]
        if m.get("kind") == "CXXMemberCallExpr" and len(m.get("inner", [])) == 2:
            callee = leaf._strip(m["inner"][0])
            if callee.get("kind") == "MemberExpr":
                self._add("call", leaf._norm_name(leaf.render(callee)), m["inner"][1], cases, conds, block)
                return
        return leaf.Function._stmt(self, n, cases, conds, block)


    def leaf(self, name, vars=None, inline=None, consts=None, allow_new_vars=True, auto_inline=False, increment=False, **sel):
        """as leaf.Function.leaf, with a translator that treats calls of OPAQUE_CALLS as named variables"""
        if increment:
            sel.setdefault("kind", "compound")
        site = self.select(**sel)
        tr = _CTranslator(self, list(vars or []), dict(inline or {}), dict(consts or {}), allow_new_vars, auto_inline)
        if increment:
            if site.kind != "compound" or site.op not in ("+=", "-="):
                raise LeafError("%s: increment=True needs a `+=`/`-=` statement for %s" % (self.name, site.lhs))
            e = tr.tr(site.node)
            if site.op == "-=":
                e = ('neg', e)
        else:
            e = tr.site_value(site)
        return leaf.Leaf(name, e, tr.vars, [c for t, c in site.conds if t == "if"], sorted(site.cases), self, site)


OPAQUE_CALLS = {"under"}        # Phreeqc::under(lm) = 10^lm (molality from its log); kept as a named variable


class _CTranslator(leaf._Translator):
    def tr(self, n):
        if n.get("kind") == "CallExpr":
            callee = leaf._strip(n["inner"][0])
            nm = callee.get("referencedDecl", {}).get("name") or callee.get("name")
            if nm in OPAQUE_CALLS:
                return self.var(leaf.render(n))
        return leaf._Translator.tr(self, n)


_CF = {}


def load_function(cpp, fn):
    key = (os.path.abspath(cpp), fn, os.path.getmtime(cpp))
    if key in _CF:
        return _CF[key]
    objs = leaf._ast_objects(cpp, fn)
    leaf._annotate_files(objs, cpp)
    defs = [o for o in objs if o.get("name") == fn and o.get("kind") in ("CXXMethodDecl", "FunctionDecl")
            and any(c.get("kind") == "CompoundStmt" for c in o.get("inner", []))]

    def _file_of(o):
        l = o.get("loc", {})
        if "expansionLoc" in l:
            l = l["expansionLoc"]
        return l.get("file")
    here = [o for o in defs if _file_of(o) and os.path.abspath(_file_of(o)) == os.path.abspath(cpp)]
    defs = here or defs
    if len(defs) != 1:
        raise LeafError("%d definitions of %s in %s" % (len(defs), fn, cpp))
    f = CFunction(cpp, fn, defs[0])
    _CF[key] = f
    return f


def macros():
    """integer #defines of global_structures.h (unknown types, species types)"""
    txt = open(os.path.join(vlib.REPO, "src/phreeqcpp/global_structures.h")).read()
    out = {}
    for m in re.finditer(r"^\s*#\s*define\s+(\w+)\s+(-?\d+)\s*(?:/\*.*)?$", txt, flags=re.M):
        out[m.group(1)] = int(m.group(2))
    for k in ("SURFACE", "SURFACE_CB", "SURFACE_CB1", "SURFACE_CB2", "SURF", "H2O", "AQ"):
        if k not in out:
            raise LeafError("macro %s not found in global_structures.h" % k)
    return out


# variable names (canonical renderings) -------------------------------------------------------------------------
LA = "x[i]->master[0]->s->la"
F_ = "x[i]->f"
AREA = "charge_ptr->Get_specific_area()"
GRAMS = "charge_ptr->Get_grams()"
C0 = "charge_ptr->Get_capacitance0()"
C1 = "charge_ptr->Get_capacitance1()"
S0, S1, S2 = ["charge_ptr->Get_sigma%d()" % k for k in range(3)]
LAP = ["master_ptr->s->la", "master_ptr1->s->la", "master_ptr2->s->la"]
G0 = "!(charge_ptr->Get_grams() == 0)"
NODL = "!(dl_type_x != NO_DL)"
DL = "dl_type_x != NO_DL"
FAILG = "charge_ptr->Get_grams() > MIN_RELATED_SURFACE && fabs(residual[i]) > l_toler"


_SCALAR = {"double", "LDBLE", "long double", "float"}


def scalar_locals(node):
    """names (in order of first occurrence) of the scalar LOCAL variables an expression refers to"""
    out = []

    def walk(n):
        if isinstance(n, dict):
            if n.get("kind") == "DeclRefExpr":
                rd = n.get("referencedDecl", {})
                ty = rd.get("type", {}).get("qualType", "").replace("const ", "").strip()
                if rd.get("kind") == "VarDecl" and ty in _SCALAR and rd.get("name") not in out:
                    out.append(rd.get("name"))
            for c in n.get("inner", []) or []:
                walk(c)
    walk(node)
    return out


def _one(lst, what):
    if len(lst) != 1:
        raise LeafError("expected exactly one scalar local in %s, found %s" % (what, lst))
    return lst[0]


def _under(site, conds):
    have = [re.sub(r"\s+", "", c) for t, c in site.conds if t == "if"]
    return all(re.sub(r"\s+", "", u) in have for u in conds)


def discover_locals(fn, DDLC, CDC, CB2):
    """the NAMES of the scalar temporaries of Phreeqc::residuals are found from the data flow (so renaming one is harmless):
    sc_ddl: the local in the DDL residual; sum0: the local in the Set_sigma0 argument; sddl: the local in the CB2 residual;
    its two assignments mention sc_cd (never accumulated) and sum2 (accumulated), under a condition on neg; the balancing-ion
    increments of sum2 are under a condition on sum1; ltol: the local initialised with convergence_tolerance."""
    N = {}
    N["sc_ddl"] = _one(scalar_locals(fn.select(lhs="residual[i]", under=[DDLC, G0, NODL]).node), "the DDL residual")
    N["sum0"] = _one(scalar_locals(fn.select(lhs="charge_ptr->Set_sigma0", under=[CDC, G0]).node), "the Set_sigma0 argument")
    N["sddl"] = _one(scalar_locals(fn.select(lhs="residual[i]", under=[CB2, G0, NODL]).node), "the SURFACE_CB2 residual")
    sd = [x for x in fn.sites if x.lhs == N["sddl"] and x.kind == "assign" and _under(x, [CB2, G0, NODL])]
    if len(sd) != 2:
        raise LeafError("expected 2 assignments to %s in the SURFACE_CB2 branch, found %d" % (N["sddl"], len(sd)))
    loc = scalar_locals(sd[0].node)
    acc = [n for n in loc if any(x.lhs == n and x.kind == "compound" for x in fn.sites)]
    N["sum2"] = _one(acc, "the accumulated local of sigma_ddl")
    N["sc_cd"] = _one([n for n in loc if n not in acc], "the constant local of sigma_ddl")
    cond = [c for t, c in sd[0].conds if t == "if"][-1]
    N["neg"] = _one(re.findall(r"[A-Za-z_]\w*", cond), "the condition of the sigma_ddl assignment")
    fict = [x for x in fn.sites if x.lhs == N["sum2"] and x.kind == "compound" and _under(x, [CB2, G0, NODL])
            and not any(t == "loop" for t, c in x.conds[-2:])]
    names = set()
    for x in fict:
        c = [c for t, c in x.conds if t == "if"][-1]
        names |= set(re.findall(r"[A-Za-z_]\w*", c))
    N["sum1"] = _one(sorted(names), "the condition of the balancing-ion increments")
    lt = [x.lhs for x in fn.sites if x.kind in ("assign", "init") and leaf.render(x.node).strip() == "convergence_tolerance"]
    N["ltol"] = _one(sorted(set(lt)), "the tolerance local")
    return N


def setup_surface_registration(cstr):
    """Phreeqc::setup_surface (prep.cpp), CD-MUSIC branch: where the SURFACE (site mole-balance) unknown of EVERY site type is
    appended to the comp_unknowns of its surface's plane-0 charge unknown: number of such statements, number of enclosing loops,
    enclosing if-conditions"""
    fs = load_function(os.path.join(vlib.REPO, "src/phreeqcpp/prep.cpp"), "setup_surface")
    regs = [x for x in fs.sites if x.kind == "call" and x.lhs.endswith("comp_unknowns.push_back")]
    if not regs:
        raise LeafError("no comp_unknowns.push_back in setup_surface")
    r = regs[0]
    depth = len([1 for t, c in r.conds if t == "loop"])
    guards = [c for t, c in r.conds if t in ("if", "switch")]
    return ("Definition setup_surface_comp_reg_count : Z := %d.\nDefinition setup_surface_comp_reg_loop_depth : Z := %d.\n"
            "Definition setup_surface_comp_reg_guards : list string := [%s]." % (len(regs), depth, "; ".join(cstr(g) for g in guards)))


def calc_all_g_structure():
    """loop structure of Phreeqc::calc_all_g (integrate.cpp): where the per-surface cache of integrated charge numbers (the local
    std::map<LDBLE, cxxSurfDL>) is declared / cleared / looked up, as numbers of enclosing loops"""
    cpp = os.path.join(vlib.REPO, "src/phreeqcpp/integrate.cpp")
    objs = leaf._ast_objects(cpp, "calc_all_g")
    leaf._annotate_files(objs, cpp)
    defs = [o for o in objs if o.get("name") == "calc_all_g" and o.get("kind") in ("CXXMethodDecl", "FunctionDecl")
            and any(c.get("kind") == "CompoundStmt" for c in o.get("inner", []))]
    if len(defs) != 1:
        raise LeafError("%d definitions of calc_all_g" % len(defs))
    LOOPS = ("ForStmt", "WhileStmt", "DoStmt", "CXXForRangeStmt")
    decls, finds, clears = [], [], []
    ids = set()

    def is_cache_type(t):
        t = t.replace(" ", "")
        return "map<" in t and "cxxSurfDL" in t and "iterator" not in t

    def refers_to_cache(n):
        if isinstance(n, dict):
            if n.get("kind") == "DeclRefExpr" and n.get("referencedDecl", {}).get("id") in ids:
                return True
            return any(refers_to_cache(c) for c in n.get("inner", []) or [])
        return False

    def walk(n, depth):
        if not isinstance(n, dict):
            return
        k = n.get("kind")
        if k == "VarDecl" and is_cache_type(n.get("type", {}).get("qualType", "")):
            decls.append(depth)
            ids.add(n.get("id"))
        if k == "CXXMemberCallExpr" and n.get("inner"):
            callee = n["inner"][0]
            if callee.get("kind") == "MemberExpr" and refers_to_cache(callee):
                if callee.get("name") == "find":
                    finds.append(depth)
                elif callee.get("name") == "clear":
                    clears.append(depth)
        d2 = depth + 1 if k in LOOPS else depth
        for c in n.get("inner", []) or []:
            walk(c, d2)
    walk(defs[0], 0)
    if not decls or not finds:
        raise LeafError("calc_all_g: cache declaration / lookup not found (decls %s, lookups %s)" % (decls, finds))
    return ("Definition calc_all_g_cache_count : Z := %d.\nDefinition calc_all_g_cache_decl_loop_depth : Z := %d.\n"
            "Definition calc_all_g_cache_lookup_loop_depth : Z := %d.\nDefinition calc_all_g_cache_cleared_in_surface_loop : bool := %s."
            % (len(decls), decls[0], min(finds), "true" if 1 in clears else "false"))


class _Refused:
    """placeholder for a leaf the translator refused: an unconstrained variable, so every theorem about it fails"""
    def __init__(self, name, err):
        self.name, self.err = name, err
        self.expr, self.vars, self.conds, self.cases = ('var', 999), [], ["REFUSED: " + str(err)[:200]], []

    def coq(self):
        msg = str(self.err).replace('"', "'")[:300]
        return ("Definition %s : rexpr := Var 999.  (* REFUSED by the translator: %s *)\n" % (self.name, msg.replace("*)", "* )"))
                + "Definition %s_vars : list string := [].\nDefinition %s_conds : list string := [\"REFUSED\"].\n" % (self.name, self.name))

    def eval(self, values):
        return float("nan")


def _emit(leaves, header, extra):
    out = ["(* GENERATED by translator/c20_gen.py (leaf.py) - do not edit. %s *)" % header,
           "From Coq Require Import QArith List String.", "From IPV Require Import Base.RExpr.",
           "Import ListNotations.", "Open Scope string_scope.", ""]
    for lf in leaves:
        out.append(lf.coq())
    out.append(extra)
    return "\n".join(out) + "\n"


def generate():
    errors = []
    L = _generate(errors)
    if errors:
        raise LeafError("; ".join(errors)[:1500])
    return L


def _generate(errors):
    M = macros()
    T = lambda k: "x[i]->type == %d" % M[k]
    DDLC = T("SURFACE_CB") + " && use.Get_surface_ptr()->Get_type() == DDL"
    CDC = T("SURFACE_CB") + " && use.Get_surface_ptr()->Get_type() == CD_MUSIC"
    CCMC = T("SURFACE_CB") + " && use.Get_surface_ptr()->Get_type() == CCM"
    CB1 = T("SURFACE_CB1")
    CB2 = T("SURFACE_CB2")
    fn = load_function(os.path.join(vlib.REPO, "src/phreeqcpp/model.cpp"), "residuals")

    class _Safe(list):
        def append(self, thunk):
            name, f = thunk
            try:
                list.append(self, f())
            except LeafError as ex:
                errors.append("%s: %s" % (name, ex))
                list.append(self, _Refused(name, ex))
    L = _Safe()

    def add(f, name, **kw):
        L.append((name, lambda: f.leaf(name, **kw)))

    def lf(name, vars_, inline=None, **sel):
        add(fn, name, vars=vars_, inline=inline or {}, allow_new_vars=False, **sel)

    N = discover_locals(fn, DDLC, CDC, CB2)
    # --- site (mole) balance row
    lf("surf_res", ["x[i]->moles", F_], lhs="residual[i]", under=[T("SURFACE")])
    # --- DDL
    SC = {N["sc_ddl"]: {"under": [DDLC]}}
    lf("ddl_sinh_constant", ["eps_r", "tk_x"], lhs=N["sc_ddl"], under=[DDLC])
    lf("ddl_res", [LA, "LOG_10", "mu_x", "eps_r", "tk_x", F_, AREA, GRAMS], inline=SC, lhs="residual[i]", under=[DDLC, G0, NODL])
    lf("ddl_res_dl", [F_], lhs="residual[i]", under=[DDLC, G0, DL])
    lf("ddl_res_nograms", [], lhs="residual[i]", under=[DDLC, "charge_ptr->Get_grams() == 0"])
    # --- CCM
    lf("ccm_res", [LA, "LOG_10", "tk_x", C0, F_, AREA, GRAMS], lhs="residual[i]", under=[CCMC, G0, NODL])
    lf("ccm_res_dl", [F_], lhs="residual[i]", under=[CCMC, G0, DL])
    # --- CD-MUSIC plane 0: psi_k, sigma0, residual
    for k in range(3):
        lf("cd_psi%d" % k, [LAP[k], "LOG_10", "tk_x"], lhs="cd_psi.push_back", under=[CDC, G0], nth=k)
    # the master-charge sum of plane 0: sum over the comp_unknowns (site mole-balance unknowns of this surface) of sites * z_master
    add(fn, "cd_sum0_term", vars=["x[i]->comp_unknowns[j]->moles", "x[i]->comp_unknowns[j]->master[0]->s->z"], allow_new_vars=False,
        increment=True, lhs=N["sum0"], under=[CDC, G0])
    lf("cd_sigma0", [F_, N["sum0"], AREA, GRAMS], lhs="charge_ptr->Set_sigma0", under=[CDC, G0])
    lf("cd_res0", [S0, C0, "cd_psi[0]", "cd_psi[1]"], lhs="residual[i]", under=[CDC, G0])
    # --- CD-MUSIC plane 1
    lf("cd_sigma1", [F_, AREA, GRAMS], lhs="charge_ptr->Set_sigma1", under=[CB1, G0])
    lf("cd_res1", [S0, S1, C1, "cd_psi[1]", "cd_psi[2]"], lhs="residual[i]", under=[CB1, G0])
    # --- CD-MUSIC plane 2, no explicit diffuse layer: Grahame equation
    SC2 = {N["sc_cd"]: {"under": [CB2, G0, NODL]}}
    NEGC = [c for t, c in [x for x in fn.sites if x.lhs == N["sddl"] and x.kind == "assign" and _under(x, [CB2, G0, NODL])][0].conds if t == "if"][-1]
    lf("cd_sinh_constant", ["eps_r", "tk_x"], lhs=N["sc_cd"], under=[CB2, G0, NODL])
    lf("cd_negfpsirt", [LAP[2], "LOG_10"], lhs=N["neg"], under=[CB2, G0, NODL])
    lf("cd_sigma2", [F_, AREA, GRAMS], lhs="charge_ptr->Set_sigma2", under=[CB2, G0, NODL])
    lf("cd_sigmaddl_neg", [N["sum2"], "eps_r", "tk_x"], inline=SC2, lhs=N["sddl"], under=[CB2, G0, NODL, NEGC])
    lf("cd_sigmaddl_pos", [N["sum2"], "eps_r", "tk_x"], inline=SC2, lhs=N["sddl"], under=[CB2, G0, NODL, "!(" + NEGC + ")"])
    lf("cd_res2", [S0, S1, S2, N["sddl"]], lhs="residual[i]", under=[CB2, G0, NODL])
    AQC = "s_x[j]->type < %d" % M["H2O"]
    add(fn, "cd_gsum_term", vars=["under(s_x[j]->lm)", "s_x[j]->z", N["neg"]], allow_new_vars=False, increment=True,
                     lhs=N["sum2"], under=[CB2, G0, NODL, AQC])
    add(fn, "cd_gsum1_term", vars=["under(s_x[j]->lm)", "s_x[j]->z"], allow_new_vars=False, increment=True,
                     lhs=N["sum1"], under=[CB2, G0, NODL, AQC])
    add(fn, "cd_gsum_fict_pos", vars=[N["sum1"], N["neg"]], allow_new_vars=False, increment=True,
                     lhs=N["sum2"], under=[CB2, G0, NODL, N["sum1"] + " >= 0"])
    add(fn, "cd_gsum_fict_neg", vars=[N["sum1"], N["neg"]], allow_new_vars=False, increment=True,
                     lhs=N["sum2"], under=[CB2, G0, NODL, "!(" + N["sum1"] + " >= 0)"])
    # --- CD-MUSIC plane 2 with explicit diffuse layer
    lf("cd_res2_dl", [F_, S0, S1, AREA, GRAMS], lhs="residual[i]", under=[CB2, G0, DL])

    # --- failure guards: the if-conditions under which `converge = FALSE` is assigned for each kind of row
    def guards(under):
        out = []
        for s in fn.sites:
            if s.lhs != "converge":
                continue
            have = [re.sub(r"\s+", "", c) for t, c in s.conds if t == "if"]
            if all(re.sub(r"\s+", "", u) in have for u in under):
                own = [c for t, c in s.conds if t == "if" and "x[i]->type" not in c]
                txt = " ;; ".join(own)
                for real, canon in ((N["sum2"], "sum"), (N["ltol"], "l_toler")):
                    txt = re.sub(r"\b%s\b" % re.escape(real), canon, txt)
                out.append(txt)
        return out

    def cstr(s):
        return '"' + s.replace('"', '""') + '"'
    extra = []
    for nm, und in (("ddl", [DDLC]), ("ccm", [CCMC]), ("cd0", [CDC]), ("cd1", [CB1]), ("cd2", [CB2]), ("surf", [T("SURFACE")])):
        extra.append("Definition %s_fail_guards : list string := [%s]." % (nm, "; ".join(cstr(g) for g in guards(und))))
    # MIN_RELATED_SURFACE / tolerances are data members / macros: record how l_toler is initialised
    for s in fn.sites:
        if s.lhs == N["ltol"] and not [c for t, c in s.conds if t == "if"]:
            extra.append("Definition residuals_l_toler_init : string := %s." % cstr(leaf.render(s.node)))
            break
    else:
        raise LeafError("initialisation of l_toler not found in residuals")

    # --- read-outs of EDL(...)
    fd = load_function(os.path.join(vlib.REPO, "src/phreeqcpp/basicsubs.cpp"), "diff_layer_total")
    DDLCCM = "use.Get_surface_ptr()->Get_type() == DDL || use.Get_surface_ptr()->Get_type() == CCM"
    Q = lambda s: 'strcmp_nocase("%s", total_name) == 0' % s
    XLA = "x[j]->master[0]->s->la"

    def ld(name, vars_, inline=None, **sel):
        add(fd, name, vars=vars_, inline=inline or {}, allow_new_vars=False, **sel)
    ld("edl_psi", [XLA, "LOG_10", "tk_x"], ret=True, under=[Q("psi"), DDLCCM])
    ld("edl_psi_cd", ["master_ptr->s->la", "LOG_10", "tk_x"], ret=True,
       under=[Q("psi"), "use.Get_surface_ptr()->Get_type() == CD_MUSIC", "master_ptr != NULL"])
    ld("edl_psi1_cd", ["master_ptr->s->la", "LOG_10", "tk_x"], ret=True, under=[Q("psi1"), "master_ptr != NULL"])
    ld("edl_psi2_cd", ["master_ptr->s->la", "LOG_10", "tk_x"], ret=True, under=[Q("psi2"), "master_ptr != NULL"])
    ld("edl_charge", ["x[j]->f"], ret=True, under=[Q("charge"), "(" + DDLCCM + ") && dl_type_x == NO_DL"])
    ld("edl_charge_cd", [S0, AREA, GRAMS], ret=True, under=[Q("charge"), "use.Get_surface_ptr()->Get_type() == CD_MUSIC"])
    SIGC = [Q("sigma"), DDLCCM, "(charge_ptr->Get_specific_area() * charge_ptr->Get_grams()) > 0"]
    CH = _one(scalar_locals(fd.select(ret=True, under=SIGC).node), "the EDL sigma read-out")
    ld("edl_sigma", [CH, AREA, GRAMS], ret=True, under=SIGC)
    ld("edl_sigma_charge_nodl", ["x[j]->f"], lhs=CH, under=[Q("sigma"), DDLCCM, "!(dl_type_x != NO_DL)"])
    ld("edl_sigma_cd", [S0], ret=True, under=[Q("sigma"), "use.Get_surface_ptr()->Get_type() == CD_MUSIC"])
    ld("edl_sigma1_cd", [S1], ret=True, under=[Q("sigma1"), "use.Get_surface_ptr()->Get_type() == CD_MUSIC"])
    ld("edl_sigma2_cd", [S2], ret=True, under=[Q("sigma2"), "use.Get_surface_ptr()->Get_type() == CD_MUSIC"])

    # --- mass action: coefficient of the potential master species (DDL / CCM)
    fp = load_function(os.path.join(vlib.REPO, "src/phreeqcpp/prep.cpp"), "add_potential_factor")
    SZ = _one(scalar_locals(fp.select(lhs="trxn.token[count_trxn].coef").node), "the potential coefficient")
    add(fp, "pot_coef", vars=[SZ], allow_new_vars=False, lhs="trxn.token[count_trxn].coef")
    add(fp, "pot_sum_z_term", vars=["trxn.token[i].s->z", "trxn.token[i].coef"], allow_new_vars=False, increment=True, lhs=SZ)
    extra.append("Definition pot_sum_z_guard : list string := [%s]." % "; ".join(cstr(c) for c in L[-1].conds))
    extra.append("Definition species_type_AQ : Z := %d.  Definition species_type_SURF : Z := %d." % (M["AQ"], M["SURF"]))
    fc = load_function(os.path.join(vlib.REPO, "src/phreeqcpp/prep.cpp"), "add_cd_music_factors")
    for k in range(3):
        add(fc, "cd_pot_coef%d" % k, vars=["trxn.dz[%d]" % k], allow_new_vars=False, lhs="trxn.token[count_trxn].coef", nth=k)

    # --- surface-species activity coefficient (mole-fraction convention)
    fg = load_function(os.path.join(vlib.REPO, "src/phreeqcpp/model.cpp"), "gammas")
    add(fg, "surf_lg", vars=["equiv", "s_x[i]->alk"], allow_new_vars=False, lhs="s_x[i]->lg", case=6, under=["s_x[i]->alk > 0"])
    fi = load_function(os.path.join(vlib.REPO, "src/phreeqcpp/Phreeqc.cpp"), "init")
    add(fi, "c20_LOG_10", lhs="LOG_10", vars=[])

    try:
        extra.append(setup_surface_registration(cstr))
    except LeafError as ex:
        errors.append("setup_surface: %s" % ex)
        extra.append("Definition setup_surface_comp_reg_count : Z := 0.\nDefinition setup_surface_comp_reg_loop_depth : Z := -1.\n"
                     "Definition setup_surface_comp_reg_guards : list string := [].")
    try:
        extra.append(calc_all_g_structure())
    except LeafError as ex:
        errors.append("calc_all_g: %s" % ex)
        extra.append("Definition calc_all_g_cache_count : Z := 0.\nDefinition calc_all_g_cache_decl_loop_depth : Z := -1.\n"
                     "Definition calc_all_g_cache_lookup_loop_depth : Z := -1.\nDefinition calc_all_g_cache_cleared_in_surface_loop : bool := false.")
    hdr = "C20: Phreeqc::residuals (model.cpp), diff_layer_total (basicsubs.cpp), add_potential_factor / add_cd_music_factors (prep.cpp), gammas case 6"
    text = _emit(L, hdr, "From Coq Require Import ZArith.\n" + "\n".join(extra) + "\n")
    vlib.write_if_changed(os.path.join(vlib.COQ, "Gen", "Gen_C20_surface.v"), text)
    return L


if __name__ == "__main__":
    for l in generate():
        print(l.name, ":=", leaf.pretty(l.expr, l.vars))
