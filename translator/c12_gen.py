#!/usr/bin/env python3
"""C12 translator (T-gen).  Regenerates, from the *current* sources under <repo>/src/phreeqcpp,

  coq/Gen/Gen_C12_Tableau.v   Phreeqc::rk_kinetics (kinetics.cpp): the Runge-Kutta stage combinations
                              (arguments of Set_moles), the error-estimate combination (argument of fabs),
                              the result combination, the early-exit combinations (rk = 1,2,3), the
                              rate_sim_time offsets and the step-controller constants, as functions over Q
                              with every floating literal taken from its SOURCE SPELLING (exact rational).
  coq/Gen/Gen_C12_Step.v      cxxKinetics::Current_step (cxxKinetics.cxx) as a Gallina function (mini back end).

Works on the clang JSON AST, not on text: layout, comments, names of locals (loop variable, index
helper, coefficient names) are invisible; coefficient expressions are emitted un-normalised and compared
semantically in Coq (field/ring).  Anything outside the subset raises Refuse (= broken tie).
python3 stdlib only."""
import json, os, subprocess, sys
from fractions import Fraction


class Refuse(Exception):
    pass


INCS = ["src", "src/phreeqcpp", "src/phreeqcpp/common", "src/phreeqcpp/PhreeqcKeywords"]


def ast_dump(repo, relsrc, filt):
    src = os.path.join(repo, relsrc)
    cmd = ["clang++", "-std=c++14", "-fsyntax-only", "-w", "-DIPHREEQC_VERIF", "-DSWIG_SHARED_OBJ", "-DUSE_PHRQ_ALLOC"] + \
          ["-I" + os.path.join(repo, i) for i in INCS] + \
          ["-Xclang", "-ast-dump=json", "-Xclang", "-ast-dump-filter=" + filt, src]
    try:
        p = subprocess.run(cmd, stdout=subprocess.PIPE, stderr=subprocess.PIPE, timeout=300)
    except subprocess.TimeoutExpired:
        raise Refuse("clang timed out on " + relsrc)
    if p.returncode != 0:
        raise Refuse("clang failed on %s: %s" % (relsrc, p.stderr.decode(errors="replace")[-800:]))
    txt = p.stdout.decode(errors="replace")
    dec = json.JSONDecoder()
    pos, objs = 0, []
    while True:
        while pos < len(txt) and txt[pos] in " \r\n\t":
            pos += 1
        if pos >= len(txt):
            break
        o, pos = dec.raw_decode(txt, pos)
        objs.append(o)
    return objs, open(src, "rb").read()


def kids(n):
    return [c for c in n.get("inner", []) if "kind" in c]


def find_all(n, pred, out=None):
    if out is None:
        out = []
    if "kind" in n and pred(n):
        out.append(n)
    for c in n.get("inner", []):
        find_all(c, pred, out)
    return out


def definition(objs, name, cls=None):
    for o in objs:
        if o.get("kind") in ("CXXMethodDecl", "FunctionDecl") and o.get("name") == name:
            if any(c.get("kind") == "CompoundStmt" for c in o.get("inner", [])):
                return o
    raise Refuse("definition of %s not found" % name)


TRANSPARENT = ("ImplicitCastExpr", "ParenExpr", "CStyleCastExpr", "CXXStaticCastExpr", "CXXFunctionalCastExpr",
               "MaterializeTemporaryExpr", "ExprWithCleanups", "ConstantExpr")


def strip(n):
    while n["kind"] in TRANSPARENT and len(kids(n)) == 1:
        n = kids(n)[0]
    return n


def literal(n, srcbytes):
    """exact rational of a numeric literal, from its source spelling when it is written in the function itself"""
    if n["kind"] == "IntegerLiteral":
        return Fraction(int(n["value"]))
    if n["kind"] != "FloatingLiteral":
        raise Refuse("not a literal: " + n["kind"])
    b = n.get("range", {}).get("begin", {})
    val = float(n["value"])
    if "offset" in b and "tokLen" in b and "spellingLoc" not in b:
        sp = srcbytes[b["offset"]: b["offset"] + b["tokLen"]].decode(errors="replace")
        s = sp.rstrip("fFlL")
        try:
            if float(s) == val:
                return Fraction(s)
        except ValueError:
            pass
        raise Refuse("literal spelling %r does not match AST value %r" % (sp, n["value"]))
    return Fraction(n["value"])  # literal coming from a macro: decimal value printed by clang (17 digits)


# --------------------------------------------------------------------------- expression IR
# ('lit',Fraction) ('var',name) ('neg',e) ('add',a,b) ('sub',a,b) ('mul',a,b) ('div',a,b) ('rk',stage0..5)
# ('call',fname,[args]) ('member',name) ('getmoles',)

class Env:
    def __init__(self, srcbytes):
        self.src = srcbytes
        self.consts = {}      # decl id -> IR (single-assignment local initialised by a constant expression)
        self.ints = {}        # decl id -> linear form {sym: Fraction}
        self.loopvars = set()
        self.getmoles = None  # IR standing for kinetics_comp_ptr->Get_moles() at this point (or None)
        self.rk_member = "rk_moles"


def lin_add(a, b, s=1):
    r = dict(a)
    for k, v in b.items():
        r[k] = r.get(k, 0) + s * v
    return {k: v for k, v in r.items() if v != 0}


def linear_index(n, env):
    """integer index expression -> linear form over symbols (decl ids), '1' = constant"""
    n = strip(n)
    k = n["kind"]
    if k == "IntegerLiteral":
        return {"1": Fraction(int(n["value"]))}
    if k == "DeclRefExpr":
        did = n["referencedDecl"]["id"]
        if did in env.ints:
            return dict(env.ints[did])
        return {did: Fraction(1)}
    if k == "BinaryOperator":
        a, b = [linear_index(c, env) for c in kids(n)]
        op = n["opcode"]
        if op == "+":
            return lin_add(a, b)
        if op == "-":
            return lin_add(a, b, -1)
        if op == "*":
            if set(a) <= {"1"}:
                c = a.get("1", Fraction(0))
                return {s: c * v for s, v in b.items() if c * v != 0}
            if set(b) <= {"1"}:
                c = b.get("1", Fraction(0))
                return {s: c * v for s, v in a.items() if c * v != 0}
    raise Refuse("index expression outside subset: " + k + " " + n.get("opcode", ""))


def rk_stage(idx, env):
    """index a*N + loopvar  ->  a  (N: the single other symbol)"""
    lf = linear_index(idx, env)
    lv = [s for s in lf if s in env.loopvars]
    if len(lv) != 1 or lf[lv[0]] != 1 or "1" in lf:
        raise Refuse("rk_moles index is not <a>*n + <loop variable>: %r" % lf)
    rest = [s for s in lf if s not in env.loopvars]
    if not rest:
        return 0
    if len(rest) != 1 or lf[rest[0]].denominator != 1 or not (1 <= lf[rest[0]] <= 5):
        raise Refuse("rk_moles index block out of range: %r" % lf)
    return int(lf[rest[0]])


def is_rk_subscript(n, env):
    n = strip(n)
    if n["kind"] == "CXXOperatorCallExpr":
        ks = kids(n)
        if len(ks) == 3 and strip(ks[0]).get("referencedDecl", {}).get("name") == "operator[]":
            base = strip(ks[1])
            if base["kind"] == "MemberExpr" and base.get("name") == env.rk_member:
                return ks[2]
    if n["kind"] == "ArraySubscriptExpr":
        ks = kids(n)
        base = strip(ks[0])
        if base["kind"] == "MemberExpr" and base.get("name") == env.rk_member:
            return ks[1]
    return None


def member_call_name(n):
    n = strip(n)
    if n["kind"] == "CXXMemberCallExpr":
        m = kids(n)[0]
        if m["kind"] == "MemberExpr":
            return m.get("name"), kids(n)[1:], kids(m)
    return None, None, None


def conv(n, env):
    n = strip(n)
    k = n["kind"]
    if k in ("FloatingLiteral", "IntegerLiteral"):
        return ("lit", literal(n, env.src))
    if k == "UnaryOperator" and n["opcode"] in ("-", "+"):
        e = conv(kids(n)[0], env)
        return ("neg", e) if n["opcode"] == "-" else e
    if k == "BinaryOperator" and n["opcode"] in ("+", "-", "*", "/"):
        a, b = [conv(c, env) for c in kids(n)]
        return ({"+": "add", "-": "sub", "*": "mul", "/": "div"}[n["opcode"]], a, b)
    idx = is_rk_subscript(n, env)
    if idx is not None:
        return ("rk", rk_stage(idx, env))
    if k == "DeclRefExpr":
        did = n["referencedDecl"]["id"]
        if did in env.consts:
            return env.consts[did]
        return ("var", n["referencedDecl"]["name"], did)
    if k == "MemberExpr" and kids(n) and strip(kids(n)[0])["kind"] == "CXXThisExpr":
        return ("member", n["name"])
    name, args, _ = member_call_name(n)
    if name == "Get_moles" and not args:
        if env.getmoles is None:
            raise Refuse("Get_moles() used where its value is not a stored rate")
        return env.getmoles
    if name is not None and not args:
        return ("getter", name)
    if k == "CallExpr":
        f = strip(kids(n)[0])
        return ("call", f.get("referencedDecl", {}).get("name", "?"), [conv(a, env) for a in kids(n)[1:]])
    raise Refuse("expression outside subset: %s %s" % (k, n.get("opcode", "")))


def has_rk(e):
    return e[0] == "rk" or any(isinstance(x, tuple) and has_rk(x) for x in e[1:]) or \
        (e[0] == "call" and any(has_rk(a) for a in e[2]))


def qlit(fr):
    fr = Fraction(fr)
    return "(%d # %d)" % (fr.numerator, fr.denominator) if fr >= 0 else "(-(%d # %d))" % (-fr.numerator, fr.denominator)


def emit(e, varmap):
    t = e[0]
    if t == "lit":
        return qlit(e[1])
    if t == "rk":
        return "k%d" % (e[1] + 1)
    if t == "neg":
        return "(- %s)" % emit(e[1], varmap)
    if t in ("add", "sub", "mul", "div"):
        return "(%s %s %s)" % (emit(e[1], varmap), {"add": "+", "sub": "-", "mul": "*", "div": "/"}[t], emit(e[2], varmap))
    if t == "var":
        if e[2] in varmap:
            return varmap[e[2]]
        raise Refuse("free local variable %s in a coefficient expression" % e[1])
    if t == "member":
        if e[1] in varmap:
            return varmap[e[1]]
        raise Refuse("member %s in a coefficient expression" % e[1])
    raise Refuse("cannot emit " + t)


# --------------------------------------------------------------------------- rk_kinetics

def gen_tableau(repo):
    objs, src = ast_dump(repo, "src/phreeqcpp/kinetics.cpp", "rk_kinetics")
    fn = definition(objs, "rk_kinetics")
    params = [c for c in kids(fn) if c["kind"] == "ParmVarDecl"]
    body = [c for c in kids(fn) if c["kind"] == "CompoundStmt"][0]
    env = Env(src)

    # which locals are assigned anywhere (then they are not constants)
    assigned = set()
    nassign = {}
    for a in find_all(body, lambda n: n["kind"] in ("BinaryOperator", "CompoundAssignOperator") and
                      (n["kind"] == "CompoundAssignOperator" or n.get("opcode") == "=")):
        l = strip(kids(a)[0])
        if l["kind"] == "DeclRefExpr":
            assigned.add(l["referencedDecl"]["id"])
            nassign[l["referencedDecl"]["id"]] = nassign.get(l["referencedDecl"]["id"], 0) + 1
            # chained assignment  a = b = c
            r = strip(kids(a)[1])
            while r["kind"] == "BinaryOperator" and r.get("opcode") == "=":
                r = strip(kids(r)[1])
    for a in find_all(body, lambda n: n["kind"] == "UnaryOperator" and n.get("opcode") in ("++", "--")):
        l = strip(kids(a)[0])
        if l["kind"] == "DeclRefExpr":
            assigned.add(l["referencedDecl"]["id"])
    # constants: floating locals with an initialiser, never assigned afterwards
    for vd in find_all(body, lambda n: n["kind"] == "VarDecl"):
        if kids(vd) and vd["id"] not in assigned and vd.get("type", {}).get("qualType") in ("double", "LDBLE", "long double", "float"):
            try:
                env.consts[vd["id"]] = conv(kids(vd)[-1], env)
            except Refuse:
                pass

    whiles = [c for c in kids(body) if c["kind"] == "WhileStmt"]
    if len(whiles) != 1:
        raise Refuse("expected exactly one top-level while loop in rk_kinetics, found %d" % len(whiles))
    wcond, wbody = kids(whiles[0])
    wc = strip(wcond)
    if wc["kind"] != "BinaryOperator" or wc["opcode"] != "<":
        raise Refuse("while condition is not <elapsed> < <total>")
    hsum_id = strip(kids(wc)[0])["referencedDecl"]["id"]
    kin_id = strip(kids(wc)[1])["referencedDecl"]["id"]
    if kin_id not in [p["id"] for p in params]:
        raise Refuse("right-hand side of the while condition is not a parameter")

    # the step variable: second argument of calc_kinetic_reaction inside the loop
    hs = set()
    for c in find_all(wbody, lambda n: n["kind"] == "CXXMemberCallExpr" and kids(n)[0].get("name") == "calc_kinetic_reaction"):
        a = strip(kids(c)[2])
        if a["kind"] != "DeclRefExpr":
            raise Refuse("calc_kinetic_reaction time argument is not a local")
        hs.add(a["referencedDecl"]["id"])
    if len(hs) != 1:
        raise Refuse("calc_kinetic_reaction is called with different step variables")
    h_id = hs.pop()

    events = []   # (kind, payload, path)

    def walk(st, path, toplevel):
        if st["kind"] in TRANSPARENT:
            st = strip(st)
        k = st["kind"]
        if k == "CompoundStmt":
            for c in kids(st):
                walk(c, path, toplevel)
        elif k == "LabelStmt":
            for c in kids(st):
                walk(c, path, toplevel)
        elif k == "IfStmt":
            ks = kids(st)
            cond = ks[0]
            tag = ("if", st["id"], classify_cond(cond))
            events.append(("if", (st["id"], classify_cond(cond), len(ks) > 2), path))
            walk(ks[1], path + [(tag, "then")], False)
            if len(ks) > 2:
                walk(ks[2], path + [(tag, "else")], False)
        elif k == "ForStmt":
            ks = [c for c in st.get("inner", [])]
            init = ks[0] if ks and "kind" in ks[0] else None
            lv = None
            if init is not None and init["kind"] == "DeclStmt":
                lv = kids(init)[0]["id"]
            elif init is not None:
                i0 = strip(init)
                if i0["kind"] == "BinaryOperator" and i0.get("opcode") == "=":
                    lv = strip(kids(i0)[0])["referencedDecl"]["id"]
            if lv is None:
                raise Refuse("for loop without a recognisable loop variable")
            env.loopvars.add(lv)
            saved = env.getmoles
            env.getmoles = None
            walk(kids(st)[-1], path + [(("for", st["id"], ("for",)), "body")], False)
            env.getmoles = saved
            env.loopvars.discard(lv)
        elif k in ("BinaryOperator", "CompoundAssignOperator"):
            assign(st, path)
        elif k == "CXXMemberCallExpr":
            name, args, _ = member_call_name(st)
            if name == "Set_moles" and len(args) == 1:
                try:
                    e = conv(args[0], env)
                except Refuse as ex:
                    raise Refuse("Set_moles argument: %s" % ex)
                if has_rk(e):
                    events.append(("setmoles", e, path))
                env.getmoles = None
            elif name == "calc_kinetic_reaction":
                events.append(("calc", None, path))
        elif k in ("GotoStmt", "BreakStmt", "ContinueStmt", "NullStmt", "DeclStmt", "CXXDeleteExpr", "CallExpr",
                   "UnaryOperator", "CXXOperatorCallExpr", "ExprWithCleanups", "ReturnStmt"):
            if k in ("CXXOperatorCallExpr", "ExprWithCleanups"):
                assign(st, path)
        else:
            # anything else (assert expansions, status calls ...) is skipped only if it cannot touch what is modelled
            def touches(n):
                if n["kind"] == "MemberExpr" and n.get("name") in ("Set_moles", "Set_m", "rk_moles", "rate_sim_time", "calc_kinetic_reaction"):
                    return True
                if n["kind"] == "DeclRefExpr" and n.get("referencedDecl", {}).get("id") in (h_id, hsum_id):
                    return True
                return False
            if find_all(st, touches):
                raise Refuse("statement outside subset in rk_kinetics loop: " + k)

    def classify_cond(c):
        c = strip(c)
        # Get_rk() == N && <flag>
        if c["kind"] == "BinaryOperator" and c.get("opcode") == "&&":
            l = strip(kids(c)[0])
            if l["kind"] == "BinaryOperator" and l.get("opcode") == "==":
                nm, _, _ = member_call_name(kids(l)[0])
                r = strip(kids(l)[1])
                if nm == "Get_rk" and r["kind"] == "IntegerLiteral":
                    return ("rk_exit", int(r["value"]))
        if c["kind"] == "BinaryOperator" and c.get("opcode") in (">", "<", ">=", "<=", "=="):
            l, r = strip(kids(c)[0]), strip(kids(c)[1])
            if l["kind"] == "DeclRefExpr" and r["kind"] in ("FloatingLiteral", "IntegerLiteral"):
                return ("cmp", l["referencedDecl"]["id"], c["opcode"], literal(r, src), l["referencedDecl"]["name"])
        return ("other",)

    def assign(st, path):
        s = strip(st)
        if s["kind"] == "ExprWithCleanups":
            s = strip(kids(s)[0])
        if s["kind"] not in ("BinaryOperator", "CompoundAssignOperator", "CXXOperatorCallExpr"):
            return
        ks = kids(s)
        if s["kind"] == "CXXOperatorCallExpr":
            return
        op = s.get("opcode")
        lhs = strip(ks[0])
        if op not in ("=", "+=", "-=", "*=", "/="):
            return
        # rk_moles[...] = Get_moles()
        idx = is_rk_subscript(lhs, env)
        if idx is not None:
            stage = rk_stage(idx, env)
            if op == "=":
                nm, args, _ = member_call_name(ks[1])
                if nm != "Get_moles":
                    raise Refuse("rk_moles[..] is assigned something that is not Get_moles()")
                events.append(("store", stage, path))
                env.getmoles = ("rk", stage)
            elif op == "*=":
                events.append(("rescale", (stage, conv(ks[1], env)), path))
            else:
                raise Refuse("unexpected update of rk_moles")
            return
        if lhs["kind"] == "MemberExpr" and lhs.get("name") == "rate_sim_time" and op == "=":
            events.append(("time", conv(ks[1], env), path))
            return
        if lhs["kind"] == "DeclRefExpr":
            did = lhs["referencedDecl"]["id"]
            ty = lhs.get("type", {}).get("qualType")
            if ty == "int" and op == "=":
                try:
                    lf = linear_index(ks[1], env)
                    env.ints[did] = lf
                except Refuse:
                    env.ints.pop(did, None)
            if ty in ("double", "LDBLE"):
                try:
                    e = conv(ks[1], env)
                except Refuse:
                    e = None
                events.append(("assign", (did, lhs["referencedDecl"]["name"], op, e), path))

    # statements before the loop (controller initialisation)
    pre = []
    for st in kids(body):
        if st is whiles[0]:
            break
        s = strip(st)
        if s["kind"] == "BinaryOperator" and s.get("opcode") == "=":
            # possibly chained  h = h_old = kin_time
            l = strip(kids(s)[0])
            if l["kind"] == "DeclRefExpr" and l.get("type", {}).get("qualType") in ("double", "LDBLE"):
                r = strip(kids(s)[1])
                if r["kind"] in ("FloatingLiteral", "IntegerLiteral"):
                    pre.append((l["referencedDecl"]["id"], l["referencedDecl"]["name"], literal(r, src)))
    walk(wbody, [], True)

    # ---- interpretation of the event stream
    def top(path):
        return len(path) == 0

    def in_for_at_top(path):
        return len(path) == 1 and path[0][0][0] == "for"

    # stage stores and time assignments must alternate: time, store0, time, store1, ...
    seq = [(k, p, path) for (k, p, path) in events if k in ("time", "store")]
    if [k for k, _, _ in seq] != ["time", "store"] * 6 or [p for k, p, _ in seq if k == "store"] != [0, 1, 2, 3, 4, 5]:
        raise Refuse("rate evaluations are not six (time assignment, store k_i) pairs in order: %r" % [(k, p if k == 'store' else '') for k, p, _ in seq])
    times = [p for k, p, _ in seq if k == "time"]

    out = {}
    # stage definitions: the Set_moles that follows 'store s' inside the same for body
    for i, (k, p, path) in enumerate(events):
        if k == "store":
            for (k2, p2, path2) in events[i + 1:]:
                if path2 != path:
                    break
                if k2 == "setmoles":
                    out["stage%d" % (p + 2)] = p2
                    break
    for s in range(2, 7):
        if "stage%d" % s not in out:
            raise Refuse("no Set_moles defining the state for rate evaluation %d" % s)
    # bad-step restart: rescale k1 then Set_moles (the branch of the if that holds 'store 0' in its other branch)
    store0_path = [path for k, p, path in events if k == "store" and p == 0][0]
    if not store0_path or store0_path[0][1] != "else":
        raise Refuse("first rate evaluation is not in the else branch of the restart test")
    if0 = store0_path[0][0]
    rs = [(k, p) for k, p, path in events if path and path[0][0] == if0 and path[0][1] == "then" and k in ("rescale", "setmoles")]
    if [k for k, _ in rs] != ["rescale", "setmoles"] or rs[0][1][0] != 0:
        raise Refuse("restart branch is not (rescale k1; Set_moles)")
    out["stage2_restart"] = rs[1][1]
    resc = rs[0][1][1]
    # exits
    for k, p, path in events:
        if k == "setmoles" and path and path[0][0][2][0] == "rk_exit":
            n = path[0][0][2][1]
            if path[0][1] == "then" and not any(b == "else" for _, b in path[1:]):
                out.setdefault("exit%d" % n, p)
            elif n == 1 and path[0][1] == "then":
                # continuation after a failed rk=1 shortcut (nested else)
                out["stage2_after_rk1"] = p
    for n in (1, 2, 3):
        if "exit%d" % n not in out:
            raise Refuse("early exit for -runge_kutta %d not found" % n)
    if "stage2_after_rk1" not in out:
        raise Refuse("continuation after failed rk=1 shortcut not found")
    # result: Set_moles in the else branch of the last top-level comparison-if  (error_max > limit)
    res = [(p, path) for k, p, path in events if k == "setmoles" and path and path[0][0][2][0] == "cmp" and path[0][0][2][2] != "==" and path[0][1] == "else"]
    if len(res) != 1:
        raise Refuse("could not identify the accepted-step result combination")
    out["result"] = res[0][0]
    errif = res[0][1][0][0]
    err_id, err_op, err_lim = errif[2][1], errif[2][2], errif[2][3]
    if err_op != ">":
        raise Refuse("error test is not  <error> > <limit>")
    # error estimate: X = fabs(E) with rk terms
    est = []
    for k, p, path in events:
        if k == "assign" and p[3] is not None and p[3][0] == "call" and p[3][1] in ("fabs", "abs") and has_rk(p[3]):
            est.append(p)
    if len(est) != 1:
        raise Refuse("could not identify the error-estimate combination")
    out["errest"] = est[0][3][2][0]
    lerr_id = est[0][0]
    divtol = any(k == "assign" and p[0] == lerr_id and p[2] == "/=" and p[3] == ("getter", "Get_tol") for k, p, path in events)

    # controller: assignments to the step variable
    ctl = {}
    hass = [(p, path) for k, p, path in events if k == "assign" and p[0] == h_id]
    vm = {h_id: "h", hsum_id: "hsum", kin_id: "T", err_id: "err"}

    def emit_ctl(e, extra):
        m = dict(vm)
        m.update(extra)
        return emit_c(e, m)

    def emit_c(e, m):
        if e[0] == "call" and e[1] == "pow":
            return "(pw %s %s)" % (emit_c(e[2][0], m), emit_c(e[2][1], m))
        if e[0] in ("add", "sub", "mul", "div"):
            return "(%s %s %s)" % (emit_c(e[1], m), {"add": "+", "sub": "-", "mul": "*", "div": "/"}[e[0]], emit_c(e[2], m))
        if e[0] == "neg":
            return "(- %s)" % emit_c(e[1], m)
        return emit(e, m)

    safety = [v for (i, nme, v) in pre if any(e_uses(p[3], i) for p, _ in hass if p[3] is not None)]
    pre_map = {i: v for (i, nme, v) in pre if nassign.get(i, 0) == 1}   # set once before the loop, never changed

    def subst_pre(e):
        if e[0] == "var" and e[2] in pre_map and e[2] not in vm:
            return ("lit", pre_map[e[2]])
        if e[0] == "call":
            return ("call", e[1], [subst_pre(a) for a in e[2]])
        return tuple(subst_pre(x) if isinstance(x, tuple) else x for x in e)

    # classify the h updates by where they are
    rej, acc, red = [], [], []
    for p, path in hass:
        if p[3] is None:
            raise Refuse("step-size update outside subset")
        if path and path[0][0] == errif:
            (rej if path[0][1] == "then" else acc).append((p, path))
        else:
            red.append((p, path))
    if len(rej) != 2 or len(acc) != 3 or len(red) != 1:
        raise Refuse("unexpected number of step-size updates: reject %d accept %d other %d" % (len(rej), len(acc), len(red)))
    # moles-reduction variable: the one compared in the if that holds the 'red' update
    redif = red[0][1][0][0]
    if redif[2][0] != "cmp":
        raise Refuse("moles-reduction guard not recognised")
    mr_id = redif[2][1]
    ctl["reduce"] = emit_ctl(subst_pre(red[0][0][3]), {mr_id: "mr"})
    # moles_max: the once-set local multiplied with the reduction variable in  mr * X < fabs(...)
    mm = set()
    for c in find_all(wbody, lambda n: n["kind"] == "BinaryOperator" and n.get("opcode") == "<"):
        l = strip(kids(c)[0])
        if l["kind"] == "BinaryOperator" and l.get("opcode") == "*":
            ids = [strip(x).get("referencedDecl", {}).get("id") for x in kids(l)]
            if mr_id in ids:
                other = [i for i in ids if i != mr_id]
                if len(other) == 1 and other[0] in {i for (i, nme, v) in pre}:
                    mm.add(other[0])
    if len(mm) != 1:
        raise Refuse("could not identify the maximum-moles-per-step variable")
    mm_vals = [v for (i, nme, v) in pre if i in mm]
    ctl["moles_max"] = mm_vals[0]
    ctl["reduce_guard"] = (redif[2][2], redif[2][3])
    # reject: first attempt / later attempts
    r0 = [p for p, path in rej if path[1][1] == "then"]
    r1 = [p for p, path in rej if path[1][1] == "else"]
    if len(r0) != 1 or len(r1) != 1:
        raise Refuse("reject branch shape")
    ctl["reject_first"] = emit_ctl(subst_pre(r0[0][3]), {})
    ctl["reject_later"] = emit_ctl(subst_pre(r1[0][3]), {})
    # accept: grow (two branches) then clamp
    grow = [(p, path) for p, path in acc if len(path) >= 3]
    a_then = [p for p, path in grow if path[2][1] == "then" and path[2][0][2][0] == "cmp" and path[2][0][2][1] == err_id]
    a_else = [p for p, path in grow if path[2][1] == "else" and path[2][0][2][0] == "cmp" and path[2][0][2][1] == err_id]
    clamp = [p for p, path in grow if path[2][0][2][0] != "cmp" or path[2][0][2][1] != err_id]
    if len(a_then) != 1 or len(a_else) != 1 or len(clamp) != 1:
        raise Refuse("accept branch shape")
    thr = [path[2][0][2] for p, path in grow if path[2][1] == "then" and path[2][0][2][0] == "cmp" and path[2][0][2][1] == err_id][0]
    ctl["grow_threshold"] = (thr[2], thr[3])

    def as_expr(p):
        # h *= 4  ->  h * 4
        e = subst_pre(p[3])
        if p[2] == "=":
            return e
        return ({"*=": "mul", "/=": "div", "+=": "add", "-=": "sub"}[p[2]], ("var", "h", h_id), e)
    ctl["grow_big_err"] = emit_ctl(as_expr(a_then[0]), {})
    ctl["grow_small_err"] = emit_ctl(as_expr(a_else[0]), {})
    ctl["clamp"] = emit_ctl(as_expr(clamp[0]), {})
    # h_sum += h present in accept branch
    hsum_upd = [(p, path) for k, p, path in events if k == "assign" and p[0] == hsum_id]
    if len(hsum_upd) != 1 or hsum_upd[0][0][2] != "+=" or hsum_upd[0][0][3][:1] != ("var",) or hsum_upd[0][0][3][2] != h_id \
            or not hsum_upd[0][1] or hsum_upd[0][1][0] != (errif, "else"):
        raise Refuse("elapsed time is not advanced by exactly  += <step>  in the accepted branch")

    # ---- emit
    L = []
    L.append("(* GENERATED by translator/c12_gen.py from %s : Phreeqc::rk_kinetics.  Do not edit. *)" % "src/phreeqcpp/kinetics.cpp")
    L.append("Require Import QArith List.")
    L.append("Import ListNotations.")
    L.append("Open Scope Q_scope.")
    L.append("")
    ks = "(k1 k2 k3 k4 k5 k6 : Q)"
    for name in ["stage2", "stage2_restart", "stage2_after_rk1", "stage3", "stage4", "stage5", "stage6", "result", "errest", "exit1", "exit2", "exit3"]:
        L.append("Definition g_%s %s : Q := %s." % (name, ks, emit(out[name], {})))
    L.append("")
    for i, t in enumerate(times):
        L.append("Definition g_time%d (t0 hsum h : Q) : Q := %s." % (i + 1, emit(t, {"rate_sim_time_start": "t0", hsum_id: "hsum", h_id: "h"})))
    L.append("")
    L.append("(* factor applied to the stored k1 when a step is retried with a new step size *)")
    L.append("Definition g_rescale (h h_old : Q) : Q := %s." % emit(resc, {h_id: "h", **{p[0]: "h_old" for k, p, path in events if k == "assign" and p[1] != "h" and p[0] not in (h_id, hsum_id, err_id, lerr_id, mr_id) and p[3] is not None and p[3][0] == "var" and p[3][2] == h_id}}))
    L.append("Definition g_err_divided_by_tol : bool := %s." % ("true" if divtol else "false"))
    L.append("Definition g_err_limit : Q := %s." % qlit(err_lim))
    L.append("")
    L.append("(* step-size controller; pw stands for C pow *)")
    L.append("Section Ctl.")
    L.append("Variable pw : Q -> Q -> Q.")
    L.append("Definition g_h_reduce (h mr : Q) : Q := %s." % ctl["reduce"])
    L.append("Definition g_h_reject_first (h err : Q) : Q := %s." % ctl["reject_first"])
    L.append("Definition g_h_reject_later (h err : Q) : Q := %s." % ctl["reject_later"])
    L.append("Definition g_h_grow_big_err (h err : Q) : Q := %s." % ctl["grow_big_err"])
    L.append("Definition g_h_grow_small_err (h err : Q) : Q := %s." % ctl["grow_small_err"])
    L.append("Definition g_h_clamp (T hsum : Q) : Q := %s." % ctl["clamp"])
    L.append("End Ctl.")
    L.append("Definition g_moles_max : Q := %s.  (* default; -step_divide < 1 overrides it *)" % qlit(ctl["moles_max"]))
    L.append("Definition g_reduce_guard : Q := %s.  (* moles_reduction %s this *)" % (qlit(ctl["reduce_guard"][1]), ctl["reduce_guard"][0]))
    L.append("Definition g_grow_threshold : Q := %s.  (* error %s this *)" % (qlit(ctl["grow_threshold"][1]), ctl["grow_threshold"][0]))
    L.append("")
    return "\n".join(L) + "\n"


def e_uses(e, did):
    if e[0] == "var" and e[2] == did:
        return True
    if e[0] == "call":
        return any(e_uses(a, did) for a in e[2])
    return any(isinstance(x, tuple) and e_uses(x, did) for x in e[1:])


# --------------------------------------------------------------------------- mini back end: Current_step

def gen_step(repo):
    objs, src = ast_dump(repo, "src/phreeqcpp/cxxKinetics.cxx", "Current_step")
    fn = definition(objs, "Current_step")
    params = [c for c in kids(fn) if c["kind"] == "ParmVarDecl"]
    if len(params) != 2:
        raise Refuse("Current_step: expected 2 parameters")
    pid = {params[0]["id"]: "inc", params[1]["id"]: "n"}
    body = [c for c in kids(fn) if c["kind"] == "CompoundStmt"][0]
    locs = {}

    def ex(n, want):
        """translate expression; want in 'Q','Z','B'; returns Coq text"""
        n0 = n
        n = strip(n)
        k = n["kind"]
        ty = n0.get("type", {}).get("qualType", "")
        if k == "IntegerLiteral":
            v = int(n["value"])
            return {"Q": qlit(v), "Z": "(%d)%%Z" % v, "B": "true" if v else "false"}[want]
        if k == "FloatingLiteral":
            if want != "Q":
                raise Refuse("floating literal used as " + want)
            return qlit(literal(n, src))
        if k == "CXXBoolLiteralExpr":
            return "true" if n["value"] else "false"
        if k == "DeclRefExpr":
            did = n["referencedDecl"]["id"]
            if did in pid:
                nm = pid[did]
                if nm == "n":
                    return {"Z": "n", "Q": "(inject_Z n)", "B": "(negb (Z.eqb n 0))"}[want]
                return "inc" if want == "B" else _r("bool parameter used as number")
            if did in locs:
                if want != "Q":
                    raise Refuse("local used as " + want)
                return locs[did]
            raise Refuse("unknown variable " + n["referencedDecl"]["name"])
        if k == "MemberExpr" and strip(kids(n)[0])["kind"] == "CXXThisExpr":
            nm = n["name"]
            if nm == "count":
                return {"Z": "cnt", "Q": "(inject_Z cnt)", "B": "(negb (Z.eqb cnt 0))"}[want]
            if nm == "equalIncrements":
                if want != "B":
                    raise Refuse("equalIncrements used as number")
                return "eq"
            raise Refuse("member %s outside subset" % nm)
        if k == "UnaryOperator" and n["opcode"] == "!":
            return "(negb %s)" % ex(kids(n)[0], "B")
        if k == "UnaryOperator" and n["opcode"] == "-":
            return "(- %s)" % ex(kids(n)[0], want)
        nm, args, obj = member_call_name(n)
        if nm == "size" and not args:
            o = strip(obj[0])
            if o["kind"] == "MemberExpr" and o.get("name") == "steps":
                return {"Z": "(sizeZ steps)", "Q": "(inject_Z (sizeZ steps))"}[want]
        if k == "CXXOperatorCallExpr":
            ks = kids(n)
            if strip(ks[0]).get("referencedDecl", {}).get("name") == "operator[]":
                o = strip(ks[1])
                if o["kind"] == "MemberExpr" and o.get("name") == "steps":
                    if want != "Q":
                        raise Refuse("steps[..] used as " + want)
                    return "(nthQ steps %s)" % ex(ks[2], "Z")
        if k == "BinaryOperator":
            a, b = kids(n)
            op = n["opcode"]
            if op in ("+", "-", "*", "/"):
                if want == "Z":
                    if op == "/":
                        raise Refuse("integer division")
                    return "(%s %s %s)%%Z" % (ex(a, "Z"), op, ex(b, "Z"))
                if want == "Q":
                    # operands: integer typed sub-expressions are converted after integer evaluation
                    def side(x):
                        t = x.get("type", {}).get("qualType", "")
                        s = strip_keep_float(x)
                        return ex(s, "Q")
                    return "(%s %s %s)" % (side(a), op, side(b))
            if op in ("<", ">", "<=", ">=", "==", "!="):
                ta = is_int_expr(a) and is_int_expr(b)
                if ta:
                    f = {"<": "Z.ltb %s %s", ">": "Z.ltb %s %s", "<=": "Z.leb %s %s", ">=": "Z.leb %s %s", "==": "Z.eqb %s %s", "!=": "negb (Z.eqb %s %s)"}[op]
                    x, y = ex(a, "Z"), ex(b, "Z")
                    if op in (">", ">="):
                        x, y = y, x
                    return "(" + f % (x, y) + ")"
                x, y = ex(a, "Q"), ex(b, "Q")
                f = {"<": "Qltb %s %s", ">": "Qltb %s %s", "<=": "Qle_bool %s %s", ">=": "Qle_bool %s %s", "==": "Qeq_bool %s %s", "!=": "negb (Qeq_bool %s %s)"}[op]
                if op in (">", ">="):
                    x, y = y, x
                return "(" + f % (x, y) + ")"
            if op == "&&":
                return "(andb %s %s)" % (ex(a, "B"), ex(b, "B"))
            if op == "||":
                return "(orb %s %s)" % (ex(a, "B"), ex(b, "B"))
        raise Refuse("Current_step: expression outside subset: %s %s" % (k, n.get("opcode", "")))

    def _r(msg):
        raise Refuse(msg)

    def is_int_expr(x):
        """integer-valued (after looking through casts to integer types)"""
        t = x.get("type", {}).get("qualType", "")
        return t in ("int", "unsigned long", "size_t", "std::vector::size_type", "unsigned int", "long", "std::size_t", "size_type") or \
            (strip(x)["kind"] == "IntegerLiteral")

    def strip_keep_float(x):
        # a cast int -> floating around an integer expression: evaluate the integer expression in Z, then inject
        s = x
        while s["kind"] in TRANSPARENT and len(kids(s)) == 1:
            inner = kids(s)[0]
            if s.get("castKind") == "IntegralToFloating":
                return {"kind": "__inj", "inner": [inner], "type": {"qualType": "double"}}
            s = inner
        return s

    # patch ex for the injected node
    ex_plain = ex

    def ex(n, want):  # noqa: F811
        if n.get("kind") == "__inj":
            if want != "Q":
                raise Refuse("int->float cast used as " + want)
            return "(inject_Z %s)" % ex_plain(kids(n)[0], "Z")
        s = n
        while s.get("kind") in TRANSPARENT and len(kids(s)) == 1:
            if s.get("castKind") == "IntegralToFloating" and want == "Q":
                return "(inject_Z %s)" % ex(kids(s)[0], "Z")
            s = kids(s)[0]
        return ex_plain(n, want)

    # rebinding inside ex_plain: python closures look up 'ex' at call time in the enclosing scope -> the patched one

    def stmts(lst, ret):
        """translate a statement list; 'ret' = text to use if the list falls through without return"""
        if not lst:
            if ret is None:
                raise Refuse("Current_step: control reaches the end without a return")
            return ret()
        st, rest = lst[0], lst[1:]
        k = st["kind"]
        if k == "CompoundStmt":
            return stmts(kids(st) + rest, ret)
        if k == "ReturnStmt":
            return ex(kids(st)[0], "Q")
        if k == "DeclStmt":
            out_rest = None
            vds = kids(st)
            if len(vds) != 1 or vds[0]["kind"] != "VarDecl" or not kids(vds[0]):
                raise Refuse("Current_step: declaration outside subset")
            v = vds[0]
            val = ex(kids(v)[-1], "Q")
            nm = "v_%d" % len(locs)
            old = dict(locs)
            locs[v["id"]] = nm
            body_txt = stmts(rest, ret)
            return "(let %s := %s in %s)" % (nm, val, body_txt)
        if k == "BinaryOperator" and st.get("opcode") == "=":
            l = strip(kids(st)[0])
            if l["kind"] != "DeclRefExpr" or l["referencedDecl"]["id"] not in locs:
                raise Refuse("Current_step: assignment target outside subset")
            val = ex(kids(st)[1], "Q")
            did = l["referencedDecl"]["id"]
            saved = locs[did]
            nm = "v_%d" % (len(locs) + stmts.counter)
            stmts.counter += 1
            locs[did] = nm
            body_txt = stmts(rest, ret)
            locs[did] = saved
            return "(let %s := %s in %s)" % (nm, val, body_txt)
        if k == "IfStmt":
            ks = kids(st)
            c = ex(ks[0], "B")
            saved = dict(locs)
            # each branch is continued with the rest of the list (code duplication is fine: the function is tiny)
            t = stmts([ks[1]] + rest, ret)
            locs.clear(); locs.update(saved)
            e = stmts(([ks[2]] if len(ks) > 2 else []) + rest, ret)
            locs.clear(); locs.update(saved)
            return "(if %s then %s else %s)" % (c, t, e)
        raise Refuse("Current_step: statement outside subset: " + k)
    stmts.counter = 0

    txt = stmts(kids(body), None)
    L = ["(* GENERATED by translator/c12_gen.py from src/phreeqcpp/cxxKinetics.cxx : cxxKinetics::Current_step.  Do not edit. *)",
         "Require Import QArith ZArith List Bool.",
         "Require Import IPV.C12.MiniPrelude.",
         "Open Scope Q_scope.",
         "",
         "(* steps, count, equalIncrements are the members of cxxKinetics; inc = incremental_reactions, n = reaction_step *)",
         "Definition g_current_step (steps : list Q) (cnt : Z) (eq : bool) (inc : bool) (n : Z) : Q :=",
         "  " + txt + ".", ""]
    return "\n".join(L)


# --------------------------------------------------------------------------- run_reactions: CVODE continuation (RESTART) loop

def gen_restart(repo):
    """time bookkeeping of the loop that re-initialises CVODE when a call stops early (step budget exhausted, mass-balance
    failure): what is added to the elapsed-time variable, what the next call is asked to integrate, where it starts."""
    objs, src = ast_dump(repo, "src/phreeqcpp/kinetics.cpp", "run_reactions")
    fn = definition(objs, "run_reactions")
    params = {c["id"]: c["name"] for c in kids(fn) if c["kind"] == "ParmVarDecl"}

    def is_call(n, name):
        n = strip(n)
        return n["kind"] == "CallExpr" and strip(kids(n)[0]).get("referencedDecl", {}).get("name") == name

    def calls_in(n, name):
        return find_all(n, lambda x: x["kind"] == "CallExpr" and strip(kids(x)[0]).get("referencedDecl", {}).get("name") == name)

    loops = [w for w in find_all(fn, lambda n: n["kind"] == "WhileStmt") if calls_in(w, "CVode")]
    if len(loops) != 1:
        raise Refuse("expected exactly one while loop calling CVode in run_reactions, found %d" % len(loops))
    loop = loops[0]
    lbody = kids(loop)[1]
    # the compound statement that holds the loop (possibly through a label)
    def holder(n):
        for c in kids(n):
            cc = c
            while cc["kind"] == "LabelStmt":
                cc = kids(cc)[0]
            if cc is loop:
                return n, c
            r = holder(c)
            if r:
                return r
        return None
    hold = holder(fn)
    if not hold or hold[0]["kind"] != "CompoundStmt":
        raise Refuse("continuation loop is not a statement of a block")
    block, loop_stmt = hold

    LGT = "cvode_last_good_time"

    class Sym:
        """symbolic execution of straight-line assignments to floating locals and to the member cvode_last_good_time"""
        def __init__(self):
            self.env = {}
            self.events = []

        def key(self, n):
            n = strip(n)
            if n["kind"] == "DeclRefExpr" and n.get("type", {}).get("qualType") in ("double", "LDBLE", "realtype"):
                return ("v", n["referencedDecl"]["id"], n["referencedDecl"]["name"])
            if n["kind"] == "MemberExpr" and n.get("name") == LGT:
                return ("m", LGT, LGT)
            return None

        def ev(self, n):
            n = strip(n)
            k = n["kind"]
            if k in ("FloatingLiteral", "IntegerLiteral"):
                return ("lit", literal(n, src))
            ky = self.key(n)
            if ky is not None:
                return self.env.get(ky[:2], ("sym", ky[1], ky[2]))
            if k == "UnaryOperator" and n["opcode"] == "-":
                return ("neg", self.ev(kids(n)[0]))
            if k == "BinaryOperator" and n["opcode"] in ("+", "-", "*", "/"):
                a, b = [self.ev(c) for c in kids(n)]
                return ({"+": "add", "-": "sub", "*": "mul", "/": "div"}[n["opcode"]], a, b)
            raise Refuse("continuation loop: expression outside subset: %s %s" % (k, n.get("opcode", "")))

        def stmt(self, st, top):
            s0 = strip(st)
            k = s0["kind"]
            if k in ("BinaryOperator", "CompoundAssignOperator") and s0.get("opcode") in ("=", "+=", "-=", "*=", "/="):
                lhs, rhs = kids(s0)
                ky = self.key(lhs)
                r = strip(rhs)
                if ky is not None:
                    if not top:
                        raise Refuse("continuation loop: conditional assignment to %s" % ky[2])
                    e = self.ev(rhs)
                    op = s0["opcode"]
                    if op != "=":
                        cur = self.env.get(ky[:2], ("sym", ky[1], ky[2]))
                        e = ({"+=": "add", "-=": "sub", "*=": "mul", "/=": "div"}[op], cur, e)
                    self.env[ky[:2]] = e
                    return
                if r["kind"] == "CallExpr":
                    self.call(r, top)
                return
            if k == "CallExpr":
                self.call(s0, top)
                return
            if k in ("CompoundStmt", "IfStmt", "ForStmt", "LabelStmt", "WhileStmt"):
                if k == "WhileStmt" and s0 is loop:
                    return
                for c in kids(s0):
                    if "kind" in c and c["kind"] not in ("DeclStmt",):
                        if c["kind"].endswith("Stmt") or c["kind"] in ("BinaryOperator", "CompoundAssignOperator", "CallExpr"):
                            self.stmt(c, False if k != "CompoundStmt" or not top else top)

        def call(self, c, top):
            name = strip(kids(c)[0]).get("referencedDecl", {}).get("name")
            args = kids(c)[1:]
            if name == "CVode":
                if not top:
                    raise Refuse("CVode is called conditionally")
                tv = strip(args[3])
                if tv["kind"] != "UnaryOperator" or tv.get("opcode") != "&":
                    raise Refuse("CVode time argument is not &<local>")
                self.events.append(("cvode", self.ev(args[1]), self.ev(kids(tv)[0]), self.env.get(("m", LGT), ("sym", LGT, LGT))))
            elif name == "CVodeMalloc":
                self.events.append(("malloc", self.ev(args[2])))
            elif name == "N_VScale":
                a = [strip(x) for x in args]
                if a[1]["kind"] == "MemberExpr" and a[2]["kind"] == "MemberExpr":
                    self.events.append(("copy", self.ev(args[0]), a[1].get("name"), a[2].get("name")))

    # statements before the loop, in the block that holds it
    pre = Sym()
    for st in kids(block):
        if st is loop_stmt:
            break
        pre.stmt(st, True)
    firsts = [e for e in pre.events if e[0] == "cvode"]
    mallocs = [e for e in pre.events if e[0] == "malloc"]
    if len(firsts) != 1 or len(mallocs) != 1:
        raise Refuse("expected one CVodeMalloc and one CVode call before the continuation loop")
    body = Sym()
    for st in kids(lbody):
        body.stmt(st, True)
    bc = [e for e in body.events if e[0] == "cvode"]
    bm = [e for e in body.events if e[0] == "malloc"]
    cp = [e for e in body.events if e[0] == "copy"]
    if len(bc) != 1 or len(bm) != 1:
        raise Refuse("expected one CVodeMalloc and one CVode call inside the continuation loop")
    # order inside the loop: copy of the restart state and CVodeMalloc must precede the call
    order = [e[0] for e in body.events]
    if not cp or order.index("copy") > order.index("cvode") or order.index("malloc") > order.index("cvode"):
        raise Refuse("continuation loop does not restore a state / re-initialise before calling CVode")

    def syms(e, acc):
        if e[0] == "sym":
            acc.add((e[1], e[2]))
        for x in e[1:]:
            if isinstance(x, tuple):
                syms(x, acc)
        return acc
    # the elapsed-time variable: the local whose value after one pass depends on cvode_last_good_time at entry
    tgt0 = bc[0][1]
    sumv = [k for k, e in body.env.items() if k[0] == "v" and (LGT, LGT) in syms(e, set()) and e != tgt0]
    if len(sumv) != 1:
        raise Refuse("could not identify the elapsed-time variable of the continuation loop")
    sum_id = sumv[0][1]
    tgt = bc[0][1]
    others = [s for s in syms(tgt, set()) if s[0] not in (sum_id, LGT)]
    if len(others) != 1:
        raise Refuse("target of the continuation call does not depend on exactly one other variable")
    tout_id = others[0][0]

    def em(e, m):
        t = e[0]
        if t == "lit":
            return qlit(e[1])
        if t == "sym":
            if e[1] in m:
                return m[e[1]]
            raise Refuse("continuation loop: free symbol %s" % e[2])
        if t == "neg":
            return "(- %s)" % em(e[1], m)
        return "(%s %s %s)" % (em(e[1], m), {"add": "+", "sub": "-", "mul": "*", "div": "/"}[t], em(e[2], m))

    pm = {i: "kin_time" for i, nme in params.items() if nme == "kin_time"}
    if not pm:
        raise Refuse("run_reactions has no parameter kin_time")
    lm = {sum_id: "sum_t", tout_id: "tout", LGT: "last"}
    L = ["(* GENERATED by translator/c12_gen.py from src/phreeqcpp/kinetics.cpp : Phreeqc::run_reactions (CVODE continuation loop).  Do not edit. *)",
         "Require Import QArith.", "Open Scope Q_scope.", "",
         "(* before the loop *)",
         "Definition g_cv_tout (kin_time : Q) : Q := %s." % em(pre.env.get(("v", tout_id), ("sym", tout_id, "tout")), pm),
         "Definition g_cv_sum_init (kin_time : Q) : Q := %s." % em(pre.env.get(("v", sum_id), ("sym", sum_id, "sum_t")), pm),
         "Definition g_cv_first_target (kin_time : Q) : Q := %s." % em(firsts[0][1], pm),
         "Definition g_cv_first_tstart (kin_time : Q) : Q := %s." % em(firsts[0][2], pm),
         "Definition g_cv_first_t0 (kin_time : Q) : Q := %s." % em(mallocs[0][1], pm),
         "", "(* one pass through the loop; sum_t, tout = values at the top of the pass, last = cvode_last_good_time left by the call that stopped *)",
         "Definition g_cv_sum_next (sum_t last : Q) : Q := %s." % em(body.env[("v", sum_id)], lm),
         "Definition g_cv_loop_target (tout sum_t last : Q) : Q := %s." % em(tgt, lm),
         "Definition g_cv_loop_tstart (tout sum_t last : Q) : Q := %s." % em(bc[0][2], lm),
         "Definition g_cv_loop_t0 (tout sum_t last : Q) : Q := %s." % em(bm[0][1], lm),
         "Definition g_cv_last_good_reset (tout sum_t last : Q) : Q := %s.  (* cvode_last_good_time when the new call starts *)" % em(bc[0][3], lm),
         "Definition g_cv_tout_next (tout sum_t last : Q) : Q := %s." % em(body.env.get(("v", tout_id), ("sym", tout_id, "tout")), lm),
         "(* N_VScale(factor, src, dst) executed before the call *)",
         "Definition g_cv_restart_factor : Q := %s." % em(cp[0][1], {}),
         "Definition g_cv_restart_from_last_good : bool := %s." % ("true" if (cp[0][2], cp[0][3]) == ("cvode_last_good_y", "kinetics_y") else "false"),
         ""]
    # where CVStep (cvode.cpp) copies cvode_last_good_y from: the accepted solution zn[0] at tn, or the work vector y
    # (after a failed step attempt y is the rejected corrector iterate at tn + h_failed)
    objs2, _ = ast_dump(repo, "src/phreeqcpp/cvode.cpp", "CVStep")
    fn2 = definition(objs2, "CVStep")
    srcs = []
    for c in find_all(fn2, lambda n: n["kind"] == "CallExpr" and strip(kids(n)[0]).get("referencedDecl", {}).get("name") == "N_VScale"):
        a = [strip(x) for x in kids(c)[1:]]
        if len(a) == 3 and a[2]["kind"] == "MemberExpr" and a[2].get("name") == "cvode_last_good_y":
            x = a[1]
            if x["kind"] == "MemberExpr" and x.get("name") == "cv_y":
                srcs.append(1)
            elif x["kind"] == "ArraySubscriptExpr" and strip(kids(x)[0]).get("name") == "cv_zn" and strip(kids(x)[1]).get("value") == "0":
                srcs.append(0)
            else:
                srcs.append(2)
    if len(srcs) != 1:
        raise Refuse("CVStep: expected exactly one copy into cvode_last_good_y, found %d" % len(srcs))
    L += ["(* CVStep: source of cvode_last_good_y: 0 = zn[0] (accepted solution at tn), 1 = work vector y, 2 = something else *)",
          "Definition g_cv_last_good_source : nat := %d." % srcs[0], ""]
    return "\n".join(L)


# --------------------------------------------------------------------------- transport(): kinetic time of one shift

INT_TYPES = ("int", "unsigned int", "long", "unsigned long", "size_t", "bool")
DBL_TYPES = ("double", "LDBLE", "realtype", "long double", "float")


class CondSym:
    """symbolic execution with conditionals of assignments to arithmetic locals / this-members.
    values: Q-expressions  ('lit',Fraction) ('sym',name) ('neg',e) ('add|sub|mul|div',a,b) ('inj',z) ('ite',c,a,b)
            Z-expressions  ('zlit',n) ('zsym',name) ('zadd|zsub|zmul',a,b) ('zdiv',a,n) ('zite',c,a,b)
            conditions     ('cmp',op,a,b) ('and',a,b) ('or',a,b) ('not',a) ('bsym',name)"""

    def __init__(self, src, names, opaque_cond):
        self.src = src
        self.names = names            # key -> emitted name, for the variables that may appear
        self.env = {}
        self.events = []              # (kind, payload, path-conditions)
        self.path = []
        self.opaque_cond = opaque_cond   # function(node) -> name or None

    def key(self, n):
        n = strip(n)
        if n["kind"] == "DeclRefExpr" and n.get("referencedDecl", {}).get("kind") in ("VarDecl", "ParmVarDecl"):
            return ("v", n["referencedDecl"]["id"])
        if n["kind"] == "MemberExpr" and kids(n) and strip(kids(n)[0])["kind"] == "CXXThisExpr":
            return ("m", n["name"])
        return None

    def ty(self, n):
        t = n.get("type", {}).get("qualType", "")
        if t in INT_TYPES:
            return "Z"
        if t in DBL_TYPES:
            return "Q"
        return None

    def sym(self, ky, n):
        if ky not in self.names:
            nm = strip(n).get("referencedDecl", {}).get("name") or strip(n).get("name")
            raise Refuse("transport(): variable %s is used in the time bookkeeping but is not part of the model" % nm)
        return ("zsym", self.names[ky]) if self.ty(strip(n)) == "Z" else ("sym", self.names[ky])

    def ev(self, n, want):
        n0 = n
        # look through casts, remembering int -> floating conversions
        while n["kind"] in TRANSPARENT and len(kids(n)) == 1:
            inner = kids(n)[0]
            if n.get("castKind") == "IntegralToFloating" or (n["kind"] in ("CStyleCastExpr", "CXXStaticCastExpr", "CXXFunctionalCastExpr")
                                                              and self.ty(n) == "Q" and self.ty(strip(inner)) == "Z"):
                if want != "Q":
                    raise Refuse("transport(): integer wanted, floating conversion found")
                if strip(inner)["kind"] == "IntegerLiteral":
                    return ("lit", Fraction(int(strip(inner)["value"])))
                return ("inj", self.ev(strip(inner), "Z"))
            n = inner
        k = n["kind"]
        if k == "IntegerLiteral":
            v = int(n["value"])
            return ("zlit", v) if want == "Z" else ("lit", Fraction(v))
        if k == "FloatingLiteral":
            if want != "Q":
                raise Refuse("transport(): floating literal where an integer is wanted")
            return ("lit", literal(n, self.src))
        ky = self.key(n)
        if ky is not None:
            t = self.ty(n)
            v = self.env.get(ky) or self.sym(ky, n)
            if t == "Z" and want == "Q":
                return ("inj", v)
            if t != want:
                raise Refuse("transport(): type mismatch in expression")
            return v
        if k == "UnaryOperator" and n["opcode"] == "-":
            e = self.ev(kids(n)[0], want)
            return ("neg", e) if want == "Q" else ("zsub", ("zlit", 0), e)
        if k == "BinaryOperator" and n["opcode"] in ("+", "-", "*", "/"):
            a, b = kids(n)
            if want == "Z":
                if n["opcode"] == "/":
                    raise Refuse("transport(): integer division")
                return ({"+": "zadd", "-": "zsub", "*": "zmul"}[n["opcode"]], self.ev(a, "Z"), self.ev(b, "Z"))
            return ({"+": "add", "-": "sub", "*": "mul", "/": "div"}[n["opcode"]], self.ev(a, "Q"), self.ev(b, "Q"))
        if k == "CallExpr" and strip(kids(n)[0]).get("referencedDecl", {}).get("name") == "floor" and want in ("Z", "Q"):
            e = self.ev(kids(n)[1], "Q")
            if e[0] == "div" and e[1][0] == "inj" and e[2][0] == "lit" and e[2][1].denominator == 1 and e[2][1] > 0:
                z = ("zdiv", e[1][1], int(e[2][1]))
                return z if want == "Z" else ("inj", z)
        raise Refuse("transport(): expression outside subset: %s %s" % (k, n.get("opcode", "")))

    def cond(self, n):
        n = strip(n)
        k = n["kind"]
        nm = self.opaque_cond(n)
        if nm:
            return ("bsym", nm)
        if k == "UnaryOperator" and n["opcode"] == "!":
            return ("not", self.cond(kids(n)[0]))
        if k == "BinaryOperator" and n["opcode"] in ("&&", "||"):
            a, b = kids(n)
            return ("and" if n["opcode"] == "&&" else "or", self.cond(a), self.cond(b))
        if k == "BinaryOperator" and n["opcode"] in ("==", "!=", "<", ">", "<=", ">="):
            a, b = kids(n)
            ta, tb = self.ty(strip(a)) or self.ty(a), self.ty(strip(b)) or self.ty(b)
            if ta == "Z" and tb == "Z":
                return ("cmp", n["opcode"], self.ev(a, "Z"), self.ev(b, "Z"))
            raise Refuse("transport(): comparison of non-integers in a guard of the time bookkeeping")
        ky = self.key(n)
        if ky is not None and self.ty(n) == "Z":
            return ("cmp", "!=", self.ev(n, "Z"), ("zlit", 0))
        raise Refuse("transport(): condition outside subset: %s %s" % (k, n.get("opcode", "")))

    def assigned_keys(self, st):
        out = set()
        for a in find_all(st, lambda x: x["kind"] in ("BinaryOperator", "CompoundAssignOperator", "UnaryOperator")):
            if a["kind"] == "BinaryOperator" and a.get("opcode") != "=":
                continue
            if a["kind"] == "UnaryOperator" and a.get("opcode") not in ("++", "--"):
                continue
            ky = self.key(kids(a)[0])
            if ky is not None:
                out.add(ky)
        return out

    def run(self, st, tracked, on_call=None, stop=None):
        """execute st; only assignments to `tracked` keys matter.  Returns True when `stop` was reached."""
        if stop is not None and st is stop:
            return True
        s0 = st
        while s0["kind"] in TRANSPARENT and len(kids(s0)) == 1:
            s0 = kids(s0)[0]
        k = s0["kind"]
        if k in ("CompoundStmt", "LabelStmt"):
            for c in kids(s0):
                if self.run(c, tracked, on_call, stop):
                    return True
            return False
        if k == "IfStmt":
            ks = kids(s0)
            touches = self.assigned_keys(s0) & tracked
            has_call = on_call is not None and find_all(s0, lambda x: x["kind"] == "CXXMemberCallExpr" and kids(x) and kids(x)[0].get("name") == "run_reactions")
            if stop is not None and find_all(s0, lambda x: x is stop):
                raise Refuse("transport(): the statement looked for is inside a conditional")
            if not touches and not has_call:
                return False
            c = self.cond(ks[0])
            base = dict(self.env)
            self.path.append(c)
            self.run(ks[1], tracked, on_call)
            self.path.pop()
            env_t = self.env
            self.env = dict(base)
            if len(ks) > 2:
                self.path.append(("not", c))
                self.run(ks[2], tracked, on_call)
                self.path.pop()
            env_e = self.env
            merged = dict(base)
            for ky in set(env_t) | set(env_e):
                a, b = env_t.get(ky), env_e.get(ky)
                if a == b:
                    if a is not None:
                        merged[ky] = a
                    continue
                dflt = ("zsym" if ky in self.ztracked else "sym", self.names.get(ky, "?"))
                a = a if a is not None else dflt
                b = b if b is not None else dflt
                merged[ky] = ("zite" if ky in self.ztracked else "ite", c, a, b)
            self.env = merged
            return False
        if k in ("BinaryOperator", "CompoundAssignOperator") and s0.get("opcode") in ("=", "+=", "-=", "*=", "/="):
            lhs, rhs = kids(s0)
            ky = self.key(lhs)
            if ky in tracked:
                t = "Z" if ky in self.ztracked else "Q"
                r = strip(rhs)
                if r["kind"] in ("CallExpr", "CXXMemberCallExpr") and not (r["kind"] == "CallExpr" and strip(kids(r)[0]).get("referencedDecl", {}).get("name") == "floor"):
                    e = ("zsym" if t == "Z" else "sym", self.names[ky])      # result of a call: the variable stands for itself
                elif r["kind"] == "BinaryOperator" and r.get("opcode") == "=":
                    raise Refuse("transport(): chained assignment in the time bookkeeping")
                else:
                    e = self.ev(rhs, t)
                if s0["opcode"] != "=":
                    cur = self.env.get(ky) or (("zsym" if t == "Z" else "sym"), self.names[ky])
                    pre = "z" if t == "Z" else ""
                    if t == "Z" and s0["opcode"] == "/=":
                        raise Refuse("transport(): integer division")
                    e = (pre + {"+=": "add", "-=": "sub", "*=": "mul", "/=": "div"}[s0["opcode"]], cur, e)
                self.env[ky] = e
            return False
        if k == "CXXMemberCallExpr" and kids(s0) and kids(s0)[0].get("name") == "run_reactions" and on_call is not None:
            on_call(self, kids(s0)[1:])
            return False
        # anything else (loops, calls, declarations): must not assign what is tracked
        bad = self.assigned_keys(s0) & tracked
        if bad:
            raise Refuse("transport(): %s assigns a variable of the time bookkeeping (%s)" % (k, ", ".join(self.names.get(b, "?") for b in bad)))
        return False


def tz(e):
    t = e[0]
    if t == "zlit":
        return "(%d)%%Z" % e[1]
    if t == "zsym":
        return e[1]
    if t in ("zadd", "zsub", "zmul"):
        return "(%s %s %s)%%Z" % (tz(e[1]), {"zadd": "+", "zsub": "-", "zmul": "*"}[t], tz(e[2]))
    if t == "zdiv":
        return "(%s / %d)%%Z" % (tz(e[1]), e[2])
    if t == "zite":
        return "(if %s then %s else %s)" % (tc(e[1]), tz(e[2]), tz(e[3]))
    raise Refuse("cannot emit integer expression " + t)


def tq(e):
    t = e[0]
    if t == "lit":
        return qlit(e[1])
    if t == "sym":
        return e[1]
    if t == "neg":
        return "(- %s)" % tq(e[1])
    if t in ("add", "sub", "mul", "div"):
        return "(%s %s %s)" % (tq(e[1]), {"add": "+", "sub": "-", "mul": "*", "div": "/"}[t], tq(e[2]))
    if t == "inj":
        return "(inject_Z %s)" % tz(e[1])
    if t == "ite":
        return "(if %s then %s else %s)" % (tc(e[1]), tq(e[2]), tq(e[3]))
    raise Refuse("cannot emit expression " + t)


def tc(c):
    t = c[0]
    if t == "bsym":
        return c[1]
    if t == "not":
        return "(negb %s)" % tc(c[1])
    if t in ("and", "or"):
        return "(%s %s %s)" % ("andb" if t == "and" else "orb", tc(c[1]), tc(c[2]))
    if t == "cmp":
        a, b = tz(c[2]), tz(c[3])
        return {"==": "(Z.eqb %s %s)" % (a, b), "!=": "(negb (Z.eqb %s %s))" % (a, b), "<": "(Z.ltb %s %s)" % (a, b), ">": "(Z.ltb %s %s)" % (b, a),
                "<=": "(Z.leb %s %s)" % (a, b), ">=": "(Z.leb %s %s)" % (b, a)}[c[1]]
    raise Refuse("cannot emit condition " + t)


def conj(cs):
    if not cs:
        return "true"
    out = tc(cs[0])
    for c in cs[1:]:
        out = "(andb %s %s)" % (out, tc(c))
    return out


def gen_transport_time(repo):
    """kin_time bookkeeping of Phreeqc::transport(): which time every run_reactions call of one transport step hands to which cell"""
    objs, src = ast_dump(repo, "src/phreeqcpp/transport.cpp", "transport")
    fns = [o for o in objs if o.get("kind") == "CXXMethodDecl" and o.get("name") == "transport" and any(c.get("kind") == "CompoundStmt" for c in o.get("inner", []))]
    if len(fns) != 1:
        raise Refuse("definition of Phreeqc::transport not found")
    fn = fns[0]
    body = [c for c in kids(fn) if c["kind"] == "CompoundStmt"][0]

    def rr_calls(n):
        return find_all(n, lambda x: x["kind"] == "CXXMemberCallExpr" and kids(x) and kids(x)[0].get("name") == "run_reactions")

    calls = rr_calls(body)
    if not calls:
        raise Refuse("transport(): no run_reactions call")
    kts = set()
    for c in calls:
        a = strip(kids(c)[2])
        if a["kind"] != "DeclRefExpr":
            raise Refuse("transport(): run_reactions time argument is not a local variable")
        kts.add(a["referencedDecl"]["id"])
    if len(kts) != 1:
        raise Refuse("transport(): run_reactions is called with different time variables")
    kt = ("v", kts.pop())
    # save variable: local X with statements  X = kt  and  kt = X
    saves = set()
    for a in find_all(body, lambda x: x["kind"] == "BinaryOperator" and x.get("opcode") == "="):
        l, r = strip(kids(a)[0]), strip(kids(a)[1])
        if l["kind"] == "DeclRefExpr" and r["kind"] == "DeclRefExpr" and ("v", r["referencedDecl"]["id"]) == kt:
            saves.add((l["referencedDecl"]["id"], a["id"]))
    if len(saves) != 1:
        raise Refuse("transport(): expected exactly one statement saving the kinetic time step")
    save_id, save_stmt_id = saves.pop()
    save = ("v", save_id)

    def for_parts(f):
        inner = f.get("inner", [])
        if len(inner) != 5:
            raise Refuse("transport(): unexpected for statement")
        return inner[0], inner[2], inner[3], inner[4]      # init, cond, inc, body

    def loop_var(f):
        init, cond, inc, b = for_parts(f)
        c = strip(cond) if "kind" in cond else None
        if c is None or c["kind"] != "BinaryOperator" or c.get("opcode") != "<=":
            return None
        l = strip(kids(c)[0])
        return ("v", l["referencedDecl"]["id"]) if l["kind"] == "DeclRefExpr" else None

    fors = find_all(body, lambda x: x["kind"] == "ForStmt")
    with_calls = [f for f in fors if rr_calls(f)]
    # outermost loop containing calls = loop over transport steps
    step_loops = [f for f in with_calls if not any(g is not f and find_all(g, lambda x: x is f) for g in with_calls)]
    if len(step_loops) != 1:
        raise Refuse("transport(): could not identify the loop over transport steps")
    step_loop = step_loops[0]
    # loop over cells in the advective part: a for loop that has a call AND assigns the time variable
    adv = [f for f in with_calls if f is not step_loop and any(
        x["kind"] in ("BinaryOperator", "CompoundAssignOperator") and x.get("opcode") in ("=", "/=", "*=", "+=", "-=") and
        strip(kids(x)[0]).get("referencedDecl", {}).get("id") == kt[1] for x in find_all(f, lambda y: y["kind"] in ("BinaryOperator", "CompoundAssignOperator")))
        and not any(g is not f and g is not step_loop and find_all(g, lambda x: x is f) for g in with_calls)]
    if len(adv) != 1:
        raise Refuse("transport(): could not identify the loop over cells of the advective part (%d candidates)" % len(adv))
    adv_loop = adv[0]
    iv = loop_var(adv_loop)
    if iv is None:
        raise Refuse("transport(): advective cell loop has no  <cell> <= <count>  condition")

    # block holding the advective loop
    def parent_block(n, target):
        for c in kids(n):
            if c is target:
                return n
            r = parent_block(c, target)
            if r:
                return r
        return None
    blk = parent_block(step_loop, adv_loop)
    if blk["kind"] != "CompoundStmt":
        raise Refuse("transport(): advective cell loop is not a statement of a block")

    # guard of the advective part: the if statement whose branch is that block
    adv_ifs = [x for x in find_all(for_parts(step_loop)[3], lambda y: y["kind"] == "IfStmt" and len(kids(y)) >= 2 and kids(y)[1] is blk)]
    if len(adv_ifs) != 1:
        raise Refuse("transport(): the advective part is not the branch of one if statement")
    adv_if = adv_ifs[0]
    # the cell handed to the call made before the shift (inflow cell) gives the role "first_c"
    pre_calls = []
    for st in kids(blk):
        if st is adv_loop:
            break
        pre_calls += rr_calls(st)
    if len(pre_calls) != 1:
        raise Refuse("transport(): expected one run_reactions call before the cell loop of the advective part, found %d" % len(pre_calls))
    fc_n = strip(kids(pre_calls[0])[1])
    if fc_n["kind"] != "DeclRefExpr":
        raise Refuse("transport(): inflow cell is not a local variable")
    fc = ("v", fc_n["referencedDecl"]["id"])

    # mixing loops: other loops inside the step loop whose body holds a loop with calls
    mix = [f for f in with_calls if f is not step_loop and f is not adv_loop and find_all(for_parts(f)[3], lambda x: x["kind"] == "ForStmt" and rr_calls(x))
           and not any(g is not f and g is not step_loop and find_all(g, lambda x: x is f) for g in with_calls)]
    if len(mix) != 2:
        raise Refuse("transport(): expected two dispersive-mixing loops around run_reactions, found %d" % len(mix))
    jv = loop_var(mix[0])
    if jv is None or loop_var(mix[1]) != jv:
        raise Refuse("transport(): the two mixing loops do not share their counter")
    for m_ in mix:
        if any(strip(kids(x)[0]).get("referencedDecl", {}).get("id") == kt[1] for x in find_all(m_, lambda y: y["kind"] in ("BinaryOperator", "CompoundAssignOperator") and y.get("opcode") in ("=", "/=", "*=", "+=", "-="))):
            raise Refuse("transport(): the kinetic time step is changed inside a mixing loop")
        for c in rr_calls(m_):
            pass

    # b_c: the local compared in the guard of the first mixing loop
    def enclosing_ifs(root, target, acc):
        for c in kids(root):
            if c is target:
                return acc
            if find_all(c, lambda x: x is target):
                return enclosing_ifs(c, target, acc + ([c] if c["kind"] == "IfStmt" else []))
        return None
    ifs1 = enclosing_ifs(for_parts(step_loop)[3], mix[0], [])
    ifs2 = enclosing_ifs(for_parts(step_loop)[3], mix[1], [])
    if ifs1 is None or len(ifs1) != 1 or ifs2 is None or ifs2:
        raise Refuse("transport(): unexpected nesting of the mixing loops")
    g1 = strip(kids(ifs1[0])[0])
    if g1["kind"] != "BinaryOperator" or strip(kids(g1)[0])["kind"] != "DeclRefExpr":
        raise Refuse("transport(): guard of the first mixing loop is not a comparison of a local")
    bc = ("v", strip(kids(g1)[0])["referencedDecl"]["id"])

    names = {kt: "kt", save: "save", fc: "first_c", iv: "i", jv: "j", bc: "b_c",
             ("m", "ishift"): "ishift", ("m", "nmix"): "nmix", ("m", "timest"): "timest", ("m", "count_cells"): "cells",
             ("m", "bcon_first"): "bcon_first", ("m", "bcon_last"): "bcon_last"}
    # stagkin_time-like helpers: any other double local assigned before the save statement is tracked and must resolve to the symbols above
    setup_blk = parent_block(body, [a for a in find_all(body, lambda x: x.get("id") == save_stmt_id)][0])
    while setup_blk is not None and setup_blk["kind"] != "CompoundStmt":
        setup_blk = parent_block(body, setup_blk)
    if setup_blk is None or not find_all(setup_blk, lambda x: x is step_loop):
        raise Refuse("transport(): the kinetic time step is not set in the block that holds the step loop")

    def opaque(n):
        # Rxn_find(Rxn_kinetics_map, X) != NULL   ->  has_kin
        if n["kind"] == "BinaryOperator" and n.get("opcode") in ("!=", "=="):
            txt = json.dumps(n)
            if "Rxn_find" in txt and "Rxn_kinetics_map" in txt:
                return "has_kin" if n["opcode"] == "!=" else None
        return None

    # helper locals (stagkin_time ...): floating locals the kinetic time step is computed from, transitively
    helper_locals = {}
    changed = True
    while changed:
        changed = False
        want = {kt, save} | set(helper_locals)
        for a in find_all(setup_blk, lambda x: x["kind"] in ("BinaryOperator", "CompoundAssignOperator") and x.get("opcode") in ("=", "+=", "-=", "*=", "/=")):
            if find_all(step_loop, lambda x: x is a):
                continue
            l = strip(kids(a)[0])
            if l["kind"] == "DeclRefExpr" and ("v", l["referencedDecl"]["id"]) in want:
                for r in find_all(kids(a)[1], lambda x: x["kind"] == "DeclRefExpr" and x.get("type", {}).get("qualType") in DBL_TYPES
                                  and x.get("referencedDecl", {}).get("kind") == "VarDecl"):
                    ky = ("v", r["referencedDecl"]["id"])
                    if ky not in names and ky not in helper_locals:
                        helper_locals[ky] = "h_" + r["referencedDecl"]["name"]
                        changed = True

    # ---- phase 1: from the start of the block to the step loop: kt, save, first_c, b_c as functions of ishift nmix timest cells bcon_*
    ex = CondSym(src, {**names, **helper_locals}, opaque)
    ex.ztracked = {fc, bc, jv, iv, ("m", "nmix"), ("m", "ishift"), ("m", "count_cells")}
    tracked1 = {kt, save, fc, bc} | set(helper_locals)
    ex.run(setup_blk, tracked1, stop=step_loop)
    def closed(e, allowed):
        if e[0] in ("sym", "zsym"):
            if e[1] not in allowed:
                raise Refuse("transport(): the time bookkeeping depends on %s" % e[1])
        for x in e[1:]:
            if isinstance(x, tuple):
                closed(x, allowed)
    kt0 = ex.env.get(kt)
    sv0 = ex.env.get(save)
    fc0 = ex.env.get(fc)
    bc0 = ex.env.get(bc)
    if None in (kt0, sv0, fc0, bc0):
        raise Refuse("transport(): kinetic time step, its copy, the inflow cell or the boundary switch is not set before the step loop")
    closed(kt0, {"ishift", "nmix", "timest"}); closed(sv0, {"ishift", "nmix", "timest"})
    closed(fc0, {"ishift", "cells"}); closed(bc0, {"ishift", "bcon_first", "bcon_last"})

    # ---- phase 2: the advective block, statements before the cell loop
    ex2 = CondSym(src, names, opaque)
    ex2.ztracked = ex.ztracked
    pre_ev = []
    def on_pre(e, args):
        pre_ev.append((e.ev(args[0], "Z"), e.ev(args[1], "Q"), list(e.path)))
    for st in kids(blk):
        if st is adv_loop:
            break
        ex2.run(st, {kt}, on_call=on_pre)
    if len(pre_ev) != 1:
        raise Refuse("transport(): pre-shift half step not recognised")
    pre_cell, pre_time, pre_path = pre_ev[0]
    pre_next = ex2.env.get(kt, ("sym", "kt"))
    closed(pre_time, {"kt", "save"}); closed(pre_next, {"kt", "save", "has_kin", "cells"}); closed(pre_cell, {"first_c"})

    # ---- phase 3: one pass through the cell loop
    init, cnd, inc, lbody = for_parts(adv_loop)
    ex3 = CondSym(src, names, opaque)
    ex3.ztracked = ex.ztracked
    i0 = strip(init)
    if i0.get("kind") != "BinaryOperator" or i0.get("opcode") != "=" or ex3.key(kids(i0)[0]) != iv:
        raise Refuse("transport(): advective cell loop does not start with  <cell> = <first>")
    loop_first = ex3.ev(kids(i0)[1], "Z")
    loop_last = ex3.ev(kids(strip(cnd))[1], "Z")
    inc0 = strip(inc)
    if inc0.get("kind") != "UnaryOperator" or inc0.get("opcode") != "++" or ex3.key(kids(inc0)[0]) != iv:
        raise Refuse("transport(): advective cell loop does not advance by one")
    loop_ev = []
    def on_loop(e, args):
        loop_ev.append((e.ev(args[0], "Z"), e.ev(args[1], "Q"), list(e.path)))
    ex3.run(lbody, {kt}, on_call=on_loop)
    if len(loop_ev) != 1 or loop_ev[0][2] or loop_ev[0][0] != ("zsym", "i"):
        raise Refuse("transport(): the cell loop of the advective part does not call run_reactions exactly once, unconditionally, for its own cell")
    loop_time = loop_ev[0][1]
    loop_next = ex3.env.get(kt, ("sym", "kt"))
    closed(loop_time, {"kt", "save", "i", "first_c", "cells"}); closed(loop_next, {"kt", "save", "i", "first_c", "cells"})
    closed(loop_first, set()); closed(loop_last, {"cells"})

    # ---- phase 4: the mixing loops
    ex4 = CondSym(src, names, opaque)
    ex4.ztracked = ex.ztracked
    i1, c1, n1, _ = for_parts(mix[0])
    i1s = strip(i1)
    if i1s.get("kind") != "BinaryOperator" or i1s.get("opcode") != "=" or ex4.key(kids(i1s)[0]) != jv:
        raise Refuse("transport(): first mixing loop does not initialise its counter")
    mix1_first = ex4.ev(kids(i1s)[1], "Z")
    mix1_last = ex4.ev(kids(strip(c1))[1], "Z")
    mix1_guard = ex4.cond(kids(ifs1[0])[0])
    i2, c2, n2, _ = for_parts(mix[1])
    if "kind" in i2:
        raise Refuse("transport(): second mixing loop re-initialises its counter")
    mix2_last = ex4.ev(kids(strip(c2))[1], "Z")
    for nn in (n1, n2):
        s_ = strip(nn)
        if s_.get("kind") != "UnaryOperator" or s_.get("opcode") != "++" or ex4.key(kids(s_)[0]) != jv:
            raise Refuse("transport(): a mixing loop does not advance by one")
    # the conditional reset of the counter between the loops: statements of the step-loop body that assign j outside the two loops
    resets = []
    for st in kids(for_parts(step_loop)[3]):
        if find_all(st, lambda x: x is mix[0]) or st is mix[1]:
            continue
        for a in find_all(st, lambda x: x["kind"] in ("BinaryOperator", "CompoundAssignOperator", "UnaryOperator")):
            if (a["kind"] == "BinaryOperator" and a.get("opcode") == "=") or a["kind"] == "CompoundAssignOperator" or (a["kind"] == "UnaryOperator" and a.get("opcode") in ("++", "--")):
                if ex4.key(kids(a)[0]) == jv and not find_all(a, lambda x: x["kind"] == "ForStmt"):
                    inloop = [f for f in find_all(st, lambda x: x["kind"] == "ForStmt") if find_all(f, lambda x: x is a) and loop_var(f) == jv]
                    if not inloop:
                        resets.append((st, a))
    if len(resets) != 1 or strip(resets[0][0])["kind"] != "IfStmt" or len(kids(strip(resets[0][0]))) != 2:
        raise Refuse("transport(): expected exactly one conditional reset of the mixing counter between the two loops, found %d" % len(resets))
    rst_if = strip(resets[0][0])
    mix2_reset_guard = ex4.cond(kids(rst_if)[0])
    ra = resets[0][1]
    if ra["kind"] != "BinaryOperator":
        raise Refuse("transport(): reset of the mixing counter is not an assignment")
    mix2_reset_value = ex4.ev(kids(ra)[1], "Z")
    # order: reset must come after the first loop and before the second
    order = [st for st in kids(for_parts(step_loop)[3])]
    idx1 = [k for k, st in enumerate(order) if find_all(st, lambda x: x is mix[0])][0]
    idxr = order.index(resets[0][0])
    idx2 = order.index(mix[1])
    idxa = [k for k, st in enumerate(order) if find_all(st, lambda x: x is adv_loop)][0]
    if not (idx1 < idxa < idxr < idx2):
        raise Refuse("transport(): order of first mixing loop / advective part / counter reset / second mixing loop changed")
    for e_, al in ((mix1_first, set()), (mix1_last, {"nmix"}), (mix2_last, {"nmix"}), (mix2_reset_value, set())):
        closed(e_, al)

    L = ["(* GENERATED by translator/c12_gen.py from src/phreeqcpp/transport.cpp : Phreeqc::transport (kinetic time of one transport step).  Do not edit. *)",
         "Require Import QArith ZArith Bool.", "Open Scope Q_scope.", "",
         "(* set before the loop over transport steps *)",
         "Definition g_tr_kin_time (ishift nmix : Z) (timest : Q) : Q := %s." % tq(kt0),
         "Definition g_tr_kin_time_save (ishift nmix : Z) (timest : Q) : Q := %s." % tq(sv0),
         "Definition g_tr_first_c (ishift cells : Z) : Z := %s." % tz(fc0),
         "Definition g_tr_b_c (ishift bcon_first bcon_last : Z) : Z := %s." % tz(bc0),
         "", "(* the advective part is executed when *)",
         "Definition g_tr_adv_guard (ishift : Z) : bool := %s." % tc(ex.cond(kids(adv_if)[0])),
         "", "(* advective part, before the shift: run_reactions(g_tr_pre_cell, g_tr_pre_time, ..) under g_tr_pre_cond; kt afterwards *)",
         "Definition g_tr_pre_cond (has_kin : bool) (cells : Z) : bool := %s." % conj(pre_path),
         "Definition g_tr_pre_cell (first_c : Z) : Z := %s." % tz(pre_cell),
         "Definition g_tr_pre_time (kt save : Q) : Q := %s." % tq(pre_time),
         "Definition g_tr_pre_next (has_kin : bool) (cells : Z) (kt save : Q) : Q := %s." % tq(pre_next),
         "", "(* advective part, after the shift: for i = g_tr_loop_first .. g_tr_loop_last: run_reactions(i, g_tr_loop_time, ..); kt afterwards *)",
         "Definition g_tr_loop_first : Z := %s." % tz(loop_first),
         "Definition g_tr_loop_last (cells : Z) : Z := %s." % tz(loop_last),
         "Definition g_tr_loop_time (i first_c cells : Z) (kt save : Q) : Q := %s." % tq(loop_time),
         "Definition g_tr_loop_next (i first_c cells : Z) (kt save : Q) : Q := %s." % tq(loop_next),
         "", "(* dispersive mixing runs, every one calling run_reactions(cell, kt, ..) for every cell:",
         "   if g_tr_mix1_guard: for (j = g_tr_mix1_first; j <= g_tr_mix1_last; j++);  [advective part];",
         "   if g_tr_mix2_reset_guard: j = g_tr_mix2_reset_value;  for (; j <= g_tr_mix2_last; j++) *)",
         "Definition g_tr_mix1_guard (b_c : Z) : bool := %s." % tc(mix1_guard),
         "Definition g_tr_mix1_first : Z := %s." % tz(mix1_first),
         "Definition g_tr_mix1_last (nmix : Z) : Z := %s." % tz(mix1_last),
         "Definition g_tr_mix2_reset_guard (b_c : Z) : bool := %s." % tc(mix2_reset_guard),
         "Definition g_tr_mix2_reset_value : Z := %s." % tz(mix2_reset_value),
         "Definition g_tr_mix2_last (nmix : Z) : Z := %s." % tz(mix2_last),
         ""]
    return "\n".join(L)


# --------------------------------------------------------------------------- what a rate program sees: M, M0, TIME, PARM

def gen_bind(repo):
    """(a) calc_kinetic_reaction (kinetics.cpp): which value every rate_* member of Phreeqc receives before the BASIC rate
    program of a reactant is run; (b) PBasic::factor (PBasic.cpp): which Phreeqc member the BASIC functions M, M0, TIME, PARM read."""
    objs, src = ast_dump(repo, "src/phreeqcpp/kinetics.cpp", "calc_kinetic_reaction")
    fn = definition(objs, "calc_kinetic_reaction")
    params = {c["id"]: c["name"] for c in kids(fn) if c["kind"] == "ParmVarDecl"}
    binds = []
    for a in find_all(fn, lambda x: x["kind"] == "BinaryOperator" and x.get("opcode") == "="):
        l = strip(kids(a)[0])
        if not (l["kind"] == "MemberExpr" and kids(l) and strip(kids(l)[0])["kind"] == "CXXThisExpr"):
            continue
        nm = l["name"]
        if not (nm.startswith("rate_") or nm == "count_rate_p"):
            continue
        r = strip(kids(a)[1])
        srcs = "OtherSource"
        gname, gargs, gobj = member_call_name(r)
        if gname and not gargs and gobj and strip(gobj[0])["kind"] == "DeclRefExpr" and "KineticsComp" in strip(gobj[0]).get("type", {}).get("qualType", ""):
            srcs = 'FromComp "%s"' % gname
        elif r["kind"] == "DeclRefExpr" and r["referencedDecl"]["id"] in params:
            srcs = 'FromArg "%s"' % params[r["referencedDecl"]["id"]]
        elif r["kind"] == "CXXMemberCallExpr" and kids(r)[0].get("name") == "size":
            inner = find_all(r, lambda x: x["kind"] == "MemberExpr" and x.get("name", "").startswith("Get_"))
            srcs = 'SizeOf "%s"' % (inner[0]["name"] if inner else "?")
        elif "NAN" in json.dumps(r.get("range", {})) or r["kind"] in ("CallExpr",) or find_all(r, lambda x: x["kind"] == "CallExpr" and "nan" in strip(kids(x)[0]).get("referencedDecl", {}).get("name", "")):
            srcs = "NotANumber"
        binds.append((nm, srcs))
    for a in find_all(fn, lambda x: x["kind"] == "CXXOperatorCallExpr" and len(kids(x)) == 3 and strip(kids(x)[0]).get("referencedDecl", {}).get("name") == "operator="):
        l = strip(kids(a)[1])
        if l["kind"] == "MemberExpr" and kids(l) and strip(kids(l)[0])["kind"] == "CXXThisExpr" and l["name"].startswith("rate_"):
            gname, gargs, gobj = member_call_name(kids(a)[2])
            binds.append((l["name"], 'FromComp "%s"' % gname if gname and not gargs else "OtherSource"))
    names = [b[0] for b in binds]
    if len(set(names)) != len(names):
        raise Refuse("calc_kinetic_reaction assigns a rate_* member more than once: %r" % names)
    objs2, _ = ast_dump(repo, "src/phreeqcpp/PBasic.cpp", "factor")
    fns = [o for o in objs2 if o.get("name") == "factor" and o.get("kind") == "CXXMethodDecl" and any(c.get("kind") == "CompoundStmt" for c in o.get("inner", []))]
    if len(fns) != 1:
        raise Refuse("PBasic::factor not found")
    reads = []
    for tok in ("tokm", "tokm0", "toktime", "tokparm"):
        cs = [c for c in find_all(fns[0], lambda x: x["kind"] == "CaseStmt")
              if any(d["referencedDecl"]["name"] == tok for d in find_all(kids(c)[0], lambda x: x["kind"] == "DeclRefExpr"))]
        if len(cs) != 1:
            raise Refuse("PBasic::factor: expected one case for %s" % tok)
        body = kids(cs[0])[-1]
        mem = []
        for m_ in find_all(body, lambda x: x["kind"] == "MemberExpr" and kids(x) and strip(kids(x)[0]).get("name") == "PhreeqcPtr"):
            if m_["name"] not in mem and m_.get("type", {}).get("qualType", "") != "<bound member function type>":
                mem.append(m_["name"])
        reads.append((tok, mem))
    L = ["(* GENERATED by translator/c12_gen.py from src/phreeqcpp/kinetics.cpp : Phreeqc::calc_kinetic_reaction and src/phreeqcpp/PBasic.cpp : PBasic::factor.  Do not edit. *)",
         "Require Import String List.", "Require Import IPV.C12.BindModel.", "Import ListNotations.", "Open Scope string_scope.", "",
         "(* member of Phreeqc  <-  value it receives before the rate program of a reactant runs *)",
         "Definition g_rate_bind : list (string * source) := [" + "; ".join('("%s", %s)' % b for b in binds) + "].",
         "(* BASIC function  ->  members of Phreeqc it reads *)",
         "Definition g_basic_reads : list (string * list string) := [" + "; ".join('("%s", [%s])' % (t, "; ".join('"%s"' % x for x in ms)) for t, ms in reads) + "].", ""]
    return "\n".join(L)


# --------------------------------------------------------------------------- exhaustion clamp

def gen_clamp(repo):
    """calc_final_kinetic_reaction: 'if (Get_moles() > A[i]) { Set_moles(B[i]); Set_m(C); }'  - which arrays A, B; and in
    rk_kinetics which array the new amount is computed from (Set_m(X[j] - Get_moles())) and which array is refreshed with
    Get_m() at the start of every sub-step attempt."""
    objs, src = ast_dump(repo, "src/phreeqcpp/kinetics.cpp", "calc_final_kinetic_reaction")
    fn = definition(objs, "calc_final_kinetic_reaction")

    def arr_name(n):
        n = strip(n)
        if n["kind"] == "CXXOperatorCallExpr" and len(kids(n)) == 3 and strip(kids(n)[0]).get("referencedDecl", {}).get("name") == "operator[]":
            b = strip(kids(n)[1])
            if b["kind"] == "MemberExpr":
                return b["name"]
        if n["kind"] == "ArraySubscriptExpr":
            b = strip(kids(n)[0])
            if b["kind"] == "MemberExpr":
                return b["name"]
        return None
    found = []
    for st in find_all(fn, lambda x: x["kind"] == "IfStmt"):
        c = strip(kids(st)[0])
        if c["kind"] == "BinaryOperator" and c.get("opcode") == ">":
            nm, args, _ = member_call_name(kids(c)[0])
            a = arr_name(kids(c)[1])
            if nm == "Get_moles" and a:
                sets = [x for x in find_all(kids(st)[1], lambda y: y["kind"] == "CXXMemberCallExpr" and kids(y)[0].get("name") in ("Set_moles", "Set_m"))]
                sm = [arr_name(kids(x)[1]) for x in sets if kids(x)[0]["name"] == "Set_moles"]
                sz = [strip(kids(x)[1]) for x in sets if kids(x)[0]["name"] == "Set_m"]
                if len(sm) != 1 or len(sz) != 1 or sz[0]["kind"] not in ("IntegerLiteral", "FloatingLiteral"):
                    raise Refuse("calc_final_kinetic_reaction: exhaustion clamp has an unexpected body")
                found.append((a, sm[0], literal(sz[0], src)))
    if len(found) != 1:
        raise Refuse("calc_final_kinetic_reaction: expected exactly one exhaustion clamp, found %d" % len(found))
    objs2, src2 = ast_dump(repo, "src/phreeqcpp/kinetics.cpp", "rk_kinetics")
    fn2 = definition(objs2, "rk_kinetics")
    bases = []
    for c in find_all(fn2, lambda y: y["kind"] == "CXXMemberCallExpr" and kids(y)[0].get("name") == "Set_m"):
        a = strip(kids(c)[1])
        if a["kind"] == "BinaryOperator" and a.get("opcode") == "-":
            nm, _, _ = member_call_name(kids(a)[1])
            b = arr_name(kids(a)[0])
            if nm == "Get_moles" and b:
                if b not in bases:
                    bases.append(b)
            else:
                raise Refuse("rk_kinetics: Set_m argument is not <array>[j] - Get_moles()")
    snaps = []
    for a in find_all(fn2, lambda x: x["kind"] == "BinaryOperator" and x.get("opcode") == "="):
        l = arr_name(kids(a)[0])
        nm, _, _ = member_call_name(kids(a)[1])
        if l and nm == "Get_m" and l not in snaps:
            snaps.append(l)
    L = ["(* GENERATED by translator/c12_gen.py from src/phreeqcpp/kinetics.cpp : calc_final_kinetic_reaction / rk_kinetics.  Do not edit. *)",
         "Require Import String List QArith.", "Import ListNotations.", "Open Scope string_scope.", "",
         "(* if (Get_moles() > g_clamp_cmp[i]) { Set_moles(g_clamp_set[i]); Set_m(g_clamp_m); } *)",
         'Definition g_clamp_cmp : string := "%s".' % found[0][0],
         'Definition g_clamp_set : string := "%s".' % found[0][1],
         "Definition g_clamp_m : Q := %s." % qlit(found[0][2]),
         "(* rk_kinetics: Set_m(<base>[j] - Get_moles()) ; <snapshot>[j] = Get_m() at the start of a sub-step attempt *)",
         "Definition g_update_bases : list string := [%s]." % "; ".join('"%s"' % b for b in bases),
         "Definition g_substep_snapshots : list string := [%s]." % "; ".join('"%s"' % b for b in snaps), ""]
    return "\n".join(L)


def main():
    repo = sys.argv[1] if len(sys.argv) > 1 else "/repo"
    outd = sys.argv[2] if len(sys.argv) > 2 else None
    t = gen_tableau(repo)
    s = gen_step(repo)
    r = gen_restart(repo)
    tt = gen_transport_time(repo)
    bb = gen_bind(repo)
    cc = gen_clamp(repo)
    if outd:
        open(os.path.join(outd, "Gen_C12_Bind.v"), "w").write(bb)
        open(os.path.join(outd, "Gen_C12_Clamp.v"), "w").write(cc)
    else:
        sys.stdout.write(bb)
        sys.stdout.write(cc)
    if outd:
        open(os.path.join(outd, "Gen_C12_Restart.v"), "w").write(r)
        open(os.path.join(outd, "Gen_C12_Transport.v"), "w").write(tt)
    else:
        sys.stdout.write(r)
        sys.stdout.write(tt)
    if outd:
        open(os.path.join(outd, "Gen_C12_Tableau.v"), "w").write(t)
        open(os.path.join(outd, "Gen_C12_Step.v"), "w").write(s)
    else:
        sys.stdout.write(t)
        sys.stdout.write(s)


if __name__ == "__main__":
    try:
        main()
    except Refuse as ex:
        sys.stderr.write("REFUSED: %s\n" % ex)
        sys.exit(3)
