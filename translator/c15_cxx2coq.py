#!/usr/bin/env python3
"""C15 translator back end: clang JSON AST of a few engine functions -> Gallina terms of the
mini language IPV.C15.Ir (coq/C15/Ir.v).

The translator only transliterates syntax.  Meaning lives in Coq (Ir.exec).  Conventions:
  * a data member reached through an object of class T (getter `obj.Get_f()`, `obj->f`,
    setter `obj.Set_f(e)`) is the *field* (T, f): the object's variable name is irrelevant, so
    renaming locals / parameters that hold objects is invisible;
  * `this->x` (implicit or explicit) is EThis x; locals and parameters are ELoc x;
  * `it->first / it->second` on a map iterator are the fields ("pair","first"/"second");
  * `for (it = C.begin(); it != C.end(); it++) body` is SFor (T,f) body where C = obj.Get_f();
  * `a op= e`, `a++` are expanded; `.c_str()`, casts, temporaries, parentheses are dropped;
  * floating literals are taken from their *source spelling* and become exact rationals;
  * a call with an `&out` argument that is the left operand of the comparison forming an `if`
    condition is hoisted into `SLoc "$ret" (ECall ...)` in front of the `if`;
  * anything outside the subset becomes EOpaque / SOpaque with the node kind (the Coq interpreter
    gets stuck there, so a theorem only survives if the opaque node is unreachable under its
    premises).  Structural refusals (no body, unparsable AST) raise Refusal.
"""
import json, os, re, subprocess, sys
from fractions import Fraction
from decimal import Decimal

INCS = ["src", "src/phreeqcpp", "src/phreeqcpp/common", "src/phreeqcpp/PhreeqcKeywords"]


class Refusal(Exception):
    pass


def clang_ast(repo, relfile, qualname, timeout=180):
    src = os.path.join(repo, relfile)
    cmd = ["clang++", "-std=c++11", "-fsyntax-only", "-w", "-DSWIG_SHARED_OBJ", "-DUSE_PHRQ_ALLOC", "-DIPHREEQC_VERIF"] + \
          ["-I" + os.path.join(repo, i) for i in INCS] + \
          ["-Xclang", "-ast-dump=json", "-Xclang", "-ast-dump-filter=" + qualname, src]
    try:
        p = subprocess.run(cmd, stdout=subprocess.PIPE, stderr=subprocess.PIPE, timeout=timeout)
    except subprocess.TimeoutExpired:
        raise Refusal("clang timed out on " + relfile)
    txt = p.stdout.decode(errors="replace")
    if not txt.strip():
        raise Refusal("clang produced no AST for %s in %s: %s" % (qualname, relfile, p.stderr.decode(errors="replace")[-500:]))
    dec = json.JSONDecoder()
    i, objs = 0, []
    while i < len(txt):
        while i < len(txt) and txt[i].isspace():
            i += 1
        if i >= len(txt):
            break
        # the filter prints "Dumping <name>:" lines between objects
        if txt[i] != "{":
            j = txt.find("\n", i)
            i = len(txt) if j < 0 else j + 1
            continue
        o, i = dec.raw_decode(txt, i)
        objs.append(o)
    return objs, open(src, "rb").read()


def find_definition(objs, name):
    """the function definition (has a CompoundStmt body) with the given simple name; in the
    active preprocessor configuration there must be exactly one"""
    found = []
    for o in objs:
        if o.get("kind") in ("CXXMethodDecl", "FunctionDecl") and o.get("name") == name:
            if any(c.get("kind") == "CompoundStmt" for c in o.get("inner", [])):
                found.append(o)
    if len(found) != 1:
        raise Refusal("expected exactly one definition of %s, found %d" % (name, len(found)))
    return found[0]


# ----------------------------------------------------------------------------- Coq printing

def cq_str(s):
    return '"' + s.replace('"', '""') + '"'


def cq_Q(fr):
    fr = Fraction(fr)
    if fr.numerator < 0:
        return "((%d) # %d)" % (fr.numerator, fr.denominator)
    return "(%d # %d)" % (fr.numerator, fr.denominator)


def cq_list(items, indent):
    if not items:
        return "[]"
    pad = " " * indent
    return "[\n" + (";\n").join(pad + "  " + it for it in items) + "\n" + pad + "]"


BINOPS = {"+": "Add", "-": "Sub", "*": "Mul", "/": "Div", "<": "Lt", "<=": "Le", ">": "Gt", ">=": "Ge",
          "==": "Eq", "!=": "Ne", "&&": "And", "||": "Or"}

PASS_THROUGH = {"ImplicitCastExpr", "ParenExpr", "ExprWithCleanups", "MaterializeTemporaryExpr", "CXXBindTemporaryExpr",
                "CXXFunctionalCastExpr", "CStyleCastExpr", "CXXStaticCastExpr", "ConstantExpr"}


def class_of(qual):
    """'const cxxSolution *' -> 'cxxSolution'; 'class master *' -> 'master'"""
    q = qual or ""
    q = re.sub(r"\b(const|class|struct|volatile)\b", " ", q)
    q = q.replace("*", " ").replace("&", " ").strip()
    q = q.split("<")[0].strip()
    q = q.split("::")[-1].strip() if q else q
    return q or "?"


class Tr:
    def __init__(self, srcbytes):
        self.src = srcbytes
        self.opaque = []

    # ---------- helpers
    def strip(self, n):
        while n.get("kind") in PASS_THROUGH and n.get("inner"):
            if n.get("kind") == "ImplicitCastExpr" and n.get("castKind") in ("PointerToBoolean", "IntegralToBoolean", "FloatingToBoolean"):
                return n
            n = n["inner"][-1]
        return n

    def spelled(self, n):
        b = n.get("range", {}).get("begin", {})
        if "offset" in b and "tokLen" in b and "spellingLoc" not in b and "expansionLoc" not in b:
            return self.src[b["offset"]: b["offset"] + b["tokLen"]].decode(errors="replace")
        return None

    def opq(self, n, why=""):
        k = n.get("kind", "?") + (":" + why if why else "")
        self.opaque.append(k)
        return "EOpaque " + cq_str(k)

    def member_base(self, me):
        inner = me.get("inner", [])
        return inner[0] if inner else None

    def field_of_member(self, me, fname):
        """(T, f) for a MemberExpr-like access `base.f` / `base->f`"""
        base = self.member_base(me)
        if base is None:
            return None
        b = self.strip(base)
        if b.get("kind") == "CXXThisExpr":
            return ("this", fname)
        # iterator: operator-> call
        if b.get("kind") == "CXXOperatorCallExpr" and self.op_name(b) == "operator->":
            return ("pair", fname)
        return (class_of(b.get("type", {}).get("qualType")), fname)

    def op_name(self, n):
        inner = n.get("inner", [])
        if not inner:
            return None
        c = self.strip(inner[0])
        # callee is ImplicitCastExpr(FunctionToPointerDecay) -> DeclRefExpr
        while c.get("kind") == "ImplicitCastExpr" and c.get("inner"):
            c = c["inner"][0]
        return (c.get("referencedDecl") or {}).get("name")

    # ---------- expressions
    def expr(self, n):
        n = self.strip(n)
        k = n.get("kind")
        if k == "ImplicitCastExpr":   # boolean conversions kept by strip()
            inner = self.expr(n["inner"][0])
            if n.get("castKind") == "PointerToBoolean":
                return "EBin Ne (%s) ENull" % inner
            return "EBin Ne (%s) (ENum (0 # 1))" % inner
        if k == "FloatingLiteral":
            sp = self.spelled(n)
            val = n.get("value")
            if sp is not None:
                t = sp.rstrip("fFlL")
                try:
                    if float(t) == float(val):
                        return "ENum " + cq_Q(Fraction(Decimal(t)))
                except Exception:
                    pass
            return "ENum " + cq_Q(Fraction(float(val)))
        if k == "IntegerLiteral":
            return "ENum " + cq_Q(Fraction(int(n.get("value"))))
        if k == "CharacterLiteral":
            return "EChr %d" % int(n.get("value"))
        if k == "StringLiteral":
            v = n.get("value", '""')
            try:
                s = json.loads(v)
            except Exception:
                s = v[1:-1]
            return "EStr " + cq_str(s)
        if k in ("GNUNullExpr", "CXXNullPtrLiteralExpr"):
            return "ENull"
        if k == "CXXBoolLiteralExpr":
            return "ENum " + cq_Q(1 if n.get("value") else 0)
        if k == "DeclRefExpr":
            rd = n.get("referencedDecl", {})
            if rd.get("kind") in ("VarDecl", "ParmVarDecl"):
                return "ELoc " + cq_str(rd.get("name", "?"))
            if rd.get("kind") == "EnumConstantDecl":
                return "EStr " + cq_str("enum:" + rd.get("name", "?"))
            return self.opq(n, rd.get("kind", ""))
        if k == "CXXThisExpr":
            return self.opq(n)
        if k == "MemberExpr":
            f = self.field_of_member(n, n.get("name"))
            if f is None:
                return self.opq(n)
            if f[0] == "this":
                return "EThis " + cq_str(f[1])
            return "EFld %s %s" % (cq_str(f[0]), cq_str(f[1]))
        if k == "CXXMemberCallExpr":
            callee = self.strip(n["inner"][0])
            args = n["inner"][1:]
            name = callee.get("name", "?")
            base = self.member_base(callee)
            if name in ("c_str", "data") and not args and base is not None:
                return self.expr(base)
            if name in ("size", "length") and not args and base is not None:
                return "ESize (%s)" % self.expr(base)
            if name.startswith("Get_") and not args:
                f = self.field_of_member(callee, name[4:])
                if f and f[0] != "this":
                    return "EFld %s %s" % (cq_str(f[0]), cq_str(f[1]))
            return "ECall %s %s" % (cq_str(name), self.elist(args))
        if k == "CallExpr":
            callee = self.strip(n["inner"][0])
            while callee.get("kind") == "ImplicitCastExpr" and callee.get("inner"):
                callee = callee["inner"][0]
            name = (callee.get("referencedDecl") or {}).get("name") or callee.get("name") or "?"
            args = n["inner"][1:]
            if name == "strstr" and len(args) == 2:
                return "EStrStr (%s) (%s)" % (self.expr(args[0]), self.expr(args[1]))
            if name == "strcmp" and len(args) == 2:
                return "EStrCmp (%s) (%s)" % (self.expr(args[0]), self.expr(args[1]))
            return "ECall %s %s" % (cq_str(name), self.elist(args))
        if k == "CXXOperatorCallExpr":
            op = self.op_name(n)
            args = n["inner"][1:]
            if op == "operator[]" and len(args) == 2:
                a0 = self.strip(args[0])
                ty = a0.get("type", {}).get("qualType", "")
                if "string" in ty:
                    return "EIdx (%s) (%s)" % (self.expr(args[0]), self.expr(args[1]))
                return "EGet (%s) (%s)" % (self.expr(args[0]), self.expr(args[1]))
            if op in ("operator==", "operator!=") and len(args) == 2:
                return "EBin %s (%s) (%s)" % ("Eq" if op == "operator==" else "Ne", self.expr(args[0]), self.expr(args[1]))
            return self.opq(n, op or "")
        if k == "CXXConstructExpr":
            inner = [c for c in n.get("inner", []) if c.get("kind") != "CXXDefaultArgExpr"]
            if len(inner) == 1:
                return self.expr(inner[0])
            if not inner:
                return "EStr " + cq_str("")
            return self.opq(n)
        if k == "BinaryOperator":
            op = n.get("opcode")
            if op in BINOPS:
                return "EBin %s (%s) (%s)" % (BINOPS[op], self.expr(n["inner"][0]), self.expr(n["inner"][1]))
            return self.opq(n, op)
        if k == "UnaryOperator":
            op = n.get("opcode")
            a = n["inner"][0]
            if op == "!":
                return "ENot (%s)" % self.expr(a)
            if op == "-":
                return "ENeg (%s)" % self.expr(a)
            if op == "+":
                return self.expr(a)
            if op == "&":
                return "EAddr (%s)" % self.expr(a)
            if op == "*":
                return self.expr(a)
            return self.opq(n, op)
        return self.opq(n)

    def elist(self, args):
        return "[" + "; ".join(self.expr(a) for a in args if a.get("kind") != "CXXDefaultArgExpr") + "]"

    # ---------- lvalues -> statement constructor
    def assign(self, lhs, rhs_text):
        l = self.strip(lhs)
        k = l.get("kind")
        if k == "DeclRefExpr" and l.get("referencedDecl", {}).get("kind") in ("VarDecl", "ParmVarDecl"):
            return "SLoc %s (%s)" % (cq_str(l["referencedDecl"]["name"]), rhs_text)
        if k == "MemberExpr":
            f = self.field_of_member(l, l.get("name"))
            if f:
                if f[0] == "this":
                    return "SThis %s (%s)" % (cq_str(f[1]), rhs_text)
                return "SFld %s %s (%s)" % (cq_str(f[0]), cq_str(f[1]), rhs_text)
        if k == "CXXOperatorCallExpr" and self.op_name(l) == "operator[]":
            args = l["inner"][1:]
            cont = self.strip(args[0])
            # container must be obj.Get_f()
            c = cont
            while c.get("kind") in PASS_THROUGH and c.get("inner"):
                c = c["inner"][-1]
            if c.get("kind") == "CXXMemberCallExpr":
                callee = self.strip(c["inner"][0])
                nm = callee.get("name", "")
                if nm.startswith("Get_"):
                    f = self.field_of_member(callee, nm[4:])
                    if f:
                        return "SPut %s %s (%s) (%s)" % (cq_str(f[0]), cq_str(f[1]), self.expr(args[1]), rhs_text)
        if k == "UnaryOperator" and l.get("opcode") == "*":
            return self.assign(l["inner"][0], rhs_text)
        self.opaque.append("lvalue:" + str(k))
        return "SOpaque " + cq_str("lvalue:" + str(k))

    # ---------- statements
    def stmts(self, n):
        """list of Coq stmt texts for node n"""
        if not n or not n.get("kind"):
            return []
        k = n.get("kind")
        if k == "CompoundStmt":
            out = []
            for c in n.get("inner", []):
                out += self.stmts(c)
            return out
        if k in ("ExprWithCleanups", "ParenExpr") and n.get("inner"):
            return self.stmts(n["inner"][-1])
        if k == "NullStmt":
            return []
        if k == "DeclStmt":
            out = []
            for v in n.get("inner", []):
                if v.get("kind") != "VarDecl":
                    continue
                init = [c for c in v.get("inner", []) if c.get("kind")]
                if init and v.get("init"):
                    e = self.strip(init[-1])
                    if e.get("kind") == "CXXConstructExpr" and not [c for c in e.get("inner", []) if c.get("kind") != "CXXDefaultArgExpr"]:
                        continue  # default construction: no value
                    out.append("SLoc %s (%s)" % (cq_str(v["name"]), self.expr(init[-1])))
            return out
        if k == "IfStmt":
            inner = n.get("inner", [])
            cond, then = inner[0], inner[1]
            els = inner[2] if len(inner) > 2 and n.get("hasElse", len(inner) > 2) else None
            pre = []
            ctext = None
            c = self.strip(cond)
            if c.get("kind") == "BinaryOperator" and c.get("opcode") in ("==", "!="):
                l = self.strip(c["inner"][0])
                if l.get("kind") in ("CXXMemberCallExpr", "CallExpr") and self.has_addr_arg(l):
                    pre.append("SLoc %s (%s)" % (cq_str("$ret"), self.expr(l)))
                    ctext = "EBin %s (ELoc %s) (%s)" % (BINOPS[c["opcode"]], cq_str("$ret"), self.expr(c["inner"][1]))
            if ctext is None:
                ctext = self.expr(cond)
            a = self.stmts(then)
            b = self.stmts(els) if els else []
            return pre + ["SIf (%s) %s %s" % (ctext, self.block(a), self.block(b))]
        if k == "ForStmt":
            inner = n.get("inner", [])
            if len(inner) != 5:
                self.opaque.append("ForStmt:shape")
                return ["SOpaque " + cq_str("ForStmt:shape")]
            cont = self.for_container(inner[2])
            if cont is None:
                self.opaque.append("ForStmt:cond")
                return ["SOpaque " + cq_str("ForStmt:cond")]
            return ["SFor %s %s %s" % (cq_str(cont[0]), cq_str(cont[1]), self.block(self.stmts(inner[4])))]
        if k == "WhileStmt":
            inner = [c for c in n.get("inner", []) if c.get("kind")]
            if len(inner) >= 2:
                return ["SWhile (%s) %s" % (self.expr(inner[0]), self.block(self.stmts(inner[-1])))]
        if k in ("ContinueStmt", "BreakStmt") and k == "BreakStmt":
            return ["SOpaque " + cq_str("break")]
        if k == "ContinueStmt":
            return ["SContinue"]
        if k == "ReturnStmt":
            inner = n.get("inner", [])
            return ["SReturn (%s)" % (self.expr(inner[0]) if inner else "ENum (0 # 1)")]
        if k == "BinaryOperator" and n.get("opcode") == "=":
            return [self.assign(n["inner"][0], self.expr(n["inner"][1]))]
        if k == "CompoundAssignOperator":
            op = n.get("opcode", "")[:-1]
            if op in BINOPS:
                l = self.expr(n["inner"][0])
                return [self.assign(n["inner"][0], "EBin %s (%s) (%s)" % (BINOPS[op], l, self.expr(n["inner"][1])))]
        if k == "UnaryOperator" and n.get("opcode") in ("++", "--"):
            l = self.expr(n["inner"][0])
            return [self.assign(n["inner"][0], "EBin %s (%s) (ENum (1 # 1))" % ("Add" if n["opcode"] == "++" else "Sub", l))]
        if k == "CXXMemberCallExpr":
            callee = self.strip(n["inner"][0])
            name = callee.get("name", "?")
            args = [a for a in n["inner"][1:] if a.get("kind") != "CXXDefaultArgExpr"]
            if name.startswith("Set_") and len(args) == 1:
                f = self.field_of_member(callee, name[4:])
                if f and f[0] != "this":
                    return ["SFld %s %s (%s)" % (cq_str(f[0]), cq_str(f[1]), self.expr(args[0]))]
            return ["SCall %s %s" % (cq_str(name), self.elist(args))]
        if k == "CallExpr":
            callee = self.strip(n["inner"][0])
            while callee.get("kind") == "ImplicitCastExpr" and callee.get("inner"):
                callee = callee["inner"][0]
            name = (callee.get("referencedDecl") or {}).get("name") or "?"
            return ["SCall %s %s" % (cq_str(name), self.elist(n["inner"][1:]))]
        if k == "CXXOperatorCallExpr":
            op = self.op_name(n)
            args = n["inner"][1:]
            if op == "operator=" and len(args) == 2:
                return [self.assign(args[0], self.expr(args[1]))]
        self.opaque.append("stmt:" + str(k))
        return ["SOpaque " + cq_str("stmt:" + str(k))]

    def has_addr_arg(self, call):
        for a in call.get("inner", [])[1:]:
            s = self.strip(a)
            if s.get("kind") == "UnaryOperator" and s.get("opcode") == "&":
                return True
        return False

    def for_container(self, cond):
        """`it != obj.Get_f().end()` -> (T, f)"""
        c = self.strip(cond)
        if c.get("kind") != "CXXOperatorCallExpr" or self.op_name(c) != "operator!=":
            return None
        for a in c["inner"][1:]:
            s = self.strip(a)
            if s.get("kind") == "CXXMemberCallExpr":
                callee = self.strip(s["inner"][0])
                if callee.get("name") == "end":
                    base = self.member_base(callee)
                    b = self.strip(base) if base else None
                    while b is not None and b.get("kind") in PASS_THROUGH and b.get("inner"):
                        b = b["inner"][-1]
                    if b is not None and b.get("kind") == "CXXMemberCallExpr":
                        cal2 = self.strip(b["inner"][0])
                        nm = cal2.get("name", "")
                        if nm.startswith("Get_"):
                            return self.field_of_member(cal2, nm[4:])
        return None

    def block(self, items):
        if not items:
            return "[]"
        return "[" + "; ".join("(" + s + ")" for s in items) + "]"


def translate_function(repo, relfile, qualname, coqname):
    objs, src = clang_ast(repo, relfile, qualname)
    fn = find_definition(objs, qualname.split("::")[-1])
    tr = Tr(src)
    params = [c.get("name", "?") for c in fn.get("inner", []) if c.get("kind") == "ParmVarDecl"]
    body = [c for c in fn.get("inner", []) if c.get("kind") == "CompoundStmt"][0]
    items = tr.stmts(body)
    txt = "Definition %s_params : list string := [%s].\n\n" % (coqname, "; ".join(cq_str(p) for p in params))
    txt += "Definition %s : list stmt :=\n  %s.\n" % (coqname, pretty_block(items, 2))
    return txt, tr.opaque


def pretty_block(items, indent):
    pad = " " * indent
    if not items:
        return "[]"
    return "[\n" + ";\n".join(pad + "  (" + s + ")" for s in items) + "\n" + pad + "]"


HEADER = """(* GENERATED by translator/c15_cxx2coq.py from %s -- do not edit; regenerated on every run *)
From Coq Require Import QArith List String ZArith.
Require Import IPV.C15.Ir.
Import ListNotations.
Open Scope string_scope.
Open Scope Q_scope.

"""


def generate(repo, specs):
    """specs: list of (relfile, qualified name, coq name). Returns the text of one Gen file."""
    out = HEADER % ", ".join("%s:%s" % (s[0], s[1]) for s in specs)
    notes = []
    for relfile, qual, coqname in specs:
        txt, opq = translate_function(repo, relfile, qual, coqname)
        out += "(* ---- %s (%s) ---- *)\n" % (qual, relfile) + txt + "\n"
        notes.append((qual, sorted(set(opq))))
    return out, notes


if __name__ == "__main__":
    repo = sys.argv[1] if len(sys.argv) > 1 else "/repo"
    text, notes = generate(repo, [("src/phreeqcpp/prep.cpp", "Phreeqc::convert_units", "gen_convert_units"),
                                  ("src/phreeqcpp/step.cpp", "Phreeqc::add_solution", "gen_add_solution"),
                                  ("src/phreeqcpp/step.cpp", "Phreeqc::add_mix", "gen_add_mix")])
    sys.stdout.write(text)
    for q, o in notes:
        sys.stderr.write("%s opaque: %s\n" % (q, o))
