"""C18 translator back end 2: regenerates coq/Gen/Gen_C18_tidy.v from the CURRENT /repo/src/phreeqcpp/tidy.cpp.

Transliterates the loop of Phreeqc::tidy_inverse that propagates a -balances uncertainty declared by ELEMENT name
to the mole-balance rows of that element's valence states (the `if (master_ptr == inv_elts[k].master->elt->primary)`
loop) into a Tidy.scanloop descriptor: loop bounds, the key that is compared, what is copied where, and whether a
break / return / goto / continue leaves the outer or the inner loop early.  Meaning is decided in Coq (C18/Tidy.v,
TidyProofs.v).  Anything unexpected raises Refuse (broken tie).
"""
import json, os, sys

sys.path.insert(0, os.path.join(os.path.dirname(os.path.dirname(os.path.abspath(__file__))), "lib"))
import vlib
from c18_bits import Refuse, strip, refname, int_lit, stmts

LOOPS = ("ForStmt", "WhileStmt", "DoStmt", "CXXForRangeStmt")
JUMPS = ("BreakStmt", "ReturnStmt", "GotoStmt", "ContinueStmt")


def clang_ast_tidy():
    src = os.path.join(vlib.REPO, "src", "phreeqcpp", "tidy.cpp")
    cmd = ["clang++", "-std=c++11", "-fsyntax-only", "-Xclang", "-ast-dump=json", "-Xclang", "-ast-dump-filter=tidy_inverse",
           "-DSWIG_SHARED_OBJ", "-DUSE_PHRQ_ALLOC"] + vlib.inc_flags() + [src]
    rc, out, err = vlib.sh(cmd, timeout=300)
    if not out.strip():
        raise Refuse("clang produced no AST for tidy_inverse: %s" % err[-500:])
    dec = json.JSONDecoder()
    i, docs = 0, []
    while i < len(out):
        while i < len(out) and out[i].isspace():
            i += 1
        if i >= len(out):
            break
        o, j = dec.raw_decode(out, i)
        docs.append(o)
        i = j
    return docs


def chain(n):
    """access path of an lvalue/rvalue with indices erased: inv_elts[k].master->elt->primary -> (['inv_elts','[]','master','elt','primary'], ['k'])"""
    n = strip(n)
    out, idx = [], []
    while True:
        k = n.get("kind")
        if k == "MemberExpr":
            out.append(n["name"])
            n = strip(n["inner"][0])
        elif k == "CXXOperatorCallExpr":
            if refname(n["inner"][0]) != "operator[]":
                raise Refuse("unexpected operator call in an access path")
            out.append("[]")
            idx.append(refname(n["inner"][2]))
            n = strip(n["inner"][1])
        elif k == "ArraySubscriptExpr":
            out.append("[]")
            idx.append(refname(n["inner"][1]))
            n = strip(n["inner"][0])
        elif k == "DeclRefExpr":
            out.append(n["referencedDecl"]["name"])
            break
        elif k == "CXXThisExpr":
            break
        else:
            raise Refuse("unexpected node %s in an access path" % k)
    return list(reversed(out)), list(reversed(idx))


def path_str(parts):
    s = ""
    for p in parts:
        if p == "[]":
            s += "[]"
        else:
            s += ("." if s else "") + p
    return s


def for_header(loop, what):
    init, _cv, cond, inc, body = loop["inner"]
    if init.get("kind") == "DeclStmt":
        var = init["inner"][0]["name"]
        start = int_lit(init["inner"][0]["inner"][0])
    elif init.get("kind") == "BinaryOperator" and init.get("opcode") == "=":
        var = refname(init["inner"][0])
        start = int_lit(init["inner"][1])
    else:
        raise Refuse("%s: unexpected loop initialisation" % what)
    c = strip(cond)
    if not (c.get("kind") == "BinaryOperator" and c.get("opcode") == "<" and refname(c["inner"][0]) == var):
        raise Refuse("%s: loop condition is not `index < bound`" % what)
    bound, _ = chain(c["inner"][1])
    if not (inc.get("kind") == "UnaryOperator" and inc.get("opcode") == "++" and refname(inc["inner"][0]) == var):
        raise Refuse("%s: loop increment is not index++" % what)
    return var, start, path_str(bound), body


def jumps_at_level(node):
    """jump statements that belong to THIS loop level (not nested inside a deeper loop / switch); returns (own, nested_loops)"""
    own, nested = [], []

    def rec(n):
        if not isinstance(n, dict):
            return
        k = n.get("kind")
        if k in JUMPS:
            own.append(k)
            return
        if k in LOOPS or k == "SwitchStmt":
            nested.append(n)
            # a return / goto inside a nested loop still leaves the outer loop
            def deep(m):
                if isinstance(m, dict):
                    if m.get("kind") in ("ReturnStmt", "GotoStmt"):
                        own.append(m.get("kind"))
                    for c in m.get("inner", []):
                        deep(c)
            deep(n)
            return
        for c in n.get("inner", []):
            rec(c)
    rec(node)
    return own, nested


def find_loop(docs):
    hits = []

    def walk(n, path):
        if not isinstance(n, dict):
            return
        if n.get("kind") == "IfStmt":
            c = strip(n["inner"][0])
            if c.get("kind") == "BinaryOperator" and c.get("opcode") == "==":
                for side, other in ((c["inner"][0], c["inner"][1]), (c["inner"][1], c["inner"][0])):
                    try:
                        ch, ix = chain(side)
                    except Refuse:
                        continue
                    if ch[-1:] == ["primary"] and ch[:1] == ["inv_elts"] and refname(other) == "master_ptr":
                        hits.append((n, path, ch, ix))
        for ch_ in n.get("inner", []):
            walk(ch_, path + (n,))
    for d in docs:
        walk(d, ())
    if len(hits) != 1:
        raise Refuse("tidy_inverse: expected exactly one `master_ptr == inv_elts[k]...primary` test, found %d" % len(hits))
    return hits[0]


def generate():
    docs = clang_ast_tidy()
    ifs, path, key, key_idx = find_loop(docs)
    loops = [p for p in path if p.get("kind") == "ForStmt"]
    if not loops:
        raise Refuse("tidy_inverse: the primary-element test is not inside a for loop")
    outer = loops[-1]
    kvar, kstart, kbound, obody = for_header(outer, "outer loop")
    # the outer body must consist of the test only (no else branch)
    ob = [s for s in stmts(obody) if s.get("kind") not in ("NullStmt",)]
    if len(ob) != 1 or ob[0] is not ifs or len(ifs["inner"]) != 2:
        raise Refuse("tidy_inverse: the propagation loop body is not a single if without else")
    if key_idx != [kvar]:
        raise Refuse("tidy_inverse: the compared row is not indexed by the loop counter")
    then = ifs["inner"][1]
    own, nested = jumps_at_level(then)
    inner = [n for n in nested if n.get("kind") == "ForStmt"]
    if len(inner) != 1 or len(nested) != 1:
        raise Refuse("tidy_inverse: expected exactly one copy loop in the matching branch")
    lvar, lstart, lbound, ibody = for_header(inner[0], "copy loop")
    iown, inested = jumps_at_level(ibody)
    ist = [s for s in stmts(ibody) if s.get("kind") != "NullStmt"]
    assigns = [s for s in ist if s.get("kind") == "BinaryOperator" and s.get("opcode") == "="]
    if len(assigns) != 1 or inested:
        raise Refuse("tidy_inverse: the copy loop is not a single assignment")
    dst, dix = chain(assigns[0]["inner"][0])
    src, six = chain(assigns[0]["inner"][1])
    # other statements of the matching branch besides the copy loop and jumps are not expected
    extra = [s.get("kind") for s in stmts(then) if s is not inner[0] and s.get("kind") not in JUMPS + ("NullStmt",)]
    if extra:
        raise Refuse("tidy_inverse: unexpected statements in the matching branch: %r" % extra)
    indices_ok = (dix == [kvar, lvar]) and (six[-1:] == [lvar]) and kvar not in six and lvar not in dix[:1]
    b = lambda x: "true" if x else "false"
    text = """(* GENERATED by translator/c18_tidy.py from src/phreeqcpp/tidy.cpp (Phreeqc::tidy_inverse) — do not edit *)
From Coq Require Import ZArith String.
From IPV Require Import C18.Tidy.
Open Scope string_scope.

Definition gen_tidy_primary_loop : scanloop :=
  {| sl_start := %d%%Z; sl_bound := "%s"; sl_key := "%s"; sl_exit_after_match := %s;
     sl_inner_start := %d%%Z; sl_inner_bound := "%s"; sl_inner_exit := %s;
     sl_dst := "%s"; sl_src := "%s"; sl_indices_ok := %s |}.
""" % (kstart, kbound, path_str(key), b(bool(own)), lstart, lbound, b(bool(iown)), path_str(dst), path_str(src), b(indices_ok))
    vlib.write_if_changed(os.path.join(vlib.COQ, "Gen", "Gen_C18_tidy.v"), text)
    return text


if __name__ == "__main__":
    print(generate())
