"""C18 translator back end 3: regenerates coq/Gen/Gen_C18_setup.v from the CURRENT /repo/src/phreeqcpp/inverse.cpp.

Transliterates the value that Phreeqc::setup_inverse writes into a candidate phase's column of the mole-balance matrix
(loop "mass_balance: phase data": for every phase, for every token of its reaction rxn_s) into a Setup.qexpr over
  QRc = rxn_ptr->token[j].coef   and   QMc = master_ptr->coef  (atoms of the element per master species),
following the straight-line updates of scalar locals (coef = master_ptr->coef; if (coef <= 0) coef = 1.0; ...).
Meaning is decided in Coq (C18/SetupGen.v: entry = reaction coefficient x atoms per master species).
"""
import json, os, sys

sys.path.insert(0, os.path.join(os.path.dirname(os.path.dirname(os.path.abspath(__file__))), "lib"))
import vlib
from c18_bits import Refuse, strip, refname, stmts, clang_ast
from c18_tidy import chain, path_str


def qnum(txt):
    from fractions import Fraction
    f = Fraction(txt)
    return "(QConst (%d # %d))" % (f.numerator, f.denominator) if f >= 0 else "(QConst ((%d) # %d))" % (f.numerator, f.denominator)


class Sym:
    def __init__(self):
        self.env = {}

    def expr(self, n):
        n = strip(n)
        k = n.get("kind")
        if k == "DeclRefExpr":
            nm = n["referencedDecl"]["name"]
            if nm in self.env and self.env[nm] is not None:
                return self.env[nm]
            raise Refuse("value of local %s is not an expression of the reaction / master coefficients" % nm)
        if k == "MemberExpr":
            ch, _ = chain(n)
            p = path_str(ch)
            if p == "rxn_ptr.token[].coef":
                return "QRc"
            if p == "master_ptr.coef":
                return "QMc"
            raise Refuse("unexpected operand %s" % p)
        if k in ("IntegerLiteral", "FloatingLiteral"):
            return qnum(str(n["value"]))
        if k == "BinaryOperator" and n.get("opcode") in ("*", "/"):
            a, b = n["inner"]
            return "(%s %s %s)" % ("QMul" if n["opcode"] == "*" else "QDiv", self.expr(a), self.expr(b))
        raise Refuse("unexpected expression kind %s" % k)


def assigned_locals(node, acc):
    if isinstance(node, dict):
        if node.get("kind") == "BinaryOperator" and node.get("opcode") in ("=", "*=", "/=", "+=", "-="):
            nm = refname(node["inner"][0])
            if nm and strip(node["inner"][0]).get("kind") == "DeclRefExpr":
                acc.add(nm)
        for c in node.get("inner", []):
            assigned_locals(c, acc)


def find_phase_loop(docs):
    for d in docs:
        if d.get("kind") == "CXXMethodDecl" and d.get("name") == "setup_inverse":
            body = [c for c in d.get("inner", []) if c.get("kind") == "CompoundStmt"]
            if not body:
                continue
            for s in stmts(body[0]):
                if s.get("kind") != "ForStmt":
                    continue
                cond = json.dumps(s["inner"][2])
                if '"phases"' not in cond:
                    continue
                inner = [t for t in stmts(s["inner"][4]) if t.get("kind") == "ForStmt"]
                for lp in inner:
                    if '"token"' in json.dumps(lp["inner"][2]):
                        return lp
    raise Refuse("setup_inverse: loop over the reaction tokens of the candidate phases not found")


def is_matrix_store(s):
    if not (s.get("kind") == "BinaryOperator" and s.get("opcode") == "="):
        return False
    lhs = strip(s["inner"][0])
    if lhs.get("kind") not in ("CXXOperatorCallExpr", "ArraySubscriptExpr"):
        return False
    try:
        ch, _ = chain(lhs)
    except Refuse:
        return False
    return ch[:1] == ["my_array"]


def generate():
    docs = clang_ast("setup_inverse")
    loop = find_phase_loop(docs)
    sym = Sym()
    stored = None
    for s in stmts(loop["inner"][4]):
        k = s.get("kind")
        if is_matrix_store(s):
            if "row" not in json.dumps(s["inner"][0]):
                raise Refuse("setup_inverse: matrix store in the token loop is not indexed by `row`")
            stored = sym.expr(s["inner"][1])
        elif k == "BinaryOperator" and s.get("opcode") in ("=", "*=", "/=") and strip(s["inner"][0]).get("kind") == "DeclRefExpr":
            nm = refname(s["inner"][0])
            try:
                v = sym.expr(s["inner"][1])
                if s["opcode"] == "*=":
                    v = "(QMul %s %s)" % (sym.expr(s["inner"][0]), v)
                elif s["opcode"] == "/=":
                    v = "(QDiv %s %s)" % (sym.expr(s["inner"][0]), v)
                sym.env[nm] = v
            except Refuse:
                sym.env[nm] = None          # row, master_ptr, ... : not a number we follow
        elif k == "IfStmt":
            cnd = strip(s["inner"][0])
            th = stmts(s["inner"][1])
            simple = (len(s["inner"]) == 2 and len(th) == 1 and th[0].get("kind") == "BinaryOperator" and th[0].get("opcode") == "="
                      and strip(th[0]["inner"][0]).get("kind") == "DeclRefExpr" and cnd.get("kind") == "BinaryOperator"
                      and cnd.get("opcode") in ("<=", "<", ">", ">="))
            if simple:
                nm = refname(th[0]["inner"][0])
                try:
                    a, b = sym.expr(cnd["inner"][0]), sym.expr(cnd["inner"][1])
                    new, old = sym.expr(th[0]["inner"][1]), sym.expr(th[0]["inner"][0])
                    op = cnd["opcode"]
                    if op == "<=":
                        sym.env[nm] = "(QIfLe %s %s %s %s)" % (a, b, new, old)
                    elif op == "<":
                        sym.env[nm] = "(QIfLt %s %s %s %s)" % (a, b, new, old)
                    elif op == ">=":
                        sym.env[nm] = "(QIfLe %s %s %s %s)" % (b, a, new, old)
                    else:
                        sym.env[nm] = "(QIfLt %s %s %s %s)" % (b, a, new, old)
                    continue
                except Refuse:
                    pass
            acc = set()
            assigned_locals(s, acc)
            for nm in acc:
                if nm in sym.env and sym.env[nm] is not None:
                    sym.env[nm] = None
            if any(is_matrix_store(t) for t in stmts(s["inner"][1])):
                raise Refuse("setup_inverse: conditional matrix store in the token loop")
        elif k in ("DeclStmt", "NullStmt", "ContinueStmt"):
            continue
        elif k in ("ForStmt", "WhileStmt", "DoStmt"):
            raise Refuse("setup_inverse: nested loop in the token loop")
    if stored is None:
        raise Refuse("setup_inverse: no matrix store in the token loop of the candidate phases")
    text = """(* GENERATED by translator/c18_setup.py from src/phreeqcpp/inverse.cpp (Phreeqc::setup_inverse, "mass_balance: phase data") — do not edit *)
From Coq Require Import QArith.
From IPV Require Import C18.Setup.

(* my_array[row * max_column_count + column] = ...   for token j of the phase's reaction *)
Definition gen_phase_column_entry : qexpr := %s.
""" % stored
    vlib.write_if_changed(os.path.join(vlib.COQ, "Gen", "Gen_C18_setup.v"), text)
    return text


if __name__ == "__main__":
    print(generate())
