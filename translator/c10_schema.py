"""C10 translator back end `schema`: for every raw-dumpable class of /repo/src/phreeqcpp extract

  * the `vopts` option table,
  * the WRITER schema from `dump_raw`: ordered option lines (text written, the member each argument comes
    from, its kind, whether the line is unconditional / guarded / repeated), blocks (header + rows) and
    nested component blocks,
  * the READER schema from `read_raw`: per `case` index the action (which members are extracted with which
    kind, row readers, nested readers), what it does to `opt_save`, which `*_defined` flags it sets; the
    flags demanded under `check`; what happens on an unknown option (error vs. quiet return to the parent),
  * (Serialize/Deserialize) the ordered list of (stream, member) pushes and reads,

and write them as Gallina data to coq/Gen/Gen_C10_schemas.v.  Nothing is judged here: whether writer and
reader agree is decided in Coq by `schema_ok` (IPV.C10.RawProofs).  The translator refuses (raises Refuse)
when the code leaves the shapes it understands.
"""
import os, re, sys, concurrent.futures as cf
sys.path.insert(0, os.path.dirname(os.path.abspath(__file__)))
from c10_cpp import (Refuse, preprocess, tokenize, find_function, parse_block, split_top, walk, all_tokens,
                     class_members, match_close, unescape, Tok)

# class -> (translation unit, top level keyword or None)
CLASSES = [
    ("cxxNameDouble", "NameDouble.cxx"),
    ("cxxSolutionIsotope", "SolutionIsotope.cxx"),
    ("cxxSolution", "Solution.cxx"),
    ("cxxExchComp", "ExchComp.cxx"),
    ("cxxExchange", "Exchange.cxx"),
    ("cxxSurfaceComp", "SurfaceComp.cxx"),
    ("cxxSurfaceCharge", "SurfaceCharge.cxx"),
    ("cxxSurface", "Surface.cxx"),
    ("cxxGasComp", "GasComp.cxx"),
    ("cxxGasPhase", "GasPhase.cxx"),
    ("cxxPPassemblageComp", "PPassemblageComp.cxx"),
    ("cxxPPassemblage", "PPassemblage.cxx"),
    ("cxxSScomp", "SScomp.cxx"),
    ("cxxSS", "SS.cxx"),
    ("cxxSSassemblage", "SSassemblage.cxx"),
    ("cxxKineticsComp", "KineticsComp.cxx"),
    ("cxxKinetics", "cxxKinetics.cxx"),
    ("cxxMix", "cxxMix.cxx"),
    ("cxxReaction", "Reaction.cxx"),
    ("cxxTemperature", "Temperature.cxx"),
    ("cxxPressure", "Pressure.cxx"),
]
SCHEMA_CLASSES = [c for c, _ in CLASSES if c != "cxxNameDouble"]


def kind_of_type(t, enums):
    t = t.replace("const", "").replace("&", "").replace("static", "").strip()
    t = re.sub(r"\s+", " ", t)
    if t in ("double", "long double", "float", "LDBLE"):
        return "KNum"
    if t in ("int", "unsigned int", "size_t", "long", "unsigned", "unsigned long", "std :: size_t", "short"):
        return "KInt"
    if t == "bool":
        return "KBool"
    if t in ("std :: string", "string"):
        return "KStr"
    if t in enums:
        return "KInt"
    return None


class Unit:
    """everything known about one class"""

    def __init__(self, cls, tu, files):
        self.cls = cls
        self.tu = tu
        self.files = files
        self.toks = tokenize(files[tu])
        self.htoks = {}
        self.members = {}
        self.getters = {}
        self.enums = set()
        for fn, txt in files.items():
            if fn.endswith(".h"):
                if "enum" in txt:
                    for m in re.finditer(r"\benum\s+(\w+)", txt):
                        self.enums.add(m.group(1))
        self.classinfo = {}

    def info(self, cls):
        """(members, getters) of any class visible in this translation unit, with inherited members"""
        if cls in self.classinfo:
            return self.classinfo[cls]
        mem, get = {}, {}
        found = False
        for fn, txt in self.files.items():
            if not fn.endswith(".h") or not re.search(r"\bclass\s+" + re.escape(cls) + r"\s*[:{]", txt):
                continue
            ht = self.htoks.get(fn)
            if ht is None:
                ht = self.htoks[fn] = tokenize(txt)
            r, bases = class_members(ht, cls)
            if r is None:
                continue
            found = True
            for b in bases:
                bm, bg = self.info(b)
                mem.update(bm)
                get.update(bg)
            mem.update(r[0])
            get.update(r[1])
            break
        self.classinfo[cls] = (mem, get) if found else ({}, {})
        return self.classinfo[cls]


def template_args(typ):
    """'std :: map < int , double >' -> ['int', 'double']"""
    if "<" not in typ:
        return []
    inner = typ[typ.index("<") + 1:typ.rindex(">")]
    out, d, cur = [], 0, []
    for w in inner.split():
        if w == "<":
            d += 1
        elif w == ">":
            d -= 1
        if w == "," and d == 0:
            out.append(" ".join(cur))
            cur = []
        else:
            cur.append(w)
    out.append(" ".join(cur))
    return out


# =============================================================================== writer

def strip_parens(e):
    e = list(e)
    while len(e) >= 2 and e[0] == "(" and match_close(e, 0, "(", ")") == len(e) - 1:
        e = e[1:-1]
    return e


class WriterX:
    def __init__(self, unit):
        self.u = unit
        self.cls = unit.cls
        self.mem, self.get = unit.info(unit.cls)
        self.events = []

    # ---- flatten
    def emit(self, node, ctx):
        k = node[0]
        if k == "block":
            for n in node[1]:
                self.emit(n, ctx)
        elif k == "if":
            toks = all_tokens(node)
            if "s_oss" in toks:
                self.emit(node[2], ctx + (("guard", node[1], True),))
                if node[3] is not None:
                    self.emit(node[3], ctx + (("guard", node[1], False),))
        elif k in ("for", "while"):
            toks = all_tokens(node[2])
            if "s_oss" not in toks:
                return
            # a loop printing `*it` : a list of numbers, several per line
            many = False
            for i in range(len(toks) - 2):
                if toks[i] == "<<" and toks[i + 1] == "*" and toks[i + 2].kind == "id":
                    many = True
            if many:
                self.events.append(("rows_many", node, ctx))
            else:
                self.emit(node[2], ctx + (("loop", node),))
        elif k == "simple":
            st = node[1]
            if not st:
                return
            if st[0] == "s_oss" and len(st) > 1 and st[1] == "<<":
                ops = split_top(st[2:], "<<")
                for o in ops:
                    self.events.append(("op", o, ctx))
            elif "dump_raw" in st:
                i = st.index("dump_raw")
                obj = st[:i - 1]
                self.events.append(("call", obj, ctx))
            elif "s_oss" in st and "precision" not in st:
                raise Refuse("%s::dump_raw: unrecognised use of the stream: %s" % (self.cls, " ".join(st)))
        elif k in ("switch", "do"):
            if "s_oss" in all_tokens(node):
                raise Refuse("%s::dump_raw: output inside switch/do" % self.cls)

    # ---- lines
    def lines(self):
        out = []
        cur = []
        curctx = None
        for ev in self.events:
            if ev[0] == "op":
                o = ev[1]
                if len(o) == 1 and o[0].kind == "id" and re.match(r"indent\d*$", o[0]):
                    continue
                if not cur:
                    curctx = ev[2]
                cur.append(o)
                if len(o) == 1 and o[0].kind == "str" and unescape(o[0]).endswith("\n"):
                    out.append(("line", cur, curctx))
                    cur = []
            else:
                if cur:
                    raise Refuse("%s::dump_raw: unterminated output line before a nested dump: %s" % (self.cls, cur))
                out.append(ev)
        if cur:
            raise Refuse("%s::dump_raw: unterminated last line" % self.cls)
        return out

    # ---- expressions
    def loop_container(self, ctx, extra_nodes=()):
        """innermost enclosing loop -> (member name of the container iterated, its type)"""
        loops = [c[1] for c in ctx if c[0] == "loop"] + list(extra_nodes)
        if not loops:
            return None
        node = loops[-1]
        toks = list(node[1]) + all_tokens(node[2])
        for i, t in enumerate(toks):
            if t.kind == "id" and t in self.mem and (i == 0 or toks[i - 1] not in (".",)):
                if i >= 1 and toks[i - 1] == "->" and not (i >= 2 and toks[i - 2] == "this"):
                    continue
                typ = self.mem[t]
                if "vector" in typ or "map" in typ or "list" in typ or "set" in typ:
                    return str(t), typ
        return None

    def elem_info(self, typ):
        """container type -> (key kind or None, value type text)"""
        a = template_args(typ)
        if "map" in typ.split("<")[0]:
            return a[0], a[1]
        return None, a[0] if a else None

    def resolve(self, e, ctx):
        """expression tokens -> (member label, kind)"""
        e = strip_parens(e)
        enums = self.u.enums
        # (cond ? 1 : 0)
        if "?" in e:
            q = e.index("?")
            m, _ = self.resolve(e[:q], ctx)
            return m, "KBool"
        if len(e) == 1 and e[0].kind == "num":
            v = e[0]
            if v in ("0", "1"):
                return "<literal %s>" % v, "KBool"
            return "<literal %s>" % v, ("KInt" if re.match(r"\d+$", v) else "KNum")
        if e[:2] == ["this", "->"]:
            e = e[2:]
            if not e:
                raise Refuse("bad expression")
        # plain member / member[k]
        if e[0].kind == "id" and e[0] in self.mem and len(e) == 1:
            k = kind_of_type(self.mem[e[0]], enums)
            if k is None:
                raise Refuse("%s::dump_raw writes member %s of unsupported type %s" % (self.cls, e[0], self.mem[e[0]]))
            return str(e[0]), k
        if e[0].kind == "id" and e[0] in self.mem and len(e) == 4 and e[1] == "[" and e[3] == "]" and e[2].kind == "num":
            typ = self.mem[e[0]].replace("[]", "").strip()
            if "vector" in typ:
                typ = template_args(typ)[0]
            k = kind_of_type(typ, enums)
            if k is None:
                raise Refuse("%s::dump_raw writes %s of unsupported type" % (self.cls, " ".join(e)))
            return "%s[%s]" % (e[0], e[2]), k
        # own getter
        if e[0].kind == "id" and e[0] in self.get and e[1:] in (["(", ")"], ["(", "void", ")"]):
            m = self.get[e[0]]
            k = kind_of_type(self.mem.get(m, ""), enums)
            if k is None:
                raise Refuse("%s::dump_raw: getter %s of unsupported type" % (self.cls, e[0]))
            return m, k
        if e[0].kind == "id" and re.match(r"Get_", e[0]) and e[1:] in (["(", ")"], ["(", "void", ")"]):
            # non-inline getter: by naming convention
            nm = e[0][4:]
            for cand in (nm, nm[0].lower() + nm[1:]):
                if cand in self.mem:
                    k = kind_of_type(self.mem[cand], enums)
                    if k:
                        return cand, k
            # e.g. Get_countTemps(): computed
            return "<%s()>" % e[0], "KInt"
        # something reached through a loop variable
        lc = self.loop_container(ctx)
        if lc is None:
            raise Refuse("%s::dump_raw: cannot resolve expression %s" % (self.cls, " ".join(e)))
        cont, typ = lc
        kk, vt = self.elem_info(typ)
        s = " ".join(e)
        tail = [t for t in e if t.kind == "id"]
        if "first" in tail and "second" not in tail:
            k = kind_of_type(kk or "", enums)
            if k is None:
                raise Refuse("%s::dump_raw: key of %s has unsupported type" % (self.cls, cont))
            return cont + ".key", k
        # value side: maybe through a getter of the element class
        getter = [t for t in tail if t.startswith("Get_")]
        if getter:
            cm, cg = self.u.info(vt.strip())
            g = getter[-1]
            m = cg.get(g)
            if m is None:
                nm = g[4:]
                m = nm if nm in cm else None
            if m is None or kind_of_type(cm.get(m, ""), enums) is None:
                raise Refuse("%s::dump_raw: cannot resolve %s on %s" % (self.cls, g, vt))
            return "%s.%s" % (cont, m), kind_of_type(cm[m], enums)
        if "second" in tail or (len(tail) == 1) or "*" in e:
            k = kind_of_type(vt or "", enums)
            if k is None:
                raise Refuse("%s::dump_raw: element of %s has unsupported type %s (%s)" % (self.cls, cont, vt, s))
            return cont + ".value", k
        raise Refuse("%s::dump_raw: cannot resolve expression %s" % (self.cls, s))

    def guard_of(self, ctx):
        g = [c for c in ctx if c[0] == "guard"]
        if not g:
            return None
        return " && ".join(("" if c[2] else "!") + "(" + " ".join(c[1]) + ")" for c in g)

    def call_target(self, obj, ctx, extra=()):
        """object of X.dump_raw(...) -> ('nd', member) | ('child', container member, class)"""
        o = strip_parens(obj)
        if o[:2] == ["this", "->"]:
            o = o[2:]
        if len(o) == 1 and o[0] in self.mem:
            typ = self.mem[o[0]]
            if typ.strip() == "cxxNameDouble":
                return ("nd", str(o[0]))
        lc = self.loop_container(ctx, extra)
        if lc is None:
            raise Refuse("%s::dump_raw: nested dump_raw on %s outside a loop" % (self.cls, " ".join(obj)))
        cont, typ = lc
        _, vt = self.elem_info(typ)
        vt = (vt or "").strip()
        if not vt.startswith("cxx"):
            raise Refuse("%s::dump_raw: nested dump of %s (%s)" % (self.cls, cont, typ))
        return ("child", cont, vt)

    # ---- items
    def run(self, body):
        for n in body:
            self.emit(n, ())
        seq = self.lines()
        items = []
        keyword = None
        i = 0
        while i < len(seq):
            ev = seq[i]
            if ev[0] != "line":
                raise Refuse("%s::dump_raw: %s without an option line before it" % (self.cls, ev[0]))
            ops, ctx = ev[1], ev[2]
            first = ops[0]
            if not (len(first) == 1 and first[0].kind == "str"):
                # header-less rows (cxxMix): only acceptable as the first item
                if items:
                    raise Refuse("%s::dump_raw: data row without a block header: %s" % (self.cls, ops))
                args = self.row_args(ops, ctx)
                lc = self.loop_container(ctx)
                items.append({"k": "rows", "opt": "", "m": lc[0], "spec": ("fixed", [a[1] for a in args]), "guard": None})
                i += 1
                continue
            lit = unescape(first[0])
            if lit.strip() == "":
                i += 1
                continue
            if lit.lstrip().startswith("#"):
                i += 1
                continue
            if re.match(r"[A-Z_]+_RAW\b", lit):
                keyword = lit.split()[0]
                i += 1
                continue
            if not lit.startswith("-"):
                raise Refuse("%s::dump_raw: unexpected literal %r" % (self.cls, lit))
            text = lit.split("#")[0]
            opt = text[1:].split()[0] if text[1:].split() else ""
            raw_opt = text[1:].rstrip("\n")
            args = []
            for o in ops[1:]:
                if len(o) == 1 and o[0].kind == "str":
                    if unescape(o[0]).strip() == "":
                        continue
                    raise Refuse("%s::dump_raw: literal text %s after option -%s" % (self.cls, o[0], opt))
                args.append(self.resolve(o, ctx))
            inloop = any(c[0] == "loop" for c in ctx)
            guard = self.guard_of(ctx)
            nxt = seq[i + 1] if i + 1 < len(seq) else None
            if nxt is not None and nxt[0] == "call":
                tgt = self.call_target(nxt[1], nxt[2])
                if tgt[0] == "nd":
                    if args:
                        raise Refuse("%s::dump_raw: -%s has arguments and a name/value block" % (self.cls, opt))
                    items.append({"k": "block", "opt": opt, "m": tgt[1], "spec": ("fixed", ["KStr", "KNum"]), "guard": guard})
                else:
                    if not inloop:
                        raise Refuse("%s::dump_raw: component dump outside loop" % self.cls)
                    items.append({"k": "subs", "opt": opt, "m": tgt[1], "child": tgt[2], "key": [a for a in args]})
                i += 2
                continue
            if nxt is not None and nxt[0] == "rows_many":
                node = nxt[1]
                lc = self.loop_container((), (node,))
                if lc is None:
                    raise Refuse("%s::dump_raw: list after -%s: container not found" % (self.cls, opt))
                _, vt = self.elem_info(lc[1])
                k = kind_of_type(vt or "", self.u.enums)
                items.append({"k": "block", "opt": opt, "m": lc[0], "spec": ("many", k or "KNum"), "guard": guard})
                i += 2
                # the loop is followed by the line break that ends the last row
                if i < len(seq) and seq[i][0] == "line" and all(len(o) == 1 and o[0].kind == "str" and unescape(o[0]).strip() == "" for o in seq[i][1]):
                    i += 1
                continue
            if nxt is not None and nxt[0] == "line" and not args and not inloop:
                nops, nctx = nxt[1], nxt[2]
                nf = nops[0]
                if not (len(nf) == 1 and nf[0].kind == "str") and any(c[0] == "loop" for c in nctx):
                    rargs = self.row_args(nops, nctx)
                    lc = self.loop_container(nctx)
                    items.append({"k": "block", "opt": opt, "m": lc[0], "spec": ("fixed", [a[1] for a in rargs]), "guard": guard})
                    i += 2
                    continue
            if inloop:
                lc = self.loop_container(ctx)
                cm = lc[0] if lc else ""
                args = [("%s#%d" % (cm, q), kd) for q, (_, kd) in enumerate(args)]
                items.append({"k": "lines", "opt": opt, "args": args, "mult": "Many", "guard": guard, "m": cm})
            else:
                items.append({"k": "lines", "opt": opt, "args": args, "mult": "Opt" if guard else "One", "guard": guard})
            i += 1
        return keyword, items

    def row_args(self, ops, ctx):
        args = []
        for o in ops:
            if len(o) == 1 and o[0].kind == "str":
                if unescape(o[0]).strip() == "":
                    continue
                raise Refuse("%s::dump_raw: literal %s inside a data row" % (self.cls, o[0]))
            args.append(self.resolve(o, ctx))
        return args


# =============================================================================== reader

class ReaderX:
    def __init__(self, unit):
        self.u = unit
        self.cls = unit.cls
        self.mem, self.get = unit.info(unit.cls)

    def local_types(self, body):
        """local declarations `T x;`, `T x(..)`, `T x = ..` anywhere in the function -> {x: T}"""
        loc = {}

        def f(n, ctx):
            if n[0] != "simple":
                return
            st = n[1]
            if len(st) >= 2 and st[0].kind == "id" and "=" not in st[:2] and st[0] not in ("this", "parser", "return"):
                # type tokens until an identifier followed by ; ( = ,
                for j in range(1, len(st)):
                    if st[j].kind == "id" and (j + 1 == len(st) or st[j + 1] in ("(", "=", ",", "[")) and st[j - 1] not in ("::", ".", "->"):
                        typ = " ".join(st[:j])
                        if re.match(r"[\w :<>,*&]+$", typ) and "(" not in st[:j]:
                            for part in split_top(st[j:], ","):
                                if part and part[0].kind == "id":
                                    loc[str(part[0])] = typ
                        break
        for n in body:
            walk(n, f)
        return loc

    def target_member(self, tgt, body_toks, loc):
        """extraction target tokens -> (label, kind)"""
        enums = self.u.enums
        t = strip_parens(tgt)
        if t[:2] == ["this", "->"]:
            t = t[2:]
        if len(t) == 1 and t[0] in self.mem and t[0] not in loc:
            k = kind_of_type(self.mem[t[0]], enums)
            if k is None:
                raise Refuse("%s::read_raw extracts into %s of unsupported type %s" % (self.cls, t[0], self.mem[t[0]]))
            return str(t[0]), k
        if len(t) == 4 and t[0] in self.mem and t[1] == "[" and t[3] == "]" and t[2].kind == "num":
            typ = self.mem[t[0]].replace("[]", "").strip()
            if "vector" in typ:
                typ = template_args(typ)[0]
            return "%s[%s]" % (t[0], t[2]), kind_of_type(typ, enums)
        if len(t) == 1 and t[0] in loc:
            v = t[0]
            k = kind_of_type(loc[v], enums)
            if k is None:
                raise Refuse("%s::read_raw extracts into local %s of unsupported type %s" % (self.cls, v, loc[v]))
            # where does the local go?
            bt = body_toks
            for i in range(len(bt)):
                # this->M = [(T)] v ;
                if bt[i] == "=" and i >= 1 and bt[i - 1].kind == "id" and bt[i - 1] in self.mem and bt[i - 1] not in loc:
                    j = i + 1
                    if bt[j] == "(":
                        j = match_close(bt, j, "(", ")") + 1
                    if j < len(bt) and bt[j] == v and bt[j + 1] in (";", "."):
                        return str(bt[i - 1]), k
                    e = bt.index(";", i) if ";" in bt[i:] else len(bt)
                    if v in bt[i + 1:e] and (i < 2 or bt[i - 2] in (";", "->", "{", "}", ")")):
                        return str(bt[i - 1]), k
                # Set_M ( v ...
                if bt[i].kind == "id" and bt[i].startswith("Set_") and bt[i + 1] == "(" and bt[i + 2] == v:
                    nm = bt[i][4:]
                    owner = "" if (i < 2 or bt[i - 1] != "." ) else "."
                    for cand in (nm, nm[0].lower() + nm[1:]):
                        if not owner and cand in self.mem:
                            return cand, k
                    return ("." if owner else "") + nm, k
                # this->C [ v ] = ...   /   this->C [ .. ] = v
                if bt[i] == "[" and i >= 1 and bt[i - 1] in self.mem and bt[i - 1] not in loc:
                    e = match_close(bt, i, "[", "]")
                    if e + 1 < len(bt) and bt[e + 1] == "=":
                        if bt[i + 1:e] == [v]:
                            return str(bt[i - 1]) + ".key", k
                        if bt[e + 2] == v and bt[e + 3] == ";":
                            return str(bt[i - 1]) + ".value", k
            return "<local %s>" % v, k
        raise Refuse("%s::read_raw: cannot resolve extraction target %s" % (self.cls, " ".join(tgt)))

    def extractions(self, toks):
        """targets of `>>` in textual order"""
        out = []
        i = 0
        while i < len(toks):
            if toks[i] == ">>":
                j = i + 1
                d = 0
                while j < len(toks):
                    x = toks[j]
                    if x in ("(", "["):
                        d += 1
                    elif x in (")", "]"):
                        if d == 0:
                            break
                        d -= 1
                    elif x in (";", ">>") and d == 0:
                        break
                    j += 1
                out.append(toks[i + 1:j])
                i = j
            else:
                i += 1
        return out

    def classify(self, nodes, loc, flags, idx):
        toks = []
        for n in nodes:
            toks += all_tokens(n)
        act = None
        # nested name/value reader
        for i in range(len(toks) - 4):
            if toks[i] == "read_raw" and toks[i + 1] == "(" and toks[i - 1] == ".":
                e = match_close(toks, i + 1, "(", ")")
                args = split_top(toks[i + 2:e], ",")
                obj = toks[i - 2]
                if len(args) == 2 and args[1] == ["next_char"]:
                    # name double rows
                    m = None
                    if obj in self.mem and obj not in loc:
                        m = str(obj)
                    else:
                        # temp filled then merged into a member
                        for j in range(len(toks) - 3):
                            if toks[j] in self.mem and toks[j + 1] == "." and toks[j + 3] == "(" and toks[j + 4] == obj:
                                m = str(toks[j])
                    if m is None:
                        raise Refuse("%s::read_raw case %s: name/value rows read into %s, not stored" % (self.cls, idx, obj))
                    act = ("row", m, ("fixed", ["KStr", "KNum"]))
                else:
                    typ = loc.get(str(obj))
                    if typ is None or not typ.strip().startswith("cxx"):
                        raise Refuse("%s::read_raw case %s: nested read_raw on %s" % (self.cls, idx, obj))
                    child = typ.strip()
                    cont = None
                    for j in range(len(toks) - 3):
                        if toks[j] in self.mem and toks[j] not in loc:
                            if toks[j + 1] == "." and toks[j + 2] in ("push_back", "insert") and obj in toks[j + 3:j + 8]:
                                cont = str(toks[j])
                            if toks[j + 1] == "[":
                                e2 = match_close(toks, j + 1, "[", "]")
                                if toks[e2 + 1] == "=" and toks[e2 + 2] == obj:
                                    cont = str(toks[j])
                    if cont is None:
                        raise Refuse("%s::read_raw case %s: component %s read but not stored" % (self.cls, idx, obj))
                    ex = self.extractions(toks[:i])
                    keys = [self.target_member(x, toks, loc) for x in ex]
                    act = ("sub", cont, child, keys)
                break
        if act is None:
            # list of numbers: while (copy_token(..) == TT_DIGIT) ... push_back
            has_while = any(n[0] == "while" for n in self._flatten(nodes))
            if has_while and "push_back" in toks:
                j = toks.index("push_back")
                m = toks[j - 2]
                if m not in self.mem and m in loc:
                    # local vector assigned to a member after the loop:  this->M = local;
                    ft = self.fn_toks
                    for q in range(1, len(ft) - 2):
                        if ft[q] == "=" and ft[q + 1] == m and ft[q + 2] == ";" and ft[q - 1] in self.mem:
                            m = ft[q - 1]
                            break
                if m not in self.mem:
                    raise Refuse("%s::read_raw case %s: push_back into %s" % (self.cls, idx, m))
                vt = template_args(self.mem[m])
                act = ("row", str(m), ("many", kind_of_type(vt[0] if vt else "", self.u.enums) or "KNum"))
        if act is None:
            ex = []
            for x in self.extractions(toks):
                y = strip_parens(x)
                if y[:2] == ["this", "->"]:
                    y = y[2:]
                if len(y) == 4 and y[0] in self.mem and y[1] == "[" and y[2].kind == "id" and y[3] == "]":
                    # for (int i = 0; i < N; i++) ... >> this->M[i]
                    v = y[2]
                    n = None
                    for q in range(len(toks) - 3):
                        if toks[q] == v and toks[q + 1] == "<" and toks[q + 2].kind == "num":
                            n = int(toks[q + 2])
                    if n is None or n > 16:
                        raise Refuse("%s::read_raw case %s: indexed extraction %s without constant bound" % (self.cls, idx, " ".join(x)))
                    for q in range(n):
                        ex.append([y[0], Tok("[", "op"), Tok(str(q), "num"), Tok("]", "op")])
                else:
                    ex.append(x)
            tg = [self.target_member(x, toks, loc) for x in ex]
            # copy_token(token, next_char) used as a string extraction
            if "copy_token" in toks and not tg:
                j = toks.index("copy_token")
                v = toks[j + 2]
                if v in loc:
                    tg = [self.target_member([v], toks, loc)]
                    tg = [(tg[0][0], "KStr")]
            elif "copy_token" in toks and tg:
                # e.g. cxxMix: first token through copy_token + istringstream
                pass
            if tg and "peek_token" in toks or (tg and all(lbl.endswith((".key", ".value")) for lbl, _ in tg) and len(tg) >= 2 and len({l.split(".")[0] for l, _ in tg}) == 1 and "TT_EMPTY" in toks):
                conts = {l.split(".")[0] for l, _ in tg}
                if len(conts) != 1:
                    raise Refuse("%s::read_raw case %s: row stored into several members" % (self.cls, idx))
                act = ("row", conts.pop(), ("fixed", [k for _, k in tg]))
            elif tg:
                if tg[0][0].endswith(".key"):
                    cm = tg[0][0][:-4]
                    tg = [("%s#%d" % (cm, q), kd) for q, (_, kd) in enumerate(tg)]
                act = ("args", tg)
            else:
                act = ("ignore",)
        # opt_save assignments and flags
        post = None
        for i in range(len(toks) - 2):
            if toks[i] == "opt_save" and toks[i + 1] == "=":
                v = toks[i + 2:toks.index(";", i)]
                if len(v) == 1 and v[0].kind == "num":
                    post = ("idx", int(v[0]))
                elif v[-1] in ("OPT_DEFAULT", "OPT_ERROR"):
                    post = ("none",)
                else:
                    raise Refuse("%s::read_raw case %s: opt_save = %s" % (self.cls, idx, " ".join(v)))
        sets = []
        for i in range(len(toks) - 2):
            if toks[i] in flags and toks[i + 1] == "=" and toks[i + 2] == "true" and (i == 0 or toks[i - 1] not in ("->", ".")):
                sets.append(str(toks[i]))
        return act, post, sets

    def _flatten(self, nodes):
        out = []
        for n in nodes:
            walk(n, lambda x, c: out.append(x))
        return out

    def run(self, body):
        loc = self.local_types(body)
        self.fn_toks = []
        for n in body:
            self.fn_toks += all_tokens(n)
        flags = [v for v, t in loc.items() if t.strip() == "bool" and v not in ("useLastLine", "cleared_once", "g_map_first")]
        loops = [n for n in body if n[0] == "for" and n[2][0] == "block" and any(x[0] == "switch" for x in n[2][1])]
        if len(loops) != 1:
            raise Refuse("%s::read_raw: expected exactly one top-level loop, found %d" % (self.cls, len(loops)))
        lb = loops[0][2]
        if lb[0] != "block":
            raise Refuse("%s::read_raw: loop body" % self.cls)
        sw = [n for n in lb[1] if n[0] == "switch"]
        if len(sw) != 1:
            raise Refuse("%s::read_raw: expected one switch" % self.cls)
        # statements of the loop body before the switch
        pre = None
        uses_save = False
        for n in lb[1]:
            if n[0] == "switch":
                break
            tk = all_tokens(n)
            if n[0] == "simple" and len(tk) >= 3 and tk[0] == "opt_save" and tk[1] == "=":
                if tk[-2] in ("OPT_DEFAULT", "OPT_ERROR"):
                    pre = ("none",)
                else:
                    raise Refuse("%s::read_raw: opt_save preset %s" % (self.cls, " ".join(tk)))
            if n[0] == "if" and "opt_save" in tk and "OPT_DEFAULT" in tk:
                uses_save = True
        # initial opt_save
        # cases
        groups = []
        labels = None
        cur = []
        for n in sw[0][2]:
            if n[0] in ("case", "default"):
                if labels is None or cur:
                    if labels is not None:
                        groups.append((labels, cur))
                    labels = []
                    cur = []
                labels.append(n)
            else:
                if labels is None:
                    raise Refuse("%s::read_raw: statement before first case" % self.cls)
                cur.append(n)
        if labels is not None:
            groups.append((labels, cur))
        cases = []
        quiet = None
        default = None
        for labels, nodes in groups:
            names = []
            for l in labels:
                if l[0] == "default":
                    names.append("default")
                else:
                    lt = l[1]
                    names.append(int(lt[0]) if (len(lt) == 1 and lt[0].kind == "num") else str(lt[-1]))
            # fallthrough is not used for numbered cases: the body must end in break/continue
            nums = [x for x in names if isinstance(x, int)]
            if "OPT_ERROR" in names:
                tk = []
                for n in nodes:
                    tk += all_tokens(n)
                if "OPT_KEYWORD" in tk and "error_msg" not in tk:
                    quiet = True
                elif "error_msg" in tk:
                    quiet = False
                else:
                    raise Refuse("%s::read_raw: OPT_ERROR case neither reports nor returns" % self.cls)
            if "OPT_DEFAULT" in names and "OPT_ERROR" not in names:
                act, post, sets = self.classify(nodes, loc, flags, "OPT_DEFAULT")
                default = (act, post, sets)
            if nums:
                last = [n for n in nodes if n[0] != "block"] or nodes
                fl = self._flatten(nodes)
                if not any(n[0] in ("break", "continue") for n in fl):
                    raise Refuse("%s::read_raw: case %s falls through" % (self.cls, nums))
                act, post, sets = self.classify(nodes, loc, flags, nums)
                for k in nums:
                    cases.append((k, act, post, sets))
        if quiet is None:
            raise Refuse("%s::read_raw: no OPT_ERROR case" % self.cls)
        # required flags: if (check) { if (flag == false) ... }
        required = []
        for n in body:
            if n[0] == "if" and n[1] == ["check"]:
                def f(x, c):
                    if x[0] == "if":
                        ct = x[1]
                        if len(ct) == 3 and ct[0] in flags and ct[1] == "==" and ct[2] == "false":
                            required.append(str(ct[0]))
                        elif len(ct) == 2 and ct[0] == "!" and ct[1] in flags:
                            required.append(str(ct[1]))
                walk(n[2], f)
        return {"cases": sorted(cases, key=lambda c: c[0]), "quiet": quiet, "pre": pre, "uses_save": uses_save,
                "default": default, "required": required, "flags": flags}


# =============================================================================== vopts, serialize

def vopts_of(unit):
    toks = unit.toks
    out = None
    for i in range(len(toks) - 3):
        if toks[i] == "temp_vopts" and toks[i + 1] == "[" and toks[i + 2] == "]" and toks[i + 3] == "=":
            e = match_close(toks, i + 4, "{", "}")
            out = [unescape(t) for t in toks[i + 5:e] if t.kind == "str"]
            n_elems = len(split_top(toks[i + 5:e], ","))
            if toks[e - 1] == ",":
                n_elems -= 1
            if n_elems != len(out):
                raise Refuse("%s: vopts initialiser has %d elements but %d string literals" % (unit.cls, n_elems, len(out)))
    if out is None:
        # cxxMix: empty table
        for i in range(len(toks) - 3):
            if toks[i] == unit.cls and toks[i + 1] == "::" and toks[i + 2] == "vopts" and toks[i + 3] == ";":
                return []
        raise Refuse("%s: option table not found" % unit.cls)
    return out


def serial_seq(unit, fn):
    """ordered list of (stream, what) for Serialize / Deserialize"""
    fs = find_function(unit.toks, unit.cls, fn)
    if not fs:
        return None
    body = parse_block(fs[0][1])
    seq = []
    mem, _ = unit.info(unit.cls)

    def memname(ts):
        ts = [t for t in ts]
        ids = [t for t in ts if t.kind == "id" and t not in ("this", "dictionary", "Find", "ints", "doubles", "ii", "dd", "GetWords", "int", "double", "size", "size_t", "c_str")]
        for t in ids:
            if t in mem:
                idx = ""
                j = ts.index(t)
                if j + 3 < len(ts) + 1 and j + 1 < len(ts) and ts[j + 1] == "[" and ts[j + 2].kind == "num":
                    idx = "[%s]" % ts[j + 2]
                suffix = ".size" if "size" in ts[j:j + 4] else ""
                return str(t) + idx + suffix
        return "<" + " ".join(ids[:3]) + ">"

    def f(n, ctx):
        depth = sum(1 for c in ctx if c[0] in ("for", "while"))
        tag = "*" if depth else ""
        if n[0] != "simple":
            return
        st = n[1]
        if fn == "Serialize":
            if len(st) > 3 and st[0] in ("ints", "doubles") and st[1] == "." and st[2] == "push_back":
                seq.append((("I" if st[0] == "ints" else "D") + tag, memname(st[3:])))
            elif "Serialize" in st:
                seq.append(("S" + tag, memname(st[:st.index("Serialize")])))
        else:
            if "Deserialize" in st:
                seq.append(("S" + tag, memname(st[:st.index("Deserialize")])))
            else:
                # every read `ints[...]` / `doubles[...]` in textual order
                reads = [("I" if st[q] == "ints" else "D") for q in range(len(st) - 1)
                         if st[q] in ("ints", "doubles") and st[q + 1] == "["]
                if reads:
                    if "=" in st:
                        lhs = st[:st.index("=")]
                    elif "push_back" in st:
                        lhs = st[:st.index("push_back")]
                    elif "insert" in st:
                        lhs = st[:st.index("insert")]
                    else:
                        lhs = st
                    local = bool(lhs) and lhs[0] in ("int", "size_t", "double", "unsigned", "long", "bool", "std", "const")
                    for q, stream in enumerate(reads):
                        seq.append((stream + tag, "<local>" if local else (memname(lhs) if q == len(reads) - 1 else "<key>")))
    for n in body:
        walk(n, f)
    return seq


# =============================================================================== driver

def extract_class(repo, cls, tu):
    files = preprocess(repo, os.path.join("src/phreeqcpp", tu))
    u = Unit(cls, tu, files)
    vo = vopts_of(u)
    w = find_function(u.toks, cls, "dump_raw")
    r = find_function(u.toks, cls, "read_raw")
    if len(w) != 1 or len(r) != 1:
        raise Refuse("%s: expected one dump_raw and one read_raw, found %d and %d" % (cls, len(w), len(r)))
    keyword, items = WriterX(u).run(parse_block(w[0][1]))
    rd = ReaderX(u).run(parse_block(r[0][1]))
    ser = serial_seq(u, "Serialize")
    des = serial_seq(u, "Deserialize")
    return {"cls": cls, "vopts": vo, "keyword": keyword, "items": items, "reader": rd, "ser": ser, "des": des}


def extract_all(repo, workers=6):
    todo = [(c, t) for c, t in CLASSES if c != "cxxNameDouble"]
    out = {}
    errs = []
    with cf.ThreadPoolExecutor(max_workers=workers) as ex:
        futs = {ex.submit(extract_class, repo, c, t): c for c, t in todo}
        for f, c in futs.items():
            try:
                out[c] = f.result()
            except Refuse as e:
                errs.append(str(e))
    if errs:
        raise Refuse("; ".join(errs))
    return [out[c] for c, _ in todo]


# ----------------------------------------------------------------------------- Gallina

def qs(s):
    return '"' + s.replace('"', '""') + '"'


def coq_list(xs):
    return "[" + "; ".join(xs) + "]"


def coq_spec(sp):
    if sp[0] == "fixed":
        return "(RowFixed %s)" % coq_list(sp[1])
    return "(RowMany %s)" % sp[1]


def coq_args(args):
    return coq_list("(%s, %s)" % (qs(m), k) for m, k in args)


def coq_post(p):
    if p is None:
        return "None"
    if p[0] == "none":
        return "(Some None)"
    return "(Some (Some %d))" % p[1]


def coq_act(a):
    if a[0] == "args":
        return "(RArgs %s)" % coq_args(a[1])
    if a[0] == "row":
        return "(RRow %s %s)" % (qs(a[1]), coq_spec(a[2]))
    if a[0] == "sub":
        return "(RSub %s %s %s)" % (qs(a[1]), qs(a[2]), coq_list(k for _, k in a[3]))
    return "RIgnore"


def coq_item(it):
    if it["k"] == "lines":
        return "WLines %s %s %s" % (qs(it["opt"]), coq_args(it["args"]), it["mult"])
    if it["k"] == "block":
        return "WBlock %s %s %s %s" % (qs(it["opt"]), qs(it["m"]), coq_spec(it["spec"]), "true" if it["guard"] else "false")
    if it["k"] == "rows":
        return "WRows %s %s" % (qs(it["m"]), coq_spec(it["spec"]))
    if it["k"] == "subs":
        return "WSubs %s %s %s %s" % (qs(it["opt"]), qs(it["m"]), qs(it["child"]), coq_list(k for _, k in it["key"]))
    raise Refuse("item kind")


def level_of(schemas):
    by = {s["cls"]: s for s in schemas}
    lev = {}

    def lv(c, seen=()):
        if c in lev:
            return lev[c]
        if c in seen or c not in by:
            raise Refuse("component class %s unknown or recursive" % c)
        ch = [it["child"] for it in by[c]["items"] if it["k"] == "subs"] + [a[1][2] for a in by[c]["reader"]["cases"] if a[1][0] == "sub"]
        lev[c] = 0 if not ch else 1 + max(lv(x, seen + (c,)) for x in ch)
        return lev[c]
    for c in by:
        lv(c)
    return lev


def to_coq(schemas, repo):
    L = []
    L.append("(* GENERATED by translator/c10_schema.py from %s -- do not edit. *)" % "the current /repo sources")
    L.append("From Coq Require Import String List.")
    L.append("Require Import IPV.C10.Raw.")
    L.append("Import ListNotations.")
    L.append("Open Scope string_scope.")
    L.append("")
    lev = level_of(schemas)
    for s in schemas:
        r = s["reader"]
        L.append("Definition S_%s : schema := {|" % s["cls"])
        L.append("  sname := %s;" % qs(s["cls"]))
        L.append("  svopts := %s;" % coq_list(qs(v) for v in s["vopts"]))
        L.append("  scases := [")
        L.append(";\n".join("    (%d, mkCase %s %s %s)" % (k, coq_act(a), coq_post(p), coq_list(qs(x) for x in st)) for k, a, p, st in r["cases"]))
        L.append("  ];")
        L.append("  swriter := [")
        L.append(";\n".join("    " + coq_item(it) for it in s["items"]))
        L.append("  ];")
        L.append("  squiet := %s;" % ("true" if r["quiet"] else "false"))
        L.append("  spre := %s;" % coq_post(r["pre"]))
        L.append("  suses_save := %s;" % ("true" if r["uses_save"] else "false"))
        L.append("  sdefault := %s;" % ("None" if r["default"] is None else "(Some (mkCase %s %s %s))" % (coq_act(r["default"][0]), coq_post(r["default"][1]), coq_list(qs(x) for x in r["default"][2]))))
        L.append("  srequired := %s" % coq_list(qs(x) for x in r["required"]))
        L.append("|}.")
        L.append("")
    for l in (0, 1, 2):
        L.append("Definition schemas_level%d : list schema := %s." % (l, coq_list("S_" + s["cls"] for s in schemas if lev[s["cls"]] == l)))
    if any(v > 2 for v in lev.values()):
        raise Refuse("nesting deeper than 2 levels: %s" % {k: v for k, v in lev.items() if v > 2})
    L.append("Definition all_schemas : list schema := schemas_level0 ++ schemas_level1 ++ schemas_level2.")
    L.append("")
    # serialisation sequences
    for s in schemas:
        for nm, key in (("ser", "ser"), ("des", "des")):
            seq = s[key]
            if seq is None:
                continue
            L.append("Definition %s_%s : list (string * string) := %s." % (nm, s["cls"], coq_list("(%s, %s)" % (qs(a), qs(b)) for a, b in seq)))
    keys = []
    for sc_ in schemas:
        for k, a, p_, st in sc_["reader"]["cases"]:
            if a[0] == "sub":
                for lbl, _ in a[3]:
                    km = (a[2], lbl.lstrip("."))
                    if km not in keys:
                        keys.append(km)
    L.append("Definition key_members : list (string * string) := %s." % coq_list("(%s, %s)" % (qs(a), qs(b)) for a, b in keys))
    L.append("Definition all_serial : list (string * list (string * string) * list (string * string)) := %s." %
             coq_list("(%s, ser_%s, des_%s)" % (qs(s["cls"]), s["cls"], s["cls"]) for s in schemas if s["ser"] is not None and s["des"] is not None))
    return "\n".join(L) + "\n"


if __name__ == "__main__":
    import json
    repo = sys.argv[1] if len(sys.argv) > 1 else "/repo"
    sc = extract_all(repo)
    if len(sys.argv) > 2 and sys.argv[2] == "json":
        print(json.dumps(sc, indent=1, default=str))
    else:
        sys.stdout.write(to_coq(sc, repo))
