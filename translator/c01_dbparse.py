"""C01: INDEPENDENT parser of PHREEQC database text (shares no code with /repo's read.cpp / parse.cpp).
It extracts what the speciation property talks about:

  masters : element / valence name -> {species, alk, primary}
  species : name -> {z, eq=[(coef, species)] (products > 0, reactants < 0, defined species included),
                     logk, dh (kJ/mol), an[6], add=[(named expression, coef)], elts={element: coef}, no_check}
  phases  : name -> {formula, eq=[(coef, aqueous species)] (dissolution products > 0), logk, dh, an, add}
  named   : lower-case name -> {logk, dh, an, add}

Rules implemented (PHREEQC manual, keywords SOLUTION_MASTER_SPECIES / SOLUTION_SPECIES / PHASES / NAMED_EXPRESSIONS):
  * '#' starts a comment, ';' separates logical lines, a trailing backslash continues a line;
  * a line whose first token is a keyword starts a data block;
  * in SOLUTION_SPECIES a line containing '=' is an association reaction that defines its FIRST product;
    in PHASES a line without '=' that is not an option is a phase name, the following line with '=' its
    dissolution reaction (first reactant = the phase formula);
  * options may be written with or without leading '-'; log_k|logk, delta_h|deltah (unit token: default kJ/mol,
    "kcal" x 4.184, "J"/"cal" additionally / 1000), analytical_expression|analytic|a_e|ae (up to 6 numbers),
    add_logk|add_log_k name [coef=1];  an entry defined again replaces the earlier one;
  * equilibrium constant at T (the manual's rule): if any analytic coefficient is non-zero the analytical expression
    A1 + A2 T + A3/T + A4 log10 T + A5/T^2 + A6 T^2 is used, otherwise log_k and the van 't Hoff term; named
    expressions are added with their coefficient (same rule applied to each named expression);
  * charge of a species: trailing signs or sign+number of its name; element content: its formula (parentheses,
    brackets for isotopes, decimal subscripts), or the -mole_balance formula when given.
Numbers are kept as exact rationals of their decimal spelling."""
import os, re
from fractions import Fraction

KEYWORDS = {k.upper() for k in """eof end solution_species solution_master_species solution phases pure_phases reaction mix use save
exchange_species exchange_master_species exchange surface_species surface_master_species surface reaction_temperature
inverse_modeling gas_phase transport debug selected_output select_output knobs print equilibrium_phases equilibria equilibrium
pure title comment advection kinetics incremental_reactions incremental rates solution_s user_print user_punch solid_solutions
solid_solution solution_spread spread_solution selected_out select_out user_graph llnl_aqueous_model_parameters
llnl_aqueous_model database named_analytical_expression named_analytical_expressions named_expressions named_log_k isotopes
calculate_values isotope_ratios isotope_alphas copy pitzer sit equilibrium_phase solution_raw exchange_raw surface_raw
equilibrium_phases_raw kinetics_raw solid_solutions_raw gas_phase_raw reaction_raw mix_raw reaction_temperature_raw dump
solution_modify equilibrium_phases_modify exchange_modify surface_modify solid_solutions_modify gas_phase_modify kinetics_modify
delete run_cells reaction_modify reaction_temperature_modify solid_solution_modify reaction_pressure reaction_pressures
reaction_pressure_raw reaction_pressure_modify rate_parameters_pk rate_parameters_svd rate_parameters_hermanska mean_gammas
gas_binary_parameters include$""".split()}

KCAL = Fraction(4184, 1000)


def logical_lines(text):
    buf = ""
    for raw in text.splitlines():
        line = raw.split("#", 1)[0].rstrip()
        if line.endswith("\\"):
            buf += line[:-1] + " "
            continue
        line = buf + line
        buf = ""
        for part in line.split(";"):
            part = part.strip()
            if part:
                yield part


def num(tok):
    t = tok.strip()
    if not re.match(r"^[+-]?(\d+\.?\d*|\.\d+)([eEdD][+-]?\d+)?$", t):
        return None
    t = t.replace("d", "e").replace("D", "e")
    return Fraction(t)


def charge_of(name):
    m = re.search(r"([+-])(\d+(?:\.\d*)?|\.\d+)$", name)
    if m:
        return Fraction(m.group(2)) * (1 if m.group(1) == "+" else -1)
    m = re.search(r"(\++|-+)$", name)
    if m:
        return Fraction(len(m.group(1)) * (1 if m.group(1)[0] == "+" else -1))
    return Fraction(0)


def strip_charge(name):
    m = re.search(r"([+-])(\d+(?:\.\d*)?|\.\d+)$", name)
    if m:
        return name[:m.start()]
    m = re.search(r"(\++|-+)$", name)
    if m:
        return name[:m.start()]
    return name


def canon(name):
    """canonical species name (the manual: a charge may be written +++ or +3; +1 is the same as +):
    no charge string for 0, a bare sign for +-1, sign and integer otherwise; fractional charges keep their number"""
    z = charge_of(name)
    base = strip_charge(name)
    if base == name:
        return name
    if z == 0:
        return base
    sgn = "+" if z > 0 else "-"
    if abs(z) == 1:
        return base + sgn
    if z.denominator == 1:
        return base + sgn + str(abs(z.numerator))
    m = re.search(r"[+-](\d+(?:\.\d*)?|\.\d+)$", name)
    return base + sgn + m.group(1)


def formula_elements(formula, keep_valence=False):
    """element content of a chemical formula: Ca0.5(CO3)0.5, Fe(OH)2+, (UO2)2(OH)2+2, H2[18O], CaSO4:2H2O, e- -> {e:1}"""
    f = strip_charge(formula)
    if f == "e":
        return {"e": Fraction(1)}
    pos = 0
    n = len(f)

    def number():
        nonlocal pos
        m = re.match(r"\d+\.?\d*|\.\d+", f[pos:])
        if m:
            pos += m.end()
            return Fraction(m.group(0))
        return Fraction(1)

    def group(closer):
        nonlocal pos
        out = {}
        while pos < n:
            c = f[pos]
            if c == closer:
                return out
            if c == "(":
                pos += 1
                inner = group(")")
                if pos >= n or f[pos] != ")":
                    raise ValueError("unbalanced ( in " + formula)
                pos += 1
                k = number()
                for e, v in inner.items():
                    out[e] = out.get(e, 0) + v * k
            elif c == "[":
                j = f.index("]", pos)
                e = f[pos:j + 1]
                pos = j + 1
                # an isotope element name may continue with lower-case letters?  no: [18O], [13C], [14C], [34S]
                k = number()
                mv = re.match(r"\(([+-]?\d+(?:\.\d*)?)\)", f[pos:])
                if mv:
                    pos += mv.end()
                    if keep_valence:
                        e = e + "(" + mv.group(1).lstrip("+") + ")"
                    k = number()
                out[e] = out.get(e, 0) + k
            elif c == ":":
                pos += 1
                k = number()
                inner = group(None)
                for e, v in inner.items():
                    out[e] = out.get(e, 0) + v * k
            elif c.isupper():
                m = re.match(r"[A-Z][a-z_]*", f[pos:])
                e = m.group(0)
                pos += m.end()
                mv = re.match(r"\(([+-]?\d+(?:\.\d*)?)\)", f[pos:])
                if mv:                       # valence state written in a -mole_balance formula: S(-2)2
                    pos += mv.end()
                    if keep_valence:
                        e = e + "(" + mv.group(1).lstrip("+") + ")"
                k = number()
                out[e] = out.get(e, 0) + k
            else:
                raise ValueError("cannot parse formula %r at %d" % (formula, pos))
        return out
    res = group(None)
    if pos != n:
        raise ValueError("cannot parse formula " + formula)
    return res


def parse_side(text):
    """one side of a reaction equation -> [(coef, name)]"""
    toks = text.split()
    out = []
    sign = 1
    coef = None
    for t in toks:
        if t == "+":
            continue
        if t == "-":
            sign = -sign
            continue
        if len(t) > 1 and t[0] in "+-" and (t[1].isdigit() or t[1] == "." or t[1].isalpha() or t[1] in "(["):
            if t[0] == "-":
                sign = -sign
            t = t[1:]
        v = num(t)
        if v is not None and coef is None:
            coef = v
            continue
        m = re.match(r"^(\d+\.?\d*|\.\d+)([A-Za-z(\[].*)$", t)
        c = Fraction(1)
        if m and coef is None:
            c = Fraction(m.group(1))
            t = m.group(2)
        if coef is not None:
            c = coef
        out.append((sign * c, canon(t)))
        sign = 1
        coef = None
    return out


def new_k():
    return {"logk": Fraction(0), "dh": Fraction(0), "an": [Fraction(0)] * 6, "add": []}


OPT_LOGK = ("log_k", "logk")
OPT_DH = ("delta_h", "deltah")
OPT_AN = ("analytical_expression", "analytic", "analytical", "a_e", "ae")
OPT_ADD = ("add_logk", "add_log_k")
OTHER_OPTS = ("no_check", "check", "gamma", "mb", "mass_balance", "mole_balance", "llnl_gamma", "co2_llnl_gamma", "activity_water",
              "add_constant", "dw", "erm_ddl", "millero", "vm", "viscosity", "t_c", "p_c", "omega", "ln_alpha1000", "vm0")


def k_option(cur, opt, rest):
    """apply a log K related option to record cur; returns True if recognised"""
    if opt in OPT_LOGK:
        v = num(rest[0].replace("=", "")) if rest else None
        cur["logk"] = v if v is not None else Fraction(0)
        return True
    if opt in OPT_DH:
        r = [x for x in " ".join(rest).replace("=", " ").split()]
        v = num(r[0]) if r else None
        v = v if v is not None else Fraction(0)
        if len(r) > 1 and r[1][0].isalpha():
            u = r[1].lower()
            if not u.startswith("k"):
                v = v / 1000
            if "c" in u:
                v = v * KCAL
        cur["dh"] = v
        return True
    if opt in OPT_AN:
        vals = []
        for t in rest[:6]:
            v = num(t)
            if v is None:
                break
            vals.append(v)
        cur["an"] = vals + [Fraction(0)] * (6 - len(vals))
        return True
    if opt in OPT_ADD:
        if rest:
            c = num(rest[1]) if len(rest) > 1 else None
            cur["add"].append((rest[0].lower(), c if c is not None else Fraction(1)))
        return True
    return False


def parse_db(path):
    text = open(path, errors="replace").read()
    masters, species, phases, named = {}, {}, {}, {}
    order = []
    problems = []
    collisions = []
    block = None
    cur = None
    expect_phase_eq = False
    for line in logical_lines(text):
        toks = line.split()
        first = toks[0].upper()
        if first in KEYWORDS:
            block = first
            cur = None
            continue
        if block == "SOLUTION_MASTER_SPECIES":
            if len(toks) >= 3:
                el = toks[0].replace("(+", "(")
                masters[el] = {"element": el, "species": canon(toks[1]), "alk": num(toks[2]) or Fraction(0),
                               "primary": "(" not in el, "order": len(masters)}
            continue
        if block == "SOLUTION_SPECIES":
            if "=" in line and toks[0].lstrip("-").lower() not in OPT_LOGK + OPT_DH:
                lhs, rhs = line.split("=", 1)
                try:
                    L, R = parse_side(lhs), parse_side(rhs)
                except Exception as ex:
                    problems.append("species line %r: %r" % (line, ex))
                    cur = None
                    continue
                if not R:
                    cur = None
                    continue
                name = R[0][1]
                cur = new_k()
                cur.update({"name": name, "z": charge_of(name), "eq": [(c, n) for c, n in R] + [(-c, n) for c, n in L],
                            "mole_balance": None, "no_check": False, "text": line})
                if name not in species:
                    order.append(name)
                species[name] = cur
                continue
            if cur is None:
                continue
            opt = toks[0].lstrip("-").lower()
            if k_option(cur, opt, toks[1:]):
                continue
            if opt in ("mole_balance", "mb", "mass_balance"):
                cur["mole_balance"] = toks[1] if len(toks) > 1 else None
            elif opt == "no_check":
                cur["no_check"] = True
            elif opt == "add_constant":
                cur["add_constant"] = num(toks[1]) if len(toks) > 1 else None
            continue
        if block == "PHASES":
            opt = toks[0].lstrip("-").lower()
            if "=" in line and opt not in OPT_LOGK + OPT_DH:
                if cur is None or cur.get("eq") is not None:
                    problems.append("phase reaction without name: %r" % line)
                    continue
                lhs, rhs = line.split("=", 1)
                try:
                    L, R = parse_side(lhs), parse_side(rhs)
                except Exception as ex:
                    problems.append("phase line %r: %r" % (line, ex))
                    continue
                if not L:
                    continue
                for old in [k for k in phases if k.lower() == cur["name"].lower()]:
                    if old != cur["name"]:
                        problems.append("phase %s is replaced by the later phase %s (names are case-insensitive)" % (old, cur["name"]))
                        collisions.append((old, dict(phases[old]), cur["name"]))
                    del phases[old]
                phases[cur["name"]] = cur
                cur["formula"] = L[0][1]
                cur["fcoef"] = L[0][0]
                cur["eq"] = [(c, n) for c, n in R] + [(-c, n) for c, n in L[1:]]
                cur["text"] = line
                continue
            if cur is not None and cur.get("eq") is not None and (toks[0].startswith("-") or opt in OPT_LOGK + OPT_DH + OPT_AN + OPT_ADD + OTHER_OPTS):
                k_option(cur, opt, toks[1:])
                continue
            if cur is not None and cur.get("eq") is None and (toks[0].startswith("-")):
                continue
            # a phase name.  Phase names are case-INSENSITIVE in PHREEQC and a later definition replaces an earlier
            # one (llnl.dat: "Hf(g)" - hafnium - silently replaces "HF(g)" - hydrogen fluoride)
            cur = new_k()
            cur.update({"name": toks[0], "eq": None})
            continue
        if block in ("NAMED_EXPRESSIONS", "NAMED_LOG_K", "NAMED_ANALYTICAL_EXPRESSION", "NAMED_ANALYTICAL_EXPRESSIONS"):
            opt = toks[0].lstrip("-").lower()
            if cur is not None and (toks[0].startswith("-") or opt in OPT_LOGK + OPT_DH + OPT_AN + OPT_ADD or opt == "ln_alpha1000"):
                if not k_option(cur, opt, toks[1:]):
                    cur["unsupported"] = opt
                continue
            cur = new_k()
            cur["name"] = toks[0]
            named[toks[0].lower()] = cur
            continue
    phases = {k: v for k, v in phases.items() if v.get("eq") is not None}
    db = {"path": path, "masters": masters, "species": species, "phases": phases, "named": named, "order": order, "problems": problems,
          "collisions": collisions}
    finish(db)
    return db


def finish(db):
    """derived data: element content, master flags, usable flags"""
    sp = db["species"]
    mspecies = {}
    for el, m in db["masters"].items():
        mspecies.setdefault(m["species"], []).append(el)
    db["master_species"] = mspecies
    for name, s in sp.items():
        try:
            s["elts"] = formula_elements(s["mole_balance"] or name)
            s["mb_valence"] = formula_elements(s["mole_balance"], keep_valence=True) if s["mole_balance"] else None
        except Exception as ex:
            s["elts"] = None
            db["problems"].append("formula %s: %r" % (name, ex))
        s["is_master"] = name in mspecies
        # identity reaction (X = X) ?
        net = {}
        for c, n in s["eq"]:
            net[n] = net.get(n, 0) + c
        s["identity"] = all(v == 0 for v in net.values())
        s["refs_ok"] = all(n in sp for c, n in s["eq"])
        s["named_ok"] = all(a in db["named"] and "unsupported" not in db["named"][a] for a, _ in s["add"])
    for name, p in db["phases"].items():
        p["refs_ok"] = all(n in sp for c, n in p["eq"])
        p["named_ok"] = all(a in db["named"] and "unsupported" not in db["named"][a] for a, _ in p["add"])


# ------------------------------------------------------------------------------------------------ log K(T) of the text
def selected(k):
    """the manual's selection rule -> (logk, dh, an[6])"""
    if any(a != 0 for a in k["an"]):
        return Fraction(0), Fraction(0), list(k["an"])
    return k["logk"], k["dh"], [Fraction(0)] * 6


def kvector(db, k, depth=0):
    """combined parameter vector [logk, dh, A1..A6] (exact rationals) including named expressions"""
    lk, dh, an = selected(k)
    v = [lk, dh] + an
    if depth > 15:
        raise ValueError("circular named expression")
    for nm, coef in k["add"]:
        w = kvector(db, db["named"][nm], depth + 1)
        v = [a + coef * b for a, b in zip(v, w)]
    return v


R_KJ = 8.31470e-3


def logk_T(v, tk):
    """binary64 pre-check value of the textbook formula (the Coq checker is the authority)"""
    import math
    f = [float(x) for x in v]
    return (f[0] - f[1] * (298.15 - tk) / (math.log(10.0) * R_KJ * tk * 298.15) + f[2] + f[3] * tk + f[4] / tk
            + f[5] * math.log10(tk) + f[6] / (tk * tk) + f[7] * tk * tk)


if __name__ == "__main__":
    import sys
    for p in sys.argv[1:]:
        d = parse_db(p)
        sp = d["species"]
        bad = [n for n, s in sp.items() if not s["refs_ok"]]
        unb = []
        for n, s in sp.items():
            if s["refs_ok"] and not s["no_check"]:
                zsum = sum(c * sp[x]["z"] for c, x in s["eq"])
                els = {}
                for c, x in s["eq"]:
                    for e, v in (formula_elements(x) or {}).items():
                        els[e] = els.get(e, 0) + c * v
                if zsum != 0 or any(v != 0 for e, v in els.items() if e != "e"):
                    unb.append(n)
        pb = [n for n, s in d["phases"].items() if not s["refs_ok"]]
        print(os.path.basename(p), "masters", len(d["masters"]), "species", len(sp), "phases", len(d["phases"]), "named", len(d["named"]),
              "| unresolved species", bad[:8], "unbalanced", unb[:8], "unresolved phases", pb[:8], "problems", d["problems"][:5])
