#!/usr/bin/env python3
"""C14 translator back end: regenerates coq/Gen/Gen_C14.v from the *current* sources.

Reads (through `clang++ -Xclang -ast-dump=json -Xclang -ast-dump-filter=<fn>`):
  Phreeqc.h     Utilities::Rxn_copy, Utilities::Rxn_copies   (uninstantiated template bodies)
  ReadClass.cxx Phreeqc::delete_entities
  mainsubs.cpp  Phreeqc::copy_entities
  read.cpp      Phreeqc::read_copy
  Phreeqc.cpp   Phreeqc::list_components
  mainsubs.cpp  Phreeqc::saver, Phreeqc::do_mixes
and emits one Coq record `tables : gen_tables` (see coq/C14/Store.v).  The translator only
transliterates: every statement of the functions must fit the (small) statement patterns below,
anything else is a refusal (exception) and therefore a broken tie.  What the extracted data has to
satisfy is decided in Coq (`Tie.tables_ok`, checked by vm_compute in Props/Properties_C14.v).

The AST is first rendered into canonical C-like strings (casts, parentheses, `this->`, implicit
nodes dropped; parameters renamed p0,p1,.. and locals v0,v1,.. in order of declaration), so that
layout, comments, local renaming and redundant parentheses are invisible.
"""
import json, os, re, subprocess, sys, concurrent.futures as cf

KINDS = ["KSol", "KPP", "KExch", "KSurf", "KSS", "KGas", "KKin", "KMix", "KRxn", "KTemp", "KPres"]
STEM = {"solution": "KSol", "pp_assemblage": "KPP", "exchange": "KExch", "surface": "KSurf",
        "ss_assemblage": "KSS", "gas_phase": "KGas", "kinetics": "KKin", "mix": "KMix",
        "reaction": "KRxn", "temperature": "KTemp", "pressure": "KPres"}
KEYWORD = {"KEY_SOLUTION": "KSol", "KEY_EQUILIBRIUM_PHASES": "KPP", "KEY_EXCHANGE": "KExch",
           "KEY_SURFACE": "KSurf", "KEY_SOLID_SOLUTIONS": "KSS", "KEY_GAS_PHASE": "KGas",
           "KEY_KINETICS": "KKin", "KEY_MIX": "KMix", "KEY_REACTION": "KRxn",
           "KEY_REACTION_TEMPERATURE": "KTemp", "KEY_REACTION_PRESSURE": "KPres"}


class Refuse(Exception):
    pass


def clang_ast(repo, src, flt, extra_flags):
    incs = ["-I" + os.path.join(repo, i) for i in ("src", "src/phreeqcpp", "src/phreeqcpp/common", "src/phreeqcpp/PhreeqcKeywords")]
    cmd = ["clang++", "-std=c++14", "-fsyntax-only", "-w"] + extra_flags + incs + \
          ["-Xclang", "-ast-dump=json", "-Xclang", "-ast-dump-filter=" + flt, os.path.join(repo, src)]
    p = subprocess.run(cmd, stdout=subprocess.PIPE, stderr=subprocess.PIPE, text=True, timeout=300)
    if p.returncode != 0:
        raise Refuse("clang failed on %s: %s" % (src, p.stderr[-800:]))
    dec = json.JSONDecoder()
    txt = p.stdout
    i, objs = 0, []
    while True:
        while i < len(txt) and txt[i] in " \r\n\t":
            i += 1
        if i >= len(txt):
            break
        o, i = dec.raw_decode(txt, i)
        objs.append(o)
    return objs


def find_def(objs, name):
    """the FunctionDecl / CXXMethodDecl named `name` that has a body (for templates: the pattern)"""
    def walk(n):
        if n.get("kind") in ("FunctionDecl", "CXXMethodDecl") and n.get("name") == name:
            if any(c.get("kind") == "CompoundStmt" for c in n.get("inner", [])):
                return n
        if n.get("kind") == "FunctionTemplateDecl" and n.get("name") == name:
            for c in n.get("inner", []):
                if c.get("kind") == "FunctionDecl":
                    r = walk(c)
                    if r:
                        return r          # first FunctionDecl = uninstantiated pattern
            return None
        for c in n.get("inner", []):
            r = walk(c)
            if r:
                return r
        return None
    for o in objs:
        r = walk(o)
        if r:
            return r
    raise Refuse("definition of %s not found" % name)


TRANSPARENT = {"ImplicitCastExpr", "ParenExpr", "ExprWithCleanups", "MaterializeTemporaryExpr",
               "CXXBindTemporaryExpr", "CStyleCastExpr", "CXXStaticCastExpr", "CXXFunctionalCastExpr",
               "ConstantExpr", "FullExpr"}


class Canon:
    """renders expressions / statements of one function as canonical strings / nested tuples"""

    def __init__(self, fn):
        self.names = {}
        self.nloc = 0
        k = 0
        for c in fn.get("inner", []):
            if c.get("kind") == "ParmVarDecl":
                self.names[c.get("id")] = "p%d" % k
                k += 1
        self.body = [c for c in fn.get("inner", []) if c.get("kind") == "CompoundStmt"][0]

    def ref(self, n):
        d = n.get("referencedDecl", {})
        if d.get("id") in self.names:
            return self.names[d["id"]]
        return d.get("name", "?")

    def e(self, n):
        k = n.get("kind")
        inner = n.get("inner", [])
        if k in TRANSPARENT:
            return self.e(inner[-1])
        if k == "CXXConstructExpr":
            if len(inner) == 1:
                return self.e(inner[0])
            return "ctor(" + ",".join(self.e(c) for c in inner) + ")"
        if k == "DeclRefExpr":
            return self.ref(n)
        if k == "CXXThisExpr":
            return "this"
        if k in ("MemberExpr", "CXXDependentScopeMemberExpr"):
            name = n.get("name") or n.get("member") or "?"
            if not inner:
                return name
            b = self.e(inner[0])
            if b == "this":
                return name
            return b + ("->" if n.get("isArrow") else ".") + name
        if k in ("CXXMemberCallExpr", "CallExpr"):
            return self.e(inner[0]) + "(" + ",".join(self.e(c) for c in inner[1:]) + ")"
        if k == "CXXOperatorCallExpr":
            op = self.e(inner[0])
            args = [self.e(c) for c in inner[1:]]
            op = op.replace("operator", "")
            if op == "[]":
                return "%s[%s]" % (args[0], args[1])
            if op == "->":
                return args[0] + "->"          # followed by a MemberExpr that prints ".name"; fixed below
            if op in ("++", "--"):
                return op + args[0]
            if op == "*" and len(args) == 1:
                return "*" + args[0]
            if len(args) == 2:
                return "(%s%s%s)" % (args[0], op, args[1])
            return op + "(" + ",".join(args) + ")"
        if k == "ArraySubscriptExpr":
            return "%s[%s]" % (self.e(inner[0]), self.e(inner[1]))
        if k == "BinaryOperator" or k == "CompoundAssignOperator":
            return "(%s%s%s)" % (self.e(inner[0]), n.get("opcode"), self.e(inner[1]))
        if k == "UnaryOperator":
            op = n.get("opcode")
            if op in ("++", "--"):
                return op + self.e(inner[0])
            return op + self.e(inner[0])
        if k == "IntegerLiteral":
            return str(n.get("value"))
        if k == "GNUNullExpr" or k == "CXXNullPtrLiteralExpr":
            return "NULL"
        if k == "CXXBoolLiteralExpr":
            return "true" if n.get("value") else "false"
        if k == "StringLiteral":
            return "STR"
        if k == "UnresolvedLookupExpr" or k == "UnresolvedMemberExpr":
            return n.get("name", "?")
        if k == "UnaryExprOrTypeTraitExpr":
            return "sizeof"
        if k == "CXXUnresolvedConstructExpr" or k == "CXXTemporaryObjectExpr":
            return "tmp(" + ",".join(self.e(c) for c in inner) + ")"
        if k == "ConditionalOperator":
            return "(%s?%s:%s)" % tuple(self.e(c) for c in inner)
        raise Refuse("expression kind not in subset: %s" % k)

    def expr(self, n):
        s = self.e(n)
        s = s.replace("->.", "->")
        while s.startswith("(") and s.endswith(")") and self._balanced(s[1:-1]):
            s = s[1:-1]
        return s

    @staticmethod
    def _balanced(s):
        d = 0
        for ch in s:
            if ch == "(":
                d += 1
            elif ch == ")":
                d -= 1
                if d < 0:
                    return False
        return d == 0

    def s(self, n):
        """statement -> nested tuple"""
        k = n.get("kind")
        inner = n.get("inner", [])
        if k == "CompoundStmt":
            out = []
            for c in inner:
                r = self.s(c)
                if r[0] == "block":
                    out.extend(r[1])
                elif r[0] != "nop":
                    out.append(r)
            return ("block", out)
        if k == "NullStmt":
            return ("nop",)
        if k == "DeclStmt":
            ds = []
            for c in inner:
                if c.get("kind") != "VarDecl":
                    continue
                nm = "v%d" % self.nloc
                self.nloc += 1
                self.names[c.get("id")] = nm
                init = [x for x in c.get("inner", []) if "Expr" in x.get("kind", "") or "Operator" in x.get("kind", "") or x.get("kind") == "IntegerLiteral"]
                ini = None
                if init and init[0].get("kind") != "CXXConstructExpr":
                    ini = self.expr(init[0])
                elif init and init[0].get("inner"):
                    ini = self.expr(init[0])
                ds.append((nm, ini))
            return ("decl", ds)
        if k == "IfStmt":
            parts = [c for c in inner]
            cond = self.expr(parts[0])
            th = self.s(parts[1])
            el = self.s(parts[2]) if len(parts) > 2 else None
            return ("if", cond, th, el)
        if k == "ForStmt":
            # clang: [init, condvar, cond, inc, body]; missing parts are {} objects
            init, _cv, cond, inc, body = (inner + [{}] * 5)[:5]
            return ("for", self.s(init) if init.get("kind") else None,
                    self.expr(cond) if cond.get("kind") else None,
                    self.expr(inc) if inc.get("kind") else None, self.s(body))
        if k == "ReturnStmt":
            return ("ret", self.expr(inner[0]) if inner else None)
        if k == "ContinueStmt":
            return ("continue",)
        if k == "BreakStmt":
            return ("break",)
        if k == "SwitchStmt":
            return ("switch", self.expr(inner[0]), inner[-1])
        if k in ("CaseStmt", "DefaultStmt"):
            raise Refuse("case label outside a switch walk")
        return ("expr", self.expr(n))


def as_block(st):
    if st is None:
        return []
    return st[1] if st[0] == "block" else [st]


def kind_of(pattern, text, what):
    m = re.fullmatch(pattern, text)
    if not m:
        raise Refuse("%s: unexpected form `%s`" % (what, text))
    stem = m.group(1)
    if stem not in STEM:
        raise Refuse("%s: unknown entity stem `%s`" % (what, stem))
    return STEM[stem]


# ----------------------------------------------------------------------------- Rxn_copy / Rxn_copies

def shape_rxn_copy(fn):
    c = Canon(fn)
    body = as_block(c.s(c.body))
    # p0 = map, p1 = i, p2 = j
    P = {"p1": "PFirst", "p2": "PSecond"}
    st = [x for x in body if x[0] != "decl" or any(i is not None for _, i in x[1])]
    # iterator may be initialised in its declaration or assigned afterwards
    it, find = None, None
    for x in body:
        if x[0] == "decl":
            for nm, ini in x[1]:
                m = ini and re.fullmatch(r"p0\.find\((p\d)\)", ini)
                if m:
                    it, find = nm, m.group(1)
        elif x[0] == "expr":
            m = re.fullmatch(r"(v\d+)=p0\.find\((p\d)\)", x[1])
            if m and it is None:
                it, find = m.group(1), m.group(2)
    if it is None or find not in P:
        raise Refuse("Rxn_copy: no `it = b.find(<param>)`")
    ifs = [x for x in body if x[0] == "if"]
    if len(ifs) != 1:
        raise Refuse("Rxn_copy: expected exactly one if")
    _, cond, th, el = ifs[0]
    if cond not in ("%s!=p0.end()" % it, "p0.end()!=%s" % it):
        raise Refuse("Rxn_copy: condition `%s`" % cond)
    dst = refind = setn = sete = None
    for x in as_block(th):
        if x[0] == "ret":
            continue
        if x[0] != "expr":
            raise Refuse("Rxn_copy: statement %r" % (x,))
        t = x[1]
        m = re.fullmatch(r"p0\[(p\d)\]=%s->second" % it, t)
        if m and dst is None and refind is None:
            dst = m.group(1); continue
        m = re.fullmatch(r"%s=p0\.find\((p\d)\)" % it, t)
        if m and dst is not None and refind is None:
            refind = m.group(1); continue
        m = re.fullmatch(r"%s->second\.Set_n_user\((p\d)\)" % it, t)
        if m and refind is not None:
            setn = m.group(1); continue
        m = re.fullmatch(r"%s->second\.Set_n_user_end\((p\d)\)" % it, t)
        if m and refind is not None:
            sete = m.group(1); continue
        raise Refuse("Rxn_copy: statement `%s` not in subset" % t)
    for x in as_block(el):
        if x[0] != "ret":
            raise Refuse("Rxn_copy: else branch does more than return")
    if dst not in P or refind not in P:
        raise Refuse("Rxn_copy: store / re-find not found")
    opt = lambda p: "(Some %s)" % P[p] if p in P else "None"
    return "{| cs_find := %s; cs_dst := %s; cs_refind := %s; cs_set_num := %s; cs_set_num_end := %s |}" % (
        P[find], P[dst], P[refind], opt(setn), opt(sete))


CMP = {"<=": "CLe", "<": "CLt", ">=": "CGe", ">": "CGt", "==": "CEq", "!=": "CNe"}


def shape_rxn_copies(fn):
    c = Canon(fn)
    body = as_block(c.s(c.body))
    R = {"p1": "RN", "p2": "RNEnd"}
    guard = None
    it = find = None
    loop = None
    for x in body:
        if x[0] == "if" and as_block(x[2]) == [("ret", None)] and x[3] is None and guard is None and it is None:
            m = re.fullmatch(r"(p\d)(<=|<|>=|>|==|!=)(p\d)", x[1])
            if not m or m.group(1) not in R or m.group(3) not in R:
                raise Refuse("Rxn_copies: guard `%s`" % x[1])
            guard = (CMP[m.group(2)], R[m.group(1)], R[m.group(3)])
        elif x[0] == "decl":
            for nm, ini in x[1]:
                m = ini and re.fullmatch(r"p0\.find\((p\d)\)", ini)
                if m:
                    it, find = nm, m.group(1)
        elif x[0] == "expr":
            m = re.fullmatch(r"(v\d+)=p0\.find\((p\d)\)", x[1])
            if not m:
                raise Refuse("Rxn_copies: statement `%s`" % x[1])
            it, find = m.group(1), m.group(2)
        elif x[0] == "if":
            if it is None or x[1] not in ("%s!=p0.end()" % it, "p0.end()!=%s" % it) or x[3] is not None:
                raise Refuse("Rxn_copies: condition `%s`" % x[1])
            inner = as_block(x[2])
            if len(inner) != 1 or inner[0][0] != "for":
                raise Refuse("Rxn_copies: expected a single for loop")
            loop = inner[0]
        elif x[0] == "ret":
            pass
        else:
            raise Refuse("Rxn_copies: statement %r" % (x,))
    if guard is None:
        # no early return: equivalent to a guard that is never true is not expressible; refuse
        raise Refuse("Rxn_copies: no early-return guard")
    if loop is None or find not in R:
        raise Refuse("Rxn_copies: no loop / find")
    _, init, cond, inc, lbody = loop
    if not init or init[0] != "decl" or len(init[1]) != 1:
        raise Refuse("Rxn_copies: loop init")
    lv, ini = init[1][0]
    R2 = dict(R); R2[lv] = "RLoop"
    m = re.fullmatch(r"(p\d)(?:\+(\d+))?", ini or "")
    if not m or m.group(1) not in R:
        raise Refuse("Rxn_copies: loop start `%s`" % ini)
    frm, off = R[m.group(1)], int(m.group(2) or 0)
    m = re.fullmatch(r"(\w+)(<=|<|>=|>|==|!=)(\w+)", cond or "")
    if not m or m.group(1) not in R2 or m.group(3) not in R2:
        raise Refuse("Rxn_copies: loop condition `%s`" % cond)
    lcond = (CMP[m.group(2)], R2[m.group(1)], R2[m.group(3)])
    if inc not in ("++" + lv, "(%s+=1)" % lv, "%s+=1" % lv, "%s=(%s+1)" % (lv, lv), "%s=%s+1" % (lv, lv)):
        raise Refuse("Rxn_copies: loop increment `%s`" % inc)
    dst = refind = setn = sete = None
    for x in as_block(lbody):
        if x[0] != "expr":
            raise Refuse("Rxn_copies: loop statement %r" % (x,))
        t = x[1]
        m = re.fullmatch(r"p0\[(\w+)\]=%s->second" % it, t)
        if m and dst is None:
            dst = m.group(1); continue
        m = re.fullmatch(r"%s=p0\.find\((\w+)\)" % it, t)
        if m and dst is not None and refind is None:
            refind = m.group(1); continue
        m = re.fullmatch(r"%s->second\.Set_n_user\((\w+)\)" % it, t)
        if m and refind is not None:
            setn = m.group(1); continue
        m = re.fullmatch(r"%s->second\.Set_n_user_end\((\w+)\)" % it, t)
        if m and refind is not None:
            sete = m.group(1); continue
        raise Refuse("Rxn_copies: loop statement `%s` not in subset" % t)
    if dst not in R2 or refind != dst:
        raise Refuse("Rxn_copies: store / re-find mismatch (%s, %s)" % (dst, refind))
    opt = lambda p: "(Some %s)" % R2[p] if p in R2 else "None"
    return ("{| rs_guard_cmp := %s; rs_guard_l := %s; rs_guard_r := %s; rs_find := %s; rs_from := %s; rs_from_off := %d; "
            "rs_cond_cmp := %s; rs_cond_l := %s; rs_cond_r := %s; rs_dst := %s; rs_set_num := %s; rs_set_num_end := %s |}") % (
        guard + (R[find], frm, off) + lcond + (R2[dst], opt(setn), opt(sete)))


# ----------------------------------------------------------------------------- delete_entities

def table_delete(fn):
    c = Canon(fn)
    body = as_block(c.s(c.body))
    rows, resets = [], False
    G = r"delete_info\.Get_(\w+?)\(\)"
    for x in body:
        if x[0] == "if" and x[3] is None and as_block(x[2]) and all(y[0] == "ret" for y in as_block(x[2])):
            if not re.fullmatch(r"[!&()\w.]*", x[1].replace("delete_info", "d")):
                raise Refuse("delete_entities: early-return guard `%s`" % x[1][:80])
            continue                                          # "nothing requested": no effect on the store
        if x[0] == "if":
            cond = kind_of(G + r"\.Get_defined\(\)", x[1], "delete_entities block condition")
            if x[3] is not None:
                raise Refuse("delete_entities: else branch on a Get_defined() test")
            inner = as_block(x[2])
            if len(inner) != 1 or inner[0][0] != "if" or inner[0][3] is None:
                raise Refuse("delete_entities: block for %s is not if/else" % cond)
            _, c2, th, el = inner[0]
            m = re.fullmatch(G + r"\.Get_numbers\(\)\.(?:size\(\)==0|empty\(\))", c2) or re.fullmatch(r"0==" + G + r"\.Get_numbers\(\)\.size\(\)", c2)
            if not m:
                raise Refuse("delete_entities: size test `%s`" % c2)
            size = STEM.get(m.group(1)) or (_ for _ in ()).throw(Refuse("unknown getter " + m.group(1)))
            th = as_block(th)
            if len(th) != 1 or th[0][0] != "expr":
                raise Refuse("delete_entities: clear branch of %s" % cond)
            clear = kind_of(r"Rxn_(\w+?)_map\.clear\(\)", th[0][1], "delete_entities clear")
            el = [y for y in as_block(el) if not (y[0] == "decl" and all(i is None for _, i in y[1]))]
            if len(el) != 1 or el[0][0] != "for":
                raise Refuse("delete_entities: erase branch of %s" % cond)
            _, init, fc, inc, fb = el[0]
            if init is None:
                raise Refuse("delete_entities: for without init")
            if init[0] == "expr":
                m = re.fullmatch(r"(v\d+)=" + G + r"\.Get_numbers\(\)\.begin\(\)", init[1])
            elif init[0] == "decl" and len(init[1]) == 1:
                m = re.fullmatch("(" + init[1][0][0] + ")=" + G + r"\.Get_numbers\(\)\.begin\(\)", "%s=%s" % init[1][0])
            else:
                m = None
            if not m or m.group(2) not in STEM:
                raise Refuse("delete_entities: loop init of %s" % cond)
            it, begin = m.group(1), STEM[m.group(2)]
            m = re.fullmatch(it + "!=" + G + r"\.Get_numbers\(\)\.end\(\)", fc or "")
            if not m or m.group(1) not in STEM:
                raise Refuse("delete_entities: loop condition `%s`" % fc)
            end = STEM[m.group(1)]
            if inc not in ("++" + it,):
                raise Refuse("delete_entities: loop increment `%s`" % inc)
            fb = as_block(fb)
            if len(fb) != 1 or fb[0][0] != "expr":
                raise Refuse("delete_entities: loop body of %s" % cond)
            erase = kind_of(r"Rxn_(\w+?)_map\.erase\(\*" + it + r"\)", fb[0][1], "delete_entities erase")
            rows.append((cond, size, clear, begin, end, erase))
            continue
        if x[0] == "expr" and x[1] == "delete_info.SetAll(false)":
            resets = True
            continue
        if x[0] == "ret":
            continue
        raise Refuse("delete_entities: statement %r not in subset" % (x[:2],))
    return rows, resets


# ----------------------------------------------------------------------------- copy_entities

def table_copy(fn):
    c = Canon(fn)
    body = as_block(c.s(c.body))
    rows, resets = [], False
    pending = None
    CP = r"copy_(\w+?)"
    for x in body:
        if x[0] == "decl":
            continue
        if x[0] == "expr" and re.fullmatch(r"v\d+=\d+", x[1]):
            continue                                            # return_value = OK
        if x[0] == "for":
            if pending is not None:
                raise Refuse("copy_entities: loop for %s not followed by copier_clear" % pending[0])
            _, init, cond, inc, fb = x
            if not init or init[0] != "decl" or len(init[1]) != 1 or init[1][0][1] != "0":
                raise Refuse("copy_entities: outer loop init")
            j = init[1][0][0]
            count = kind_of(j + "<" + CP + r"\.n_user\.size\(\)", cond or "", "copy_entities outer loop bound")
            if inc != "++" + j:
                raise Refuse("copy_entities: outer loop increment")
            fb = as_block(fb)
            if len(fb) != 1 or fb[0][0] != "if" or fb[0][3] is not None:
                raise Refuse("copy_entities: outer loop body of %s" % count)
            m = re.fullmatch(r"(?:Utilities::)?Rxn_find\(Rxn_(\w+?)_map," + CP + r"\.n_user\[" + j + r"\]\)(?:!=NULL|!=0|)", fb[0][1])
            if not m or m.group(1) not in STEM or m.group(2) not in STEM:
                raise Refuse("copy_entities: presence test `%s`" % fb[0][1])
            find_map, find_src = STEM[m.group(1)], STEM[m.group(2)]
            il = as_block(fb[0][2])
            if len(il) != 1 or il[0][0] != "for":
                raise Refuse("copy_entities: inner loop of %s" % count)
            _, init2, cond2, inc2, ib = il[0]
            if not init2 or init2[0] != "decl" or len(init2[1]) != 1:
                raise Refuse("copy_entities: inner loop init")
            i = init2[1][0][0]
            start = kind_of(CP + r"\.start\[" + j + r"\]", init2[1][0][1] or "", "copy_entities inner loop start")
            end = kind_of(i + "<=" + CP + r"\.end\[" + j + r"\]", cond2 or "", "copy_entities inner loop bound")
            if inc2 != "++" + i:
                raise Refuse("copy_entities: inner loop increment")
            ib = as_block(ib)
            call = r"(?:Utilities::)?Rxn_copy\(Rxn_(\w+?)_map," + CP + r"\.n_user\[" + j + r"\]," + i + r"\)"
            skip = None
            if len(ib) == 2 and ib[0][0] == "if" and as_block(ib[0][2]) == [("continue",)] and ib[0][3] is None and ib[1][0] == "expr":
                skip = kind_of(i + "==" + CP + r"\.n_user\[" + j + r"\]", ib[0][1], "copy_entities skip test")
                m = re.fullmatch(call, ib[1][1])
            elif len(ib) == 1 and ib[0][0] == "if" and ib[0][3] is None and len(as_block(ib[0][2])) == 1 and as_block(ib[0][2])[0][0] == "expr":
                skip = kind_of(i + "!=" + CP + r"\.n_user\[" + j + r"\]", ib[0][1], "copy_entities skip test")
                m = re.fullmatch(call, as_block(ib[0][2])[0][1])
            else:
                raise Refuse("copy_entities: inner loop body of %s not in subset" % count)
            if not m or m.group(1) not in STEM or m.group(2) not in STEM:
                raise Refuse("copy_entities: Rxn_copy call of %s" % count)
            pending = (count, find_map, find_src, start, end, skip, STEM[m.group(1)], STEM[m.group(2)])
            continue
        if x[0] == "expr" and x[1].startswith("copier_clear("):
            k = kind_of(r"copier_clear\(&" + CP + r"\)", x[1], "copy_entities copier_clear")
            if pending is None:
                raise Refuse("copy_entities: copier_clear(%s) without a loop" % k)
            rows.append(pending + (k,))
            pending = None
            continue
        if x[0] == "expr" and x[1] in ("new_copy=0", "new_copy=false"):
            resets = True
            continue
        if x[0] == "ret":
            continue
        raise Refuse("copy_entities: statement %r not in subset" % (x[:2],))
    if pending is not None:
        raise Refuse("copy_entities: last loop not followed by copier_clear")
    return rows, resets


# ----------------------------------------------------------------------------- read_copy

def table_read_copy(fn):
    c = Canon(fn)
    switches = []

    def find_sw(n):
        if n.get("kind") == "SwitchStmt":
            switches.append(n)
        for ch in n.get("inner", []):
            find_sw(ch)
    find_sw(c.body)
    # declare locals so that names are canonical (walk whole body once for DeclStmts)
    def decls(n):
        if n.get("kind") == "DeclStmt":
            c.s(n)
        for ch in n.get("inner", []):
            decls(ch)
    decls(c.body)

    def calls(n, acc):
        if n.get("kind") == "CXXMemberCallExpr" or n.get("kind") == "CallExpr":
            t = c.expr(n)
            if t.startswith("copier_add("):
                acc.append(t)
                return
        for ch in n.get("inner", []):
            calls(ch, acc)

    target = None
    for sw in switches:
        acc = []
        calls(sw, acc)
        if acc:
            if target is not None:
                raise Refuse("read_copy: copier_add in more than one switch")
            target = sw
    if target is None:
        raise Refuse("read_copy: no switch with copier_add")
    body = target["inner"][-1]
    groups, labels, stmts = [], [], []

    def label_of(n):
        e = n["inner"][0]
        while e.get("kind") in TRANSPARENT:
            e = e["inner"][-1]
        return e.get("referencedDecl", {}).get("name") or c.expr(e)

    def close():
        nonlocal labels, stmts
        if labels or stmts:
            groups.append((labels, stmts))
        labels, stmts = [], []

    for ch in body.get("inner", []):
        n = ch
        if n.get("kind") in ("CaseStmt", "DefaultStmt"):
            if stmts:
                raise Refuse("read_copy: fall-through into %s" % (label_of(n) if n.get("kind") == "CaseStmt" else "default"))
            while n.get("kind") in ("CaseStmt", "DefaultStmt"):
                labels.append(label_of(n) if n.get("kind") == "CaseStmt" else "default")
                n = n["inner"][-1]
        if n.get("kind") == "BreakStmt":
            close()
            continue
        stmts.append(n)
    close()
    kw, cell, argsets = [], [], set()
    for labs, sts in groups:
        acc = []
        for s in sts:
            calls(s, acc)
        tg = []
        for t in acc:
            m = re.fullmatch(r"copier_add\(&copy_(\w+?),(\w+),(\w+),(\w+)\)", t)
            if not m or m.group(1) not in STEM:
                raise Refuse("read_copy: call `%s`" % t)
            tg.append(STEM[m.group(1)])
            argsets.add(m.groups()[1:])
        for lab in labs:
            if lab == "KEY_NONE":
                cell.extend(tg)
            elif lab in KEYWORD:
                kw.append((KEYWORD[lab], tg))
            elif tg:
                raise Refuse("read_copy: copier_add under unexpected label %s" % lab)
    if len(argsets) != 1 or len(set(next(iter(argsets)))) != 3:
        raise Refuse("read_copy: copier_add calls do not all pass the same three variables: %r" % (argsets,))
    return kw, cell


# ----------------------------------------------------------------------------- saver / do_mixes

SAVE_FN = {"xsolution_save": "KSol", "xpp_assemblage_save": "KPP", "xexchange_save": "KExch", "xsurface_save": "KSurf",
           "xgas_save": "KGas", "xss_assemblage_save": "KSS"}


def table_saver(fn):
    c = Canon(fn)
    body = as_block(c.s(c.body))
    rows = []
    for x in body:
        if x[0] in ("decl", "ret"):
            continue
        if x[0] != "if" or x[3] is not None:
            raise Refuse("saver: statement %r not in subset" % (x[:2],))
        cond = x[1]
        if re.match(r"\(?save\.kinetics==1", cond):
            maps = set(re.findall(r"Rxn_(\w+?)_map", repr(x[2])))
            if maps - {"kinetics"}:
                raise Refuse("saver: the kinetics block touches %s" % sorted(maps))
            continue
        m = re.fullmatch(r"save\.(\w+)==1", cond) or re.fullmatch(r"save\.(\w+)", cond)
        if not m or m.group(1) not in STEM:
            raise Refuse("saver: block condition `%s`" % cond)
        flag = STEM[m.group(1)]
        nvar = sv_n = sv_fn = None
        tail = None
        for y in as_block(x[2]):
            if y[0] == "expr":
                t = y[1]
                m = re.fullmatch(r"(v\d+)=save\.n_(\w+?)_user", t)
                if m and m.group(2) in STEM and nvar is None:
                    nvar, sv_n = m.group(1), STEM[m.group(2)]
                    continue
                m = re.fullmatch(r"(x\w+_save)\((v\d+)\)", t)
                if m and m.group(1) in SAVE_FN and m.group(2) == nvar and sv_fn is None:
                    sv_fn = SAVE_FN[m.group(1)]
                    continue
                m = re.fullmatch(r"(?:Utilities::)?Rxn_copies\(Rxn_(\w+?)_map,(v\d+|save\.n_(\w+?)_user),save\.n_(\w+?)_user_end\)", t)
                if m and sv_fn is not None and tail is None:
                    if m.group(1) not in STEM or m.group(4) not in STEM:
                        raise Refuse("saver: Rxn_copies call `%s`" % t)
                    if m.group(2) == nvar:
                        frm = sv_n
                    elif m.group(3) in STEM:
                        frm = STEM[m.group(3)]
                    else:
                        raise Refuse("saver: Rxn_copies source `%s`" % t)
                    tail = (STEM[m.group(1)], frm, STEM[m.group(4)], False)
                    continue
                if "save." in t or "Rxn_" in t:
                    raise Refuse("saver: statement `%s` not in subset" % t)
                continue            # description text etc.
            if y[0] == "for" and sv_fn is not None and tail is None:
                _, init, fc, inc, fb = y
                if not init or init[0] != "expr":
                    raise Refuse("saver: loop init of %s" % flag)
                m = re.fullmatch(r"(v\d+)=\(?save\.n_(\w+?)_user\+1\)?", init[1])
                if not m or m.group(2) not in STEM:
                    raise Refuse("saver: loop start `%s`" % init[1])
                lv, frm = m.group(1), STEM[m.group(2)]
                m = re.fullmatch(lv + r"<=save\.n_(\w+?)_user_end", fc or "")
                if not m or m.group(1) not in STEM:
                    raise Refuse("saver: loop bound `%s`" % fc)
                end = STEM[m.group(1)]
                if inc != "++" + lv:
                    raise Refuse("saver: loop increment `%s`" % inc)
                fb = as_block(fb)
                if len(fb) != 1 or fb[0][0] != "expr":
                    raise Refuse("saver: loop body of %s" % flag)
                m = re.fullmatch(r"(?:Utilities::)?Rxn_copy\(Rxn_(\w+?)_map," + nvar + "," + lv + r"\)", fb[0][1])
                if not m or m.group(1) not in STEM:
                    raise Refuse("saver: loop body `%s`" % fb[0][1])
                tail = (STEM[m.group(1)], frm, end, True)
                continue
            if y[0] == "decl":
                continue
            raise Refuse("saver: statement %r in block %s not in subset" % (y[:2], flag))
        if sv_n is None or sv_fn is None or tail is None:
            raise Refuse("saver: block %s incomplete (n=%s, save function=%s, copies=%s)" % (flag, sv_n, sv_fn, tail))
        rows.append((flag, sv_n, sv_fn) + tail)
    return rows


def table_mixes(fn):
    c = Canon(fn)
    pairs = []

    def walk(n):
        if n.get("kind") in ("CallExpr", "CXXMemberCallExpr"):
            try:
                t = c.expr(n)
            except Refuse:
                t = ""
            m = re.fullmatch(r"(?:Utilities::)?Rxn_mix\(Rxn_(\w+?)_mix_map,Rxn_(\w+?)_map,this\)", t)
            if m:
                if m.group(1) not in STEM or m.group(2) not in STEM:
                    raise Refuse("do_mixes: call `%s`" % t)
                pairs.append((STEM[m.group(1)], STEM[m.group(2)]))
                return
            if t.startswith("Rxn_mix(") or t.startswith("Utilities::Rxn_mix("):
                raise Refuse("do_mixes: call `%s` not in subset" % t)
        for ch in n.get("inner", []):
            walk(ch)
    # declarations first so that locals have canonical names
    def decls(n):
        if n.get("kind") == "DeclStmt":
            c.s(n)
        for ch in n.get("inner", []):
            decls(ch)
    decls(c.body)
    walk(c.body)
    return pairs


# ----------------------------------------------------------------------------- list_components

def table_components(fn):
    c = Canon(fn)
    found = []

    def walk(n):
        if n.get("kind") in ("CXXMemberCallExpr", "CallExpr"):
            try:
                t = c.expr(n)
            except Refuse:
                t = ""
            m = re.fullmatch(r"Rxn_(\w+?)_map\.begin\(\)", t)
            if m and m.group(1) in STEM and STEM[m.group(1)] not in found:
                found.append(STEM[m.group(1)])
        for ch in n.get("inner", []):
            walk(ch)
    walk(c.body)
    return found


# ----------------------------------------------------------------------------- driver

def generate(repo, guard_flags=("-DIPHREEQC_VERIF", "-DSWIG_SHARED_OBJ", "-DUSE_PHRQ_ALLOC")):
    jobs = {
        "tmpl": ("src/phreeqcpp/mainsubs.cpp", "Rxn_cop"),
        "copy": ("src/phreeqcpp/mainsubs.cpp", "copy_entities"),
        "delete": ("src/phreeqcpp/ReadClass.cxx", "delete_entities"),
        "read_copy": ("src/phreeqcpp/read.cpp", "read_copy"),
        "components": ("src/phreeqcpp/Phreeqc.cpp", "list_components"),
        "saver": ("src/phreeqcpp/mainsubs.cpp", "saver"),
        "mixes": ("src/phreeqcpp/mainsubs.cpp", "do_mixes"),
    }
    with cf.ThreadPoolExecutor(max_workers=4) as ex:
        futs = {k: ex.submit(clang_ast, repo, v[0], v[1], list(guard_flags)) for k, v in jobs.items()}
        ast = {k: f.result() for k, f in futs.items()}
    cs = shape_rxn_copy(find_def(ast["tmpl"], "Rxn_copy"))
    rs = shape_rxn_copies(find_def(ast["tmpl"], "Rxn_copies"))
    drows, dres = table_delete(find_def(ast["delete"], "delete_entities"))
    crows, cres = table_copy(find_def(ast["copy"], "copy_entities"))
    kw, cell = table_read_copy(find_def(ast["read_copy"], "read_copy"))
    comps = table_components(find_def(ast["components"], "list_components"))
    srows = table_saver(find_def(ast["saver"], "saver"))
    mixes = table_mixes(find_def(ast["mixes"], "do_mixes"))
    b = lambda x: "true" if x else "false"
    L = lambda xs: "[" + "; ".join(xs) + "]"
    out = []
    out.append("(* GENERATED by translator/c14_gen.py from the current sources -- do not edit *)")
    out.append("From Coq Require Import ZArith List.\nFrom IPV.C14 Require Import Store.\nImport ListNotations.\nOpen Scope Z_scope.\n")
    out.append("Definition tables : gen_tables := {|")
    out.append("  g_copy_shape := %s;" % cs)
    out.append("  g_copies_shape := %s;" % rs)
    out.append("  g_delete := %s;" % L(["{| dr_cond := %s; dr_size := %s; dr_clear := %s; dr_begin := %s; dr_end := %s; dr_erase := %s |}" % r for r in drows]))
    out.append("  g_delete_resets := %s;" % b(dres))
    out.append("  g_copy := %s;" % L(["{| cr_count := %s; cr_find_map := %s; cr_find_src := %s; cr_start := %s; cr_end := %s; cr_skip := %s; cr_copy_map := %s; cr_copy_src := %s; cr_clear := %s |}" % r for r in crows]))
    out.append("  g_copy_resets := %s;" % b(cres))
    out.append("  g_copy_kw := %s;" % L(["(%s, %s)" % (k, L(t)) for k, t in kw]))
    out.append("  g_copy_cell := %s;" % L(cell))
    out.append("  g_components := %s;" % L(comps))
    out.append("  g_saver := %s;" % L(["{| sv_flag := %s; sv_n := %s; sv_fn := %s; sv_map := %s; sv_from := %s; sv_end := %s; sv_loop := %s |}" % (r[:6] + (b(r[6]),)) for r in srows]))
    out.append("  g_mixes := %s" % L(["(%s, %s)" % p for p in mixes]))
    out.append("|}.\n")
    return "\n".join(out)


if __name__ == "__main__":
    repo = sys.argv[1] if len(sys.argv) > 1 else os.environ.get("VERIF_REPO", "/repo")
    sys.stdout.write(generate(repo))
