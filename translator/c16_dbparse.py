"""C16: small INDEPENDENT parser of PHREEQC database text — only what the activity-coefficient property needs:
for every SOLUTION_SPECIES entry the defined species' name, its charge (from the name), the activity-coefficient
option (-gamma a b | -llnl_gamma a | -co2_llnl_gamma | -activity_water | none) and, for LLNL-type databases, the
LLNL_AQUEOUS_MODEL_PARAMETERS tables.  It shares no code with /repo's read.cpp; it is part of the trusted base of the
correspondence run (a parsing mistake shows up as a formula mismatch, i.e. a false alarm, never as a missed one for
the species it does parse).

Rules implemented (PHREEQC manual, "SOLUTION_SPECIES"):
  * '#' starts a comment; ';' separates logical lines; a trailing '\\' continues a line;
  * a keyword line (one of KEYWORDS, case-insensitive, first token) starts a data block;
  * inside SOLUTION_SPECIES a logical line containing '=' is an association reaction; the species defined is the
    first species after the '=' sign (a leading stoichiometric coefficient is dropped);
  * following lines whose first token (leading '-' optional, case-insensitive) is an option name belong to it;
  * a species defined again later replaces the earlier definition (options are NOT inherited);
  * charge: trailing run of '+'/'-' signs, or a sign followed by a (decimal) number, at the end of the name.
The activity model assigned (mirrors the documented defaults): -gamma -> extended/WATEQ Debye-Hueckel with (a0, b);
-llnl_gamma a0 -> B-dot (gamma = 1 when z = 0); -co2_llnl_gamma -> Drummond CO2; -activity_water -> isotopic water;
otherwise Davies when z != 0 and 0.1*I when z = 0; e- and H2O have gamma = 1."""
import os, re
from fractions import Fraction

KEYWORDS = {k.upper() for k in """SOLUTION_MASTER_SPECIES SOLUTION_SPECIES PHASES EXCHANGE_MASTER_SPECIES EXCHANGE_SPECIES
SURFACE_MASTER_SPECIES SURFACE_SPECIES RATES END LLNL_AQUEOUS_MODEL_PARAMETERS NAMED_EXPRESSIONS PITZER SIT ISOTOPES
ISOTOPE_RATIOS ISOTOPE_ALPHAS CALCULATE_VALUES KNOBS PRINT SELECTED_OUTPUT USER_PUNCH USER_PRINT USER_GRAPH SOLUTION
SOLUTION_SPREAD TITLE MEAN_GAMMAS GAS_BINARY_PARAMETERS DATABASE INCLUDE$ KINETICS EQUILIBRIUM_PHASES REACTION MIX USE SAVE
REACTION_TEMPERATURE REACTION_PRESSURE GAS_PHASE SOLID_SOLUTIONS SURFACE EXCHANGE TRANSPORT ADVECTION INVERSE_MODELING
COPY DELETE DUMP RUN_CELLS""".split()}


def logical_lines(text):
    """yield logical lines (comments stripped, ';' split, continuation joined)"""
    buf = ""
    for raw in text.splitlines():
        line = raw.split("#", 1)[0].rstrip()
        if line.endswith("\\"):
            buf += line[:-1] + " "
            continue
        line = buf + line
        buf = ""
        for part in line.split(";"):
            part = part.strip()
            if part:
                yield part


def charge_of(name):
    """charge from a species name: Fe+3 -> 3, SO4-2 -> -2, Cl- -> -1, Al+++ -> 3, CaX2 -> 0, Fe+0.5 -> 1/2"""
    m = re.search(r"([+-])(\d+(?:\.\d*)?|\.\d+)$", name)
    if m:
        return Fraction(m.group(2)) * (1 if m.group(1) == "+" else -1)
    m = re.search(r"(\++|-+)$", name)
    if m:
        return Fraction(len(m.group(1)) * (1 if m.group(1)[0] == "+" else -1))
    return Fraction(0)


def _num(tok):
    try:
        return Fraction(tok)
    except Exception:
        try:
            return Fraction(repr(float(tok.replace("d", "e").replace("D", "e"))))
        except Exception:
            return None


def parse_db(path):
    """returns {'species': {name: {...}}, 'llnl': None | {'temps','adh','bdh','bdot','co2'}, 'order': [names]}"""
    text = open(path, errors="replace").read()
    species, order = {}, []
    llnl = None
    block = None
    cur = None
    llnl_opt = None
    for line in logical_lines(text):
        toks = line.split()
        first = toks[0].upper()
        if first in KEYWORDS:
            block = first
            cur = None
            if block == "LLNL_AQUEOUS_MODEL_PARAMETERS":
                llnl = {"temps": [], "adh": [], "bdh": [], "bdot": [], "co2": []}
                llnl_opt = None
            continue
        if block == "LLNL_AQUEOUS_MODEL_PARAMETERS":
            t0 = toks[0].lstrip("-").lower()
            key = {"temperatures": "temps", "temperature": "temps", "temp": "temps", "dh_a": "adh", "debye_huckel_a": "adh", "adh": "adh",
                   "dh_b": "bdh", "debye_huckel_b": "bdh", "bdh": "bdh", "bdot": "bdot", "b_dot": "bdot",
                   "co2_coefs": "co2", "c_co2": "co2", "co2_coefficients": "co2"}.get(t0)
            if key and _num(toks[0]) is None:
                llnl_opt = key
                toks = toks[1:]
            if llnl_opt:
                for t in toks:
                    v = _num(t)
                    if v is not None:
                        llnl[llnl_opt].append(v)
            continue
        if block != "SOLUTION_SPECIES":
            continue
        if "=" in line:
            rhs = line.split("=", 1)[1].split()
            if not rhs:
                cur = None
                continue
            name = rhs[0]
            if _num(name) is not None and len(rhs) > 1:      # "2 H2O"
                name = rhs[1]
            else:
                m = re.match(r"^(\d+(?:\.\d*)?)([A-Za-z(\[].*)$", name)   # "2H2O"
                if m:
                    name = m.group(2)
            cur = {"name": name, "z": charge_of(name), "opt": None, "a0": Fraction(0), "b": Fraction(0)}
            if name not in species:
                order.append(name)
            species[name] = cur
            continue
        if cur is None:
            continue
        opt = toks[0].lstrip("-").lower()
        if opt in ("gamma",):
            vals = [_num(t) for t in toks[1:3]]
            cur["opt"] = "gamma"
            cur["a0"] = vals[0] if len(vals) > 0 and vals[0] is not None else Fraction(0)
            cur["b"] = vals[1] if len(vals) > 1 and vals[1] is not None else Fraction(0)
        elif opt in ("llnl_gamma",):
            v = _num(toks[1]) if len(toks) > 1 else None
            cur["opt"] = "llnl_gamma"
            cur["a0"] = v if v is not None else Fraction(0)
        elif opt in ("co2_llnl_gamma",):
            cur["opt"] = "co2_llnl_gamma"
        elif opt in ("activity_water",):
            cur["opt"] = "activity_water"
    for sp in species.values():
        sp["model"] = model_of(sp, llnl)
    return {"species": species, "llnl": llnl, "order": order, "path": path}


def model_of(sp, llnl):
    """('neutral', b) | ('davies', z) | ('extdh', z, a0, b) | ('one',) | ('bdot', z, a0) | ('co2', c0..c4) | ('wateriso',)"""
    z = sp["z"]
    if sp["name"] in ("e-", "H2O"):
        return ("one",)
    if sp["opt"] == "gamma":
        return ("extdh", z, sp["a0"], sp["b"])
    if sp["opt"] == "llnl_gamma":
        return ("one",) if z == 0 else ("bdot", z, sp["a0"])
    if sp["opt"] == "co2_llnl_gamma":
        return ("co2",) + tuple((llnl or {}).get("co2", [])[:5])
    if sp["opt"] == "activity_water":
        return ("wateriso",)
    if z == 0:
        return ("neutral", Fraction(1, 10))
    return ("davies", z)


def interp_llnl(llnl, tc):
    """linear interpolation of (A, B, Bdot) at temperature tc (deg C) in the LLNL grid — the specification of
    llnl_parameters_interpolate_linearly, in exact rationals"""
    T = llnl["temps"]
    tc = Fraction(tc)
    if tc < T[0] or tc > T[-1]:
        return None
    for i in range(len(T) - 1):
        if T[i] <= tc <= T[i + 1]:
            f = (tc - T[i]) / (T[i + 1] - T[i])
            return tuple(llnl[k][i] + (llnl[k][i + 1] - llnl[k][i]) * f for k in ("adh", "bdh", "bdot"))
    return None


if __name__ == "__main__":
    import sys
    for p in sys.argv[1:]:
        d = parse_db(p)
        from collections import Counter
        print(p, len(d["species"]), Counter(s["model"][0] for s in d["species"].values()), d["llnl"] and {k: len(v) for k, v in d["llnl"].items()})
