#!/usr/bin/env python3
"""C02 translator (T-gen): regenerates coq/Gen/Gen_C02_Step.v from the CURRENT src/phreeqcpp/step.cpp.

 A. `gen_step_x`: symbolic execution of the straight-line/if-else prefix of Phreeqc::add_reaction (everything
    before the accumulation loop) on the variable step_x -> one Gallina expression over
    (step_x_in, incremental_reactions, equal, steps, count, n, c).
 B. `gen_acc`: every statement of the add_* functions that accumulates into total_h_x / total_o_x / cb_x /
    <master>->total / mass_water_aq_x, every coefficient handed to add_elt_list / get_elts_in_species and every
    Set_moles / Set_delta argument, as deep-embedded polynomial expressions (Checker-independent IR `aexp`).

Works on clang's JSON AST (comments, layout, parenthesisation invisible; single-assignment locals inlined;
iterators named after the container they run over; pointer locals named after their class).
Raises Refuse on anything outside its subset (the caller records that as a broken tie)."""
import json, os, re, subprocess, sys
from fractions import Fraction

FUNCS_ACC = ["add_solution", "add_mix", "add_exchange", "add_surface", "add_reaction", "reaction_calc", "add_gas_phase",
             "add_kinetics", "add_pp_assemblage", "add_ss_assemblage"]


class Refuse(Exception):
    pass


def clang_ast(repo, filt="add_", srcfile="src/phreeqcpp/step.cpp"):
    src = os.path.join(repo, srcfile)
    incs = ["-I" + os.path.join(repo, i) for i in ("src", "src/phreeqcpp", "src/phreeqcpp/common", "src/phreeqcpp/PhreeqcKeywords")]
    cmd = ["clang++", "-std=c++14", "-fsyntax-only", "-w", "-DIPHREEQC_VERIF", "-DSWIG_SHARED_OBJ", "-DUSE_PHRQ_ALLOC"] + incs + \
          ["-Xclang", "-ast-dump=json", "-Xclang", "-ast-dump-filter=" + filt, src]
    p = subprocess.run(cmd, stdout=subprocess.PIPE, stderr=subprocess.PIPE, text=True, timeout=300)
    if p.returncode != 0 or not p.stdout.strip():
        raise Refuse("clang failed on %s: " % srcfile + p.stderr[-1500:])
    dec = json.JSONDecoder()
    s = p.stdout
    i = 0
    objs = []
    while i < len(s):
        while i < len(s) and s[i].isspace():
            i += 1
        if i >= len(s):
            break
        o, j = dec.raw_decode(s, i)
        objs.append(o)
        i = j
    fns = {}
    for o in objs:
        if o.get("kind") == "CXXMethodDecl" and any(c.get("kind") == "CompoundStmt" for c in o.get("inner", [])):
            fns[o["name"]] = o
    return fns, open(src, "rb").read()


def kids(n):
    return n.get("inner", [])


def strip(n):
    """drop wrappers that do not change the value"""
    while n.get("kind") in ("ImplicitCastExpr", "ParenExpr", "ExprWithCleanups", "MaterializeTemporaryExpr",
                            "CXXBindTemporaryExpr", "CXXFunctionalCastExpr", "CStyleCastExpr", "CXXStaticCastExpr", "ConstantExpr") \
            and n.get("castKind") not in ("IntegralToFloating", "FloatingToIntegral", "IntegralToBoolean", "FloatingToBoolean") and kids(n):
        n = kids(n)[-1]
    return n


def qualtype(n):
    t = n.get("type", {})
    return t.get("desugaredQualType") or t.get("qualType", "")


def is_float_type(t):
    t = re.sub(r"\bconst\b", "", t).strip()
    return t in ("double", "float", "LDBLE", "long double") or t.endswith("value_type")


def lit_text(n, srcbytes):
    r = n["range"]["begin"]
    if "offset" not in r:
        r = r.get("expansionLoc") or r.get("spellingLoc") or {}
    off, ln = r.get("offset"), r.get("tokLen")
    if off is None:
        raise Refuse("literal without source range")
    return srcbytes[off:off + ln].decode()


def q_of_text(t):
    t = t.rstrip("fFlL")
    try:
        return Fraction(t)
    except Exception:
        raise Refuse("unsupported floating literal " + t)


def coq_q(fr):
    fr = Fraction(fr)
    return "(%d # %d)" % (fr.numerator, fr.denominator) if fr >= 0 else "(- (%d # %d))" % (-fr.numerator, fr.denominator)


# ------------------------------------------------------------------------------------------------ part A

class StepSym:
    """symbolic execution of add_reaction's prefix; values are (type, coq-text) with type in Z Q B"""

    def __init__(self, srcbytes):
        self.src = srcbytes

    def method_name(self, call):
        m = strip(kids(call)[0])
        return m.get("name") if m.get("kind") == "MemberExpr" else None

    def ex(self, n, env):
        k = n.get("kind")
        if k in ("ImplicitCastExpr", "CStyleCastExpr", "CXXStaticCastExpr", "CXXFunctionalCastExpr"):
            ck = n.get("castKind")
            ty, t = self.ex(kids(n)[-1], env)
            if ck == "IntegralToFloating":
                if ty != "Z":
                    raise Refuse("IntegralToFloating on non-integer")
                return ("Q", "(inject_Z %s)" % t)
            if ck in ("FloatingToIntegral", "FloatingToBoolean", "IntegralToBoolean"):
                raise Refuse("unsupported cast " + ck)
            return (ty, t)
        if k in ("ParenExpr", "ExprWithCleanups", "MaterializeTemporaryExpr", "ConstantExpr"):
            return self.ex(kids(n)[-1], env)
        if k == "IntegerLiteral":
            return ("Z", "(%s)" % n["value"])
        if k == "CharacterLiteral":
            return ("Z", "(%s)" % n["value"])
        if k == "FloatingLiteral":
            return ("Q", coq_q(q_of_text(lit_text(n, self.src))))
        if k == "DeclRefExpr":
            nm = n["referencedDecl"]["name"]
            if nm in env:
                return env[nm]
            if nm == "step_number":
                return ("Z", "n")
            if nm == "step_fraction":
                return ("Q", "step_fraction")
            raise Refuse("free variable %s in add_reaction" % nm)
        if k == "MemberExpr":
            base = strip(kids(n)[0])
            if base.get("kind") == "CXXThisExpr":
                nm = n["name"]
                if nm in env:
                    return env[nm]
                if nm == "incremental_reactions":
                    return ("Z", "incremental_reactions")
                raise Refuse("member %s read in add_reaction" % nm)
            raise Refuse("member access " + n.get("name", "?"))
        if k == "CXXMemberCallExpr":
            nm = self.method_name(n)
            if nm == "Get_equalIncrements":
                return ("B", "equal")
            if nm == "Get_reaction_steps":
                return ("Z", "count")
            if nm == "Get_steps":
                return ("V", "steps")
            if nm == "size":
                obj = strip(kids(strip(kids(n)[0]))[0])
                ty, t = self.ex(obj, env)
                if ty != "V":
                    raise Refuse("size() of something that is not the step vector")
                return ("Z", "(lenZ %s)" % t)
            raise Refuse("method call %s in add_reaction" % nm)
        if k == "CXXOperatorCallExpr":
            callee = strip(kids(n)[0])
            op = callee.get("referencedDecl", {}).get("name")
            if op == "operator[]":
                ty, v = self.ex(strip(kids(n)[1]), env)
                ti, i = self.ex(kids(n)[2], env)
                if ty != "V" or ti != "Z":
                    raise Refuse("operator[] on unexpected operands")
                return ("Q", "(nthQ %s %s)" % (v, i))
            raise Refuse("operator call " + str(op))
        if k == "ArraySubscriptExpr":
            # reaction_ptr->Get_units().c_str()[0]
            b = strip(kids(n)[0])
            i = strip(kids(n)[1])
            if b.get("kind") == "CXXMemberCallExpr" and self.method_name(b) == "c_str" and i.get("kind") == "IntegerLiteral" and i["value"] == "0":
                inner = strip(kids(strip(kids(b)[0]))[0])
                if inner.get("kind") == "CXXMemberCallExpr" and self.method_name(inner) == "Get_units":
                    return ("Z", "c")
            raise Refuse("array subscript")
        if k == "UnaryOperator":
            op = n["opcode"]
            ty, t = self.ex(kids(n)[0], env)
            if op == "!":
                if ty == "B":
                    return ("B", "(negb %s)" % t)
                if ty == "Z":
                    return ("B", "(Z.eqb %s 0)" % t)
            if op == "-":
                return (ty, "(- %s)" % t) if ty in ("Z", "Q") else self._r("unary - on " + ty)
            if op == "+":
                return (ty, t)
            raise Refuse("unary " + op)
        if k == "BinaryOperator":
            op = n["opcode"]
            (ta, a), (tb, b) = self.ex(kids(n)[0], env), self.ex(kids(n)[1], env)
            if op in ("&&", "||"):
                a, b = self.as_bool(ta, a), self.as_bool(tb, b)
                return ("B", "(%s %s %s)" % (a, "&&" if op == "&&" else "||", b))
            if op in ("+", "-", "*", "/"):
                if ta == tb == "Z":
                    if op == "/":
                        raise Refuse("integer division")
                    return ("Z", "(%s %s %s)%%Z" % (a, op, b))
                if ta == tb == "Q":
                    return ("Q", "(%s %s %s)" % (a, op, b))
                raise Refuse("mixed arithmetic %s %s %s" % (ta, op, tb))
            if op in ("<", ">", "<=", ">=", "==", "!="):
                if ta == tb == "Z":
                    f = {"<": "(Z.ltb %s %s)" % (a, b), ">": "(Z.ltb %s %s)" % (b, a), "<=": "(Z.leb %s %s)" % (a, b),
                         ">=": "(Z.leb %s %s)" % (b, a), "==": "(Z.eqb %s %s)" % (a, b), "!=": "(negb (Z.eqb %s %s))" % (a, b)}[op]
                    return ("B", f)
                raise Refuse("comparison of non-integers in add_reaction")
            raise Refuse("binary " + op)
        raise Refuse("expression kind %s in add_reaction" % k)

    def _r(self, m):
        raise Refuse(m)

    def as_bool(self, ty, t):
        if ty == "B":
            return t
        if ty == "Z":
            return "(negb (Z.eqb %s 0))" % t
        raise Refuse("non-boolean condition")

    def is_null_guard(self, st):
        """if (ptr == NULL) return ...;"""
        ks = kids(st)
        if len(ks) != 2:
            return False
        c = strip(ks[0])
        body = ks[1]
        if body.get("kind") == "CompoundStmt" and len(kids(body)) == 1:
            body = kids(body)[0]
        if body.get("kind") != "ReturnStmt" or c.get("kind") != "BinaryOperator" or c.get("opcode") != "==":
            return False
        txt = json.dumps(c)
        return "GNUNullExpr" in txt or "CXXNullPtrLiteralExpr" in txt or "NullToPointer" in txt

    def exec_stmt(self, st, env):
        """returns False when the accumulation loop has been reached"""
        k = st.get("kind")
        if k == "CompoundStmt":
            for s in kids(st):
                if not self.exec_stmt(s, env):
                    return False
            return True
        if k == "DeclStmt":
            for d in kids(st):
                if d.get("kind") != "VarDecl":
                    raise Refuse("declaration " + d.get("kind", "?"))
                ini = [c for c in kids(d) if c.get("kind") not in ("FullComment",)]
                t = qualtype(d)
                if ini and (is_float_type(t) or t in ("int", "char", "size_t", "unsigned long")):
                    env[d["name"]] = self.ex(ini[-1], env)
            return True
        if k == "IfStmt":
            if self.is_null_guard(st):
                return True
            ks = kids(st)
            cty, c = self.ex(ks[0], env)
            c = self.as_bool(cty, c)
            e1, e2 = dict(env), dict(env)
            r1 = self.exec_stmt(ks[1], e1)
            r2 = self.exec_stmt(ks[2], e2) if len(ks) > 2 else True
            if not (r1 and r2):
                raise Refuse("accumulation loop inside a conditional")
            for v in set(e1) | set(e2):
                a, b = e1.get(v), e2.get(v)
                if a is None or b is None:
                    continue
                if a == b:
                    env[v] = a
                else:
                    if a[0] != b[0]:
                        raise Refuse("type clash at merge for " + v)
                    env[v] = (a[0], "(if %s then %s else %s)" % (c, a[1], b[1]))
            return True
        if k in ("ForStmt", "WhileStmt"):
            return False
        if k in ("BinaryOperator", "CompoundAssignOperator"):
            op = st["opcode"]
            lhs = strip(kids(st)[0])
            nm = None
            if lhs.get("kind") == "DeclRefExpr":
                nm = lhs["referencedDecl"]["name"]
            elif lhs.get("kind") == "MemberExpr" and strip(kids(lhs)[0]).get("kind") == "CXXThisExpr":
                nm = lhs["name"]
            if nm is None:
                raise Refuse("assignment to unsupported lvalue")
            rty, r = self.ex(kids(st)[1], env)
            if op == "=":
                if nm == "step_x" and rty == "Z":
                    rty, r = "Q", "(inject_Z %s)" % r
                env[nm] = (rty, r)
            elif op in ("*=", "+=", "-=", "/="):
                if nm not in env:
                    raise Refuse("compound assignment to unknown " + nm)
                lty, l = env[nm]
                if lty == "Q" and rty == "Z":
                    rty, r = "Q", "(inject_Z %s)" % r
                if lty != rty:
                    raise Refuse("compound assignment type clash")
                env[nm] = (lty, "(%s %s %s)" % (l, op[0], r))
            else:
                raise Refuse("operator " + op)
            return True
        if k in ("CXXMemberCallExpr", "NullStmt"):
            # reaction_calc(reaction_ptr): fills the element list (modelled separately)
            return True
        if k == "ReturnStmt":
            raise Refuse("early return in add_reaction outside the NULL guard")
        if k == "ExprWithCleanups":
            return self.exec_stmt(kids(st)[0], env)
        raise Refuse("statement kind %s in add_reaction" % k)


def gen_step(fns, srcbytes):
    if "add_reaction" not in fns:
        raise Refuse("Phreeqc::add_reaction not found in step.cpp")
    fn = fns["add_reaction"]
    body = [c for c in kids(fn) if c.get("kind") == "CompoundStmt"][0]
    sym = StepSym(srcbytes)
    env = {"step_x": ("Q", "step_x_in")}
    reached = not sym.exec_stmt(body, env)
    if not reached:
        raise Refuse("accumulation loop of add_reaction not found")
    ty, t = env["step_x"]
    if ty != "Q":
        raise Refuse("step_x is not a real expression")
    return ("Definition gen_step_x (step_x_in : Q) (incremental_reactions : Z) (equal : bool) (steps : list Q) "
            "(count n c : Z) : Q :=\n  %s.\n" % t)


# ------------------------------------------------------------------------------------------------ part B

TRACK_LOCALS = ("add_mix", "reaction_calc")
TARGET_MEMBERS = {"total_h_x": "T_H", "total_o_x": "T_O", "cb_x": "T_CB", "mass_water_aq_x": "T_WATER"}


class AccWalk:
    def __init__(self, fn, srcbytes):
        self.fn = fn
        self.src = srcbytes
        self.decls = {}          # id -> VarDecl / ParmVarDecl node
        self.assign_count = {}   # decl id -> number of assignments after declaration
        self.begin_src = {}      # iterator decl id -> container expr node(s)
        self.order = []          # decl ids in declaration order
        self.out = []
        self.gout = []
        self.collect(fn)

    def collect(self, n):
        k = n.get("kind")
        if k in ("VarDecl", "ParmVarDecl"):
            self.decls[n["id"]] = n
            self.order.append(n["id"])
        if k in ("BinaryOperator", "CompoundAssignOperator") and (n.get("opcode") == "=" or k == "CompoundAssignOperator"):
            l = strip(kids(n)[0])
            if l.get("kind") == "DeclRefExpr":
                i = l["referencedDecl"]["id"]
                self.assign_count[i] = self.assign_count.get(i, 0) + 1
        if k == "UnaryOperator" and n.get("opcode") in ("++", "--"):
            l = strip(kids(n)[0])
            if l.get("kind") == "DeclRefExpr":
                i = l["referencedDecl"]["id"]
                self.assign_count[i] = self.assign_count.get(i, 0) + 1
        if k == "CXXOperatorCallExpr":
            callee = strip(kids(n)[0])
            if callee.get("referencedDecl", {}).get("name") == "operator=":
                l = strip(kids(n)[1])
                if l.get("kind") == "DeclRefExpr":
                    i = l["referencedDecl"]["id"]
                    self.begin_src.setdefault(i, []).append(kids(n)[2])
        for c in kids(n):
            self.collect(c)

    # ---- naming
    def class_of(self, t):
        t = re.sub(r"\b(const|class|struct|volatile)\b", "", t)
        t = t.replace("*", "").replace("&", "").strip()
        t = re.sub(r"\s+", " ", t)
        return t

    def container_name(self, n):
        """name of the container an iterator was initialised from: X.begin() -> render(X)"""
        n = strip(n)
        while n.get("kind") in ("CXXConstructExpr",) and kids(n):
            n = strip(kids(n)[0])
        if n.get("kind") == "CXXMemberCallExpr":
            m = strip(kids(n)[0])
            if m.get("kind") == "MemberExpr" and m.get("name") in ("begin", "cbegin"):
                return self.obj_name(kids(m)[0])
        return None

    def obj_name(self, n):
        """stable name for an object-valued expression"""
        n = strip(n)
        k = n.get("kind")
        if k == "CXXConstructExpr" and kids(n):
            return self.obj_name(kids(n)[0])
        if k == "UnaryOperator" and n.get("opcode") in ("*", "&"):
            return self.obj_name(kids(n)[0])
        if k == "DeclRefExpr":
            d = self.decls.get(n["referencedDecl"]["id"])
            if d is not None:
                t = qualtype(d)
                ini = [c for c in kids(d) if "Comment" not in c.get("kind", "")]
                cls = self.class_of(t)
                if "iterator" in t:
                    srcs = [self.container_name(x) for x in ini] + [self.container_name(x) for x in self.begin_src.get(d["id"], [])]
                    srcs = sorted(set(s for s in srcs if s))
                    if len(srcs) == 1:
                        return "iter(%s)" % srcs[0]
                    return "iter"
                if ini and self.assign_count.get(d["id"], 0) == 0 and not ("*" in t or "&" in t) and strip(ini[-1]).get("kind") in ("CXXConstructExpr", "CXXMemberCallExpr"):
                    # local copy of an object: cxxNameDouble nd(comp_ref.Get_totals())
                    inner = self.obj_name(ini[-1])
                    if inner:
                        return inner
                return cls
            return n["referencedDecl"]["name"]
        if k == "CXXMemberCallExpr":
            m = strip(kids(n)[0])
            if m.get("kind") == "MemberExpr":
                base = "%s.%s" % (self.obj_name(kids(m)[0]), m["name"])
                if getattr(self, "full_calls", False) and strip(kids(m)[0]).get("kind") == "CXXThisExpr" and len(kids(n)) > 1:
                    return "%s(%s)" % (base, ",".join(self.rend(a) for a in kids(n)[1:]))
                return base
        if k == "MemberExpr":
            b = strip(kids(n)[0])
            if b.get("kind") == "CXXThisExpr":
                return n["name"]
            return "%s.%s" % (self.obj_name(b), n["name"])
        if k == "CXXOperatorCallExpr":
            callee = strip(kids(n)[0])
            op = callee.get("referencedDecl", {}).get("name")
            if op in ("operator->", "operator*"):
                return self.obj_name(kids(n)[1])
            if op == "operator[]":
                return self.obj_name(kids(n)[1]) + "[]"
        if k == "ArraySubscriptExpr":
            return self.obj_name(kids(n)[0]) + "[]"
        if k == "CXXThisExpr":
            return "this"
        return "?" + str(k)

    def dlocal_name(self, d):
        """multi-assigned scalar local: named by its rank among the function's floating locals"""
        fl = [i for i in self.order if self.decls[i].get("kind") == "VarDecl" and is_float_type(qualtype(self.decls[i]))
              and not self.single(self.decls[i])]
        return "dlocal%d" % fl.index(d["id"])

    def single(self, d):
        ini = [c for c in kids(d) if "Comment" not in c.get("kind", "")]
        return bool(ini) and self.assign_count.get(d["id"], 0) == 0

    # ---- polynomial expressions
    def ax(self, n):
        n0 = n
        n = strip(n)
        k = n.get("kind")
        if k in ("ImplicitCastExpr", "CStyleCastExpr") and n.get("castKind") == "IntegralToFloating":
            return self.ax(kids(n)[-1])
        if k == "FloatingLiteral":
            return "(AConst %s)" % coq_q(q_of_text(lit_text(n, self.src)))
        if k == "IntegerLiteral":
            return "(AConst %s)" % coq_q(Fraction(int(n["value"])))
        if k == "BinaryOperator" and n["opcode"] in ("+", "-", "*", "/"):
            c = {"+": "AAdd", "-": "ASub", "*": "AMul", "/": "ADiv"}[n["opcode"]]
            return "(%s %s %s)" % (c, self.ax(kids(n)[0]), self.ax(kids(n)[1]))
        if k == "UnaryOperator" and n["opcode"] == "-":
            return "(ASub (AConst (0 # 1)) %s)" % self.ax(kids(n)[0])
        if k == "DeclRefExpr":
            d = self.decls.get(n["referencedDecl"]["id"])
            if d is not None and d.get("kind") == "VarDecl":
                if self.single(d):
                    ini = [c for c in kids(d) if "Comment" not in c.get("kind", "")]
                    return self.ax(ini[-1])
                if is_float_type(qualtype(d)):
                    return '(AVar "%s")' % self.dlocal_name(d)
            return '(AVar "%s")' % n["referencedDecl"]["name"]
        if k in ("MemberExpr", "CXXMemberCallExpr", "CXXOperatorCallExpr", "ArraySubscriptExpr"):
            return '(AVar "%s")' % self.obj_name(n)
        raise Refuse("expression kind %s in an accumulation statement of %s" % (k, self.fn["name"]))

    def target_of(self, lhs):
        lhs = strip(lhs)
        if lhs.get("kind") != "MemberExpr":
            return None
        b = strip(kids(lhs)[0])
        if b.get("kind") == "CXXThisExpr":
            return TARGET_MEMBERS.get(lhs["name"])
        if lhs["name"] == "total" and "master" in qualtype(b):
            return "T_TOT"
        return None

    # ---- guards (path conditions)
    def rend(self, n):
        """stable text of a scalar expression inside a condition"""
        n = strip(n)
        k = n.get("kind")
        if k in ("ImplicitCastExpr", "CStyleCastExpr") and kids(n):
            return self.rend(kids(n)[-1])
        if k in ("IntegerLiteral", "CharacterLiteral"):
            return str(n["value"])
        if k == "FloatingLiteral":
            return str(q_of_text(lit_text(n, self.src)))
        if k in ("GNUNullExpr", "CXXNullPtrLiteralExpr"):
            return "NULL"
        if k == "DeclRefExpr":
            rd = n["referencedDecl"]
            if rd.get("kind") == "EnumConstantDecl":
                return rd["name"]
            d = self.decls.get(rd["id"])
            if d is not None and d.get("kind") == "VarDecl" and is_float_type(qualtype(d)) and not self.single(d):
                return self.dlocal_name(d)
            return self.obj_name(n)
        if k == "BinaryOperator" and n["opcode"] in ("+", "-", "*", "/"):
            return "(%s%s%s)" % (self.rend(kids(n)[0]), n["opcode"], self.rend(kids(n)[1]))
        if k == "UnaryOperator" and n.get("opcode") == "-":
            return "-" + self.rend(kids(n)[0])
        return self.obj_name(n)

    def gx(self, n):
        """condition -> gexp text"""
        n = strip(n)
        k = n.get("kind")
        if k in ("ImplicitCastExpr", "CStyleCastExpr") and kids(n):
            return self.gx(kids(n)[-1])
        if k == "BinaryOperator":
            op = n["opcode"]
            if op == "&&":
                return "(GAnd %s %s)" % (self.gx(kids(n)[0]), self.gx(kids(n)[1]))
            if op == "||":
                return "(GOr %s %s)" % (self.gx(kids(n)[0]), self.gx(kids(n)[1]))
            if op in ("==", "!="):
                a, b = self.rend(kids(n)[0]), self.rend(kids(n)[1])
                t = '(GAtom "%s==%s")' % (a, b)
                return t if op == "==" else "(GNot %s)" % t
            if op in ("<", ">", "<=", ">="):
                a, b = self.rend(kids(n)[0]), self.rend(kids(n)[1])
                # canonical: strict/non-strict "less" only
                if op == ">":
                    return '(GAtom "%s<%s")' % (b, a)
                if op == ">=":
                    return '(GAtom "%s<=%s")' % (b, a)
                return '(GAtom "%s%s%s")' % (a, op, b)
        if k == "UnaryOperator" and n.get("opcode") == "!":
            return "(GNot %s)" % self.gx(kids(n)[0])
        return '(GAtom "%s")' % self.rend(n)

    @staticmethod
    def exits(st):
        """does the statement always leave the enclosing block (return / continue / break)?"""
        k = st.get("kind")
        if k in ("ReturnStmt", "ContinueStmt", "BreakStmt"):
            return True
        if k == "CompoundStmt" and kids(st):
            return AccWalk.exits(kids(st)[-1])
        return False

    @staticmethod
    def gand(g, c):
        return c if g == "GTrue" else "(GAnd %s %s)" % (g, c)

    def record(self, t, op, e, g):
        self.out.append((t, op, e))
        self.gout.append((t, op, e, g))

    def walk(self, n, g="GTrue"):
        k = n.get("kind")
        if k == "CompoundStmt":
            for st in kids(n):
                self.walk(st, g)
                if st.get("kind") == "IfStmt" and len(kids(st)) == 2 and self.exits(kids(st)[1]):
                    g = self.gand(g, "(GNot %s)" % self.gx(kids(st)[0]))
            return
        if k == "IfStmt":
            ks = kids(n)
            c = self.gx(ks[0])
            self.walk(ks[0], g)
            self.walk(ks[1], self.gand(g, c))
            if len(ks) > 2:
                self.walk(ks[2], self.gand(g, "(GNot %s)" % c))
            return
        if k in ("BinaryOperator", "CompoundAssignOperator") and n.get("opcode") in ("=", "+=", "-=", "*=", "/="):
            t = self.target_of(kids(n)[0])
            op = {"+=": "1", "-=": "(-1)", "=": "0", "*=": "2", "/=": "3"}[n["opcode"]]
            if t:
                self.record(t, op, self.ax(kids(n)[1]), g)
            elif self.fn["name"] in TRACK_LOCALS:
                l = strip(kids(n)[0])
                d = self.decls.get(l.get("referencedDecl", {}).get("id")) if l.get("kind") == "DeclRefExpr" else None
                if d is not None and d.get("kind") == "VarDecl" and is_float_type(qualtype(d)) and not self.single(d):
                    # value given to a multi-assigned floating local: recorded as  local - rhs  (== 0 after the statement)
                    self.record("T_LOCAL", op, '(ASub (AVar "%s") %s)' % (self.dlocal_name(d), self.ax(kids(n)[1])), g)
        if k == "CXXMemberCallExpr":
            m = strip(kids(n)[0])
            nm = m.get("name") if m.get("kind") == "MemberExpr" else None
            base_this = m.get("kind") == "MemberExpr" and strip(kids(m)[0]).get("kind") == "CXXThisExpr"
            if nm in ("add_elt_list", "get_elts_in_species") and base_this and len(kids(n)) >= 3:
                self.record("T_ELT", "1", self.ax(kids(n)[2]), g)
            if nm in ("Set_moles", "Set_delta") and len(kids(n)) >= 2:
                self.record("T_MOLES" if nm == "Set_moles" else "T_DELTA", "0", self.ax(kids(n)[1]), g)
            if nm == "add_solution" and base_this and len(kids(n)) >= 3:
                self.record("T_CALL", "1", self.ax(kids(n)[2]), g)
        for c in kids(n):
            self.walk(c, g)


def gen_acc(fns, srcbytes):
    lines, glines = [], []
    for f in FUNCS_ACC:
        if f not in fns:
            raise Refuse("Phreeqc::%s not found in step.cpp" % f)
        w = AccWalk(fns[f], srcbytes)
        body = [c for c in kids(fns[f]) if c.get("kind") == "CompoundStmt"][0]
        w.walk(body)
        for t, op, e in sorted(set(w.out)):
            lines.append('  mkAcc "%s" %s %s %s' % (f, t, op, e))
        for t, op, e, g in sorted(set(w.gout)):
            glines.append('  mkGacc "%s" %s %s %s' % (f, t, e, g))
    return ("Definition gen_acc : list acc :=\n  [\n" + ";\n".join(lines) + "\n  ].\n\n"
            "(* the same statements with their path condition (guard) inside the function *)\n"
            "Definition gen_guard : list gacc :=\n  [\n" + ";\n".join(glines) + "\n  ].\n")


HEADER = """(* GENERATED by translator/c02_step.py from src/phreeqcpp/step.cpp -- do not edit. *)
From Coq Require Import QArith String List Bool ZArith.
From IPV.C02 Require Import Inv StepTable AccIR.
Import ListNotations.
Open Scope Q_scope.
Local Open Scope string_scope.

"""


# ------------------------------------------------------------------------------------------------ part D

def gen_same_model(repo):
    """Phreeqc::check_same_model (prep.cpp): every condition under which the cached equation set is declared
    NOT reusable (`if (c) return FALSE`), as path condition /\ c."""
    fns, srcbytes = clang_ast(repo, "check_same_model", "src/phreeqcpp/prep.cpp")
    if "check_same_model" not in fns:
        raise Refuse("Phreeqc::check_same_model not found in prep.cpp")
    w = AccWalk(fns["check_same_model"], srcbytes)
    w.full_calls = True
    conds = []

    def is_false_return(st):
        if st.get("kind") == "CompoundStmt" and len(kids(st)) == 1:
            st = kids(st)[0]
        if st.get("kind") != "ReturnStmt" or not kids(st):
            return False
        v = strip(kids(st)[0])
        return v.get("kind") == "IntegerLiteral" and v.get("value") == "0"

    def walk(n):
        if n.get("kind") == "IfStmt" and len(kids(n)) >= 2 and is_false_return(kids(n)[1]):
            conds.append(w.gx(kids(n)[0]))
        for c in kids(n):
            walk(c)

    walk([c for c in kids(fns["check_same_model"]) if c.get("kind") == "CompoundStmt"][0])
    return ("(* conditions under which Phreeqc::check_same_model refuses to reuse the previously built equations *)\n"
            "Definition gen_same_model : list gexp :=\n  [\n" + ";\n".join("  " + c for c in sorted(set(conds))) + "\n  ].\n")


def generate(repo):
    fns, srcbytes = clang_ast(repo)
    more, _ = clang_ast(repo, "reaction_calc")
    fns.update(more)
    return HEADER + gen_step(fns, srcbytes) + "\n" + gen_acc(fns, srcbytes) + "\n" + gen_same_model(repo)


if __name__ == "__main__":
    sys.stdout.write(generate(sys.argv[1] if len(sys.argv) > 1 else "/repo"))
