#!/usr/bin/env python3
"""translator.leaf — extract real-valued right-hand sides ("leaf formulas") from C++ functions of
/repo through clang's JSON AST and emit them as `IPV.Base.RExpr.rexpr` Gallina terms.

Typical use (see notes/BASE_READY.md):

    import sys; sys.path.insert(0, "/verif/lib"); sys.path.insert(0, "/verif")
    import vlib
    from translator import leaf
    fn = leaf.load_function(vlib.REPO + "/src/phreeqcpp/model.cpp", "gammas")     # parsed AST + all assignment sites
    lf = fn.leaf("davies", lhs="s_x[i]->lg", case=1,                                 # selector
                 vars=["s_x[i]->z", "DH_A", "mu"],                                   # fixed variable order -> Var 0,1,2
                 inline={"a": {}, "muhalf": {}},                                     # inline single-assignment locals
                 consts={"LOG_10": leaf.Ln(leaf.Const(10))})                         # replace a name by an expression
    text = leaf.emit_coq([lf], header="generated from model.cpp")                    # -> text of a Gen_*.v file

Selectors (all optional except that exactly one site must remain):
    lhs="text"     canonical rendering of the assigned l-value (`s_x[i]->lg`, `muhalf`, `r3[1]`; `this->` is dropped)
    ret=True       the expression of a `return`
    case=K         the statement is under `case K:` of a switch (labels active since the last top-level break); K is the
                   integer value or, for enumerators, the name (case="TYPE_B0")
    nth=N          N-th (0-based, source order) of the remaining sites;  without nth the match must be unique
    kind=K         'assign' | 'init' | 'compound' | 'return'
    increment=True (argument of Function.leaf) the statement must be `x += e` / `x -= e`; the leaf is the increment e / -e
                   (for accumulations such as `LGAMMA[i0] += ...` inside a loop)
    under=[...]    every given string must occur among the canonical renderings of the enclosing if-conditions
                   (an else-branch condition is rendered as `!(cond)`)
A compound assignment `x op= e` directly following (same block) an assignment to x is folded: the site's value is
`prev op e`.  Chained `a = b = 0` gives a site for each of a and b.

The expression language (python tuples) mirrors RExpr.rexpr:
    ('var', i) ('const', Fraction) ('add',a,b) ('sub',a,b) ('mul',a,b) ('div',a,b) ('neg',a) ('abs',a) ('sqrt',a)
    ('exp',a) ('ln',a) ('log10',a) ('pow',a,b) ('powz',a,int) ('sinh',a) ('cosh',a) ('sin',a) ('cos',a) ('atan',a)
Floating literals are exact rationals of their SOURCE SPELLING (0.3 -> 3/10); integer literals are integers.
Refusals raise LeafError (the caller records a failed translator obligation).

Also here: exact dyadic constants from hex floats for checkers — q_of_hex, coq_Q, coq_Q_of_hex, coq_Q_list.
"""
import hashlib, json, os, re, subprocess, sys
from fractions import Fraction

_HERE = os.path.dirname(os.path.abspath(__file__))
sys.path.insert(0, os.path.join(os.path.dirname(_HERE), "lib"))
try:
    import vlib
except Exception:  # stand-alone use
    vlib = None


class LeafError(Exception):
    pass


# --------------------------------------------------------------------------- expression constructors
def Var(i): return ('var', i)
def Const(x): return ('const', Fraction(x))
def Add(a, b): return ('add', a, b)
def Sub(a, b): return ('sub', a, b)
def Mul(a, b): return ('mul', a, b)
def Div(a, b): return ('div', a, b)
def Neg(a): return ('neg', a)
def Abs(a): return ('abs', a)
def Sqrt(a): return ('sqrt', a)
def Exp(a): return ('exp', a)
def Ln(a): return ('ln', a)
def Log10(a): return ('log10', a)
def Pow(a, b): return ('pow', a, b)
def PowZ(a, n): return ('powz', a, int(n))


_COQ = {'add': 'Add', 'sub': 'Sub', 'mul': 'Mul', 'div': 'Div', 'neg': 'Neg', 'abs': 'Abs', 'sqrt': 'Sqrt', 'exp': 'Exp',
        'ln': 'Ln', 'log10': 'Log10', 'pow': 'Pow', 'sinh': 'Sinh', 'cosh': 'Cosh', 'sin': 'Sin', 'cos': 'Cos', 'atan': 'Atan'}


def coq_Q(x):
    """Coq term of type Q for an exact rational (Fraction / int / finite float / decimal string)."""
    if isinstance(x, str):
        x = Fraction(x)
    fr = Fraction(x)
    n, d = fr.numerator, fr.denominator
    return "(%d # %d)" % (n, d) if n >= 0 else "((%d) # %d)" % (n, d)


def q_of_hex(s):
    """exact rational of a C99 hex float string (as printed by the harness with %a)"""
    return Fraction(float.fromhex(s))


def coq_Q_of_hex(s):
    """exact dyadic constant `(m # 2^k)` of a hex float, as a Coq Q term"""
    return coq_Q(q_of_hex(s))


def coq_Q_list(xs):
    """Coq `list Q` of exact values; items may be hex-float strings, floats, ints, Fractions"""
    out = []
    for x in xs:
        if isinstance(x, str) and re.match(r"^[-+]?0[xX]", x.strip()):
            out.append(coq_Q_of_hex(x))
        else:
            out.append(coq_Q(x))
    return "[" + "; ".join(out) + "]"


def coq_of(e):
    """rexpr Gallina term of an expression tuple"""
    k = e[0]
    if k == 'var':
        return "(Var %d)" % e[1]
    if k == 'const':
        return "(Const %s)" % coq_Q(e[1])
    if k == 'powz':
        return "(PowZ %s (%d))" % (coq_of(e[1]), e[2])
    if k == 'pi':
        return "Pi"
    if k in _COQ:
        return "(%s %s)" % (_COQ[k], " ".join(coq_of(x) for x in e[1:]))
    raise LeafError("cannot print " + repr(e))


def eval_float(e, env):
    """binary64 evaluation of an expression tuple (env: list/dict of floats by variable index) — used to
    validate the translator against the compiled code; NOT part of any proof."""
    import math
    k = e[0]
    if k == 'var':
        return env[e[1]]
    if k == 'const':
        return float(e[1])
    a = eval_float(e[1], env) if len(e) > 1 and isinstance(e[1], tuple) else None
    if k == 'powz':
        return a ** e[2]
    if k in ('add', 'sub', 'mul', 'div', 'pow'):
        b = eval_float(e[2], env)
        return {'add': lambda: a + b, 'sub': lambda: a - b, 'mul': lambda: a * b, 'div': lambda: a / b,
                'pow': lambda: math.pow(a, b)}[k]()
    return {'neg': lambda: -a, 'abs': lambda: abs(a), 'sqrt': lambda: math.sqrt(a), 'exp': lambda: math.exp(a),
            'ln': lambda: math.log(a), 'log10': lambda: math.log10(a), 'sinh': lambda: math.sinh(a),
            'cosh': lambda: math.cosh(a), 'sin': lambda: math.sin(a), 'cos': lambda: math.cos(a),
            'atan': lambda: math.atan(a), 'pi': lambda: math.pi}[k]()


def expr_vars(e, acc=None):
    acc = set() if acc is None else acc
    if e[0] == 'var':
        acc.add(e[1])
    for x in e[1:]:
        if isinstance(x, tuple):
            expr_vars(x, acc)
    return acc


# --------------------------------------------------------------------------- clang front end
def _flags():
    if vlib:
        inc = vlib.inc_flags()
    else:
        inc = ["-I/repo/" + i for i in ("src", "src/phreeqcpp", "src/phreeqcpp/common", "src/phreeqcpp/PhreeqcKeywords")]
    return ["-std=c++11", "-fsyntax-only", "-DSWIG_SHARED_OBJ", "-DUSE_PHRQ_ALLOC"] + inc


def _ast_objects(cpp, fn, timeout=300):
    """run clang, return the list of top-level JSON objects whose name contains fn (cached on disk)"""
    cpp = os.path.abspath(cpp)
    src = open(cpp, "rb").read()
    key = hashlib.sha256(src + cpp.encode() + fn.encode() + " ".join(_flags()).encode() + _hdr_stamp(cpp)).hexdigest()[:24]
    cdir = os.path.join(vlib.CACHE if vlib else "/tmp", "leaf")
    os.makedirs(cdir, exist_ok=True)
    cfile = os.path.join(cdir, key + ".json")
    if os.path.exists(cfile):
        txt = open(cfile).read()
    else:
        cmd = ["clang++"] + _flags() + ["-Xclang", "-ast-dump=json", "-Xclang", "-ast-dump-filter=" + fn, cpp]
        try:
            p = subprocess.run(cmd, stdout=subprocess.PIPE, stderr=subprocess.PIPE, timeout=timeout, text=True, errors="replace")
        except subprocess.TimeoutExpired:
            raise LeafError("clang timed out on " + cpp)
        if p.returncode != 0:
            raise LeafError("clang failed on %s:\n%s" % (cpp, p.stderr[-2000:]))
        txt = p.stdout
        tmp = cfile + ".%d.tmp" % os.getpid()
        open(tmp, "w").write(txt)
        os.replace(tmp, cfile)
    dec = json.JSONDecoder()
    objs, i, n = [], 0, len(txt)
    while i < n:
        while i < n and txt[i] in " \r\n\t":
            i += 1
        if i >= n:
            break
        if txt[i] != "{":
            j = txt.find("\n", i)
            i = n if j < 0 else j
            continue
        o, i = dec.raw_decode(txt, i)
        objs.append(o)
    return objs


def _hdr_stamp(cpp):
    """headers influence the AST (macros, member declarations): newest header mtime+size under the source tree"""
    root = os.path.dirname(cpp)
    while os.path.basename(root) not in ("src", "") and os.path.dirname(root) != root:
        root = os.path.dirname(root)
    h = hashlib.sha256()
    for r, _, fs in sorted(os.walk(root)):
        for f in sorted(fs):
            if f.endswith((".h", ".hpp", ".hxx")):
                st = os.stat(os.path.join(r, f))
                h.update(("%s:%d:%d;" % (f, st.st_size, int(st.st_mtime * 1000))).encode())
    return h.digest()


def _annotate_files(objs, cpp):
    """clang prints "file" only when it changes; propagate it to every location dict (document order)."""
    last = [None]

    def loc(d):
        if not isinstance(d, dict):
            return
        if "spellingLoc" in d or "expansionLoc" in d:
            for k in ("spellingLoc", "expansionLoc"):
                if k in d:
                    loc(d[k])
            return
        if "file" in d:
            last[0] = d["file"]
        elif "offset" in d:
            d["file"] = last[0]

    def walk(n):
        if isinstance(n, dict):
            for k, v in n.items():
                if k == "loc":
                    loc(v)
                elif k == "range":
                    loc(v.get("begin"))
                    loc(v.get("end"))
                elif k == "inner":
                    for c in v:
                        walk(c)
                elif isinstance(v, (dict, list)) and k not in ("type",):
                    walk(v)
        elif isinstance(n, list):
            for c in n:
                walk(c)
    for o in objs:
        walk(o)


_SRC = {}


def _spelling(node):
    """source text of a single-token node (literal)"""
    b = node.get("range", {}).get("begin", {})
    if "spellingLoc" in b:
        b = b["spellingLoc"]
    f, off, ln = b.get("file"), b.get("offset"), b.get("tokLen")
    if f is None or off is None or ln is None or not os.path.exists(f):
        return None
    if f not in _SRC:
        _SRC[f] = open(f, "rb").read()
    return _SRC[f][off:off + ln].decode(errors="replace")


_CASTS_OK = {"LValueToRValue", "IntegralToFloating", "FloatingCast", "IntegralCast", "NoOp", "FunctionToPointerDecay",
             "ArrayToPointerDecay", "IntegralToBoolean", "FloatingToBoolean", "PointerToBoolean", "UncheckedDerivedToBase",
             "DerivedToBase", "ConstructorConversion", "UserDefinedConversion", "BitCast", "NullToPointer"}
_FUNS1 = {"sqrt": 'sqrt', "exp": 'exp', "log": 'ln', "log10": 'log10', "fabs": 'abs', "abs": 'abs', "sinh": 'sinh', "cosh": 'cosh',
          "sin": 'sin', "cos": 'cos', "atan": 'atan', "sqrtl": 'sqrt', "expl": 'exp', "logl": 'ln', "log10l": 'log10', "fabsl": 'abs'}


def _strip(n):
    """drop parens / implicit casts / full-expression wrappers"""
    while True:
        k = n.get("kind")
        if k in ("ParenExpr", "ExprWithCleanups", "ConstantExpr", "MaterializeTemporaryExpr", "CXXBindTemporaryExpr"):
            n = n["inner"][0]
        elif k == "ImplicitCastExpr":
            n = n["inner"][0]
        else:
            return n


def _is_int_type(n):
    t = n.get("type", {}).get("qualType", "")
    t = t.replace("const ", "").strip()
    return t in ("int", "long", "unsigned int", "unsigned long", "size_t", "short", "char", "bool", "long long",
                 "unsigned long long", "std::size_t", "std::vector::size_type", "size_type") or t.endswith("size_type")


def render(n):
    """canonical text of an arbitrary expression (used for variable names and guard conditions);
    independent of layout, comments, redundant parentheses and `this->`."""
    k = n.get("kind")
    if k in ("ParenExpr",):
        return "(" + render(n["inner"][0]) + ")"
    if k in ("ImplicitCastExpr", "ExprWithCleanups", "ConstantExpr", "MaterializeTemporaryExpr", "CXXBindTemporaryExpr",
             "CXXFunctionalCastExpr", "CStyleCastExpr", "CXXStaticCastExpr"):
        return render(n["inner"][0])
    if k == "DeclRefExpr":
        return n.get("referencedDecl", {}).get("name", "?")
    if k == "CXXThisExpr":
        return "this"
    if k == "MemberExpr":
        base = n["inner"][0] if n.get("inner") else None
        if base is None or _strip(base).get("kind") == "CXXThisExpr":
            return n.get("name", "?")
        return render(base) + ("->" if n.get("isArrow") else ".") + n.get("name", "?")
    if k == "ArraySubscriptExpr":
        return render(n["inner"][0]) + "[" + render(n["inner"][1]) + "]"
    if k == "CXXOperatorCallExpr":
        callee = _strip(n["inner"][0])
        op = callee.get("referencedDecl", {}).get("name", "")
        args = n["inner"][1:]
        if op == "operator[]" and len(args) == 2:
            return render(args[0]) + "[" + render(args[1]) + "]"
        if op.startswith("operator") and len(args) == 2:
            return render(args[0]) + " " + op[8:] + " " + render(args[1])
        if op.startswith("operator") and len(args) == 1:
            return op[8:] + render(args[0])
        return op + "(" + ", ".join(render(a) for a in args) + ")"
    if k in ("CallExpr", "CXXMemberCallExpr"):
        return render(n["inner"][0]) + "(" + ", ".join(render(a) for a in n["inner"][1:]) + ")"
    if k in ("IntegerLiteral",):
        return str(n.get("value"))
    if k == "FloatingLiteral":
        return _spelling(n) or str(n.get("value"))
    if k == "CXXBoolLiteralExpr":
        return "true" if n.get("value") else "false"
    if k == "CXXNullPtrLiteralExpr" or k == "GNUNullExpr":
        return "NULL"
    if k == "StringLiteral":
        return n.get("value", '""')
    if k == "BinaryOperator" or k == "CompoundAssignOperator":
        return render(n["inner"][0]) + " " + n.get("opcode") + " " + render(n["inner"][1])
    if k == "UnaryOperator":
        if n.get("isPostfix"):
            return render(n["inner"][0]) + n.get("opcode")
        return n.get("opcode") + render(n["inner"][0])
    if k == "ConditionalOperator":
        return render(n["inner"][0]) + " ? " + render(n["inner"][1]) + " : " + render(n["inner"][2])
    if k == "CXXDefaultArgExpr":
        return ""
    return "<" + str(k) + ">"


def _norm_name(s):
    s = s.strip()
    if s.startswith("this->"):
        s = s[6:]
    return re.sub(r"\s+", "", s)


class Site:
    """one assignment / initialisation / return inside the function"""
    __slots__ = ("kind", "lhs", "node", "prev", "op", "cases", "conds", "order", "block")

    def __init__(self, kind, lhs, node, cases, conds, order, block, prev=None, op=None):
        self.kind, self.lhs, self.node, self.cases, self.conds, self.order, self.block = kind, lhs, node, cases, conds, order, block
        self.prev, self.op = prev, op

    def __repr__(self):
        return "Site(%s %s cases=%s conds=%s)" % (self.kind, self.lhs, sorted(self.cases), self.conds)


class Function:
    def __init__(self, cpp, name, decl):
        self.cpp, self.name, self.decl = cpp, name, decl
        self.sites = []
        self._order = 0
        body = [c for c in decl.get("inner", []) if c.get("kind") == "CompoundStmt"]
        if not body:
            raise LeafError("function %s has no body" % name)
        self._stmt(body[0], frozenset(), (), None)

    # ---- statement walk: collect sites with their context
    def _add(self, kind, lhs, node, cases, conds, block, prev=None, op=None):
        self._order += 1
        s = Site(kind, lhs, node, cases, conds, self._order, block, prev, op)
        self.sites.append(s)
        return s

    def _expr_sites(self, n, cases, conds, block):
        """assignments occurring as (sub)expressions of an expression statement"""
        k = n.get("kind")
        if k == "BinaryOperator" and n.get("opcode") == "=":
            lhs = _norm_name(render(n["inner"][0]))
            rhs = n["inner"][1]
            r = _strip(rhs)
            if r.get("kind") == "BinaryOperator" and r.get("opcode") == "=":
                self._expr_sites(r, cases, conds, block)
                while r.get("kind") == "BinaryOperator" and r.get("opcode") == "=":
                    rhs = r["inner"][1]
                    r = _strip(rhs)
            self._add("assign", lhs, rhs, cases, conds, block)
            return
        if k == "CompoundAssignOperator":
            lhs = _norm_name(render(n["inner"][0]))
            prev = None
            for s in reversed(self.sites):
                if s.lhs == lhs:
                    if s.block is block and s.kind in ("assign", "init", "compound"):
                        prev = s
                    break
            self._add("compound", lhs, n["inner"][1], cases, conds, block, prev=prev, op=n.get("opcode"))
            return
        if k in ("ExprWithCleanups", "ParenExpr", "ImplicitCastExpr"):
            for c in n.get("inner", []):
                self._expr_sites(c, cases, conds, block)

    def _stmt(self, n, cases, conds, block):
        k = n.get("kind")
        if k == "CompoundStmt":
            cur = cases
            in_switch_body = getattr(self, "_switch_body", None) is n
            for c in n.get("inner", []):
                if in_switch_body:
                    labs, inner = self._labels(c)
                    if labs:
                        cur = (cur | labs) if getattr(self, "_fall", False) else (cases | labs)
                        self._fall = True
                        if inner is not None:
                            self._stmt(inner, cur, conds, n)
                        continue
                    if c.get("kind") in ("BreakStmt", "ReturnStmt", "ContinueStmt"):
                        if c.get("kind") == "ReturnStmt":
                            self._stmt(c, cur, conds, n)
                        self._fall = False
                        continue
                self._stmt(c, cur, conds, n)
            return
        if k == "SwitchStmt":
            inner = n.get("inner", [])
            body = inner[-1] if inner else None
            if body is not None:
                saved = (getattr(self, "_switch_body", None), getattr(self, "_fall", False))
                self._switch_body, self._fall = body, False
                self._stmt(body, frozenset(), conds + (("switch", render(inner[-2]) if len(inner) >= 2 else "?"),), block)
                self._switch_body, self._fall = saved
            return
        if k in ("CaseStmt", "DefaultStmt"):   # label outside a switch compound (unusual): just descend
            labs, inner = self._labels(n)
            if inner is not None:
                self._stmt(inner, cases | labs, conds, block)
            return
        if k == "IfStmt":
            inner = n.get("inner", [])
            # [init?] cond then [else]; clang puts cond first unless hasInit/hasVar
            if n.get("hasInit") or n.get("hasVar"):
                raise LeafError("if with init/variable not supported")
            cond = render(inner[0])
            self._expr_sites(_strip(inner[0]), cases, conds, block)
            if len(inner) > 1:
                self._stmt(inner[1], cases, conds + (("if", cond),), block if inner[1].get("kind") != "CompoundStmt" else None)
            if len(inner) > 2:
                self._stmt(inner[2], cases, conds + (("if", "!(" + cond + ")"),), block if inner[2].get("kind") != "CompoundStmt" else None)
            return
        if k in ("ForStmt", "WhileStmt", "DoStmt", "CXXForRangeStmt"):
            for c in n.get("inner", []):
                if c and c.get("kind"):
                    if c.get("kind") in ("CompoundStmt", "IfStmt", "SwitchStmt", "ForStmt", "WhileStmt", "DoStmt", "DeclStmt", "ReturnStmt") \
                            or c is n["inner"][-1]:
                        self._stmt(c, cases, conds + (("loop", ""),), None)
            return
        if k == "DeclStmt":
            for d in n.get("inner", []):
                if d.get("kind") == "VarDecl" and d.get("inner"):
                    init = d["inner"][-1]
                    if init.get("kind") and "Expr" in init.get("kind") or init.get("kind") in ("BinaryOperator", "UnaryOperator", "IntegerLiteral", "FloatingLiteral", "ConditionalOperator"):
                        self._add("init", _norm_name(d.get("name", "?")), init, cases, conds, block)
            return
        if k == "ReturnStmt":
            if n.get("inner"):
                self._add("return", "<return>", n["inner"][0], cases, conds, block)
            return
        if k in ("BinaryOperator", "CompoundAssignOperator", "ExprWithCleanups", "ParenExpr"):
            self._expr_sites(n, cases, conds, block)
            return
        if k in ("CXXTryStmt", "CXXCatchStmt", "LabelStmt", "AttributedStmt"):
            for c in n.get("inner", []):
                self._stmt(c, cases, conds, block)
            return
        # calls, break, continue, null statements ...: no site

    def _labels(self, n):
        """(set of labels, first non-label statement) for `case a: case b: stmt`"""
        labs = set()
        while n is not None and n.get("kind") in ("CaseStmt", "DefaultStmt"):
            inner = n.get("inner", [])
            if n["kind"] == "DefaultStmt":
                labs.add("default")
                n = inner[0] if inner else None
            else:
                v = _strip(inner[0])
                lab = None
                c0 = inner[0]
                if c0.get("kind") == "ConstantExpr" and "value" in c0:
                    lab = c0["value"]
                elif v.get("kind") == "IntegerLiteral":
                    lab = v.get("value")
                else:
                    lab = render(inner[0])
                labs.add(str(lab))
                if v.get("kind") == "DeclRefExpr":          # enumerator / named constant: also selectable by name (case="TYPE_B0")
                    labs.add(render(v))
                n = inner[-1] if len(inner) > 1 else None
        return frozenset(labs), n

    # ---- selection
    def select(self, lhs=None, ret=False, case=None, nth=None, under=None, kind=None):
        cands = self.sites
        if ret:
            cands = [s for s in cands if s.kind == "return"]
        if lhs is not None:
            want = _norm_name(lhs)
            cands = [s for s in cands if s.lhs == want]
        if case is not None:
            cands = [s for s in cands if str(case) in s.cases]
        if kind is not None:
            cands = [s for s in cands if s.kind == kind]
        if under:
            def ok(s):
                have = [re.sub(r"\s+", "", c) for t, c in s.conds if t == "if"]
                return all(re.sub(r"\s+", "", u) in have for u in under)
            cands = [s for s in cands if ok(s)]
        if not cands:
            raise LeafError("%s: no assignment matches lhs=%r case=%r under=%r" % (self.name, lhs, case, under))
        if nth is None:
            if len(cands) != 1:
                raise LeafError("%s: %d assignments match lhs=%r case=%r under=%r (give nth=)" % (self.name, len(cands), lhs, case, under))
            return cands[0]
        if nth >= len(cands) or nth < -len(cands):
            raise LeafError("%s: only %d assignments match lhs=%r case=%r (nth=%d)" % (self.name, len(cands), lhs, case, nth))
        return cands[nth]

    # ---- translation
    def leaf(self, name, vars=None, inline=None, consts=None, allow_new_vars=True, auto_inline=False, increment=False, **sel):
        """auto_inline: a local variable (VarDecl) that is not listed in vars/inline/consts and has exactly one
        assignment/initialisation in the function is replaced by that right-hand side (so introducing or removing a
        temporary is invisible)."""
        if increment:
            sel.setdefault("kind", "compound")
        site = self.select(**sel)
        tr = _Translator(self, list(vars or []), dict(inline or {}), dict(consts or {}), allow_new_vars, auto_inline)
        if increment:
            # `x += e` (or `x -= e`): the leaf is the increment e (resp. -e), not the accumulated value
            if site.kind != "compound" or site.op not in ("+=", "-="):
                raise LeafError("%s: increment=True needs a `+=`/`-=` statement for %s" % (self.name, site.lhs))
            e = tr.tr(site.node)
            if site.op == "-=":
                e = ('neg', e)
        else:
            e = tr.site_value(site)
        return Leaf(name, e, tr.vars, [c for t, c in site.conds if t == "if"], sorted(site.cases), self, site)


class Leaf:
    def __init__(self, name, expr, vars, conds, cases, fn, site):
        self.name, self.expr, self.vars, self.conds, self.cases, self.fn, self.site = name, expr, vars, conds, cases, fn, site

    def coq(self):
        def cs(s):
            return '"' + s.replace('"', '""') + '"'
        return ("Definition %s : rexpr :=\n  %s.\n" % (self.name, coq_of(self.expr))
                + "Definition %s_vars : list string := [%s].\n" % (self.name, "; ".join(cs(v) for v in self.vars))
                + "Definition %s_conds : list string := [%s].\n" % (self.name, "; ".join(cs(c) for c in self.conds)))

    def eval(self, values):
        """float evaluation with values given by variable NAME (dict) or by index (list)"""
        if isinstance(values, dict):
            values = [values[v] for v in self.vars]
        return eval_float(self.expr, values)


class _Translator:
    def __init__(self, fn, vars, inline, consts, allow_new, auto_inline=False):
        self.fn, self.vars, self.inline, self.consts, self.allow_new = fn, [_norm_name(v) for v in vars], \
            {_norm_name(k): v for k, v in inline.items()}, {_norm_name(k): v for k, v in consts.items()}, allow_new
        self.auto_inline = auto_inline
        self.stack = []

    def var(self, name, local=False):
        name = _norm_name(name)
        if name in self.consts:
            return self.consts[name]
        if self.auto_inline and local and name not in self.vars and name not in self.inline and name not in self.stack:
            cands = [s for s in self.fn.sites if s.lhs == name]
            if len(cands) == 1 and cands[0].kind in ("assign", "init"):
                self.stack.append(name)
                try:
                    return self.site_value(cands[0])
                finally:
                    self.stack.pop()
        if name in self.inline:
            if name in self.stack:
                raise LeafError("cyclic inlining of " + name)
            self.stack.append(name)
            try:
                sel = dict(self.inline[name] or {})
                sel.setdefault("lhs", name)
                return self.site_value(self.fn.select(**sel))
            finally:
                self.stack.pop()
        if name not in self.vars:
            if not self.allow_new:
                raise LeafError("unexpected free variable %s (known: %s)" % (name, ", ".join(self.vars)))
            self.vars.append(name)
        return ('var', self.vars.index(name))

    def site_value(self, s):
        if s.kind == "compound":
            if s.prev is None:
                raise LeafError("compound assignment to %s without a preceding assignment in the same block" % s.lhs)
            a, b = self.site_value(s.prev), self.tr(s.node)
            op = {"+=": 'add', "-=": 'sub', "*=": 'mul', "/=": 'div'}.get(s.op)
            if not op:
                raise LeafError("unsupported compound operator " + str(s.op))
            return (op, a, b)
        return self.tr(s.node)

    def tr(self, n):
        k = n.get("kind")
        if k in ("ParenExpr", "ExprWithCleanups", "ConstantExpr", "MaterializeTemporaryExpr", "CXXBindTemporaryExpr"):
            return self.tr(n["inner"][0])
        if k == "ImplicitCastExpr" or k in ("CStyleCastExpr", "CXXStaticCastExpr", "CXXFunctionalCastExpr"):
            ck = n.get("castKind")
            if ck == "FloatingToIntegral":
                raise LeafError("float->int truncation not supported")
            if ck not in _CASTS_OK:
                raise LeafError("unsupported cast " + str(ck))
            return self.tr(n["inner"][0])
        if k == "IntegerLiteral":
            return ('const', Fraction(int(n["value"])))
        if k == "FloatingLiteral":
            sp = _spelling(n)
            val = float(n["value"])
            if sp:
                t = sp.rstrip("fFlL")
                try:
                    q = Fraction(t)
                    if float(q) == val or abs(float(q) - val) <= 1e-15 * abs(val):   # clang prints value with 17 digits
                        return ('const', q)
                except (ValueError, ZeroDivisionError):
                    pass
            return ('const', Fraction(repr(val)))   # shortest decimal denoting the same double
        if k == "UnaryOperator":
            op = n.get("opcode")
            if op == "-":
                return ('neg', self.tr(n["inner"][0]))
            if op == "+":
                return self.tr(n["inner"][0])
            raise LeafError("unsupported unary operator " + str(op))
        if k == "BinaryOperator":
            op = n.get("opcode")
            if op in ("+", "-", "*", "/"):
                if op == "/" and _is_int_type(n):
                    raise LeafError("integer division in " + render(n))
                return ({"+": 'add', "-": 'sub', "*": 'mul', "/": 'div'}[op], self.tr(n["inner"][0]), self.tr(n["inner"][1]))
            if op == ",":
                raise LeafError("comma operator")
            raise LeafError("unsupported binary operator %s in %s" % (op, render(n)))
        if k == "CallExpr":
            callee = _strip(n["inner"][0])
            fname = callee.get("referencedDecl", {}).get("name") if callee.get("kind") == "DeclRefExpr" else None
            args = n["inner"][1:]
            if fname in _FUNS1 and len(args) == 1:
                return (_FUNS1[fname], self.tr(args[0]))
            if fname in ("pow", "powl") and len(args) == 2:
                b = _strip(args[1])
                neg = False
                if b.get("kind") == "UnaryOperator" and b.get("opcode") == "-":
                    neg, b = True, _strip(b["inner"][0])
                if b.get("kind") in ("IntegerLiteral", "FloatingLiteral"):
                    v = Fraction(repr(float(b["value"]))) if b["kind"] == "FloatingLiteral" else Fraction(int(b["value"]))
                    if v.denominator == 1 and abs(v) < 64:
                        return ('powz', self.tr(args[0]), int(-v if neg else v))
                return ('pow', self.tr(args[0]), self.tr(args[1]))
            raise LeafError("unsupported call " + render(n))
        if k in ("DeclRefExpr", "MemberExpr", "ArraySubscriptExpr", "CXXOperatorCallExpr"):
            if k == "DeclRefExpr" and n.get("referencedDecl", {}).get("kind") == "EnumConstantDecl":
                raise LeafError("enum constant in real expression: " + render(n))
            if k == "CXXOperatorCallExpr":
                callee = _strip(n["inner"][0])
                if callee.get("referencedDecl", {}).get("name") != "operator[]":
                    raise LeafError("unsupported overloaded operator in " + render(n))
            return self.var(render(n), local=(k == "DeclRefExpr" and n.get("referencedDecl", {}).get("kind") == "VarDecl"))
        if k == "CXXMemberCallExpr":
            # getter-style calls without arguments / with literal arguments become opaque variables
            return self.var(render(n))
        raise LeafError("unsupported expression kind %s: %s" % (k, render(n)))


_FUNCS = {}


def load_function(cpp, fn, index=0, qualified=None):
    """parse `fn` (exact unqualified name) of file cpp; returns Function with .sites.
    If several definitions have that name (overloads), `index` picks one in source order."""
    key = (os.path.abspath(cpp), fn, index, os.path.getmtime(cpp))
    if key in _FUNCS:
        return _FUNCS[key]
    objs = _ast_objects(cpp, fn)
    _annotate_files(objs, cpp)
    defs = [o for o in objs if o.get("name") == fn and o.get("kind") in ("CXXMethodDecl", "FunctionDecl", "CXXConstructorDecl")
            and any(c.get("kind") == "CompoundStmt" for c in o.get("inner", []))]
    def _file_of(o):
        l = o.get("loc", {})
        if "expansionLoc" in l:
            l = l["expansionLoc"]
        return l.get("file")
    here = [o for o in defs if _file_of(o) and os.path.abspath(_file_of(o)) == os.path.abspath(cpp)]
    if here:
        defs = here          # definitions written in the requested file win over same-named ones from headers
    if qualified:
        pass
    if not defs:
        raise LeafError("no definition of %s found in %s" % (fn, cpp))
    if index >= len(defs):
        raise LeafError("only %d definitions of %s in %s" % (len(defs), fn, cpp))
    f = Function(cpp, fn, defs[index])
    _FUNCS[key] = f
    return f


def emit_coq(leaves, header="", extra=""):
    """text of a Gen_*.v file defining the given leaves"""
    out = ["(* GENERATED by translator/leaf.py — do not edit. %s *)" % header.replace("*)", "* )"),
           "From Coq Require Import QArith List String.",
           "From IPV Require Import Base.RExpr.",
           "Import ListNotations.", "Open Scope string_scope.", ""]
    for lf in leaves:
        out.append("(* %s: %s  [%s]  cases %s *)" % (lf.fn.name, lf.site.lhs, lf.site.kind, ",".join(lf.cases) or "-"))
        out.append(lf.coq())
    if extra:
        out.append(extra)
    return "\n".join(out) + "\n"


def pretty(e, names=None):
    """human-readable infix rendering (for notes / diagnostics)"""
    k = e[0]
    if k == 'var':
        return names[e[1]] if names and e[1] < len(names) else "v%d" % e[1]
    if k == 'const':
        return str(e[1])
    if k in ('add', 'sub', 'mul', 'div'):
        return "(" + pretty(e[1], names) + " " + {'add': '+', 'sub': '-', 'mul': '*', 'div': '/'}[k] + " " + pretty(e[2], names) + ")"
    if k == 'neg':
        return "-" + pretty(e[1], names)
    if k == 'powz':
        return pretty(e[1], names) + "^" + str(e[2])
    return k + "(" + ", ".join(pretty(x, names) for x in e[1:]) + ")"


# --------------------------------------------------------------------------- self test
def _selftest():
    repo = vlib.REPO if vlib else "/repo"
    fn = load_function(os.path.join(repo, "src/phreeqcpp/model.cpp"), "gammas")
    for s in fn.sites:
        if s.lhs in ("s_x[i]->lg", "muhalf", "log_g_co2", "a", "c1"):
            print(s)
    lf = fn.leaf("gam1", lhs="s_x[i]->lg", case=1, vars=["s_x[i]->z", "DH_A", "mu"], inline={"a": {}, "muhalf": {}})
    print(pretty(lf.expr, lf.vars))
    print(lf.coq())
    lf2 = fn.leaf("co2", lhs="log_g_co2", nth=-1, consts={"LOG_10": Ln(Const(10))})
    print(pretty(lf2.expr, lf2.vars))
    print(lf.eval({"s_x[i]->z": 2.0, "DH_A": 0.51, "mu": 0.1}))
    print(coq_Q_list(["0x1.999999999999ap-4", 0.5, 3, Fraction(1, 3)]))


if __name__ == "__main__":
    _selftest()
