"""T-gen back end `inventory` (C07): data members of class IPhreeqc and class Phreeqc, and which of them the reset path
(UnLoadDatabase -> clean_up, init, do_initialize -> initialize; check_database; update_errors; ListComponents) mentions.
Token based. Output: coq/Gen/Gen_C07.v."""
import os, re, sys
sys.path.insert(0, os.path.dirname(os.path.abspath(__file__)))
from c13_fwd import strip, tokens, functions

IDENT = re.compile(r"[A-Za-z_]\w*$")
SKIP_HEADS = {"friend", "typedef", "using", "public", "protected", "private", "enum", "struct", "class", "template"}


def class_body(toks, cname):
    for i in range(len(toks) - 2):
        if toks[i] == "class" and cname in toks[i + 1:i + 4]:
            j = i + 1
            while j < len(toks) and toks[j] not in ("{", ";"):
                j += 1
            if j < len(toks) and toks[j] == "{":
                d, e = 0, j
                while e < len(toks):
                    if toks[e] == "{":
                        d += 1
                    elif toks[e] == "}":
                        d -= 1
                        if d == 0:
                            return toks[j + 1:e]
                    e += 1
    raise RuntimeError("class %s not found" % cname)


def data_members(body):
    """statements at depth 0 of the class body without a parameter list are data members"""
    members, cur, d = [], [], 0
    i = 0
    while i < len(body):
        t = body[i]
        if t == "{":
            # inline method body or nested type: skip to matching brace, statement ends there (methods) or at ';'
            dd, e = 0, i
            while e < len(body):
                if body[e] == "{":
                    dd += 1
                elif body[e] == "}":
                    dd -= 1
                    if dd == 0:
                        break
                e += 1
            cur.append("{}")
            i = e + 1
            if i < len(body) and body[i] == ";":
                i += 1
            if "(" not in cur and cur and cur[0] not in SKIP_HEADS:
                pass
            cur = []
            continue
        if t == ":" and cur and cur[-1] in ("public", "protected", "private"):
            cur = []
            i += 1
            continue
        if t == ";":
            st = cur
            cur = []
            i += 1
            # `class unknown *mu_unknown;` / `struct X y;` (elaborated type specifier) declares a data member; `class X;` is a forward declaration
            if st and st[0] in ("class", "struct", "enum") and len(st) >= 3 and "{}" not in st and "(" not in st:
                st = st[1:]
            if not st or st[0] in SKIP_HEADS or "(" in st or "operator" in st:
                continue
            if "static" in st:
                continue
            # declarators separated by commas at depth 0 of <> and []
            decl, depth, parts = [], 0, []
            for x in st:
                if x in "<[":
                    depth += 1
                elif x in ">]":
                    depth -= 1
                if x == "," and depth == 0:
                    parts.append(decl); decl = []
                else:
                    decl.append(x)
            parts.append(decl)
            for p in parts:
                # name = last identifier before '[' or '=' (outside template brackets)
                depth, name = 0, None
                for x in p:
                    if x == "<":
                        depth += 1
                    elif x == ">":
                        depth -= 1
                    elif x in ("[", "=") and depth == 0:
                        break
                    elif IDENT.match(x) and depth == 0:
                        name = x
                if name:
                    members.append(name)
            continue
        cur.append(t)
        i += 1
    return members


def fn_idents(path, names):
    """identifiers used in the bodies of the named functions (Class::name) of a file"""
    toks = tokens(strip(open(path, errors="replace").read()))
    out = {}
    for ret, name, params, body in functions(toks):
        short = name.split("::")[-1]
        if name in names or short in names:
            out.setdefault(short, set()).update(t for t in body if IDENT.match(t))
    return out


def fn_writes(path, fname, members):
    """members that the named function assigns / clears / erases (token level: X = | X . clear ( | X . erase ( | X [ ... ] = )"""
    toks = tokens(strip(open(path, errors="replace").read()))
    out = set()
    for ret, name, params, body in functions(toks):
        if name.split("::")[-1] != fname:
            continue
        for i, t in enumerate(body):
            if t not in members:
                continue
            nxt = body[i + 1] if i + 1 < len(body) else ""
            if nxt == "=":
                out.add(t)
            elif nxt == "." and i + 2 < len(body) and body[i + 2] in ("clear", "erase", "resize", "assign", "swap"):
                out.add(t)
            elif nxt == "[":
                d, e = 0, i + 1
                while e < len(body):
                    if body[e] == "[":
                        d += 1
                    elif body[e] == "]":
                        d -= 1
                        if d == 0:
                            break
                    e += 1
                if e + 1 < len(body) and body[e + 1] == "=":
                    out.add(t)
    return out


def fn_calls(path, names):
    """identifiers that are CALLED (followed by '(') in the bodies of the named functions, excluding control keywords"""
    toks = tokens(strip(open(path, errors="replace").read()))
    out = set()
    for ret, name, params, body in functions(toks):
        if name.split("::")[-1] in names:
            for i, t in enumerate(body[:-1]):
                if IDENT.match(t) and body[i + 1] == "(" and t not in ("if", "for", "while", "switch", "return", "sizeof", "catch", "delete", "new"):
                    out.add(name.split("::")[-1] + ":" + t)
    return out


def generate(repo):
    src = os.path.join(repo, "src")
    ih = data_members(class_body(tokens(strip(open(os.path.join(src, "IPhreeqc.hpp")).read())), "IPhreeqc"))
    ip = fn_idents(os.path.join(src, "IPhreeqc.cpp"), {"UnLoadDatabase", "check_database", "update_errors", "ListComponents"})
    ph = data_members(class_body(tokens(strip(open(os.path.join(src, "phreeqcpp", "Phreeqc.h"), errors="replace").read())), "Phreeqc"))
    reset = set()
    for f, names in (("Phreeqc.cpp", {"init"}), ("structures.cpp", {"clean_up"}), ("mainsubs.cpp", {"initialize", "do_initialize"}),
                     ("pitzer.cpp", {"pitzer_init", "pitzer_clean_up"}), ("sit.cpp", {"sit_init", "sit_clean_up"})):
        for k, v in fn_idents(os.path.join(src, "phreeqcpp", f), names).items():
            reset |= v
    q = lambda l: "[" + "; ".join('"%s"' % x for x in l) + "]"
    out = ["(* GENERATED by translator/c07_inventory.py from IPhreeqc.hpp, IPhreeqc.cpp, Phreeqc.h, Phreeqc.cpp, structures.cpp, mainsubs.cpp, pitzer.cpp, sit.cpp. Do not edit. *)",
           "From Coq Require Import List String.", "Import ListNotations.", "Local Open Scope string_scope.", "",
           "Definition iphreeqc_members : list string := %s." % q(ih),
           "Definition unload_mentions : list string := %s." % q(sorted(x for x in ip.get("UnLoadDatabase", ()) if x in ih)),
           "Definition unload_writes : list string := %s." % q(sorted(fn_writes(os.path.join(src, "IPhreeqc.cpp"), "UnLoadDatabase", set(ih)))),
           "Definition call_start_mentions : list string := %s." % q(sorted(x for x in ip.get("check_database", ()) if x in ih)),
           "Definition update_errors_mentions : list string := %s." % q(sorted(x for x in ip.get("update_errors", ()) if x in ih)),
           "Definition listcomponents_mentions : list string := %s." % q(sorted(x for x in ip.get("ListComponents", ()) if x in ih)),
           "Definition unload_calls : list string := %s." % q(sorted(x for x in ip.get("UnLoadDatabase", ()) if x in ("clean_up", "init", "do_initialize", "Clear", "clear", "ClearAccumulatedLines"))),
           "Definition reset_path_calls : list string := %s." % q(sorted(fn_calls(os.path.join(src, "phreeqcpp", "structures.cpp"), {"clean_up"}) | fn_calls(os.path.join(src, "phreeqcpp", "mainsubs.cpp"), {"initialize", "do_initialize"}) | fn_calls(os.path.join(src, "IPhreeqc.cpp"), {"UnLoadDatabase"}))),
           "Definition phreeqc_members : list string := %s." % q(ph),
           "Definition phreeqc_not_reset : list string := %s." % q(sorted(set(m for m in ph if m not in reset))), ""]
    return "\n".join(out)


if __name__ == "__main__":
    print(generate(sys.argv[1] if len(sys.argv) > 1 else "/repo"))
