"""C10 translator front end: preprocess a /repo translation unit with g++ -E, tokenize it, and parse
function bodies into a light statement tree.

This is a *tokenizer + statement parser*, not the clang AST (stated in notes/C10.md): the raw dump/read
functions are extremely regular and the clang JSON of these 21 translation units is ~150 MB each.
Comments, layout and preprocessor conditionals are invisible to it (g++ -E removes them); local
variable names matter only where the back end says so.
"""
import os, re, subprocess

INCS = ["src", "src/phreeqcpp", "src/phreeqcpp/common", "src/phreeqcpp/PhreeqcKeywords"]
DEFS = ["-DIPHREEQC_VERIF", "-DSWIG_SHARED_OBJ", "-DUSE_PHRQ_ALLOC"]


class Refuse(Exception):
    """The source left the subset the translator understands (a broken tie, never silently skipped)."""


def preprocess(repo, relpath, timeout=120):
    """Returns {basename of file: text contributed by that file} for relpath and the headers of /repo it includes."""
    src = os.path.join(repo, relpath)
    cmd = ["g++", "-E", "-std=c++14"] + DEFS + ["-I" + os.path.join(repo, i) for i in INCS] + [src]
    try:
        p = subprocess.run(cmd, stdout=subprocess.PIPE, stderr=subprocess.PIPE, timeout=timeout, text=True, errors="replace")
    except subprocess.TimeoutExpired:
        raise Refuse("g++ -E timed out on " + relpath)
    if p.returncode != 0:
        raise Refuse("g++ -E failed on %s: %s" % (relpath, p.stderr[-800:]))
    files = {}
    cur = None
    root = os.path.realpath(repo)
    inrepo = {}
    for line in p.stdout.split("\n"):
        if line.startswith("#"):
            m = re.match(r'#\s+(\d+)\s+"([^"]*)"', line)
            if m:
                fn = m.group(2)
                if fn not in inrepo:
                    inrepo[fn] = (not fn.startswith("<")) and os.path.realpath(fn).startswith(root)
                cur = os.path.basename(fn) if inrepo[fn] else None
            continue
        if cur is not None:
            files.setdefault(cur, []).append(line)
    return {k: "\n".join(v) for k, v in files.items()}


TOKEN_RE = re.compile(r'''
    (?P<ws>\s+)
  | (?P<str>"(?:[^"\\\n]|\\.)*")
  | (?P<chr>'(?:[^'\\\n]|\\.)*')
  | (?P<num>(?:\d+\.?\d*(?:[eE][-+]?\d+)?|\.\d+(?:[eE][-+]?\d+)?)[uUlLfF]*)
  | (?P<id>[A-Za-z_]\w*)
  | (?P<op>->\*|<<=|>>=|\.\.\.|::|->|\+\+|--|<<|>>|<=|>=|==|!=|&&|\|\||\+=|-=|\*=|/=|%=|&=|\|=|\^=|[{}()\[\];,.<>+\-*/%&|^!~?:=])
''', re.X)


class Tok(str):
    """A token: the text, with .kind in {'str','chr','num','id','op'}"""
    __slots__ = ("kind",)

    def __new__(cls, text, kind):
        o = str.__new__(cls, text)
        o.kind = kind
        return o


def unescape(lit):
    body = lit[1:-1]
    out = []
    i = 0
    esc = {"n": "\n", "t": "\t", "\\": "\\", '"': '"', "'": "'", "0": "\0", "r": "\r"}
    while i < len(body):
        c = body[i]
        if c == "\\" and i + 1 < len(body):
            out.append(esc.get(body[i + 1], body[i + 1]))
            i += 2
        else:
            out.append(c)
            i += 1
    return "".join(out)


def tokenize(text):
    toks = []
    pos = 0
    n = len(text)
    while pos < n:
        m = TOKEN_RE.match(text, pos)
        if not m:
            raise Refuse("cannot tokenize near: %r" % text[pos:pos + 40])
        pos = m.end()
        k = m.lastgroup
        if k == "ws":
            continue
        t = m.group(k)
        if k == "str" and toks and toks[-1].kind == "str":
            # adjacent string literals concatenate
            toks[-1] = Tok('"' + toks[-1][1:-1] + t[1:-1] + '"', "str")
            continue
        toks.append(Tok(t, k))
    return toks


def match_close(toks, i, open_, close):
    """toks[i] == open_; returns index of the matching close."""
    assert toks[i] == open_, (toks[i], open_)
    d = 0
    for j in range(i, len(toks)):
        t = toks[j]
        if t.kind in ("str", "chr"):
            continue
        if t == open_:
            d += 1
        elif t == close:
            d -= 1
            if d == 0:
                return j
    raise Refuse("unbalanced %s" % open_)


def find_function(toks, cls, name):
    """Body tokens (without the outer braces) of every definition `cls :: name ( ... ) [const] {`."""
    out = []
    i = 0
    while i < len(toks) - 3:
        if toks[i] == cls and toks[i + 1] == "::" and toks[i + 2] == name and toks[i + 3] == "(":
            j = match_close(toks, i + 3, "(", ")")
            k = j + 1
            while k < len(toks) and toks[k] in ("const", "noexcept"):
                k += 1
            if k < len(toks) and toks[k] == "{":
                e = match_close(toks, k, "{", "}")
                out.append((toks[i + 4:j], toks[k + 1:e]))
                i = e
                continue
        i += 1
    return out


# ----------------------------------------------------------------------------- statements
# node = (kind, ...):
#   ('block', [nodes])            ('simple', toks)         ('if', cond, then, else|None)
#   ('for', header, body)         ('while', cond, body)    ('switch', cond, [nodes])
#   ('case', labeltoks)           ('default',)             ('break',) ('continue',) ('return', toks)
#   ('do', body, cond)

def parse_block(toks):
    nodes = []
    i = 0
    while i < len(toks):
        nd, i = parse_stmt(toks, i)
        if nd is not None:
            nodes.append(nd)
    return nodes


def parse_stmt(toks, i):
    t = toks[i]
    if t == ";":
        return None, i + 1
    if t == "{":
        e = match_close(toks, i, "{", "}")
        return ("block", parse_block(toks[i + 1:e])), e + 1
    if t == "if":
        e = match_close(toks, i + 1, "(", ")")
        cond = toks[i + 2:e]
        then, j = parse_stmt(toks, e + 1)
        els = None
        if j < len(toks) and toks[j] == "else":
            els, j = parse_stmt(toks, j + 1)
        return ("if", cond, then, els), j
    if t == "for":
        e = match_close(toks, i + 1, "(", ")")
        body, j = parse_stmt(toks, e + 1)
        return ("for", toks[i + 2:e], body), j
    if t == "while":
        e = match_close(toks, i + 1, "(", ")")
        body, j = parse_stmt(toks, e + 1)
        return ("while", toks[i + 2:e], body), j
    if t == "do":
        body, j = parse_stmt(toks, i + 1)
        if toks[j] != "while":
            raise Refuse("do without while")
        e = match_close(toks, j + 1, "(", ")")
        return ("do", body, toks[j + 2:e]), e + 2
    if t == "switch":
        e = match_close(toks, i + 1, "(", ")")
        if toks[e + 1] != "{":
            raise Refuse("switch without block")
        e2 = match_close(toks, e + 1, "{", "}")
        return ("switch", toks[i + 2:e], parse_block(toks[e + 2:e2])), e2 + 1
    if t == "case":
        j = i + 1
        while toks[j] != ":":
            j += 1
        return ("case", toks[i + 1:j]), j + 1
    if t == "default" and toks[i + 1] == ":":
        return ("default",), i + 2
    if t == "break":
        return ("break",), i + 2
    if t == "continue":
        return ("continue",), i + 2
    # simple statement up to ';' at depth 0
    d = 0
    j = i
    while j < len(toks):
        x = toks[j]
        if x.kind not in ("str", "chr"):
            if x in "([{":
                d += 1
            elif x in ")]}":
                d -= 1
            elif x == ";" and d == 0:
                break
        j += 1
    st = toks[i:j]
    if st and st[0] == "return":
        return ("return", st[1:]), j + 1
    return ("simple", st), j + 1


def split_top(toks, sep):
    """split a token list at separator tokens that are at bracket depth 0"""
    out = [[]]
    d = 0
    for x in toks:
        if x.kind not in ("str", "chr"):
            if x in "([{":
                d += 1
            elif x in ")]}":
                d -= 1
            elif x == sep and d == 0:
                out.append([])
                continue
        out[-1].append(x)
    return out


def walk(node, f, ctx=()):
    """pre-order walk calling f(node, ctx) where ctx is the tuple of enclosing compound nodes"""
    if node is None:
        return
    f(node, ctx)
    k = node[0]
    if k == "block" or k == "switch":
        for n in node[-1]:
            walk(n, f, ctx + (node,))
    elif k == "if":
        walk(node[2], f, ctx + (("if+", node[1]),))
        walk(node[3], f, ctx + (("if-", node[1]),))
    elif k in ("for", "while"):
        walk(node[2], f, ctx + (node,))
    elif k == "do":
        walk(node[1], f, ctx + (node,))


def all_tokens(node):
    out = []

    def f(n, ctx):
        if n[0] == "simple" or n[0] == "return":
            out.extend(n[1])
            out.append(Tok(";", "op"))
        elif n[0] in ("if", "while"):
            out.extend(n[1])
        elif n[0] == "for":
            out.extend(n[1])
        elif n[0] == "switch":
            out.extend(n[1])
        elif n[0] == "case":
            out.extend(n[1])
    walk(node, f)
    return out


# ----------------------------------------------------------------------------- class members

def class_members(toks, cls):
    """{member name: type text} for data members declared in `class cls {...};` (array members: type + '[]')"""
    for i in range(len(toks) - 2):
        if toks[i] == "class" and toks[i + 1] == cls:
            j = i + 2
            while j < len(toks) and toks[j] not in ("{", ";"):
                j += 1
            if j >= len(toks) or toks[j] == ";":
                continue
            e = match_close(toks, j, "{", "}")
            body = toks[j + 1:e]
            bases = [x for x in toks[i + 2:j] if x.kind == "id" and x not in ("public", "protected", "private", "virtual")]
            return _members(body), bases
    return None, []


def _members(body):
    mem = {}
    getters = {}
    i = 0
    cur = []
    while i < len(body):
        t = body[i]
        if t in ("public", "protected", "private") and i + 1 < len(body) and body[i + 1] == ":":
            i += 2
            cur = []
            continue
        if t == "{":
            e = match_close(body, i, "{", "}")
            # inline function body: getter?
            inner = body[i + 1:e]
            # name of function = identifier before '(' in cur
            try:
                p = cur.index("(")
                fname = cur[p - 1]
                m = None
                if inner and inner[0] == "return":
                    r = [x for x in inner[1:] if x != ";"]
                    if len(r) == 3 and r[0] == "this" and r[1] == "->":
                        m = r[2]
                    elif len(r) == 1 and r[0].kind == "id":
                        m = r[0]
                if m is not None:
                    getters[str(fname)] = str(m)
            except ValueError:
                pass
            i = e + 1
            # optional trailing ;
            if i < len(body) and body[i] == ";":
                i += 1
            cur = []
            continue
        if t == ";":
            if cur and "(" not in cur and "typedef" not in cur and "friend" not in cur and "using" not in cur and "enum" not in cur:
                decl = [x for x in cur if x not in ("mutable",)]
                arr = ""
                if "[" in decl:
                    k = decl.index("[")
                    arr = "[]"
                    decl = decl[:k]
                if "=" in decl:
                    decl = decl[:decl.index("=")]
                parts = split_top(decl, ",") if "<" not in decl else [decl]
                if len(parts) > 1 and len(parts[0]) >= 2 and all(len(q) == 1 and q[0].kind == "id" for q in parts[1:]):
                    typ = " ".join(parts[0][:-1])
                    for q in [parts[0][-1:]] + parts[1:]:
                        mem[str(q[0])] = typ + arr
                elif len(decl) >= 2 and decl[-1].kind == "id":
                    name = str(decl[-1])
                    typ = " ".join(decl[:-1])
                    mem[name] = typ + arr
            cur = []
            i += 1
            continue
        cur.append(t)
        i += 1
    return mem, getters
