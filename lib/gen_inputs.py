"""Generators of structured, mostly valid PHREEQC inputs for the wrapper-family checks.
All randomness comes from the rng passed in (seeded from VERIF_SEED by vlib.Ctx)."""

ELEMS = [("Na", 1e-4, 0.5), ("K", 1e-5, 0.1), ("Ca", 1e-5, 0.05), ("Mg", 1e-5, 0.05), ("Cl", 1e-4, 0.5),
         ("S(6)", 1e-5, 0.05), ("C(4)", 1e-5, 0.02), ("Si", 1e-6, 1e-3), ("Fe", 1e-7, 1e-4), ("N(5)", 1e-6, 1e-2)]
PHASES = ["Calcite", "Gypsum", "Halite", "Dolomite", "Quartz", "CO2(g)", "Aragonite", "Fluorite", "Anhydrite"]
SEL_OPTS = ["-pH true", "-pe true", "-temperature true", "-alkalinity true", "-ionic_strength true", "-water true",
            "-charge_balance true", "-percent_error true", "-simulation false", "-state false", "-solution false",
            "-distance false", "-time false", "-step false", "-reaction true"]


def logu(rng, lo, hi):
    import math
    return math.exp(rng.uniform(math.log(lo), math.log(hi)))


def solution(rng, n, name="SOLUTION"):
    L = ["%s %d" % (name, n), " temp %.1f" % rng.choice([25, 25, 10, 40, 60]), " pH %.2f" % rng.uniform(4, 10)]
    if rng.random() < 0.3:
        L.append(" pe %.1f" % rng.uniform(-2, 10))
    if rng.random() < 0.3:
        L.append(" units mmol/kgw")
        scale = 1000.0
    else:
        scale = 1.0
    els = rng.sample(ELEMS, rng.randint(1, 5))
    for (e, lo, hi) in els:
        L.append(" %s %.6g" % (e, logu(rng, lo, hi) * scale))
    if rng.random() < 0.2:
        L.append(" -water %.3g" % rng.uniform(0.2, 3))
    return L


def selected_output(rng, n, elems=("Na", "Cl", "Ca", "K"), with_file=False, newline_variants=False):
    L = ["SELECTED_OUTPUT %d" % n]
    if newline_variants and rng.random() < 0.2:
        L.append(" -new_line false")          # rows are not newline-terminated: the string ends in an unterminated line
    if with_file and rng.random() < 0.3:
        L.append(" -file selfile_%d.sel" % n)
    if rng.random() < 0.3:
        L.append(" -reset false")
    if rng.random() < 0.4:
        L.append(" -high_precision %s" % rng.choice(["true", "false"]))
    for o in rng.sample(SEL_OPTS, rng.randint(0, 5)):
        L.append(" " + o)
    if rng.random() < 0.6:
        L.append(" -totals " + " ".join(rng.sample(list(elems), rng.randint(1, len(elems)))))
    if rng.random() < 0.4:
        L.append(" -molalities " + " ".join(rng.sample(["Na+", "Cl-", "H+", "OH-", "Ca+2", "CaSO4", "HCO3-"], rng.randint(1, 3))))
    if rng.random() < 0.3:
        L.append(" -activities " + " ".join(rng.sample(["Na+", "Cl-", "H+", "H2O"], rng.randint(1, 2))))
    if rng.random() < 0.4:
        L.append(" -saturation_indices " + " ".join(rng.sample(PHASES, rng.randint(1, 3))))
    if rng.random() < 0.3:
        L.append(" -equilibrium_phases " + " ".join(rng.sample(PHASES[:5], rng.randint(1, 2))))
    if rng.random() < 0.15:
        L.append(" -gases CO2(g)")
    if newline_variants:
        # extended option sets (C05/C09 only): listed components that are present in / absent from the reactant in use, in mixed order
        if rng.random() < 0.3:
            L.append(" -solid_solutions " + " ".join(rng.sample(["Aragonite", "Calcite", "Strontianite", "Barite"], rng.randint(2, 4))))
        if rng.random() < 0.3:
            L.append(" -kinetic_reactants " + " ".join(rng.sample(["Halite", "Calcite", "Quartz"], rng.randint(1, 3))))
        if rng.random() < 0.2:
            L.append(" -gases " + " ".join(rng.sample(["CO2(g)", "N2(g)", "O2(g)", "CH4(g)"], rng.randint(2, 3))))
    return L


def user_punch(rng, n, no_simno=False, newline_variants=False):
    nh = rng.randint(0, 4)
    nv = max(0, nh + rng.choice([0, 0, 0, 1, 2, -1]))
    heads = rng.sample(["alpha", "beta", "gam_ma", "d", "pH", "Na_tot", "x1", "a_very_long_heading_name_that_exceeds_twelve_chars"], nh)
    L = ["USER_PUNCH %d" % n]
    if nh:
        L.append(" -headings " + " ".join(heads))
    L.append(" -start")
    ln = 10
    vals = []
    for i in range(nv):
        k = rng.random()
        if k < 0.25:
            strs = ["str", "a b", "", "x", "long string value here"]
            if newline_variants:       # extended variants (C05/C09 only): lengths at the 12 / 20 character format boundaries
                strs = strs + ["twelve_chars", "thirteen_char", "exactly_16_chars", "twenty_characters_20", "twentyone_characters_"]
            vals.append('"%s"' % rng.choice(strs))
        elif k < 0.5:
            vals.append(rng.choice(["MU", "-LA(\"H+\")", "TOT(\"Na\")", "TC", "STEP_NO" if no_simno else "SIM_NO", "STEP_NO", "CELL_NO"]))
        elif k < 0.7:
            vals.append(repr(rng.choice([0, 1, -1, 3.5, 1e-30, 1e300, 123456789.123, -2.5e-7, 1 / 3.0])))
        else:
            vals.append("%d*%d+%g" % (rng.randint(-5, 5), rng.randint(0, 9), rng.uniform(-1, 1)))
    if nv and rng.random() < 0.3:
        # conditional punch: fewer values on some rows
        L.append(" %d IF (%s) THEN PUNCH %s" % (ln, "TC > 30" if no_simno else "SIM_NO > 1", vals[-1]))
        ln += 10
        vals = vals[:-1]
    if vals and newline_variants and rng.random() < 0.2:
        # NO_NEWLINE$ suppresses the row's newline (on the last row the string ends in an unterminated line)
        L.append(" %d PUNCH %s" % (ln, ", ".join(vals)))
        L.append(" %d IF (%s) THEN t$ = NO_NEWLINE$" % (ln + 5, rng.choice(["STEP_NO >= 0", "STEP_NO > 1", "TC > 30"])))
    elif vals:
        L.append(" %d PUNCH %s" % (ln, ", ".join(vals)))
    else:
        L.append(" %d REM nothing" % ln)
    L.append(" -end")
    return L, nh, nv


def reaction_step(rng, n):
    k = rng.random()
    if k < 0.4:
        return ["USE solution %d" % n, "REACTION 1", " NaCl 1", " %.3g moles in %d steps" % (logu(rng, 1e-4, 1e-2), rng.randint(1, 3))]
    if k < 0.8:
        ph = rng.sample(PHASES[:5], rng.randint(1, 2))
        return ["USE solution %d" % n, "EQUILIBRIUM_PHASES 1"] + [" %s %.2f %.3g" % (p, rng.choice([0, 0, -0.5, 0.3]), rng.choice([0, 0.01, 1])) for p in ph]
    return ["MIX 1", " %d 0.5" % n, " %d 0.5" % n]


def rich_step(rng, have):
    """one more block for a simulation, using only entities that exist (have = set of defined solution numbers); returns (lines, new solution numbers)"""
    k = rng.random()
    n = rng.choice(sorted(have))
    new = set()
    if k < 0.15:
        m = rng.randint(9, 14)
        return ["COPY solution %d %d" % (n, m)], {m}
    if k < 0.25 and len(have) > 2:
        d = rng.choice(sorted(have - {1}))
        return ["DELETE", " -solution %d" % d], set() if False else {-d}
    if k < 0.40:
        return ["RUN_CELLS", " -cells %d" % n], set()
    if k < 0.55:
        m = rng.randint(15, 19)
        return ["USE solution %d" % n, "EQUILIBRIUM_PHASES 2", " Calcite 0 0.001", " CO2(g) -2.5 1", "SAVE solution %d" % m, "SAVE equilibrium_phases %d" % m], {m}
    if k < 0.65:
        o = rng.choice(sorted(have))
        return ["MIX 3", " %d 0.3" % n, " %d 0.7" % o, "SAVE solution %d" % rng.randint(20, 24)], set()
    if k < 0.78:
        return ["USE solution %d" % n, "KINETICS 1", " Halite", " -formula NaCl 1", " -m0 0.001", " -parms 1e-6", " -steps 100 200", " -tol 1e-9",
                "RATES", " Halite", " -start", " 10 SAVE PARM(1) * TIME", " -end", "INCREMENTAL_REACTIONS %s" % rng.choice(["true", "false"])], set()
    if k < 0.88:
        return ["USE solution %d" % n, "GAS_PHASE 1", " -fixed_pressure", " -pressure 1", " CO2(g) 0.01", " N2(g) 0.99"], set()
    if k < 0.94:
        return ["USE solution %d" % n, "EXCHANGE 1", " X 0.01", " -equilibrate %d" % n], set()
    return ["USE solution %d" % n, "SOLID_SOLUTIONS 1", " CaSrCO3", " -comp Aragonite 0.001", " -comp Strontianite 0.0001"], set()


def multi_sim_input(rng, nsims=None, user_numbers=None, allow_redefine=True, no_simno=False, rich=False, with_file=False, print_toggle=False, newline_variants=False):
    """An error-free multi-simulation input with SELECTED_OUTPUT/USER_PUNCH blocks. Returns (text, info)."""
    nsims = nsims or rng.randint(1, 4)
    uns = user_numbers if user_numbers is not None else sorted(rng.sample([1, 2, 3, 5, 22, 100], rng.randint(0, 3)))
    sims = []
    sols = []
    info = {"uns": list(uns), "nsims": nsims, "punch": {}}
    toggles = {}
    if print_toggle and rng.random() < 0.25:
        # a deliberate plan of PRINT -selected_output switches: off in some simulation (often the defining one), on again in a later one
        if nsims < 3:
            nsims = info["nsims"] = rng.randint(3, 4)
        off = rng.choice([0, 0, 1])
        on = rng.randint(off + 1, nsims - 1)
        toggles = {off: "false", on: "true"}
    for s in range(nsims):
        L = []
        if s == 0 or rng.random() < 0.5:
            n = rng.randint(1, 4)
            L += solution(rng, n)
            sols.append(n)
        if s == 0:
            for n in uns:
                L += selected_output(rng, n, with_file=with_file, newline_variants=newline_variants)
                if rng.random() < 0.7:
                    up, nh, nv = user_punch(rng, n, no_simno, newline_variants=newline_variants)
                    L += up
                    info["punch"][n] = (nh, nv)
        elif allow_redefine and uns and rng.random() < 0.25:
            n = rng.choice(uns)
            L += selected_output(rng, n)
        if rng.random() < 0.5 and sols:
            L += reaction_step(rng, rng.choice(sols))
            if rng.random() < 0.3:
                L.append("SAVE solution %d" % rng.randint(5, 8))
        elif rich and sols and rng.random() < 0.8:
            have = info.setdefault("have", set(sols))
            have |= set(sols)
            lines, new = rich_step(rng, have)
            L += lines
            for x in new:
                if x < 0:
                    have.discard(-x)
                    if -x in sols:
                        sols[:] = [q for q in sols if q != -x]
                else:
                    have.add(x)
        if s in toggles:
            L += ["PRINT", " -selected_output %s" % toggles[s]]
            if not any(l.startswith(("USE", "MIX", "RUN_CELLS")) for l in L) and sols:
                L += reaction_step(rng, rng.choice(sols))      # make sure the simulation produces rows
        elif rng.random() < 0.1:
            L += ["PRINT", " -selected_output %s" % rng.choice(["false", "true"])]
        if rng.random() < 0.1:
            L += ["TITLE sim %d of generated input" % s]
        L.append("END")
        sims.append("\n".join(L) + "\n")
    if newline_variants and sols:
        # the extended option lists need the matching reactant IN USE in some reaction step (components present and absent, in mixed order)
        text = "".join(sims)
        extra = []
        if "-solid_solutions" in text:
            extra.append("USE solution %d\nSOLID_SOLUTIONS 1\n CaSrCO3\n -comp Aragonite 0.001\n -comp Strontianite 0.0001\nEND\n" % sols[0])
        if "-kinetic_reactants" in text:
            extra.append("USE solution %d\nKINETICS 1\n Halite\n -formula NaCl 1\n -m0 0.001\n -parms 1e-6\n -steps 100\nRATES\n Halite\n -start\n 10 SAVE PARM(1) * TIME\n -end\nEND\n" % sols[0])
        if text.count("(g)") > 1 and "-gases" in text:
            extra.append("USE solution %d\nGAS_PHASE 1\n -fixed_volume\n -volume 1\n CO2(g) 0.01\n N2(g) 0.5\nEND\n" % sols[0])
        sims += extra
        info["nsims"] = len(sims)
    return "".join(sims), dict(info, sims=sims)
