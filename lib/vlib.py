"""Common machinery for /verif checks (build cache, Coq driver, evidence, findings).

Every check is a module props/<id>.py with `run(ctx)`; ./check wires it to this library.
See DESIGN.md sections 2, 5 and 9.
"""
import contextlib, fcntl, hashlib, json, os, random, re, shutil, subprocess, sys, tempfile, time

VERIF = os.path.dirname(os.path.dirname(os.path.abspath(__file__)))
REPO = os.environ.get("VERIF_REPO", "/repo")
CACHE = os.path.join(VERIF, ".cache")
COQ = os.path.join(VERIF, "coq")
HARNESS = os.path.join(VERIF, "harness")
GUARD = "IPHREEQC_VERIF"
NCPU = os.cpu_count() or 4
DB = os.path.join(REPO, "database")
# a non-default VERIF_REPO (scratch worktree used when trying out a breaking change) gets its own build tree
REPO_TAG = "" if REPO == "/repo" else "-" + hashlib.sha256(REPO.encode()).hexdigest()[:8]

VARIANTS = {
    # name: (cxx flags, link flags)
    "O1": ("-O1 -g0 -DNDEBUG", ""),
    "asan": ("-O1 -g -DNDEBUG -fsanitize=address,undefined -fno-sanitize-recover=undefined -fno-omit-frame-pointer", "-fsanitize=address,undefined"),
    "tsan": ("-O1 -g -DNDEBUG -fsanitize=thread", "-fsanitize=thread"),
}
INCS = ["src", "src/phreeqcpp", "src/phreeqcpp/common", "src/phreeqcpp/PhreeqcKeywords"]


def log(*a):
    print(*a, file=sys.stderr, flush=True)


@contextlib.contextmanager
def flock(name):
    os.makedirs(CACHE, exist_ok=True)
    f = open(os.path.join(CACHE, name + ".lock"), "w")
    try:
        fcntl.flock(f, fcntl.LOCK_EX)
        yield
    finally:
        fcntl.flock(f, fcntl.LOCK_UN)
        f.close()


def sh(cmd, cwd=None, timeout=600, input=None, env=None, shell=None):
    """Run a command; returns (rc, stdout, stderr). rc=124 on timeout. Never raises."""
    if shell is None:
        shell = isinstance(cmd, str)
    e = dict(os.environ)
    if env:
        e.update(env)
    try:
        p = subprocess.run(cmd, cwd=cwd, timeout=timeout, input=input, env=e, shell=shell,
                           stdout=subprocess.PIPE, stderr=subprocess.PIPE, text=True, errors="replace")
        return p.returncode, p.stdout, p.stderr
    except subprocess.TimeoutExpired as ex:
        out = ex.stdout.decode(errors="replace") if isinstance(ex.stdout, bytes) else (ex.stdout or "")
        err = ex.stderr.decode(errors="replace") if isinstance(ex.stderr, bytes) else (ex.stderr or "")
        return 124, out, err


@contextlib.contextmanager
def scratch(prefix="vsc"):
    """A fresh scratch directory outside /repo and /verif, removed afterwards."""
    d = tempfile.mkdtemp(prefix=prefix + "-", dir=os.environ.get("VERIF_TMP", "/tmp"))
    try:
        yield d
    finally:
        shutil.rmtree(d, ignore_errors=True)


# ----------------------------------------------------------------------------- builds

class BuildError(Exception):
    pass


def build_lib(variant="O1"):
    """(Re)build libIPhreeqc.a from /repo's *current working tree* with the hook guard on.
    One persistent ninja tree per variant: ninja rebuilds exactly what changed."""
    cxx, _ = VARIANTS[variant]
    bdir = os.path.join(CACHE, "build-" + variant + REPO_TAG)
    with flock("build-" + variant + REPO_TAG):
        want = "CMAKE_CXX_FLAGS:STRING=%s -D%s" % (cxx, GUARD)
        cachef = os.path.join(bdir, "CMakeCache.txt")
        stale = os.path.exists(cachef) and want not in open(cachef).read()
        if stale or not os.path.exists(os.path.join(bdir, "build.ninja")):
            os.makedirs(bdir, exist_ok=True)
            rc, out, err = sh(["cmake", "-G", "Ninja", "-S", REPO, "-B", bdir, "-DCMAKE_BUILD_TYPE=None",
                               "-DCMAKE_CXX_FLAGS=%s -D%s" % (cxx, GUARD), "-DBUILD_TESTING=OFF",
                               "-DIPHREEQC_FORTRAN_TESTING=OFF"], timeout=300)
            if rc != 0:
                raise BuildError("cmake failed:\n" + out[-2000:] + err[-2000:])
        rc, out, err = sh(["ninja", "-C", bdir, "-j", str(NCPU), "IPhreeqc"], timeout=1800)
        if rc != 0:
            raise BuildError("build of /repo failed (variant %s):\n%s" % (variant, (out + err)[-4000:]))
    return os.path.join(bdir, "libIPhreeqc.a")


def inc_flags():
    return ["-I" + os.path.join(REPO, i) for i in INCS]


def build_harness(name, srcs, variant="O1", extra=None):
    """Compile harness/<srcs> against the fresh library. Rebuilt when the library, any source
    under harness/ that it names, or any header under /repo/src is newer than the binary."""
    lib = build_lib(variant)
    cxx, ld = VARIANTS[variant]
    exe = os.path.join(CACHE, "bin" + REPO_TAG, "%s-%s" % (name, variant))
    os.makedirs(os.path.dirname(exe), exist_ok=True)
    srcp = [s if os.path.isabs(s) else os.path.join(HARNESS, s) for s in srcs]
    with flock("harness-" + name + "-" + variant):
        newest = max([os.path.getmtime(lib)] + [os.path.getmtime(s) for s in srcp] + [_newest_header()]
                     + [os.path.getmtime(os.path.join(HARNESS, f)) for f in os.listdir(HARNESS) if f.endswith((".h", ".hpp"))])
        if not os.path.exists(exe) or os.path.getmtime(exe) < newest:
            cmd = ["g++", "-std=c++14", "-pthread"] + cxx.split() + ["-D" + GUARD, "-DSWIG_SHARED_OBJ", "-DUSE_PHRQ_ALLOC",
                   "-I" + HARNESS] + inc_flags() + (extra or []) + srcp + [lib] + ld.split() + ["-o", exe + ".tmp"]
            rc, out, err = sh(cmd, timeout=900)
            if rc != 0:
                raise BuildError("harness %s failed to compile:\n%s" % (name, (out + err)[-4000:]))
            os.replace(exe + ".tmp", exe)
    return exe


def _newest_header():
    m = 0.0
    for root, _, files in os.walk(os.path.join(REPO, "src")):
        for f in files:
            if f.endswith((".h", ".hpp", ".hxx")):
                m = max(m, os.path.getmtime(os.path.join(root, f)))
    return m


# ----------------------------------------------------------------------------- running PHREEQC inputs

def run_inputs(jobs, timeout_each=30, workers=None, variant="O1"):
    """jobs: list of dicts {id, db (path or name under /repo/database), text, flags (list of str)}.
    Runs harness/runsel on them (cwd = scratch dir, several worker processes), returns {id: result-dict}.
    A job that does not return within its share of the time limit is reported as {"timeout": True}."""
    import concurrent.futures as cf
    exe = build_harness("runsel", ["runsel.cpp"], variant)
    workers = workers or NCPU
    res = {}
    if not jobs:
        return res
    with scratch("runsel") as d:
        for k, j in enumerate(jobs):
            j["_file"] = os.path.join(d, "in%05d.pqi" % k)
            open(j["_file"], "w").write(j["text"])
            j["_db"] = j["db"] if os.path.isabs(j["db"]) else os.path.join(DB, j["db"])
        # group by db so that a worker loads each database rarely
        order = sorted(range(len(jobs)), key=lambda i: (jobs[i]["_db"], i))
        nb = max(1, min(workers * 3, len(jobs)))
        per = (len(order) + nb - 1) // nb
        batches = [order[i:i + per] for i in range(0, len(order), per)]

        def run_batch(bi, idxs):
            out = {}
            todo = list(idxs)
            attempt = 0
            while todo:
                attempt += 1
                wd = os.path.join(d, "w%d_%d" % (bi, attempt))
                os.makedirs(wd, exist_ok=True)
                jf = os.path.join(wd, "jobs.tsv")
                with open(jf, "w") as f:
                    for i in todo:
                        j = jobs[i]
                        f.write("%s\t%s\t%s\t%s\n" % (i, j["_db"], j["_file"], ",".join(j.get("flags", []))))
                rc, so, se = sh([exe, jf], cwd=wd, timeout=timeout_each * len(todo) + 20)
                done = set()
                for line in so.split("\n"):
                    if not line.startswith("{"):
                        continue
                    try:
                        r = json.loads(line)
                    except Exception:
                        continue
                    i = int(r["job"])
                    out[i] = r
                    done.add(i)
                rest = [i for i in todo if i not in done]
                if not rest:
                    break
                # first unfinished job crashed or hung
                bad = rest[0]
                out[bad] = {"job": str(bad), "timeout": rc == 124, "crash": rc != 124, "rc_proc": rc, "stderr": se[-2000:]}
                todo = rest[1:]
            return out

        with cf.ThreadPoolExecutor(max_workers=workers) as ex:
            futs = [ex.submit(run_batch, bi, b) for bi, b in enumerate(batches)]
            for f in futs:
                for i, r in f.result().items():
                    res[jobs[i]["id"]] = r
    return res


def hexf(s):
    """exact double from the harness' C99 hex float text"""
    return float.fromhex(s)


def cell_value(c):
    """JSON cell -> python value (None, float, int, str, ('err', code))"""
    if c is None:
        return None
    if "d" in c:
        return float.fromhex(c["d"])
    if "l" in c:
        return c["l"]
    if "s" in c:
        return c["s"]
    if "e" in c:
        return ("err", c["e"])
    return c


def table_dicts(tab):
    """[[heading cells],[row],...] -> list of {heading: value}"""
    if not tab:
        return []
    heads = [cell_value(c) for c in tab[0]]
    return [dict(zip(heads, [cell_value(c) for c in row])) for row in tab[1:]]


def q_of_float(x):
    """exact rational (num, den) of a finite double"""
    from fractions import Fraction
    fr = Fraction(x)
    return fr.numerator, fr.denominator


def coq_Q(x):
    """Coq term of type Q for the exact value of double x (or of a Fraction / int)"""
    from fractions import Fraction
    fr = Fraction(x)
    return "(%d # %d)" % (fr.numerator, fr.denominator) if fr.numerator >= 0 else "((%d) # %d)" % (fr.numerator, fr.denominator)


# ----------------------------------------------------------------------------- Coq

def coq_project_files():
    files = []
    for root, _, fs in os.walk(COQ):
        for f in fs:
            if f.endswith(".v") and "/Run" not in root and not f.startswith("."):
                files.append(os.path.relpath(os.path.join(root, f), COQ))
    return sorted(files)


def coq_makefile():
    """(Re)generate coq/_CoqProject + Makefile when the set of .v files changed."""
    files = coq_project_files()
    proj = "-Q . IPV\n-arg -w -arg -all\n" + "\n".join(files) + "\n"
    pp = os.path.join(COQ, "_CoqProject")
    old = open(pp).read() if os.path.exists(pp) else ""
    if old != proj or not os.path.exists(os.path.join(COQ, "Makefile")):
        open(pp, "w").write(proj)
        rc, out, err = sh(["coq_makefile", "-f", "_CoqProject", "-o", "Makefile"], cwd=COQ, timeout=120)
        if rc != 0:
            raise BuildError("coq_makefile failed: " + out + err)


def coq_make(targets, timeout=1500, jobs=None):
    """make -k <targets> in coq/ (full .vo build, never -vos). Returns {target: (ok, log)}.
    Each target is a path relative to coq/ ending in .vo."""
    res = {}
    with flock("coq"):
        coq_makefile()
        rc, out, err = sh(["make", "-k", "-j", str(jobs or NCPU)] + list(targets), cwd=COQ, timeout=timeout,
                          env={"TIMED": "", "COQEXTRAFLAGS": ""})
        full = out + "\n" + err
        for t in targets:
            ok = os.path.exists(os.path.join(COQ, t)) and _vo_fresh(t)
            res[t] = (ok, full)
    return res


def _vo_fresh(t):
    vo = os.path.join(COQ, t)
    v = vo[:-1]
    return os.path.exists(v) and os.path.getmtime(vo) >= os.path.getmtime(v) - 1e-6


def coqc_file(path, timeout=600):
    """Compile a single file (used for cases.v evaluation and for Props files whose output we
    want to capture). Returns (rc, stdout+stderr)."""
    rc, out, err = sh(["coqc", "-Q", COQ, "IPV", "-w", "-all", path], cwd=os.path.dirname(path), timeout=timeout)
    return rc, out + err


def coq_eval(vtext, timeout=600, keep=None):
    """Evaluate a generated .v (cases file) in a scratch dir against the compiled project."""
    with scratch("coqrun") as d:
        p = os.path.join(d, "cases.v")
        open(p, "w").write(vtext)
        rc, out = coqc_file(p, timeout)
        if keep:
            shutil.copy(p, keep)
        return rc, out


def write_if_changed(path, text):
    os.makedirs(os.path.dirname(path), exist_ok=True)
    old = open(path).read() if os.path.exists(path) else None
    if old != text:
        open(path, "w").write(text)
        return True
    return False


FORBIDDEN = re.compile(r"\b(Admitted|admit|Axiom|Axioms|Parameter|Parameters|Conjecture|Conjectures)\b|Unset\s+Guard|bypass_check|Admit\s+Obligations|Unset\s+Positivity|Unset\s+Universe\s+Checking|type-in-type|impredicative-set")
SECTION_ONLY = re.compile(r"^\s*(Variable|Variables|Hypothesis|Hypotheses|Context)\b")


def _strip_coq_comments(txt):
    """remove (possibly nested) Coq comments, keeping line structure"""
    out, depth, i, n = [], 0, 0, len(txt)
    while i < n:
        if txt.startswith("(*", i):
            depth += 1
            i += 2
        elif depth and txt.startswith("*)", i):
            depth -= 1
            i += 2
        else:
            if depth == 0 or txt[i] == "\n":
                out.append(txt[i])
            i += 1
    return "".join(out)


def coq_hygiene():
    """No Admitted/Axiom/... anywhere in the development; Variable/Hypothesis only inside a Section."""
    bad = []
    for f in coq_project_files():
        depth = 0
        txt = _strip_coq_comments(open(os.path.join(COQ, f)).read())
        txt = re.sub(r'"[^"\n]*"', '""', txt)
        for n, line in enumerate(txt.split("\n"), 1):
            s = line.strip()
            if re.match(r"Section\s", s):
                depth += 1
            elif re.match(r"End\s", s) and depth > 0:
                depth -= 1
            if FORBIDDEN.search(line) or (SECTION_ONLY.match(line) and depth == 0):
                bad.append("%s:%d: %s" % (f, n, s[:100]))
    return bad


def parse_assumptions(log):
    """Extract the axioms listed by Print Assumptions from a coqc log: returns sorted set of names."""
    ax = set()
    closed = 0
    for block in re.split(r"\n(?=Axioms:|Closed under)", log):
        if block.startswith("Closed under"):
            closed += 1
        if block.startswith("Axioms:"):
            for line in block.split("\n")[1:]:
                m = re.match(r"^([A-Za-z_][\w.']*)\s*:", line)
                if m:
                    ax.add(m.group(1))
                elif line and not line.startswith(" ") and not re.match(r"^[A-Za-z_][\w.']*\s*$", line):
                    break
                elif re.match(r"^[A-Za-z_][\w.']*\s*$", line):
                    ax.add(line.strip())
    return sorted(ax), closed


STDLIB_AXIOM_PREFIXES = (
    "ClassicalDedekindReals.", "FunctionalExtensionality.", "Classical_Prop.", "functional_extensionality",
    "classic", "sig_forall_dec", "sig_not_dec", "Uint63.", "PrimInt63.", "PrimFloat.", "FloatAxioms.", "Eqdep.",
    "JMeq.", "ProofIrrelevance.", "PropExtensionality.", "ClassicalEpsilon.", "ChoiceFacts.", "Sint63.",
    "constructive_indefinite_description", "Coq.", "proof_irrelevance", "propositional_extensionality", "eq_rect_eq",
    "FloatOps.", "SpecFloat.", "Rdefinitions.", "Raxioms.", "CReal", "Float")


def non_std_axioms(axs):
    return [a for a in axs if not a.startswith(STDLIB_AXIOM_PREFIXES)]


# ----------------------------------------------------------------------------- OCaml

def ocaml_build(name, files, cwd):
    """ocamlfind ocamlopt -w -a <files> -o <name> inside cwd. Returns exe path."""
    exe = os.path.join(cwd, name)
    rc, out, err = sh(["ocamlfind", "ocamlopt", "-w", "-a", "-O3"] + files + ["-o", exe], cwd=cwd, timeout=600)
    if rc != 0:
        rc, out, err = sh(["ocamlfind", "ocamlopt", "-w", "-a"] + files + ["-o", exe], cwd=cwd, timeout=600)
    if rc != 0:
        raise BuildError("ocaml build failed: " + out + err)
    return exe


# ----------------------------------------------------------------------------- findings / evidence

def load_findings():
    p = os.path.join(VERIF, "KNOWN_FINDINGS.json")
    if not os.path.exists(p):
        return []
    return json.load(open(p))


def key_of(obj):
    return hashlib.sha256(json.dumps(obj, sort_keys=True).encode()).hexdigest()[:16]


class Ctx:
    def __init__(self, pid, tier="quick", seed=0, replay=None):
        self.id = pid
        self.tier = tier
        self.seed = seed
        self.replay = replay
        self.t0 = time.time()
        self.rng = random.Random(seed * 1000003 + int(hashlib.sha256(pid.encode()).hexdigest()[:8], 16))
        self.obligations = []      # (name, ok, detail)
        self.assumptions = set()
        self.trusted = []
        self.samples = []
        self.evaluations = 0
        self.distinct = set()
        self.rule = ""
        self.extra = {}
        self.violations = []       # (key, what, replay_path, concrete)
        self.known = []
        self.checker_cmd = "make -C /verif/coq -k Props/Properties_%s.vo" % pid
        self.findings = [f for f in load_findings() if f.get("property") == pid]
        self.notes = []

    thorough = property(lambda self: self.tier == "thorough")

    def n(self, quick, thorough):
        return thorough if self.thorough else quick

    # --- proof obligations
    def obligation(self, name, ok, detail=""):
        self.obligations.append((name, bool(ok), detail))
        if not ok:
            log("[%s] OBLIGATION FAILED: %s %s" % (self.id, name, detail[-1500:]))

    def proofs_ok(self):
        return all(ok for _, ok, _ in self.obligations)

    def failed_obligations(self):
        return [n for n, ok, _ in self.obligations if not ok]

    # --- correspondence bookkeeping
    def case(self, fingerprint, sample=None, nontrivial=True):
        self.evaluations += 1
        if nontrivial:
            self.distinct.add(fingerprint if isinstance(fingerprint, str) else key_of(fingerprint))
        if sample is not None and len(self.samples) < 5:
            self.samples.append(sample)

    # --- violations
    def violation(self, key, what, replay_obj, concrete=True):
        """key: canonical identity of the minimised failing case (matched against KNOWN_FINDINGS)."""
        for f in self.findings:
            if f.get("status") == "known" and f.get("key") == key:
                if key not in [k for k, _ in self.known]:
                    self.known.append((key, f.get("what", what)))
                return
        os.makedirs(os.path.join(VERIF, "replays"), exist_ok=True)
        rp = os.path.join(VERIF, "replays", "%s-%s.json" % (self.id, key_of([key, what])))
        replay_obj = dict(replay_obj)
        replay_obj.setdefault("property", self.id)
        replay_obj.setdefault("key", key)
        replay_obj.setdefault("what", what)
        replay_obj.setdefault("seed", self.seed)
        replay_obj.setdefault("how_to_run", "./check %s --replay %s" % (self.id, rp))
        json.dump(replay_obj, open(rp, "w"), indent=1, default=str)
        if len(self.violations) < 50:
            self.violations.append((key, what, rp, concrete))

    def finish(self):
        # A broken proof / correspondence with no concrete failing input is still a violation.
        concrete = [v for v in self.violations if v[3]]
        if not self.proofs_ok() and not concrete and not self.known_covers_obligations():
            names = self.failed_obligations()
            det = {n: d[-3000:] for n, ok, d in self.obligations if not ok}
            self.violation("obligation:" + ",".join(sorted(names)), "proof obligation(s) no longer check: " + ", ".join(names),
                           {"kind": "obligation", "theorem": names, "detail": det}, concrete=False)
        for key, what in self.known:
            print("KNOWN-FINDING: property=%s %s" % (self.id, what))
        seen = set()
        for key, what, rp, conc in self.violations:
            if rp in seen:
                continue
            seen.add(rp)
            print("VIOLATION property=%s replay=%s%s" % (self.id, rp, "" if conc else " no-failing-input-found"))
            log("   -> " + what[:400])
        nobl = len(self.obligations)
        ndis = sum(1 for _, ok, _ in self.obligations if ok)
        ev = {
            "property_id": self.id, "tier": self.tier, "seed": self.seed, "level": "proof",
            "coverage": dict({
                "obligations": nobl, "discharged": ndis, "checker_cmd": self.checker_cmd,
                "trusted_base": sorted(set(self.trusted)) + ["axioms reported by Print Assumptions: " + (", ".join(sorted(self.assumptions)) or "none (closed under the global context)")],
                "obligation_names": [n + ("" if ok else " [FAILED]") for n, ok, _ in self.obligations],
                "evaluations": self.evaluations, "distinct_nontrivial": len(self.distinct),
                "rule": self.rule, "samples": self.samples[:5] or ["(no correspondence cases run)"],
                "known_findings_reported": [w for _, w in self.known],
            }, **self.extra),
            "assumptions": self.notes,
            "wall_s": round(time.time() - self.t0, 2),
            "violations": len(seen),
        }
        # evidence of a run against a scratch tree (VERIF_REPO) must never replace the evidence of /repo itself
        evdir = os.path.join(VERIF, "evidence") if not REPO_TAG else os.path.join(CACHE, "evidence" + REPO_TAG)
        os.makedirs(evdir, exist_ok=True)
        json.dump(ev, open(os.path.join(evdir, self.id + ".json"), "w"), indent=1, default=str)
        return 1 if seen else 0

    def known_covers_obligations(self):
        return False


# ----------------------------------------------------------------------------- generic Coq stage

def _attribute_failures(props_target, src, thms, full):
    """returns {theorem: ok}. Only meaningful when every dependency compiled and the Props file failed."""
    status = {t: False for t in thms}
    rel = props_target[:-1]
    if not re.search(r'File "\./%s", line (\d+)' % re.escape(rel), full):
        return status
    # split the source into blocks starting at each Theorem/Corollary/Lemma
    starts = [m.start() for m in re.finditer(r"^\s*(?:Theorem|Corollary|Lemma)\s+[\w']+", src, flags=re.M)]
    if not starts:
        return status
    header = src[:starts[0]]
    blocks = [src[a:b] for a, b in zip(starts, starts[1:] + [len(src)])]
    names = [re.match(r"\s*(?:Theorem|Corollary|Lemma)\s+([\w']+)", b).group(1) for b in blocks]
    alive = list(range(len(blocks)))
    with scratch("attr") as d:
        for _ in range(len(blocks) + 1):
            txt = header + "".join(blocks[i] for i in alive)
            # Print Assumptions / later references of dropped theorems are removed with their block only if inside it
            for i in set(range(len(blocks))) - set(alive):
                txt = re.sub(r"^\s*Print Assumptions %s\.\s*$" % re.escape(names[i]), "", txt, flags=re.M)
            pth = os.path.join(d, "P.v")
            open(pth, "w").write(txt)
            rc, out = coqc_file(pth, timeout=900)
            if rc == 0:
                for i in alive:
                    status[names[i]] = True
                return status
            m = re.search(r'line (\d+), characters', out)
            if not m:
                return status
            line = int(m.group(1))
            # which alive block contains that line
            pos = len(header.split("\n")) - 1
            hit = None
            for i in alive:
                n = blocks[i].count("\n")
                if pos < line <= pos + n + 1:
                    hit = i
                    break
                pos += n
            if hit is None:
                return status
            alive.remove(hit)
    return status


def coq_stage(ctx, props_target, gen=None, extra_targets=(), timeout=1500):
    """Stage 2+3 of the pipeline: (re)generate Gen files, build Props/<id>.vo with make -k, capture
    Print Assumptions, run the hygiene grep. Records one obligation per Theorem in the Props file
    (all discharged iff the .vo was produced) plus one per extra target."""
    if gen:
        try:
            gen()
            ctx.obligation("translator(" + ctx.id + ")", True)
        except Exception as ex:  # translator refusal = broken tie (section 5)
            ctx.obligation("translator(" + ctx.id + ")", False, repr(ex))
    targets = [props_target] + list(extra_targets)
    # force re-check of the Props file so that Print Assumptions output is captured in this run
    vo = os.path.join(COQ, props_target)
    for ext in ("", "k", "s"):
        with contextlib.suppress(FileNotFoundError):
            os.remove(vo + ext if ext else vo)
    res = coq_make(targets, timeout=timeout)
    ok, full = res[props_target]
    src = open(os.path.join(COQ, props_target[:-1])).read()
    thms = re.findall(r"^\s*(?:Theorem|Corollary|Lemma)\s+([\w']+)", src, flags=re.M)
    failing = set()
    status = {t: ok for t in thms}
    if not ok:
        # which dependency failed? report file names from make's error lines
        for m in re.finditer(r'File "\./([^"]+)", line (\d+)[^\n]*\n(Error[^\n]*(?:\n[^\n]+){0,6})', full):
            failing.add("%s:%s %s" % (m.group(1), m.group(2), m.group(3)[:600]))
        # if the Props file itself is where checking stopped, find out WHICH theorems fail: drop the failing
        # block and re-check the rest (scratch copy; the real file is never edited)
        status = _attribute_failures(props_target, src, thms, full)
    detail = "; ".join(sorted(failing))[:3000] or full[-1500:]
    for t in thms:
        ctx.obligation(t, status.get(t, False), "" if status.get(t, False) else detail)
    for t in extra_targets:
        ctx.obligation(t, res[t][0], "" if res[t][0] else full[-1500:])
    axs, closed = parse_assumptions(full)
    ctx.assumptions.update(axs)
    bad = non_std_axioms(axs)
    ctx.obligation("no_user_axioms(Print Assumptions)", not bad, ", ".join(bad))
    hyg = coq_hygiene()
    ctx.obligation("hygiene(no Admitted/Axiom/Parameter/unguarded)", not hyg, "; ".join(hyg[:10]))
    ctx.trusted += ["Coq 8.16.1 kernel + vm_compute (no native_compute)",
                    "harness/generators/comparison scripts under /verif (python3, C++)",
                    "C++ standard library, compiler, OS modelled as their Gallina counterparts; fp rounding not modelled"]
    return ok
