"""Shared python side of the wrapper-family checks (C04 C05 C07 C08 C09 C13): wdrive driver, script encoding."""
import json, os, subprocess, sys
import vlib


def build_wdrive(variant="O1"):
    gdir = os.path.join(vlib.CACHE, "gen" + vlib.REPO_TAG)
    os.makedirs(gdir, exist_ok=True)
    tmp = os.path.join(gdir, "dispatch.inc.tmp")
    rc, out, err = vlib.sh([sys.executable, os.path.join(vlib.HARNESS, "gen_dispatch.py"), vlib.REPO, tmp], timeout=60)
    if rc != 0:
        raise vlib.BuildError("gen_dispatch failed: " + out + err)
    vlib.write_if_changed(os.path.join(gdir, "dispatch.inc"), open(tmp).read())
    return vlib.build_harness("wdrive", ["wdrive.cpp"], variant, extra=["-I" + gdir])


def esc(s):
    if s is None:
        return "\\NULL"
    o = []
    for ch in s:
        if ch == "\\": o.append("\\\\")
        elif ch == "\n": o.append("\\n")
        elif ch == "\t": o.append("\\t")
        elif ch == "\r": o.append("\\r")
        elif ch == "\0": o.append("\\0")
        else: o.append(ch)
    return "".join(o)


def run_script(exe, ops, cwd, timeout=120, env=None):
    """ops: list of lists (fields). Returns list of result objects (None where the driver died), and raw info."""
    sp = os.path.join(cwd, "script.tsv")
    with open(sp, "w", errors="surrogateescape") as f:
        for op in ops:
            f.write("\t".join(esc(x) if isinstance(x, str) or x is None else str(x) for x in op) + "\n")
    rc, out, err = vlib.sh([exe, sp], cwd=cwd, timeout=timeout, env=env)
    res = [None] * len(ops)
    for line in out.split("\n"):
        if not line.startswith("{\"line\":"):
            continue
        try:
            o = json.loads(line)
        except Exception:
            continue
        res[o["line"] - 1] = o["res"]
    return res, rc, err
