"""Shared python side of the wrapper-family checks (C04 C05 C07 C08 C09 C13): wdrive driver, script encoding."""
import json, os, subprocess, sys
import vlib


def build_wdrive(variant="O1"):
    gdir = os.path.join(vlib.CACHE, "gen" + vlib.REPO_TAG)
    os.makedirs(gdir, exist_ok=True)
    tmp = os.path.join(gdir, "dispatch.inc.tmp")
    rc, out, err = vlib.sh([sys.executable, os.path.join(vlib.HARNESS, "gen_dispatch.py"), vlib.REPO, tmp], timeout=60)
    if rc != 0:
        raise vlib.BuildError("gen_dispatch failed: " + out + err)
    vlib.write_if_changed(os.path.join(gdir, "dispatch.inc"), open(tmp).read())
    return vlib.build_harness("wdrive", ["wdrive.cpp"], variant, extra=["-I" + gdir])


def esc(s):
    if s is None:
        return "\\NULL"
    o = []
    for ch in s:
        if ch == "\\": o.append("\\\\")
        elif ch == "\n": o.append("\\n")
        elif ch == "\t": o.append("\\t")
        elif ch == "\r": o.append("\\r")
        elif ch == "\0": o.append("\\0")
        else: o.append(ch)
    return "".join(o)


def run_script(exe, ops, cwd, timeout=120, env=None):
    """ops: list of lists (fields). Returns list of result objects (None where the driver died), and raw info."""
    sp = os.path.join(cwd, "script.tsv")
    with open(sp, "w", errors="surrogateescape") as f:
        for op in ops:
            f.write(("\t".join(esc(x) if isinstance(x, str) or x is None else str(x) for x in op) if len(op) > 1 or op[0] not in ("resume", "iffail_skip") else op[0]) + "\n")
    rc, out, err = vlib.sh([exe, sp], cwd=cwd, timeout=timeout, env=env)
    res = [None] * len(ops)
    for line in out.split("\n"):
        if not line.startswith("{\"line\":"):
            continue
        try:
            o = json.loads(line)
        except Exception:
            continue
        res[o["line"] - 1] = o["res"]
    return res, rc, err


# ----------------------------------------------------------------------------- extracted model driver

def build_model_driver():
    """Extract the wrapper models from the compiled Coq development and build ocaml/wrapper_driver.ml."""
    odir = os.path.join(vlib.CACHE, "ocaml")
    os.makedirs(odir, exist_ok=True)
    exe = os.path.join(odir, "wrapper_driver")
    srcs = [os.path.join(vlib.COQ, "Wrapper", f) for f in ("SelOut.v", "Route.v", "Lines.v", "Extract.v")] + [os.path.join(vlib.VERIF, "ocaml", "wrapper_driver.ml")]
    with vlib.flock("ocaml-wrapper"):
        if os.path.exists(exe) and os.path.getmtime(exe) >= max(os.path.getmtime(s) for s in srcs):
            return exe
        res = vlib.coq_make(["Wrapper/SelOut.vo", "Wrapper/Route.vo", "Wrapper/Lines.vo"], timeout=600)
        for t, (ok, log) in res.items():
            if not ok:
                raise vlib.BuildError("model does not compile: " + t + "\n" + log[-2000:])
        rc, out = vlib.sh(["coqc", "-Q", vlib.COQ, "IPV", "-w", "-all", os.path.join(vlib.COQ, "Wrapper", "Extract.v")], cwd=odir, timeout=300)[0:2]
        if rc != 0:
            raise vlib.BuildError("extraction failed: " + out)
        import shutil
        shutil.copy(os.path.join(vlib.VERIF, "ocaml", "wrapper_driver.ml"), odir)
        rc, out, err = vlib.sh(["ocamlfind", "ocamlopt", "-w", "-a", "wrapper_model.mli", "wrapper_model.ml", "wrapper_driver.ml", "-o", "wrapper_driver.tmp"], cwd=odir, timeout=300)
        if rc != 0:
            raise vlib.BuildError("ocaml build failed: " + out + err)
        os.replace(os.path.join(odir, "wrapper_driver.tmp"), exe)
    return exe


def hexs(s):
    return s.encode("latin-1", "replace").hex()


def cell_code(c):
    """JSON cell (harness) -> model cell code"""
    import struct
    if c is None:
        return "e"
    if "l" in c:
        return "l%d" % c["l"]
    if "d" in c:
        x = float.fromhex(c["d"]) if c["d"] not in ("nan", "-nan", "inf", "-inf") else float(c["d"].replace("-nan", "nan"))
        return "d%d" % struct.unpack("<Q", struct.pack("<d", x))[0]
    if "s" in c:
        return "s" + hexs(c["s"])
    if "e" in c:
        return "x%d" % c["e"]
    raise ValueError(c)


class Chunks:
    """chunk table: text <-> positive id; -1 = "Stopping.\\n"; add_nl c = -c-2"""
    def __init__(self):
        self.ids = {}
        self.texts = [None]
    def id(self, text):
        if text not in self.ids:
            self.ids[text] = len(self.texts)
            self.texts.append(text)
        return self.ids[text]
    def text(self, i):
        if i == -1:
            return "Stopping.\n"
        if i < -1:
            return self.texts[-i - 2] + "\n"
        return self.texts[i]
    def join(self, ids):
        return "".join(self.text(i) for i in ids)


def route_script(sw, self_on, selstr_on, events, uns, ch):
    """model input lines for one run: switches, events; returns list of lines"""
    L = ["SW\t" + "\t".join(str(int(bool(sw[k]))) for k in ("OutputFileOn", "OutputStringOn", "LogFileOn", "LogStringOn", "ErrorFileOn", "ErrorStringOn", "ErrorOn", "WarningStringOn"))]
    for n, b in self_on.items():
        L.append("SELF\t%d\t%d" % (n, int(b)))
    for n, b in selstr_on.items():
        L.append("SELS\t%d\t%d" % (n, int(b)))
    for e in events:
        k = e["k"]
        if k == "out":
            L.append("out\t%d\t%d" % (e["on"], ch.id(e["s"])))
        elif k == "log":
            L.append("log\t%d\t%d" % (e["on"], ch.id(e["s"])))
        elif k == "err":
            L.append("err\t%d\t%d\t%d\t%d" % (ch.id(e["s"]), e["stop"], e["oon"], e["lon"]))
        elif k == "warn":
            L.append("warn\t%d\t%d\t%d" % (ch.id(e["s"]), e["oon"], e["lon"]))
        elif k == "pmsg":
            L.append("pmsg\t%d\t%d\t%d\t%d" % (e["n"], e["on"], e["f"], ch.id(e["s"])))
        elif k == "pval":
            L.append("pval\t%d\t%d\t%d\t%s\t%s\t%d" % (e["n"], e["on"], e["f"], hexs(e["name"]), cell_code(e["v"]), ch.id(e["text"])))
        elif k == "endrow":
            L.append("endrow\t%d" % e["n"] + "".join("\t" + hexs(h) for h in e["pending"]))
        elif k == "newtable":
            L.append("newtable\t%d" % e["n"])
        elif k == "popen":
            L.append("popen\t%d\t%d" % (e["n"], e["fon"]))
    L.append("RUN" + "".join("\t%d" % n for n in uns))
    return L


def parse_route_output(lines, ch):
    """-> dict sink -> text, 'sel_s'/'sel_f' -> {n: text}, 'table' -> {n: (R, C, [cells])}"""
    r = {"sel_s": {}, "sel_f": {}, "table": {}}
    for ln in lines:
        if ln == "END":
            break
        f = ln.split("\t")
        head = f[0].split(" ")
        if head[0] in ("out_s", "out_f", "log_s", "log_f", "err_s", "err_f", "warn_s"):
            r[head[0]] = ch.join(int(x) for x in head[1:])
        elif head[0] in ("sel_s", "sel_f"):
            r[head[0]][int(head[1])] = ch.join(int(x) for x in head[2:])
        elif head[0] == "table":
            r["table"][int(head[1])] = (int(head[3]), int(head[4]), f[1:])
    return r


def table_codes(tab):
    """harness table (list of rows of JSON cells) -> (R, C, [codes])"""
    R = len(tab)
    C = len(tab[0]) if tab else 0
    return (R, C, [cell_code(c) for row in tab for c in row])
