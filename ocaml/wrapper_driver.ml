(* Driver for the extracted wrapper models. Reads one command per line on stdin (tab separated),
   prints one result line per query. Z is kept as the extracted inductive type. *)
open Wrapper_model

let rec pos_of_int n = if n = 1 then XH else if n land 1 = 0 then XO (pos_of_int (n lsr 1)) else XI (pos_of_int (n lsr 1))
let z_of_int n = if n = 0 then Z0 else if n > 0 then Zpos (pos_of_int n) else Zneg (pos_of_int (-n))
let rec int_of_pos = function XH -> 1 | XO p -> 2 * int_of_pos p | XI p -> 2 * int_of_pos p + 1
let int_of_z = function Z0 -> 0 | Zpos p -> int_of_pos p | Zneg p -> - (int_of_pos p)
(* arbitrary precision decimal -> Z via string arithmetic: use Int64 halves (values fit in 64 bits unsigned) *)
let z_of_string s =
  let neg = String.length s > 0 && s.[0] = '-' in
  let s = if neg then String.sub s 1 (String.length s - 1) else s in
  (* build positive by Horner in Coq's Z *)
  let ten = z_of_int 10 in
  let acc = ref Z0 in
  String.iter (fun c -> acc := Z.add (Z.mul !acc ten) (z_of_int (Char.code c - 48))) s;
  if neg then Z.opp !acc else !acc
let rec string_of_pos p = (* decimal rendering through repeated division is slow; use Int64 when it fits *)
  let rec go p (acc : Int64.t) (w : Int64.t) = match p with
    | XH -> Int64.add acc w
    | XO q -> go q acc (Int64.mul w 2L)
    | XI q -> go q (Int64.add acc w) (Int64.mul w 2L) in
  Printf.sprintf "%Lu" (go p 0L 1L)
let string_of_z = function Z0 -> "0" | Zpos p -> string_of_pos p | Zneg p -> "-" ^ string_of_pos p

let explode s = List.init (String.length s) (String.get s)
let implode l = String.init (List.length l) (List.nth l)
let implode l = let b = Buffer.create 64 in List.iter (Buffer.add_char b) l; Buffer.contents b
let unhex h = String.init (String.length h / 2) (fun i -> Char.chr (int_of_string ("0x" ^ String.sub h (2 * i) 2)))
let hex s = String.concat "" (List.map (fun c -> Printf.sprintf "%02x" (Char.code c)) (explode s))
let rec nat_of_int n = if n = 0 then O else S (nat_of_int (n - 1))

let cell_of_string s =
  if s = "e" then CEmpty else
  let body = String.sub s 1 (String.length s - 1) in
  match s.[0] with
  | 'l' -> CLong (z_of_string body)
  | 'd' -> CDbl (z_of_string body)
  | 's' -> CStr (explode (unhex body))
  | 'x' -> CErr (z_of_string body)
  | _ -> failwith "cell"
let string_of_cell = function
  | CEmpty -> "e" | CLong z -> "l" ^ string_of_z z | CDbl z -> "d" ^ string_of_z z
  | CStr s -> "s" ^ hex (implode s) | CErr z -> "x" ^ string_of_z z

let split_tab s = String.split_on_char '\t' s
let bool_of s = s = "1"

let print_table t =
  let r = int_of_z (row_count t) and c = int_of_z (col_count t) in
  Printf.printf "T %d %d" r c;
  for i = 0 to r - 1 do
    for j = 0 to c - 1 do
      let (_, v) = get t (z_of_int i) (z_of_int j) in
      Printf.printf "\t%s" (string_of_cell v)
    done
  done;
  print_newline ()

let () =
  let so = ref so_init in
  (* route mode state *)
  let sw_flags = Array.make 8 false in
  let self_on : (int, bool) Hashtbl.t = Hashtbl.create 7 and selstr_on : (int, bool) Hashtbl.t = Hashtbl.create 7 in
  let evs = ref [] in
  (try
    while true do
      let line = input_line stdin in
      match split_tab line with
      | ["NEW"] -> so := so_init
      | ["P"; key; v] -> so := step !so (OPush (explode (unhex key), cell_of_string v))
      | ["E"] -> so := step !so OEndRow
      | ["C"] -> so := step !so OClear
      | ["G"; r; c] -> let (rc, v) = get !so (z_of_string r) (z_of_string c) in Printf.printf "G %s %s\n" (string_of_z rc) (string_of_cell v)
      | ["R"] -> Printf.printf "R %s %s\n" (string_of_z (row_count !so)) (string_of_z (col_count !so))
      | ["T"] -> print_table !so
      (* ---- route mode ---- *)
      | "SW" :: fl -> List.iteri (fun i f -> sw_flags.(i) <- bool_of f) fl; Hashtbl.reset self_on; Hashtbl.reset selstr_on; evs := []
      | ["SELF"; n; b] -> Hashtbl.replace self_on (int_of_string n) (bool_of b)
      | ["SELS"; n; b] -> Hashtbl.replace selstr_on (int_of_string n) (bool_of b)
      | ["out"; on; c] -> evs := EOut (bool_of on, z_of_int (int_of_string c)) :: !evs
      | ["log"; on; c] -> evs := ELog (bool_of on, z_of_int (int_of_string c)) :: !evs
      | ["err"; c; stop; oon; lon] -> evs := EErr (z_of_int (int_of_string c), bool_of stop, bool_of oon, bool_of lon) :: !evs
      | ["warn"; c; oon; lon] -> evs := EWarn (z_of_int (int_of_string c), bool_of oon, bool_of lon) :: !evs
      | ["pmsg"; n; on; f; c] -> evs := EPunchMsg (z_of_int (int_of_string n), bool_of on, bool_of f, z_of_int (int_of_string c)) :: !evs
      | ["pval"; n; on; f; name; v; c] ->
          evs := EPunchVal (z_of_int (int_of_string n), bool_of on, bool_of f, explode (unhex name), cell_of_string v, z_of_int (int_of_string c)) :: !evs
      | "endrow" :: n :: pending -> evs := EEndRow (z_of_int (int_of_string n), List.map (fun h -> explode (unhex h)) pending) :: !evs
      | ["popen"; n; b] -> evs := EPunchOpen (z_of_int (int_of_string n), bool_of b) :: !evs
      | ["newtable"; n] -> evs := ENewTable (z_of_int (int_of_string n)) :: !evs
      | "RUN" :: uns ->
          let lookup tbl = fun z -> (try Hashtbl.find tbl (int_of_z z) with Not_found -> false) in
          let sw = { outputFileOn = sw_flags.(0); outputStringOn = sw_flags.(1); logFileOn = sw_flags.(2); logStringOn = sw_flags.(3);
                     errorFileOn = sw_flags.(4); errorStringOn = sw_flags.(5); errorOn = sw_flags.(6); warningStringOn = sw_flags.(7);
                     selFileOn = lookup self_on; selStringOn = lookup selstr_on } in
          let stopping = z_of_int (-1) in
          let add_nl c = Z.sub (Z.opp c) (z_of_int 2) in
          let k = consume stopping add_nl sw (List.rev !evs) in
          let pl name l = Printf.printf "%s" name; List.iter (fun c -> Printf.printf " %d" (int_of_z c)) l; print_newline () in
          pl "out_s" k.out_s; pl "out_f" k.out_f; pl "log_s" k.log_s; pl "log_f" k.log_f; pl "err_s" k.err_s; pl "err_f" k.err_f; pl "warn_s" k.warn_s;
          List.iter (fun n -> let z = z_of_int (int_of_string n) in
            pl ("sel_s " ^ n) (sel_string k z); pl ("sel_f " ^ n) (sel_file k z);
            Printf.printf "table %s " n; print_table (table_of k z)) uns;
          print_endline "END"
      (* ---- lines mode ---- *)
      | ["LINES"; h] -> let ls = split_lines (explode (unhex h)) in
          Printf.printf "L %d" (List.length ls); List.iter (fun l -> Printf.printf "\t%s" (hex (implode l))) ls; print_newline ()
      | ["LINE"; h; n] -> Printf.printf "l %s\n" (hex (implode (get_line (explode (unhex h)) (z_of_string n))))
      | _ -> Printf.printf "? %s\n" line
    done
  with End_of_file -> ())
