#!/bin/bash
# tools/coqchk.sh: re-check every compiled Props file (and everything it depends on) with Coq's independent checker and list
# the axioms the whole development relies on. Needs a completed ./check --setup. Output: notes/coqchk.txt
cd "$(dirname "$0")/../coq" || exit 2
mods=$(ls Props/Properties_C*.vo 2>/dev/null | sed 's|Props/\(.*\)\.vo|IPV.Props.\1|')
[ -z "$mods" ] && { echo "no compiled Props files"; exit 2; }
out=../notes/coqchk.txt
{ echo "coqchk -o -silent -Q . IPV $mods"; echo "coq $(coqc --version | head -1)"; date -u; } > $out
for m in $mods; do
  echo "== $m" >> $out
  timeout 3600 coqchk -o -silent -Q . IPV $m >> $out 2>&1
  echo "exit=$?" >> $out
done
grep -c 'exit=0' $out
