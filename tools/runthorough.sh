#!/bin/bash
# usage: tools/runthorough.sh id...  (thorough tier, seed 0)
for id in "$@"; do
  s=$(date +%s)
  ./check $id --tier thorough > /tmp/thorough_$id.log 2>&1
  rc=$?
  e=$(date +%s)
  echo "$id exit=$rc t=$((e-s))s viol=$(grep -c '^VIOLATION' /tmp/thorough_$id.log) known=$(grep -c '^KNOWN' /tmp/thorough_$id.log)"
done
