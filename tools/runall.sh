#!/bin/bash
# usage: tools/runall.sh <seed> id...   -> one line per check: id exit seconds
seed=$1; shift
for id in "$@"; do
  s=$(date +%s)
  VERIF_SEED=$seed ./check $id > /tmp/runall_$id.log 2>&1
  rc=$?
  e=$(date +%s)
  echo "$id exit=$rc t=$((e-s))s viol=$(grep -c '^VIOLATION' /tmp/runall_$id.log) known=$(grep -c '^KNOWN' /tmp/runall_$id.log)"
done
