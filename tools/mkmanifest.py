#!/usr/bin/env python3
"""Assemble MANIFEST.json. A property is claimed iff props/cXX.py exists AND it is listed in CLAIMS below."""
import json, os, sys
V = os.path.dirname(os.path.dirname(os.path.abspath(__file__)))
ids = [json.loads(l)["id"] for l in open(os.path.join(V, "properties.jsonl"))]
CLAIMS = json.load(open(os.path.join(V, "tools", "claims.json")))
checks, na = [], []
for i in ids:
    c = CLAIMS.get(i)
    if c and os.path.exists(os.path.join(V, "props", i.lower() + ".py")):
        checks.append({
            "property_id": i,
            "quick_cmd": "./check %s --tier quick" % i,
            "thorough_cmd": "./check %s --tier thorough" % i,
            "evidence_file": "/verif/evidence/%s.json" % i,
            "replay_cmd_template": "./check %s --replay {path}" % i,
            "engine": c.get("engine", "coq+harness"),
            "level_claimed": {"category": "proof", "text": c["text"], "design_ref": "DESIGN.md section 7, %s" % i},
            "level_note": c["note"],
            "technique": c["technique"],
        })
    else:
        na.append({"property_id": i, "reason": (c or {}).get("na", "check not yet built in this session (no claim made)")})
m = {
    "version": 1,
    "setup_cmd": "./check --setup",
    "hooks": {"guard": "IPHREEQC_VERIF",
              "enable": "no source hooks are needed: checks build /repo's working tree out of tree (cmake+ninja, -DIPHREEQC_VERIF on the command line) into /verif/.cache/build-* and observe through a harness subclass of IPhreeqc",
              "baseline_off_cmd": "cmake --build /repo/_build -j16 && ctest --test-dir /repo/_build -j1 --timeout 900",
              "source_commits": [], "add_only": True},
    "engines": [
        {"name": "coq", "path": "/verif/coq", "serves_properties": [c["property_id"] for c in checks], "kind_free_text": "Coq 8.16.1 development: executable models, specifications, theorems (Props/Properties_<id>.v), generated Gen/ files regenerated from /repo on every run"},
        {"name": "harness", "path": "/verif/harness", "serves_properties": [c["property_id"] for c in checks], "kind_free_text": "C++ drivers linked against a fresh build of /repo's working tree; python generators/comparators in /verif/props and /verif/lib; extracted OCaml model drivers in /verif/ocaml"},
    ],
    "checks": checks,
    "not_applicable": na,
    "notes": "Technique: machine-checked proof in Coq 8.16.1 about executable models tied to /repo on every run (regenerated Gen/*.v and/or model-vs-implementation correspondence). See DESIGN.md. fix: commits in /repo and recorded findings are listed in KNOWN_FINDINGS.json.",
}
json.dump(m, open(os.path.join(V, "MANIFEST.json"), "w"), indent=1)
print("claimed:", [c["property_id"] for c in checks])
