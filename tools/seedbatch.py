#!/usr/bin/env python3
"""tools/seedbatch.py <id>:<seedout-dir>[:check,check...] ...  — run tools/seedtest.py for several delivered changes on three scratch-worktree
slots in parallel, remove the seed authors' worktrees afterwards, print one line per change."""
import concurrent.futures as cf, os, queue, re, subprocess, sys
V = os.path.dirname(os.path.dirname(os.path.abspath(__file__)))
slots = queue.Queue()
for s in ("/tmp/wt-seedtest", "/tmp/wt-seedtest2", "/tmp/wt-seedtest3"):
    slots.put(s)


def one(item):
    parts = item.split(":")
    pid, src = parts[0], parts[1]
    checks = parts[2].split(",") if len(parts) > 2 else []
    slot = slots.get()
    try:
        p = subprocess.run([sys.executable, os.path.join(V, "tools", "seedtest.py"), pid, src] + checks, cwd=V, env=dict(os.environ, SEEDTEST_WT=slot),
                           stdout=subprocess.PIPE, stderr=subprocess.STDOUT, text=True)
    finally:
        slots.put(slot)
    m = re.search(r"seedout(\d*)-(C\d\d)", src)
    if m:
        wt = "/tmp/seedwt%s-%s" % (m.group(1), m.group(2))
        if os.path.isdir(wt):
            subprocess.run(["git", "-C", "/repo", "worktree", "remove", "--force", wt], stdout=subprocess.DEVNULL, stderr=subprocess.DEVNULL)
            subprocess.run(["rm", "-rf", wt])
    return item, p.stdout


with cf.ThreadPoolExecutor(max_workers=3) as ex:
    for item, out in ex.map(one, sys.argv[1:]):
        print("=====", item)
        print("\n".join(l[:320] for l in out.strip().split("\n")[:7]))
