#!/usr/bin/env python3
"""tools/seedtest.py <id> <seedout-dir> [check ids...]: apply an independently written breaking change to a scratch worktree of /repo's HEAD,
run the given checks (default: the property's own) against it through VERIF_REPO, store the change under seeded/<id>/ with the result."""
import json, os, shutil, subprocess, sys, time
V = os.path.dirname(os.path.dirname(os.path.abspath(__file__)))
pid, src = sys.argv[1], sys.argv[2]
checks = sys.argv[3:] or [pid]
wt = os.environ.get("SEEDTEST_WT", "/tmp/wt-seedtest")
if not os.path.exists(wt):
    subprocess.run(["git", "-C", "/repo", "worktree", "add", "-q", "--detach", wt, "HEAD"], check=True)
subprocess.run(["git", "-C", wt, "checkout", "-q", "--", "."], check=True)
head = subprocess.run(["git", "-C", "/repo", "rev-parse", "HEAD"], stdout=subprocess.PIPE, text=True).stdout.strip()
subprocess.run(["git", "-C", wt, "checkout", "-q", "--detach", head], check=True)
r = subprocess.run(["git", "-C", wt, "apply", os.path.join(src, "patch.diff")], stderr=subprocess.PIPE, text=True)
if r.returncode != 0:
    print("patch does not apply:", r.stderr)
    sys.exit(2)
results = {}
for c in checks:
    t = time.time()
    p = subprocess.run(["./check", c], cwd=V, env=dict(os.environ, VERIF_REPO=wt), stdout=subprocess.PIPE, stderr=subprocess.PIPE, text=True)
    vio = [l for l in p.stdout.split("\n") if l.startswith("VIOLATION")]
    det = [l.strip() for l in p.stderr.split("\n") if l.strip().startswith("->") or "OBLIGATION FAILED" in l]
    results[c] = {"exit": p.returncode, "violations": vio[:6], "detail": det[:6], "seconds": round(time.time() - t)}
    print(c, "exit", p.returncode, "violations", len(vio))
    for d in det[:4]:
        print("   ", d[:260])
subprocess.run(["git", "-C", wt, "checkout", "-q", "--", "."], check=True)
recheck = os.path.abspath(src).startswith(os.path.join(V, "seeded") + os.sep)
if recheck:
    dst = os.path.abspath(src)          # re-run of a stored change: update its meta in place
else:
    dst = os.path.join(V, "seeded", pid)
    k = 0
    while os.path.exists(os.path.join(dst, "patch.diff")):
        k += 1
        dst = os.path.join(V, "seeded", pid + "-" + "bcdefgh"[k - 1])
os.makedirs(dst, exist_ok=True)
for f in ([] if recheck else os.listdir(src)):
    fp = os.path.join(src, f)
    if os.path.isfile(fp) and os.path.getsize(fp) < 400000 and not f.endswith((".a", ".o")):
        shutil.copy(fp, dst)
meta = json.load(open(os.path.join(dst, "meta.json")))
meta["breaks_property"] = pid
meta.setdefault("history_of_runs", []).append(meta.get("checks_run_against_it")) if recheck and meta.get("checks_run_against_it") else None
meta["checks_run_against_it"] = results
meta["caught"] = any(v["exit"] == 1 for v in results.values())
meta["concrete_input_found"] = any(v["exit"] == 1 and any("no-failing-input-found" not in x for x in v["violations"]) for v in results.values())
meta["verified_by_integrator"] = "patch applied to a scratch worktree of /repo HEAD %s; checks run with VERIF_REPO; see checks_run_against_it" % head[:8]
json.dump(meta, open(os.path.join(dst, "meta.json"), "w"), indent=1)
print("stored in", dst, "caught =", meta["caught"])
