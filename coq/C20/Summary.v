(* C20 — statements grouped per code region (so that Props/Properties_C20.v needs few, expensive, Print Assumptions);
   every lemma here is a plain conjunction of lemmas proved in ResidualProofs.v / Guards.v / Checker.v. *)
From Coq Require Import Reals ZArith QArith Qreals Qabs List String.
From IPV Require Import Base.RExpr Base.IntervalEval C20.Spec C20.ResidualProofs C20.Guards C20.Checker Gen.Gen_C20_surface.
Import ListNotations.
Local Open Scope R_scope.

Lemma ddl_residual_is_gouy_chapman_all :
  forall la mu eps tk f A g, 0 <= mu -> 0 <= eps -> 0 < tk -> A * g <> 0 ->
  let L := ln 10 in
  let psi := evalR (env_of [la; L; tk]) edl_psi in
  let sigma := evalR (env_of [f; A; g]) edl_sigma in
  evalR (env_of [la; L; mu; eps; tk; f; A; g]) ddl_res = 0 <-> sigma = gouy_chapman eps tk mu psi.
Proof. exact (ResidualProofs.ddl_residual_is_gouy_chapman). Qed.

Lemma ccm_residual_is_C_psi_all :
  forall la tk C f A g, A * g <> 0 ->
  let L := ln 10 in
  let psi := evalR (env_of [la; L; tk]) edl_psi in
  let sigma := evalR (env_of [f; A; g]) edl_sigma in
  evalR (env_of [la; L; tk; C; f; A; g]) ccm_res = 0 <-> sigma = ccm_sigma C psi.
Proof. exact (ResidualProofs.ccm_residual_is_C_psi). Qed.

Lemma edl_readouts_all :
  forall la tk q A g, A * g <> 0 ->
  let L := ln 10 in
  evalR (env_of [la; L; tk]) edl_psi = 2 * R_J * tk * L * la / F_C /\
  evalR (env_of [q; A; g]) edl_sigma = F_C * q / (A * g) /\
  (evalR (env_of [q]) edl_charge = q /\ evalR (env_of [q]) edl_sigma_charge_nodl = q) /\
  (evalR (env_of [la; L; tk]) cd_psi0 = - R_J * tk * L * la / F_C /\
   evalR (env_of [la; L; tk]) cd_psi1 = - R_J * tk * L * la / F_C /\
   evalR (env_of [la; L; tk]) cd_psi2 = - R_J * tk * L * la / F_C /\
   evalR (env_of [la; L; tk]) edl_psi_cd = - R_J * tk * L * la / F_C /\
   evalR (env_of [la; L; tk]) edl_psi1_cd = - R_J * tk * L * la / F_C /\
   evalR (env_of [la; L; tk]) edl_psi2_cd = - R_J * tk * L * la / F_C) /\
  evalR (env_of []) c20_LOG_10 = L /\
  (evalR (env_of [q]) ddl_res_dl = - q /\ evalR (env_of [q]) ccm_res_dl = - q /\ evalR (env_of []) ddl_res_nograms = 0).
Proof. exact (fun la tk q A g H => let '(conj a (conj b (conj c (conj d e)))) := Guards.edl_readouts_all la tk q A g H in conj a (conj b (conj c (conj d (conj e (ddl_res_dl_form q)))))). Qed.

Lemma cd_music_planes_0_1_all :
  forall s0 s1 C1 C2 psi0 psi1 psi2 f s A g, A * g <> 0 ->
  ((evalR (env_of [s0; C1; psi0; psi1]) cd_res0 = 0 <-> s0 = cd_plane0 C1 psi0 psi1) /\
   (evalR (env_of [s0; s1; C2; psi1; psi2]) cd_res1 = 0 <-> s0 + s1 = cd_plane1 C2 psi1 psi2)) /\
  (evalR (env_of [f; s; A; g]) cd_sigma0 = F_C * (f + s) / (A * g) /\
   evalR (env_of [f; A; g]) cd_sigma1 = F_C * f / (A * g) /\
   evalR (env_of [f; A; g]) cd_sigma2 = F_C * f / (A * g)) /\
  evalR (env_of [f; s0; s1; A; g]) cd_res2_dl = f + (s0 + s1) * (A * g) / F_C /\
  evalR (env_of [s0; A; g]) edl_charge_cd = s0 * (A * g) / F_C /\
  (evalR (env_of [s]) edl_sigma_cd = s /\ evalR (env_of [s]) edl_sigma1_cd = s /\ evalR (env_of [s]) edl_sigma2_cd = s).
Proof. exact (fun s0 s1 C1 C2 psi0 psi1 psi2 f s A g H => conj (ResidualProofs.cd_music_plane_relations s0 s1 C1 C2 psi0 psi1 psi2) (conj (cd_sigma_forms f s A g H) (conj (cd_res2_dl_form f s0 s1 A g) (conj (edl_charge_cd_form s0 A g) (edl_sigma_cd_form s))))). Qed.

Lemma cd_music_plane2_is_grahame_all :
  (forall eps tk ions psi2 s0 s1 s2, 0 <= eps -> 0 < tk -> psi2 <> 0 ->
    let y := - F_C * psi2 / (R_J * tk) in
    let sum := code_gsum_total ions y in
    0 <= sum ->
    let sd := if Rlt_dec y 0 then evalR (env_of [sum; eps; tk]) cd_sigmaddl_neg else evalR (env_of [sum; eps; tk]) cd_sigmaddl_pos in
    evalR (env_of [s0; s1; s2; sd]) cd_res2 = 0 <-> s0 + s1 + s2 = grahame eps tk (spec_balancing_ion ions :: ions) psi2) /\
  (forall la tk, 0 < tk ->
    evalR (env_of [la; ln 10]) cd_negfpsirt = - F_C * evalR (env_of [la; ln 10; tk]) edl_psi2_cd / (R_J * tk)).
Proof. exact (conj Guards.cd_music_plane2_is_grahame Guards.cd_negfpsirt_form). Qed.

Lemma spec_consistency_all :
  (forall eps tk m psi, 0 <= eps -> 0 < tk -> 0 <= m -> grahame eps tk [(m, 1); (m, -1)] psi = gouy_chapman eps tk m psi) /\
  (forall tk d0 p0 d1 p1 d2 p2,
    boltzmann 1 tk (d0 * p0 + d1 * p1 + d2 * p2) = boltzmann d0 tk p0 * boltzmann d1 tk p1 * boltzmann d2 tk p2) /\
  (forall zr zi tk psi : R, zr <> 0 -> Rpower (boltzmann zr tk psi) (zi / zr) = boltzmann zi tk psi).
Proof. exact (conj Guards.grahame_symmetric_is_gouy_chapman (conj Guards.boltzmann_planes Checker.donnan_boltzmann_power)). Qed.

Lemma surface_mass_action_has_boltzmann_term_all :
  (forall la tk dz, 0 < tk ->
    (let psi := evalR (env_of [la; ln 10; tk]) edl_psi in
     Rpower 10 (evalR (env_of [dz]) pot_coef * la) = boltzmann dz tk psi) /\
    (let psi := evalR (env_of [la; ln 10; tk]) edl_psi_cd in
     Rpower 10 (evalR (env_of [dz]) cd_pot_coef0 * la) = boltzmann dz tk psi /\
     Rpower 10 (evalR (env_of [dz]) cd_pot_coef1 * la) = boltzmann dz tk psi /\
     Rpower 10 (evalR (env_of [dz]) cd_pot_coef2 * la) = boltzmann dz tk psi)) /\
  ((forall z c, evalR (env_of [z; c]) pot_sum_z_term = z * c) /\
   pot_sum_z_guard = [("trxn.token[i].s->type == " ++ (if Z.eqb species_type_AQ 0 then "0" else "?") ++ " || trxn.token[i].s == s_hplus || trxn.token[i].s == s_eminus")%string]).
Proof. exact (conj Guards.mass_action_boltzmann_all Guards.pot_sum_z_shape). Qed.

Lemma surface_activity_and_site_row_all :
  (forall lm equiv sites, 0 < equiv -> 0 < sites ->
    Rpower 10 (lm + evalR (env_of [equiv; sites]) surf_lg) = Rpower 10 lm * (equiv / sites)) /\
  (forall sites f, evalR (env_of [sites; f]) surf_res = 0 <-> f = sites).
Proof. exact (conj ResidualProofs.surface_activity_is_site_fraction ResidualProofs.site_balance_row). Qed.

Lemma ok_implies_laws_partial_all :
  (forall la mu eps tk f A g minrel toler, 0 <= mu -> 0 <= eps -> 0 < tk -> A * g <> 0 -> g > minrel ->
    let L := ln 10 in
    let psi := evalR (env_of [la; L; tk]) edl_psi in
    let sigma := evalR (env_of [f; A; g]) edl_sigma in
    ~ charge_row_fails g minrel (evalR (env_of [la; L; mu; eps; tk; f; A; g]) ddl_res) toler ->
    Rabs (sigma - gouy_chapman eps tk mu psi) <= toler) /\
  (forall la tk C f A g minrel toler, A * g <> 0 -> g > minrel ->
    let L := ln 10 in
    let psi := evalR (env_of [la; L; tk]) edl_psi in
    let sigma := evalR (env_of [f; A; g]) edl_sigma in
    ~ charge_row_fails g minrel (evalR (env_of [la; L; tk; C; f; A; g]) ccm_res) toler ->
    Rabs (sigma - ccm_sigma C psi) <= toler) /\
  (forall f g minrel toler, g > minrel ->
    ~ charge_row_fails g minrel (evalR (env_of [f]) ddl_res_dl) toler -> Rabs f <= toler) /\
  (forall moles f minrel toler ineq_tol, moles > minrel -> 0 <= minrel -> ineq_tol <= toler * moles ->
    ~ site_row_fails moles minrel (evalR (env_of [moles; f]) surf_res) toler ineq_tol ->
    Rabs (f - moles) <= toler * moles).
Proof. exact (conj ok_implies_charge_law_ddl (conj ok_implies_charge_law_ccm (conj ok_implies_dl_balance Guards.ok_implies_site_balance))). Qed.

Lemma verified_exact_checkers_sound_all :
  (forall l sites, check_sites l sites = true ->
    Rabs (site_sum (to_R l) - Q2R sites) <= / 100000000 * Rabs (Q2R sites)) /\
  (forall l A g C dpsi, check_linear l A g C dpsi = true ->
    Rabs (sigma_of_species (to_R l) (Q2R A) (Q2R g) - Q2R C * Q2R dpsi) <= / 100000000 * Rabs (Q2R C * Q2R dpsi)) /\
  (forall surf dl, check_dl_balance surf dl = true ->
    Rabs (charge_sum (to_R surf) + charge_sum (to_R dl)) <= / 100000000 * Rabs (charge_sum (to_R surf))).
Proof. exact (conj Checker.check_sites_sound (conj Checker.check_linear_sound Checker.check_dl_balance_sound)). Qed.

Lemma verified_interval_checkers_sound_all :
  (forall l A g psi mu eps tk, check_ddl l A g psi mu eps tk = true ->
    let gc := gouy_chapman (Q2R eps) (Q2R tk) (Q2R mu) (Q2R psi) in
    Rabs (sigma_of_species (to_R l) (Q2R A) (Q2R g) - gc) <= / 100000000 * Rabs gc) /\
  (forall l A g psi mu eps tk, check_ddl_loose l A g psi mu eps tk = true ->
    let gc := gouy_chapman (Q2R eps) (Q2R tk) (Q2R mu) (Q2R psi) in
    Rabs (sigma_of_species (to_R l) (Q2R A) (Q2R g) - gc) <= / 10000 * Rabs gc) /\
  (forall l A g ions psi eps tk, check_grahame l A g ions psi eps tk = true ->
    let gr := grahame (Q2R eps) (Q2R tk) (to_R (balancing_ion ions :: ions)) (Q2R psi) in
    Rabs (sigma_of_species (to_R l) (Q2R A) (Q2R g) - gr) <= / 100000000 * Rabs gr) /\
  (forall l A g ions psi eps tk, check_grahame_loose l A g ions psi eps tk = true ->
    let gr := grahame (Q2R eps) (Q2R tk) (to_R (balancing_ion ions :: ions)) (Q2R psi) in
    Rabs (sigma_of_species (to_R l) (Q2R A) (Q2R g) - gr) <= / 10000 * Rabs gr) /\
  (forall la lk terms dz psi tk, check_mass_action la lk terms dz psi tk = true ->
    Rabs (Q2R la - (Q2R lk + charge_sum (to_R terms) + log10 (boltzmann (Q2R dz) (Q2R tk) (Q2R psi)))) <= / 100000000) /\
  (forall m equiv sites la, check_activity m equiv sites la = true ->
    Rabs (Q2R m * Q2R equiv / Q2R sites - Rpower 10 (Q2R la)) <= / 100000000 * Rabs (Rpower 10 (Q2R la))) /\
  (forall Ei Er zi zr, check_donnan_ratio Ei Er zi zr = true ->
    0 < Q2R Er /\ Q2R zr <> 0 /\
    Rabs (Q2R Ei - Rpower (Q2R Er) (Q2R zi / Q2R zr)) <= / 100000000 * Rabs (Rpower (Q2R Er) (Q2R zi / Q2R zr))).
Proof. exact (conj Checker.check_ddl_sound (conj Checker.check_ddl_loose_sound (conj Checker.check_grahame_sound (conj Checker.check_grahame_loose_sound (conj Checker.check_mass_action_sound (conj Checker.check_activity_sound Checker.check_donnan_ratio_sound)))))). Qed.
