(* C20 — textbook relations of surface complexation (Coq Reals), written independently of the code.

   Units as in PHREEQC: potentials in V, charge densities in C/m2, capacitances in F/m2, specific area in m2/g, mass in g,
   ionic strength / molalities in mol/kgw, T in K.  The physical constants are the ones PHREEQC uses
   (global_structures.h: F_C_MOL, R_KJ_DEG_MOL, EPSILON_ZERO); the property fixes the relation "of the model",
   so the 1e-8 comparison has to use the model's constants (CODATA values differ in the 5th digit). *)
From Coq Require Import Reals List.
Import ListNotations.
Local Open Scope R_scope.

Definition F_C  : R := 964935 / 10.                     (* Faraday constant, C/mol        (96493.5)   *)
Definition R_J  : R := 83147 / 10000.                   (* gas constant, J/(K mol)         (8.3147)    *)
Definition eps0 : R := 8854 / 1000000000000000.         (* vacuum permittivity, C2/(J m)   (8.854e-12) *)

(* Gouy-Chapman (symmetric electrolyte of ionic strength I): sigma = sqrt(8000 eps eps0 R T I) sinh(F psi / 2RT) *)
Definition gouy_chapman (eps T I psi : R) : R :=
  sqrt (8000 * eps * eps0 * R_J * T * I) * sinh (F_C * psi / (2 * R_J * T)).

(* constant capacitance: sigma = C psi *)
Definition ccm_sigma (C psi : R) : R := C * psi.

(* Boltzmann factor of moving a charge dz (in units of e) to a plane at potential psi *)
Definition boltzmann (dz T psi : R) : R := exp (- dz * F_C * psi / (R_J * T)).

(* surface charge density carried by a list of surface species (charge number, moles) on area*mass *)
Fixpoint charge_sum (l : list (R * R)) : R :=
  match l with [] => 0 | (z, n) :: t => z * n + charge_sum t end.
Definition sigma_of_species (l : list (R * R)) (area grams : R) : R := F_C * charge_sum l / (area * grams).

(* sites of one type carried by a list of species (site coefficient, moles) *)
Definition site_sum := charge_sum.

(* Grahame equation for an arbitrary electrolyte, ions given as (molality, charge number):
   sigma_d^2 = 2000 eps eps0 R T sum_i m_i (exp(- z_i F psi / RT) - 1) *)
Fixpoint grahame_sum (ions : list (R * R)) (T psi : R) : R :=
  match ions with [] => 0 | (m, z) :: t => m * (exp (- z * F_C * psi / (R_J * T)) - 1) + grahame_sum t T psi end.
Definition grahame (eps T : R) (ions : list (R * R)) (psi : R) : R :=
  (if Rlt_dec 0 psi then 1 else -1) * sqrt (2000 * eps * eps0 * R_J * T * grahame_sum ions T psi).

(* CD-MUSIC three-plane relations *)
Definition cd_plane0 (C1 psi0 psi1 : R) : R := C1 * (psi0 - psi1).          (* sigma0 *)
Definition cd_plane1 (C2 psi1 psi2 : R) : R := C2 * (psi1 - psi2).          (* sigma0 + sigma1 *)

Definition log10 (x : R) : R := ln x / ln 10.
