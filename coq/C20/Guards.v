(* C20 — (1) hand-written model of the convergence tests that Phreeqc::residuals applies to the surface rows, tied to the
   code by the regenerated guard texts (Gen_C20_surface.v: *_fail_guards, residuals_l_toler_init); what "converged" implies.
   (2) the Grahame sum of the CD-MUSIC diffuse-layer plane (regenerated loop body + balancing ion) and its reduction to
   Gouy-Chapman for a symmetric 1:1 electrolyte.  (3) Boltzmann factors of several planes multiply. *)
From Coq Require Import Reals ZArith QArith Qreals List String Lra.
From IPV Require Import Base.RExpr C20.Spec C20.ResidualProofs Gen.Gen_C20_surface.
Import ListNotations.
Local Open Scope R_scope.

(* ------------------------------------------------------------------------------------------------ (1) guards *)
(* the texts of the if-conditions under which `converge = FALSE` is assigned in the surface rows *)
Definition charge_row_guard : string := "charge_ptr->Get_grams() > MIN_RELATED_SURFACE && fabs(residual[i]) > l_toler".
Definition guards_shape_ok : bool :=
  (if list_eq_dec string_dec ddl_fail_guards [charge_row_guard] then true else false) &&
  (if list_eq_dec string_dec ccm_fail_guards [charge_row_guard] then true else false) &&
  (if list_eq_dec string_dec cd0_fail_guards [charge_row_guard] then true else false) &&
  (if list_eq_dec string_dec cd1_fail_guards [charge_row_guard] then true else false) &&
  (if list_eq_dec string_dec cd2_fail_guards
        ["!(charge_ptr->Get_grams() == 0) ;; !(dl_type_x != NO_DL) ;; sum < 0"; charge_row_guard] then true else false) &&
  (if list_eq_dec string_dec surf_fail_guards
        ["x[i]->moles <= MIN_RELATED_SURFACE ;; fabs(residual[i]) > l_toler";
         "!(x[i]->moles <= MIN_RELATED_SURFACE) ;; !(fabs(residual[i]) < ineq_tol && fabs(residual[i]) < 1e-2 * x[i]->moles) ;; fabs(residual[i]) > l_toler * x[i]->moles"]
   then true else false) &&
  (if string_dec residuals_l_toler_init "convergence_tolerance" then true else false).

(* meaning of those texts *)
Definition charge_row_fails (grams minrel res toler : R) : Prop := grams > minrel /\ Rabs res > toler.
Definition site_row_fails (moles minrel res toler ineq_tol : R) : Prop :=
  (moles <= minrel /\ Rabs res > toler) \/
  (~ moles <= minrel /\ ~ (Rabs res < ineq_tol /\ Rabs res < 1 / 100 * moles) /\ Rabs res > toler * moles).

Lemma charge_row_ok : forall grams minrel res toler,
  ~ charge_row_fails grams minrel res toler -> grams > minrel -> Rabs res <= toler.
Proof. intros grams minrel res toler H Hg. unfold charge_row_fails in H. destruct (Rle_dec (Rabs res) toler); [assumption|]. exfalso. apply H. split; lra. Qed.

(* a converged DDL row: |sigma - GouyChapman(psi)| <= convergence_tolerance (ABSOLUTE, C/m2), at the reported psi and sigma *)
Theorem ok_implies_charge_law_ddl : forall la mu eps tk f A g minrel toler, 0 <= mu -> 0 <= eps -> 0 < tk -> A * g <> 0 -> g > minrel ->
  let L := ln 10 in
  let psi := evalR (env_of [la; L; tk]) edl_psi in
  let sigma := evalR (env_of [f; A; g]) edl_sigma in
  ~ charge_row_fails g minrel (evalR (env_of [la; L; mu; eps; tk; f; A; g]) ddl_res) toler ->
  Rabs (sigma - gouy_chapman eps tk mu psi) <= toler.
Proof.
  intros la mu eps tk f A g minrel toler Hmu Heps Htk Hag Hg L psi sigma H.
  apply charge_row_ok in H; [|exact Hg].
  rewrite (ddl_res_form la L mu eps tk f A g Hmu Heps Htk Hag) in H. fold sigma in H.
  unfold gouy_chapman, psi. rewrite edl_psi_form.
  replace (F_C * (2 * R_J * tk * L * la / F_C) / (2 * R_J * tk)) with (la * L) by (unfold F_C, R_J; field; lra).
  rewrite Rabs_minus_sym. exact H.
Qed.

Theorem ok_implies_charge_law_ccm : forall la tk C f A g minrel toler, A * g <> 0 -> g > minrel ->
  let L := ln 10 in
  let psi := evalR (env_of [la; L; tk]) edl_psi in
  let sigma := evalR (env_of [f; A; g]) edl_sigma in
  ~ charge_row_fails g minrel (evalR (env_of [la; L; tk; C; f; A; g]) ccm_res) toler ->
  Rabs (sigma - ccm_sigma C psi) <= toler.
Proof.
  intros la tk C f A g minrel toler Hag Hg L psi sigma H.
  apply charge_row_ok in H; [|exact Hg].
  assert (E : evalR (env_of [la; L; tk; C; f; A; g]) ccm_res = C * psi - sigma).
  { unfold psi, sigma, ccm_res, edl_psi, edl_sigma. unfold_evalR. fld Hag. }
  rewrite E in H. unfold ccm_sigma. rewrite Rabs_minus_sym. exact H.
Qed.

(* with an explicit diffuse layer the converged row says |surface charge + diffuse-layer charge| <= tolerance (mol, ABSOLUTE) *)
Theorem ok_implies_dl_balance : forall f g minrel toler, g > minrel ->
  ~ charge_row_fails g minrel (evalR (env_of [f]) ddl_res_dl) toler -> Rabs f <= toler.
Proof.
  intros f g minrel toler Hg H. apply charge_row_ok in H; [|exact Hg].
  destruct (ddl_res_dl_form f) as [E _]. rewrite E, Rabs_Ropp in H. exact H.
Qed.

(* a converged site row: relative tolerance, provided the absolute escape clause (ineq_tol) is below it *)
Theorem ok_implies_site_balance : forall moles f minrel toler ineq_tol, moles > minrel -> 0 <= minrel ->
  ineq_tol <= toler * moles ->
  ~ site_row_fails moles minrel (evalR (env_of [moles; f]) surf_res) toler ineq_tol ->
  Rabs (f - moles) <= toler * moles.
Proof.
  intros moles f minrel toler ineq_tol Hm H0 Hi H.
  assert (E : evalR (env_of [moles; f]) surf_res = moles - f) by (unfold surf_res; unfold_evalR; ring).
  rewrite E in H. rewrite Rabs_minus_sym.
  destruct (Rle_dec (Rabs (moles - f)) (toler * moles)) as [L|L]; [exact L|].
  exfalso. apply H. right. split; [lra|]. split; [|lra]. intros [H1 H2]. lra.
Qed.

(* ------------------------------------------------------------------------------------------------ (2) Grahame *)
(* model of the loop of the SURFACE_CB2 row (no explicit diffuse layer): sum over the aqueous species of the regenerated
   loop body, then the fictitious monovalent ion that balances the charge *)
Fixpoint code_gsum (ions : list (R * R)) (y : R) : R :=
  match ions with [] => 0 | (m, z) :: t => evalR (env_of [m; z; y]) cd_gsum_term + code_gsum t y end.
Fixpoint code_gsum1 (ions : list (R * R)) : R :=
  match ions with [] => 0 | (m, z) :: t => evalR (env_of [m; z]) cd_gsum1_term + code_gsum1 t end.
Definition code_gsum_total (ions : list (R * R)) (y : R) : R :=
  let s1 := code_gsum1 ions in
  code_gsum ions y + (if Rle_dec 0 s1 then evalR (env_of [s1; y]) cd_gsum_fict_pos else evalR (env_of [s1; y]) cd_gsum_fict_neg).

Definition spec_balancing_ion (ions : list (R * R)) : R * R :=
  let s := code_gsum1 ions in (Rabs s, if Rle_dec 0 s then -1 else 1).

Lemma gsum_term_form : forall m z y, evalR (env_of [m; z; y]) cd_gsum_term = m * (exp (z * y) - 1).
Proof. intros. unfold cd_gsum_term. unfold_evalR. try norm_arg exp (z * y). field. Qed.
Lemma gsum1_term_form : forall m z, evalR (env_of [m; z]) cd_gsum1_term = m * z.
Proof. intros. unfold cd_gsum1_term. unfold_evalR. field. Qed.
Lemma gsum_fict_form : forall s y,
  evalR (env_of [s; y]) cd_gsum_fict_pos = Rabs s * (exp (- y) - 1) /\ evalR (env_of [s; y]) cd_gsum_fict_neg = Rabs s * (exp y - 1).
Proof. intros. unfold cd_gsum_fict_pos, cd_gsum_fict_neg. split; unfold_evalR; field. Qed.

Lemma code_gsum_is_grahame_sum : forall ions tk psi2, 0 < tk ->
  code_gsum ions (- F_C * psi2 / (R_J * tk)) = grahame_sum ions tk psi2.
Proof.
  intros ions tk psi2 Htk. induction ions as [|[m z] t IH]; cbn [code_gsum grahame_sum]; [reflexivity|].
  rewrite IH, gsum_term_form.
  replace (z * (- F_C * psi2 / (R_J * tk))) with (- z * F_C * psi2 / (R_J * tk)) by (unfold Rdiv; ring). reflexivity.
Qed.

(* the code's sum (with the balancing ion) is the textbook Grahame sum over ions ++ balancing ion, for every electrolyte *)
Theorem cd_music_gsum_is_grahame_sum : forall ions tk psi2, 0 < tk ->
  code_gsum_total ions (- F_C * psi2 / (R_J * tk)) = grahame_sum (spec_balancing_ion ions :: ions) tk psi2.
Proof.
  intros ions tk psi2 Htk. unfold code_gsum_total, spec_balancing_ion. cbn [grahame_sum].
  rewrite code_gsum_is_grahame_sum by exact Htk.
  destruct (gsum_fict_form (code_gsum1 ions) (- F_C * psi2 / (R_J * tk))) as [Ep En].
  destruct (Rle_dec 0 (code_gsum1 ions)) as [H|H]; rewrite Rplus_comm; f_equal.
  - rewrite Ep. f_equal. f_equal. f_equal. unfold Rdiv. ring.
  - rewrite En. f_equal. f_equal. f_equal. unfold Rdiv. ring.
Qed.

(* the diffuse-layer charge the code stores: -/+ 1/2 sqrt(8000 eps eps0 R T) sqrt(sum) = - Grahame *)
Theorem cd_music_sigmaddl_is_minus_grahame : forall eps tk ions psi2, 0 <= eps -> 0 < tk -> psi2 <> 0 ->
  let y := - F_C * psi2 / (R_J * tk) in
  let sum := code_gsum_total ions y in
  0 <= sum ->
  (if Rlt_dec y 0 then evalR (env_of [sum; eps; tk]) cd_sigmaddl_neg else evalR (env_of [sum; eps; tk]) cd_sigmaddl_pos)
  = - grahame eps tk (spec_balancing_ion ions :: ions) psi2.
Proof.
  intros eps tk ions psi2 Heps Htk Hpsi y sum Hsum.
  unfold grahame. rewrite <- (cd_music_gsum_is_grahame_sum ions tk psi2 Htk). fold y. fold sum.
  assert (H0 : 0 <= 2000 * eps * eps0 * R_J * tk) by (unfold eps0, R_J; nra).
  rewrite (sqrt_mult _ _ H0 Hsum).
  assert (Hs : sqrt (8000 * eps * eps0 * R_J * tk) = 2 * sqrt (2000 * eps * eps0 * R_J * tk)).
  { replace (8000 * eps * eps0 * R_J * tk) with (4 * (2000 * eps * eps0 * R_J * tk)) by ring.
    rewrite sqrt_mult by lra. replace 4 with (2 * 2) by ring. rewrite sqrt_square by lra. reflexivity. }
  assert (Hy : y < 0 <-> 0 < psi2).
  { unfold y. assert (0 < F_C / (R_J * tk)) by (unfold F_C, R_J; apply Rdiv_lt_0_compat; nra).
    replace (- F_C * psi2 / (R_J * tk)) with (- (psi2 * (F_C / (R_J * tk)))) by (unfold Rdiv; ring). split; intro; nra. }
  destruct (Rlt_dec y 0) as [Hn|Hn]; destruct (Rlt_dec 0 psi2) as [Hp|Hp]; try (exfalso; tauto).
  - unfold cd_sigmaddl_neg. unfold_evalR. try norm_arg sqrt (8000 * eps * eps0 * R_J * tk). rewrite Hs. field.
  - unfold cd_sigmaddl_pos. unfold_evalR. try norm_arg sqrt (8000 * eps * eps0 * R_J * tk). rewrite Hs. field.
Qed.

(* plane 2: residual = 0 <-> sigma0 + sigma1 + sigma2 = - sigma_ddl *)
Lemma cd_res2_form : forall s0 s1 s2 sd, evalR (env_of [s0; s1; s2; sd]) cd_res2 = 0 <-> s0 + s1 + s2 = - sd.
Proof. intros. unfold cd_res2. unfold_evalR. split; intro; lra. Qed.

Theorem cd_music_plane2_is_grahame : forall eps tk ions psi2 s0 s1 s2, 0 <= eps -> 0 < tk -> psi2 <> 0 ->
  let y := - F_C * psi2 / (R_J * tk) in
  let sum := code_gsum_total ions y in
  0 <= sum ->
  let sd := if Rlt_dec y 0 then evalR (env_of [sum; eps; tk]) cd_sigmaddl_neg else evalR (env_of [sum; eps; tk]) cd_sigmaddl_pos in
  evalR (env_of [s0; s1; s2; sd]) cd_res2 = 0 <-> s0 + s1 + s2 = grahame eps tk (spec_balancing_ion ions :: ions) psi2.
Proof.
  intros eps tk ions psi2 s0 s1 s2 Heps Htk Hpsi y sum Hsum sd.
  rewrite cd_res2_form. unfold sd, sum, y.
  rewrite (cd_music_sigmaddl_is_minus_grahame eps tk ions psi2 Heps Htk Hpsi Hsum). split; intro; lra.
Qed.

(* for a symmetric 1:1 electrolyte of molality m the Grahame equation is Gouy-Chapman with I = m *)
Lemma sinh_sq : forall x, exp (2 * x) - 1 + (exp (- (2 * x)) - 1) = 4 * (sinh x * sinh x).
Proof.
  intro x. unfold sinh.
  replace (2 * x) with (x + x) by ring. rewrite Ropp_plus_distr, !exp_plus.
  assert (E : exp x * exp (- x) = 1) by (rewrite <- exp_plus, Rplus_opp_r; apply exp_0).
  field_simplify. nra.
Qed.

Theorem grahame_symmetric_is_gouy_chapman : forall eps tk m psi, 0 <= eps -> 0 < tk -> 0 <= m ->
  grahame eps tk [(m, 1); (m, -1)] psi = gouy_chapman eps tk m psi.
Proof.
  intros eps tk m psi Heps Htk Hm. unfold grahame, gouy_chapman. cbn [grahame_sum].
  set (x := F_C * psi / (2 * R_J * tk)).
  assert (G : forall a b, a = - (2 * x) -> b = 2 * x ->
             m * (exp a - 1) + (m * (exp b - 1) + 0) = m * (4 * (sinh x * sinh x))).
  { intros a b -> ->. rewrite <- sinh_sq. ring. }
  rewrite G by (unfold x, F_C, R_J; field; lra).
  replace (2000 * eps * eps0 * R_J * tk * (m * (4 * (sinh x * sinh x)))) with ((8000 * eps * eps0 * R_J * tk * m) * (sinh x * sinh x)) by ring.
  assert (H0 : 0 <= 8000 * eps * eps0 * R_J * tk * m).
  { assert (Ha : 0 <= 8000 * eps * eps0 * R_J * tk) by (unfold eps0, R_J; nra). apply Rmult_le_pos; assumption. }
  rewrite sqrt_mult; [|exact H0|nra].
  assert (Hx : 0 < psi <-> 0 < x).
  { unfold x. assert (0 < F_C / (2 * R_J * tk)) by (unfold F_C, R_J; apply Rdiv_lt_0_compat; nra).
    replace (F_C * psi / (2 * R_J * tk)) with (psi * (F_C / (2 * R_J * tk))) by (unfold Rdiv; ring). split; intro; nra. }
  assert (Hs : forall u, 0 < u -> 0 < sinh u).
  { intros u Hu. unfold sinh. assert (exp (- u) < exp u) by (apply exp_increasing; lra). lra. }
  destruct (Rlt_dec 0 psi) as [Hp|Hp].
  - apply Hx in Hp. rewrite sqrt_square by (left; apply Hs; exact Hp). ring.
  - assert (Hx0 : x <= 0) by (destruct (Rle_dec x 0); [assumption | exfalso; apply Hp, Hx; lra]).
    assert (Hsx : sinh x <= 0).
    { destruct (Req_dec x 0) as [->|Hne]; [rewrite sinh_0; lra|].
      assert (0 < sinh (- x)) by (apply Hs; lra). unfold sinh in *. rewrite Ropp_involutive in H. lra. }
    replace (sinh x * sinh x) with ((- sinh x) * (- sinh x)) by ring.
    rewrite sqrt_square by lra. ring.
Qed.

(* ------------------------------------------------------------------------------------------------ (3) planes *)
Lemma boltzmann_planes : forall tk d0 p0 d1 p1 d2 p2,
  boltzmann 1 tk (d0 * p0 + d1 * p1 + d2 * p2) = boltzmann d0 tk p0 * boltzmann d1 tk p1 * boltzmann d2 tk p2.
Proof.
  intros. unfold boltzmann. rewrite <- !exp_plus. f_equal. unfold Rdiv. ring.
Qed.

(* the exponent used in the Grahame loop is -F psi2 / RT with psi2 the value EDL("psi2") reports *)
Lemma cd_negfpsirt_form : forall la tk, 0 < tk ->
  evalR (env_of [la; ln 10]) cd_negfpsirt = - F_C * evalR (env_of [la; ln 10; tk]) edl_psi2_cd / (R_J * tk).
Proof.
  intros la tk H. destruct (cd_psi_form la (ln 10) tk) as (_ & _ & _ & _ & _ & E). rewrite E.
  unfold cd_negfpsirt, F_C, R_J. unfold_evalR. field. lra.
Qed.

(* guards_shape_ok = true is checked in Props/Properties_C20.v itself (vm_compute; reflexivity on the regenerated texts), so that
   a changed guard fails exactly that theorem and nothing else *)

Lemma edl_readouts_all : forall la tk q A g, A * g <> 0 ->
  let L := ln 10 in
  evalR (env_of [la; L; tk]) edl_psi = 2 * R_J * tk * L * la / F_C /\
  evalR (env_of [q; A; g]) edl_sigma = F_C * q / (A * g) /\
  (evalR (env_of [q]) edl_charge = q /\ evalR (env_of [q]) edl_sigma_charge_nodl = q) /\
  (evalR (env_of [la; L; tk]) cd_psi0 = - R_J * tk * L * la / F_C /\
   evalR (env_of [la; L; tk]) cd_psi1 = - R_J * tk * L * la / F_C /\
   evalR (env_of [la; L; tk]) cd_psi2 = - R_J * tk * L * la / F_C /\
   evalR (env_of [la; L; tk]) edl_psi_cd = - R_J * tk * L * la / F_C /\
   evalR (env_of [la; L; tk]) edl_psi1_cd = - R_J * tk * L * la / F_C /\
   evalR (env_of [la; L; tk]) edl_psi2_cd = - R_J * tk * L * la / F_C) /\
  evalR (env_of []) c20_LOG_10 = L.
Proof.
  intros la tk q A g H L.
  exact (conj (edl_psi_form la L tk) (conj (edl_sigma_form q A g H) (conj (edl_charge_is_f q) (conj (cd_psi_form la L tk) c20_LOG_10_is_ln10)))).
Qed.

Lemma mass_action_boltzmann_all : forall la tk dz, 0 < tk ->
  (let psi := evalR (env_of [la; ln 10; tk]) edl_psi in
   Rpower 10 (evalR (env_of [dz]) pot_coef * la) = boltzmann dz tk psi) /\
  (let psi := evalR (env_of [la; ln 10; tk]) edl_psi_cd in
   Rpower 10 (evalR (env_of [dz]) cd_pot_coef0 * la) = boltzmann dz tk psi /\
   Rpower 10 (evalR (env_of [dz]) cd_pot_coef1 * la) = boltzmann dz tk psi /\
   Rpower 10 (evalR (env_of [dz]) cd_pot_coef2 * la) = boltzmann dz tk psi).
Proof.
  intros la tk dz H. exact (conj (potential_factor_is_boltzmann la tk dz H) (cd_music_factors_are_boltzmann la tk dz H)).
Qed.

(* the charge that enters the potential term is the charge of the AQUEOUS reactants (species type AQ, H+, e-): sum of z * coef *)
Lemma pot_sum_z_shape :
  (forall z c, evalR (env_of [z; c]) pot_sum_z_term = z * c) /\
  pot_sum_z_guard = [("trxn.token[i].s->type == " ++ (if Z.eqb species_type_AQ 0 then "0" else "?") ++ " || trxn.token[i].s == s_hplus || trxn.token[i].s == s_eminus")%string].
Proof. split; [exact pot_sum_z_term_form | vm_compute; reflexivity]. Qed.

(* calc_all_g (integrate.cpp): the cache that records which charge numbers have already been integrated must be PER SURFACE:
   declared (or cleared) inside the loop over the SURFACE_CB unknowns, and consulted inside the inner loop over the species.
   (regenerated loop structure: depths = number of enclosing loops) *)
Definition dl_cache_per_surface_ok : bool :=
  ((calc_all_g_cache_decl_loop_depth =? 1)%Z || calc_all_g_cache_cleared_in_surface_loop) &&
  (calc_all_g_cache_lookup_loop_depth =? 2)%Z && (calc_all_g_cache_count =? 1)%Z.

(* CD-MUSIC plane 0: sigma0 = F (f + sum) / (A g) where sum adds sites * z_master over the comp_unknowns of the charge unknown.
   setup_surface (prep.cpp) must register the SURFACE unknown of EVERY site type of the surface there: the (single) registration
   statement sits in the loop over the surface components but NOT in the inner loop over the three planes and not under a condition
   on the plane or on whether the charge unknown already existed.  (regenerated statement context) *)
Definition mentions (pat g : string) : bool := match index 0 pat g with Some _ => true | None => false end.
Definition cd_comp_registration_ok : bool :=
  (setup_surface_comp_reg_count =? 1)%Z && (setup_surface_comp_reg_loop_depth =? 2)%Z &&
  forallb (fun g => negb (mentions "plane" g) && negb (mentions "NULL" g) && negb (mentions "unknown_ptr" g)) setup_surface_comp_reg_guards.

Lemma cd_sum0_term_form : forall m z, evalR (env_of [m; z]) cd_sum0_term = m * z.
Proof. intros. unfold cd_sum0_term. unfold_evalR. field. Qed.
