(* C20 — theorems about the REGENERATED residual / read-out expressions (coq/Gen/Gen_C20_surface.v) of
   Phreeqc::residuals (model.cpp), Phreeqc::diff_layer_total (basicsubs.cpp), add_potential_factor /
   add_cd_music_factors (prep.cpp), gammas case 6 (model.cpp).  Comparisons are semantic (ring / field / lra over Coq's
   Reals after normalising the arguments of sqrt / sinh / exp), so reordering commutative terms, renaming locals,
   folding constants do not break them. *)
From Coq Require Import Reals QArith Qreals List String Lra.
From IPV Require Import Base.RExpr C20.Spec Gen.Gen_C20_surface.
Import ListNotations.
Local Open Scope R_scope.

(* replace the argument of some occurrence of [fn] by [target] when they are equal as field expressions *)
Ltac norm_arg fn target :=
  match goal with
  | |- context [fn ?x] =>
      lazymatch x with
      | target => fail
      | _ => replace x with target by (unfold eps0, R_J, F_C; try field; try lra)
      end
  end.

Lemma prod_nz : forall a b, a * b <> 0 -> a <> 0 /\ b <> 0.
Proof. intros a b H. split; intro E; subst; apply H; ring. Qed.
Ltac fld H := let Ha := fresh in let Hb := fresh in destruct (prod_nz _ _ H) as [Ha Hb]; field; repeat split; assumption.

(* ------------------------------------------------------------------------------------------------ read-outs *)
(* EDL("psi") for DDL / CCM: psi = 2 R T ln10 la / F   <->   la = F psi / (2 R T ln 10) *)
Lemma edl_psi_form : forall la L tk,
  evalR (env_of [la; L; tk]) edl_psi = 2 * R_J * tk * L * la / F_C.
Proof. intros. unfold edl_psi, R_J, F_C. unfold_evalR. field. Qed.

Lemma edl_sigma_form : forall q A g, A * g <> 0 ->
  evalR (env_of [q; A; g]) edl_sigma = F_C * q / (A * g).
Proof. intros q A g H. unfold edl_sigma, F_C. unfold_evalR. fld H. Qed.

Lemma edl_charge_is_f : forall f, evalR (env_of [f]) edl_charge = f /\ evalR (env_of [f]) edl_sigma_charge_nodl = f.
Proof. intros. split; reflexivity. Qed.

(* CD-MUSIC: psi_k = - R T ln10 la_k / F; the values pushed on cd_psi in residuals are what EDL("psi"/"psi1"/"psi2") return *)
Lemma cd_psi_form : forall la L tk,
  evalR (env_of [la; L; tk]) cd_psi0 = - R_J * tk * L * la / F_C /\
  evalR (env_of [la; L; tk]) cd_psi1 = - R_J * tk * L * la / F_C /\
  evalR (env_of [la; L; tk]) cd_psi2 = - R_J * tk * L * la / F_C /\
  evalR (env_of [la; L; tk]) edl_psi_cd = - R_J * tk * L * la / F_C /\
  evalR (env_of [la; L; tk]) edl_psi1_cd = - R_J * tk * L * la / F_C /\
  evalR (env_of [la; L; tk]) edl_psi2_cd = - R_J * tk * L * la / F_C.
Proof.
  intros. unfold cd_psi0, cd_psi1, cd_psi2, edl_psi_cd, edl_psi1_cd, edl_psi2_cd, R_J, F_C.
  repeat split; unfold_evalR; field.
Qed.

(* ------------------------------------------------------------------------------------------------ DDL *)
Lemma ddl_res_form : forall la L mu eps tk f A g, 0 <= mu -> 0 <= eps -> 0 < tk -> A * g <> 0 ->
  evalR (env_of [la; L; mu; eps; tk; f; A; g]) ddl_res =
  sqrt (8000 * eps * eps0 * R_J * tk * mu) * sinh (la * L) - evalR (env_of [f; A; g]) edl_sigma.
Proof.
  intros la L mu eps tk f A g Hmu Heps Htk Hag.
  assert (H0 : 0 <= 8000 * eps * eps0 * R_J * tk) by (unfold eps0, R_J; nra).
  rewrite (sqrt_mult _ _ H0 Hmu).
  unfold ddl_res, edl_sigma. unfold_evalR.
  try norm_arg sqrt (8000 * eps * eps0 * R_J * tk).
  try norm_arg sinh (la * L).
  fld Hag.
Qed.

(* residual = 0  <->  sigma = sqrt(8000 eps eps0 R T I) sinh(F psi / 2RT), with psi and sigma the values that
   EDL("psi") and EDL("sigma") report (regenerated read-out expressions), L = ln 10 *)
Theorem ddl_residual_is_gouy_chapman : forall la mu eps tk f A g, 0 <= mu -> 0 <= eps -> 0 < tk -> A * g <> 0 ->
  let L := ln 10 in
  let psi := evalR (env_of [la; L; tk]) edl_psi in
  let sigma := evalR (env_of [f; A; g]) edl_sigma in
  evalR (env_of [la; L; mu; eps; tk; f; A; g]) ddl_res = 0 <-> sigma = gouy_chapman eps tk mu psi.
Proof.
  intros la mu eps tk f A g Hmu Heps Htk Hag L psi sigma.
  rewrite (ddl_res_form la L mu eps tk f A g Hmu Heps Htk Hag). fold sigma.
  unfold gouy_chapman, psi. rewrite edl_psi_form.
  replace (F_C * (2 * R_J * tk * L * la / F_C) / (2 * R_J * tk)) with (la * L)
    by (unfold F_C, R_J; field; lra).
  split; intro H; lra.
Qed.

(* with an explicit diffuse layer the row is the charge balance surface + diffuse layer = 0 *)
Lemma ddl_res_dl_form : forall f, evalR (env_of [f]) ddl_res_dl = - f /\ evalR (env_of [f]) ccm_res_dl = - f /\
  evalR (env_of []) ddl_res_nograms = 0.
Proof. intros. repeat split; unfold ddl_res_dl, ccm_res_dl, ddl_res_nograms; unfold_evalR; lra. Qed.

(* ------------------------------------------------------------------------------------------------ CCM *)
Theorem ccm_residual_is_C_psi : forall la tk C f A g, A * g <> 0 ->
  let L := ln 10 in
  let psi := evalR (env_of [la; L; tk]) edl_psi in
  let sigma := evalR (env_of [f; A; g]) edl_sigma in
  evalR (env_of [la; L; tk; C; f; A; g]) ccm_res = 0 <-> sigma = ccm_sigma C psi.
Proof.
  intros la tk C f A g Hag L psi sigma.
  assert (E : evalR (env_of [la; L; tk; C; f; A; g]) ccm_res = C * psi - sigma).
  { unfold psi, sigma, ccm_res, edl_psi, edl_sigma. unfold_evalR. fld Hag. }
  rewrite E. unfold ccm_sigma. split; intro H; lra.
Qed.

(* ------------------------------------------------------------------------------------------------ CD-MUSIC *)
Lemma cd_sigma_forms : forall f s A g, A * g <> 0 ->
  evalR (env_of [f; s; A; g]) cd_sigma0 = F_C * (f + s) / (A * g) /\
  evalR (env_of [f; A; g]) cd_sigma1 = F_C * f / (A * g) /\
  evalR (env_of [f; A; g]) cd_sigma2 = F_C * f / (A * g).
Proof. intros f s A g H. unfold cd_sigma0, cd_sigma1, cd_sigma2, F_C. repeat split; unfold_evalR; fld H. Qed.

Theorem cd_music_plane_relations : forall s0 s1 C1 C2 psi0 psi1 psi2,
  (evalR (env_of [s0; C1; psi0; psi1]) cd_res0 = 0 <-> s0 = cd_plane0 C1 psi0 psi1) /\
  (evalR (env_of [s0; s1; C2; psi1; psi2]) cd_res1 = 0 <-> s0 + s1 = cd_plane1 C2 psi1 psi2).
Proof.
  intros. unfold cd_res0, cd_res1, cd_plane0, cd_plane1. unfold_evalR. split; split; intro H; nra.
Qed.

(* plane 2 with explicit diffuse layer: residual = 0 <-> f (charge of plane 2 + diffuse layer, mol) cancels planes 0 and 1 *)
Lemma cd_res2_dl_form : forall f s0 s1 A g,
  evalR (env_of [f; s0; s1; A; g]) cd_res2_dl = f + (s0 + s1) * (A * g) / F_C.
Proof. intros. unfold cd_res2_dl, F_C. unfold_evalR. field. Qed.

(* EDL("charge") of a CD-MUSIC surface is sigma0 converted back to moles *)
Lemma edl_charge_cd_form : forall s0 A g, evalR (env_of [s0; A; g]) edl_charge_cd = s0 * (A * g) / F_C.
Proof. intros. unfold edl_charge_cd, F_C. unfold_evalR. field. Qed.

Lemma edl_sigma_cd_form : forall s, evalR (env_of [s]) edl_sigma_cd = s /\ evalR (env_of [s]) edl_sigma1_cd = s /\
  evalR (env_of [s]) edl_sigma2_cd = s.
Proof. intros. repeat split; reflexivity. Qed.

(* ------------------------------------------------------------------------------------------------ mass action *)
(* DDL / CCM: the potential master species enters a surface species' mass action with coefficient -2 dz, where dz is the
   charge transferred to the surface (sum of charge * coefficient of the aqueous reactants); with
   la_psi = F psi / (2 R T ln 10) this is the Boltzmann factor exp(-dz F psi / RT). *)
Theorem potential_factor_is_boltzmann : forall la tk dz, 0 < tk ->
  let psi := evalR (env_of [la; ln 10; tk]) edl_psi in
  Rpower 10 (evalR (env_of [dz]) pot_coef * la) = boltzmann dz tk psi.
Proof.
  intros la tk dz Htk psi. unfold Rpower, boltzmann, psi. rewrite edl_psi_form.
  f_equal. unfold pot_coef. unfold_evalR. unfold F_C, R_J. field. lra.
Qed.

Lemma pot_sum_z_term_form : forall z c, evalR (env_of [z; c]) pot_sum_z_term = z * c.
Proof. intros. unfold pot_sum_z_term. unfold_evalR. ring. Qed.

(* CD-MUSIC: plane k enters with coefficient dz_k; la_k = - F psi_k / (R T ln 10) *)
Theorem cd_music_factors_are_boltzmann : forall la tk dz, 0 < tk ->
  let psi := evalR (env_of [la; ln 10; tk]) edl_psi_cd in
  Rpower 10 (evalR (env_of [dz]) cd_pot_coef0 * la) = boltzmann dz tk psi /\
  Rpower 10 (evalR (env_of [dz]) cd_pot_coef1 * la) = boltzmann dz tk psi /\
  Rpower 10 (evalR (env_of [dz]) cd_pot_coef2 * la) = boltzmann dz tk psi.
Proof.
  intros la tk dz Htk psi. unfold Rpower, boltzmann, psi.
  destruct (cd_psi_form la (ln 10) tk) as (_ & _ & _ & E & _). rewrite E.
  unfold cd_pot_coef0, cd_pot_coef1, cd_pot_coef2.
  repeat split; f_equal; unfold_evalR; unfold F_C, R_J; field; lra.
Qed.

(* surface species: lg = log10(equiv / sites), so activity = 10^(lm + lg) = molality * equiv / sites (mole-fraction scale) *)
Theorem surface_activity_is_site_fraction : forall lm equiv sites, 0 < equiv -> 0 < sites ->
  Rpower 10 (lm + evalR (env_of [equiv; sites]) surf_lg) = Rpower 10 lm * (equiv / sites).
Proof.
  intros lm equiv sites He Hs. unfold surf_lg. unfold_evalR.
  assert (Hq : 0 < equiv / sites) by (apply Rdiv_lt_0_compat; assumption).
  replace (IZR 10 / IZR 1) with 10 by lra.
  assert (Hl : ln 10 <> 0).
  { assert (0 < ln 10) by (rewrite <- ln_1; apply ln_increasing; lra). lra. }
  unfold Rpower.
  replace ((lm + ln (equiv / sites) / ln 10) * ln 10) with (lm * ln 10 + ln (equiv / sites)) by (field; exact Hl).
  rewrite exp_plus, exp_ln by exact Hq. reflexivity.
Qed.

Lemma c20_LOG_10_is_ln10 : evalR (env_of []) c20_LOG_10 = ln 10.
Proof. unfold c20_LOG_10. unfold_evalR. f_equal. lra. Qed.

(* ------------------------------------------------------------------------------------------------ site balance *)
Theorem site_balance_row : forall sites f, evalR (env_of [sites; f]) surf_res = 0 <-> f = sites.
Proof. intros. unfold surf_res. unfold_evalR. split; intro; lra. Qed.
