(* C20 — executable verified checkers applied to what the implementation REPORTS (USER_PUNCH EDL("psi"/"sigma"/"charge"...),
   SYS("surf"), MOL / LA of species, MU, EPS_R, TK with -high_precision; every double is transmitted as its exact dyadic
   rational).  Independent of the generated files: when a regenerated formula no longer proves, these checkers still run
   and look for a concrete failing input.  All tolerances are the property's 1e-8 (relative; absolute 1e-8 in log10 units
   for the mass-action equation).

   check_sites   l sites            : |sum coef_i n_i - sites| <= 1e-8 |sites|                     (exact Q)
   check_ddl     l A g psi mu eps T : |F sum z_i n_i/(A g) - GouyChapman(psi)| <= 1e-8 |GC|         (interval)
   check_linear  l A g C dpsi       : |F sum z_i n_i/(A g) - C dpsi| <= 1e-8 |C dpsi|               (exact Q; CCM, CD-MUSIC planes 0,1)
   check_grahame l A g ions psi eps T: |F sum z_i n_i/(A g) - Grahame(ions + balancing ion, psi)| <= 1e-8 |..|  (interval; CD-MUSIC plane 2)
   check_mass_action la lk terms dz psi T : |la - lk - sum nu_j la_j - log10 Boltzmann(dz, psi)| <= 1e-8   (interval)
   check_activity n equiv sites la  : |n equiv / sites - 10^la| <= 1e-8 10^la                       (interval)
   check_dl_balance surf dl         : |sum z n (surface) + sum z n (diffuse layer)| <= 1e-8 |sum z n (surface)|   (exact Q)
   check_donnan_ratio Ei Er zi zr   : |E_i - E_r^(z_i/z_r)| <= 1e-8 E_r^(z_i/z_r)   (Donnan layer: Boltzmann enrichment at one potential) *)
From Coq Require Import Reals ZArith QArith Qreals Qabs List Lra Bool.
From IPV Require Import Base.RExpr Base.IntervalEval C20.Spec.
Import ListNotations.

Definition tol8 : Q := 1 # 100000000.
Definition FQ  : Q := 964935 # 10.
Definition RQ  : Q := 83147 # 10000.
Definition e0Q : Q := 8854 # 1000000000000000.

Fixpoint qsum (l : list (Q * Q)) : Q :=
  match l with [] => 0 | (a, b) :: t => a * b + qsum t end.
Definition to_R (l : list (Q * Q)) : list (R * R) := map (fun p => (Q2R (fst p), Q2R (snd p))) l.

Lemma Q2R_0' : Q2R 0 = 0%R. Proof. apply RMicromega.Q2R_0. Qed.
Lemma Q2R_1' : Q2R 1 = 1%R. Proof. apply RMicromega.Q2R_1. Qed.
Lemma Q2R_tol8 : Q2R tol8 = (/ 100000000)%R. Proof. unfold tol8, Q2R; simpl; lra. Qed.
Lemma Q2R_FQ : Q2R FQ = F_C. Proof. unfold FQ, F_C, Q2R; simpl; lra. Qed.
Lemma Q2R_RQ : Q2R RQ = R_J. Proof. unfold RQ, R_J, Q2R; simpl; lra. Qed.
Lemma Q2R_e0Q : Q2R e0Q = eps0. Proof. unfold e0Q, eps0, Q2R; simpl; lra. Qed.

Lemma qsum_R : forall l, Q2R (qsum l) = charge_sum (to_R l).
Proof.
  induction l as [|[a b] t IH]; simpl.
  - apply Q2R_0'.
  - rewrite Q2R_plus, Q2R_mult, IH. reflexivity.
Qed.

Lemma Q2R_Qabs : forall q, Q2R (Qabs q) = Rabs (Q2R q).
Proof.
  intro q. apply Qabs_case; intro H.
  - apply Qle_Rle in H. rewrite Q2R_0' in H. rewrite Rabs_right; [reflexivity | lra].
  - apply Qle_Rle in H. rewrite Q2R_0' in H. rewrite Q2R_opp. rewrite Rabs_left1; [reflexivity | lra].
Qed.

(* generic: an exact-Q relative comparison *)
Definition qrel (a b : Q) : bool := Qle_bool (Qabs (a - b)) (tol8 * Qabs b).
Lemma qrel_sound : forall a b, qrel a b = true -> (Rabs (Q2R a - Q2R b) <= / 100000000 * Rabs (Q2R b))%R.
Proof.
  intros a b H. unfold qrel in H. apply Qle_bool_iff in H. apply Qle_Rle in H.
  rewrite Q2R_Qabs, Q2R_mult, Q2R_Qabs, Q2R_minus, Q2R_tol8 in H. exact H.
Qed.

(* ---------------------------------------------------------------------------------------------- site balance *)
Definition check_sites (l : list (Q * Q)) (sites : Q) : bool := qrel (qsum l) sites.

Theorem check_sites_sound : forall l sites, check_sites l sites = true ->
  (Rabs (site_sum (to_R l) - Q2R sites) <= / 100000000 * Rabs (Q2R sites))%R.
Proof. intros l sites H. apply qrel_sound in H. rewrite qsum_R in H. exact H. Qed.

(* ---------------------------------------------------------------------------------------------- surface charge density *)
Definition sigmaQ (l : list (Q * Q)) (A g : Q) : Q := FQ * qsum l / (A * g).

Lemma sigmaQ_R : forall l A g, Qeq_bool (A * g) 0 = false ->
  Q2R (sigmaQ l A g) = sigma_of_species (to_R l) (Q2R A) (Q2R g).
Proof.
  intros l A g H. unfold sigmaQ, sigma_of_species.
  assert (Hn : ~ A * g == 0) by (intro E; apply Qeq_bool_iff in E; congruence).
  unfold Qdiv. rewrite Q2R_mult, Q2R_inv by exact Hn. rewrite !Q2R_mult, qsum_R, Q2R_FQ. reflexivity.
Qed.

(* --- DDL: Gouy-Chapman at the reported psi, mu, eps_r, T.  variables [sigma; psi; mu; eps; tk] *)
Definition gc_expr : rexpr :=
  Mul (Sqrt (Mul (Mul (Mul (Mul (Mul (Const 8000) (Var 3)) (Const e0Q)) (Const RQ)) (Var 4)) (Var 2)))
      (Sinh (Div (Mul (Const FQ) (Var 1)) (Mul (Mul (Const 2) (Const RQ)) (Var 4)))).

Lemma Q2R_8000 : Q2R 8000 = 8000%R. Proof. unfold Q2R; simpl; lra. Qed.
Lemma Q2R_2000 : Q2R 2000 = 2000%R. Proof. unfold Q2R; simpl; lra. Qed.
Lemma Q2R_2 : Q2R 2 = 2%R. Proof. unfold Q2R; simpl; lra. Qed.
Lemma Q2R_10 : Q2R 10 = 10%R. Proof. unfold Q2R; simpl; lra. Qed.

Lemma gc_expr_correct : forall s psi mu eps tk,
  evalR (env_of_Q [s; psi; mu; eps; tk]) gc_expr = gouy_chapman (Q2R eps) (Q2R tk) (Q2R mu) (Q2R psi).
Proof.
  intros. cbv [evalR env_of_Q nth gc_expr]. rewrite Q2R_8000, Q2R_2, Q2R_FQ, Q2R_RQ, Q2R_e0Q. reflexivity.
Qed.

Definition check_ddl_tol (tol : Q) (l : list (Q * Q)) (A g psi mu eps tk : Q) : bool :=
  negb (Qeq_bool (A * g) 0) &&
  check_rel_within_Q prec80 [sigmaQ l A g; psi; mu; eps; tk] (Var 0) gc_expr tol.
Definition check_ddl := check_ddl_tol tol8.
(* Donnan diffuse layer: calc_all_donnan takes the charge to be balanced from Gouy-Chapman at the surface potential and
   finds the layer's potential by an inner iteration with its own stopping rule; the relation holds to ~1e-8 typically and to
   3.4e-6 at worst in 451 sampled states, so the correspondence applies it at 1e-4 (an extra relation that catches gross errors;
   the property's explicit-layer clause is the charge balance) *)
Definition tol4d : Q := 1 # 10000.
Definition check_ddl_loose := check_ddl_tol tol4d.

Theorem check_ddl_tol_sound : forall tol l A g psi mu eps tk, check_ddl_tol tol l A g psi mu eps tk = true ->
  let gc := gouy_chapman (Q2R eps) (Q2R tk) (Q2R mu) (Q2R psi) in
  (Rabs (sigma_of_species (to_R l) (Q2R A) (Q2R g) - gc) <= Q2R tol * Rabs gc)%R.
Proof.
  intros tol l A g psi mu eps tk H gc. unfold check_ddl_tol in H. apply andb_prop in H. destruct H as [Hn H].
  apply negb_true_iff in Hn. apply check_rel_within_Q_sound in H.
  rewrite gc_expr_correct in H.
  replace (evalR (env_of_Q [sigmaQ l A g; psi; mu; eps; tk]) (Var 0)) with (Q2R (sigmaQ l A g)) in H by reflexivity.
  rewrite (sigmaQ_R l A g Hn) in H. exact H.
Qed.

Theorem check_ddl_sound : forall l A g psi mu eps tk, check_ddl l A g psi mu eps tk = true ->
  let gc := gouy_chapman (Q2R eps) (Q2R tk) (Q2R mu) (Q2R psi) in
  (Rabs (sigma_of_species (to_R l) (Q2R A) (Q2R g) - gc) <= / 100000000 * Rabs gc)%R.
Proof. intros l A g psi mu eps tk H gc. rewrite <- Q2R_tol8. exact (check_ddl_tol_sound tol8 l A g psi mu eps tk H). Qed.

Theorem check_ddl_loose_sound : forall l A g psi mu eps tk, check_ddl_loose l A g psi mu eps tk = true ->
  let gc := gouy_chapman (Q2R eps) (Q2R tk) (Q2R mu) (Q2R psi) in
  (Rabs (sigma_of_species (to_R l) (Q2R A) (Q2R g) - gc) <= / 10000 * Rabs gc)%R.
Proof.
  intros l A g psi mu eps tk H gc. replace (/ 10000)%R with (Q2R tol4d) by (unfold tol4d, Q2R; simpl; lra).
  exact (check_ddl_tol_sound tol4d l A g psi mu eps tk H).
Qed.

(* --- linear charge-potential relations: CCM sigma = C psi; CD-MUSIC sigma0 = C1 (psi0 - psi1), sigma0 + sigma1 = C2 (psi1 - psi2) *)
Definition check_linear (l : list (Q * Q)) (A g C dpsi : Q) : bool :=
  negb (Qeq_bool (A * g) 0) && qrel (sigmaQ l A g) (C * dpsi).

Theorem check_linear_sound : forall l A g C dpsi, check_linear l A g C dpsi = true ->
  (Rabs (sigma_of_species (to_R l) (Q2R A) (Q2R g) - Q2R C * Q2R dpsi) <= / 100000000 * Rabs (Q2R C * Q2R dpsi))%R.
Proof.
  intros l A g C dpsi H. unfold check_linear in H. apply andb_prop in H. destruct H as [Hn H].
  apply negb_true_iff in Hn. apply qrel_sound in H. rewrite (sigmaQ_R l A g Hn), Q2R_mult in H. exact H.
Qed.

(* --- Grahame equation for the reported aqueous composition (CD-MUSIC plane 2 without explicit diffuse layer).
   ions : (molality, charge number).  variables [sigma; psi; eps; tk] *)
Definition balancing_ion (ions : list (Q * Q)) : Q * Q :=
  let s := qsum ions in (Qabs s, if Qle_bool 0 s then (-1) else 1).

Fixpoint gsum_expr (ions : list (Q * Q)) : rexpr :=
  match ions with
  | [] => Const 0
  | (m, z) :: t =>
      Add (Mul (Const m) (Sub (Exp (Div (Mul (Mul (Neg (Const z)) (Const FQ)) (Var 1)) (Mul (Const RQ) (Var 3)))) (Const 1)))
          (gsum_expr t)
  end.

Lemma gsum_expr_correct : forall ions s psi eps tk,
  evalR (env_of_Q [s; psi; eps; tk]) (gsum_expr ions) = grahame_sum (to_R ions) (Q2R tk) (Q2R psi).
Proof.
  induction ions as [|[m z] t IH]; intros; simpl.
  - apply Q2R_0'.
  - rewrite IH. cbv [env_of_Q nth]. rewrite Q2R_FQ, Q2R_RQ, Q2R_1'. reflexivity.
Qed.

Definition grahame_expr (pos : bool) (ions : list (Q * Q)) : rexpr :=
  Mul (Const (if pos then 1 else (-1)))
      (Sqrt (Mul (Mul (Mul (Mul (Mul (Const 2000) (Var 2)) (Const e0Q)) (Const RQ)) (Var 3)) (gsum_expr ions))).

Definition Qpos_bool (q : Q) : bool := negb (Qle_bool q 0).
Lemma Qpos_bool_spec : forall q, Qpos_bool q = true <-> (0 < Q2R q)%R.
Proof.
  intro q. unfold Qpos_bool. rewrite negb_true_iff. split; intro H.
  - destruct (Qlt_le_dec 0 q) as [L|L].
    + apply Qlt_Rlt in L. rewrite Q2R_0' in L. exact L.
    + apply Qle_bool_iff in L. congruence.
  - destruct (Qle_bool q 0) eqn:E; [|reflexivity].
    apply Qle_bool_iff in E. apply Qle_Rle in E. rewrite Q2R_0' in E. lra.
Qed.

Definition check_grahame_tol (tol : Q) (l : list (Q * Q)) (A g : Q) (ions : list (Q * Q)) (psi eps tk : Q) : bool :=
  negb (Qeq_bool (A * g) 0) &&
  check_rel_within_Q prec80 [sigmaQ l A g; psi; eps; tk] (Var 0)
     (grahame_expr (Qpos_bool psi) (balancing_ion ions :: ions)) tol.
Definition check_grahame := check_grahame_tol tol8.
(* -diffuse_layer (Borkovec-Westall): the excess integrals g_z are Romberg integrals of the Poisson-Boltzmann profile of the
   ACTUAL electrolyte, so surface charge + diffuse-layer charge = 0 is the Grahame equation up to the integration tolerance
   (observed <= 1.2e-6 on the unchanged library); the correspondence applies it at 1e-4 as an extra relation *)
Definition tol4 : Q := 1 # 10000.
Definition check_grahame_loose := check_grahame_tol tol4.

Theorem check_grahame_tol_sound : forall tol l A g ions psi eps tk, check_grahame_tol tol l A g ions psi eps tk = true ->
  let gr := grahame (Q2R eps) (Q2R tk) (to_R (balancing_ion ions :: ions)) (Q2R psi) in
  (Rabs (sigma_of_species (to_R l) (Q2R A) (Q2R g) - gr) <= Q2R tol * Rabs gr)%R.
Proof.
  intros tol l A g ions psi eps tk H gr. unfold check_grahame_tol in H. apply andb_prop in H. destruct H as [Hn H].
  apply negb_true_iff in Hn. apply check_rel_within_Q_sound in H.
  replace (evalR (env_of_Q [sigmaQ l A g; psi; eps; tk]) (Var 0)) with (Q2R (sigmaQ l A g)) in H by reflexivity.
  rewrite (sigmaQ_R l A g Hn) in H.
  assert (E : evalR (env_of_Q [sigmaQ l A g; psi; eps; tk]) (grahame_expr (Qpos_bool psi) (balancing_ion ions :: ions)) = gr).
  { unfold grahame_expr, gr, grahame.
    change (evalR ?e (Mul ?a (Sqrt (Mul ?b ?c)))) with (evalR e a * sqrt (evalR e b * evalR e c))%R.
    rewrite gsum_expr_correct.
    cbv [evalR env_of_Q nth]. rewrite Q2R_2000, Q2R_RQ, Q2R_e0Q.
    destruct (Qpos_bool psi) eqn:Ep.
    - apply Qpos_bool_spec in Ep. destruct (Rlt_dec 0 (Q2R psi)); [|contradiction]. rewrite Q2R_1'. reflexivity.
    - destruct (Rlt_dec 0 (Q2R psi)) as [r|r].
      + apply Qpos_bool_spec in r. congruence.
      + replace (Q2R (-1)) with (-1)%R by (unfold Q2R; simpl; lra). reflexivity. }
  rewrite E in H. exact H.
Qed.

Theorem check_grahame_sound : forall l A g ions psi eps tk, check_grahame l A g ions psi eps tk = true ->
  let gr := grahame (Q2R eps) (Q2R tk) (to_R (balancing_ion ions :: ions)) (Q2R psi) in
  (Rabs (sigma_of_species (to_R l) (Q2R A) (Q2R g) - gr) <= / 100000000 * Rabs gr)%R.
Proof. intros l A g ions psi eps tk H gr. rewrite <- Q2R_tol8. exact (check_grahame_tol_sound tol8 l A g ions psi eps tk H). Qed.

Theorem check_grahame_loose_sound : forall l A g ions psi eps tk, check_grahame_loose l A g ions psi eps tk = true ->
  let gr := grahame (Q2R eps) (Q2R tk) (to_R (balancing_ion ions :: ions)) (Q2R psi) in
  (Rabs (sigma_of_species (to_R l) (Q2R A) (Q2R g) - gr) <= / 10000 * Rabs gr)%R.
Proof.
  intros l A g ions psi eps tk H gr. replace (/ 10000)%R with (Q2R tol4) by (unfold tol4, Q2R; simpl; lra).
  exact (check_grahame_tol_sound tol4 l A g ions psi eps tk H).
Qed.

(* ---------------------------------------------------------------------------------------------- mass action *)
(* la: log10 activity of the species; lk: log10 K of its (as written) association reaction; terms: (nu_j, la_j) of the other
   species of the reaction (reactants nu > 0, further products nu < 0); dz: charge moved to the plane; variables [psi; tk] *)
Definition lb_expr (dz : Q) : rexpr :=
  Div (Div (Mul (Mul (Neg (Const dz)) (Const FQ)) (Var 0)) (Mul (Const RQ) (Var 1))) (Ln (Const 10)).

Definition check_mass_action (la lk : Q) (terms : list (Q * Q)) (dz psi tk : Q) : bool :=
  check_eq_within_Q prec80 [psi; tk] (Const (la - lk - qsum terms)) (lb_expr dz) tol8.

Theorem check_mass_action_sound : forall la lk terms dz psi tk, check_mass_action la lk terms dz psi tk = true ->
  (Rabs (Q2R la - (Q2R lk + charge_sum (to_R terms) + log10 (boltzmann (Q2R dz) (Q2R tk) (Q2R psi)))) <= / 100000000)%R.
Proof.
  intros la lk terms dz psi tk H. unfold check_mass_action in H. apply check_eq_within_Q_sound in H.
  rewrite Q2R_tol8 in H.
  cbv [evalR env_of_Q nth lb_expr] in H. rewrite !Q2R_minus, qsum_R, Q2R_FQ, Q2R_RQ, Q2R_10 in H.
  unfold log10, boltzmann. rewrite ln_exp.
  replace (Q2R la - (Q2R lk + charge_sum (to_R terms) + - Q2R dz * F_C * Q2R psi / (R_J * Q2R tk) / ln 10))%R
    with (Q2R la - Q2R lk - charge_sum (to_R terms) - - Q2R dz * F_C * Q2R psi / (R_J * Q2R tk) / ln 10)%R by (unfold Rdiv; ring).
  exact H.
Qed.

(* moles m of a surface species (PHREEQC: moles = 10^lm for SURF species) vs its activity 10^la on the site-fraction scale *)
Definition check_activity (m equiv sites la : Q) : bool :=
  negb (Qeq_bool sites 0) &&
  check_rel_within_Q prec80 [] (Const (m * equiv / sites)) (Exp (Mul (Const la) (Ln (Const 10)))) tol8.

Theorem check_activity_sound : forall m equiv sites la, check_activity m equiv sites la = true ->
  (Rabs (Q2R m * Q2R equiv / Q2R sites - Rpower 10 (Q2R la)) <= / 100000000 * Rabs (Rpower 10 (Q2R la)))%R.
Proof.
  intros m equiv sites la H. unfold check_activity in H. apply andb_prop in H. destruct H as [Hn H].
  apply negb_true_iff in Hn. apply check_rel_within_Q_sound in H. rewrite Q2R_tol8 in H.
  assert (Hs : ~ sites == 0) by (intro E; apply Qeq_bool_iff in E; congruence).
  cbv [evalR] in H. rewrite Q2R_10 in H. unfold Qdiv in H. rewrite Q2R_mult, Q2R_inv, Q2R_mult in H by exact Hs.
  unfold Rpower. exact H.
Qed.

(* ---------------------------------------------------------------------------------------------- explicit diffuse layer *)
Definition check_dl_balance (surf dl : list (Q * Q)) : bool :=
  Qle_bool (Qabs (qsum surf + qsum dl)) (tol8 * Qabs (qsum surf)).

Theorem check_dl_balance_sound : forall surf dl, check_dl_balance surf dl = true ->
  (Rabs (charge_sum (to_R surf) + charge_sum (to_R dl)) <= / 100000000 * Rabs (charge_sum (to_R surf)))%R.
Proof.
  intros surf dl H. unfold check_dl_balance in H. apply Qle_bool_iff in H. apply Qle_Rle in H.
  rewrite Q2R_Qabs, Q2R_mult, Q2R_Qabs, Q2R_plus, !qsum_R, Q2R_tol8 in H. exact H.
Qed.

(* Donnan diffuse layer: every aqueous species is enriched by its Boltzmann factor at ONE potential psi_D:
   E_i := n_i(DL) / (m_i W_DL) = exp(- z_i F psi_D / RT).  Checked against a reference species r: E_i = E_r ^ (z_i / z_r). *)
Definition check_donnan_ratio (Ei Er zi zr : Q) : bool :=
  negb (Qeq_bool zr 0) && Qpos_bool Er &&
  check_rel_within_Q prec80 [] (Const Ei) (Pow (Const Er) (Const (zi / zr))) tol8.

Theorem check_donnan_ratio_sound : forall Ei Er zi zr, check_donnan_ratio Ei Er zi zr = true ->
  (0 < Q2R Er /\ Q2R zr <> 0 /\
   Rabs (Q2R Ei - Rpower (Q2R Er) (Q2R zi / Q2R zr)) <= / 100000000 * Rabs (Rpower (Q2R Er) (Q2R zi / Q2R zr)))%R.
Proof.
  intros Ei Er zi zr H. unfold check_donnan_ratio in H. apply andb_prop in H. destruct H as [H H3].
  apply andb_prop in H. destruct H as [H1 H2]. apply negb_true_iff in H1.
  assert (Hz : ~ zr == 0) by (intro E; apply Qeq_bool_iff in E; congruence).
  apply Qpos_bool_spec in H2. apply check_rel_within_Q_sound in H3. rewrite Q2R_tol8 in H3.
  cbv [evalR] in H3. unfold Qdiv in H3. rewrite Q2R_mult, Q2R_inv in H3 by exact Hz.
  split; [exact H2|]. split.
  - intro E. apply Hz. apply eqR_Qeq. rewrite E, Q2R_0'. reflexivity.
  - exact H3.
Qed.

(* if the reference species is enriched by its Boltzmann factor, the accepted species is enriched by its own (1e-8) *)
Lemma donnan_boltzmann_power : forall zr zi tk psi : R, zr <> 0%R ->
  Rpower (boltzmann zr tk psi) (zi / zr)%R = boltzmann zi tk psi.
Proof.
  intros zr zi tk psi Hz. unfold Rpower, boltzmann. rewrite ln_exp. f_equal.
  replace (zi / zr * (- zr * F_C * psi / (R_J * tk)))%R with (- zi * F_C * psi / (R_J * tk) * (zr * / zr))%R by (unfold Rdiv; ring).
  rewrite Rinv_r by exact Hz. ring.
Qed.

(* ---------------------------------------------------------------------------------------------- self tests *)
(* Hfo, 0.013 m, pH 6.5 (probe of 2026-09-30): psi = 0.0859718 V, sigma = 0.0343916 C/m2 *)
Example check_ddl_example :
  check_ddl [(1, 1924632491705655 # 100000000000000000000)] 600 (9 # 100)
            (8597183785845237 # 100000000000000000) (13003300881422444 # 1000000000000000000)
            (7838441784058874 # 100000000000000) (29815 # 100) = true.
Proof. vm_compute. reflexivity. Qed.
Example check_ddl_rejects :
  check_ddl [(1, 1924632 # 100000000000)] 600 (9 # 100)
            (8597183785845237 # 100000000000000000) (13003300881422444 # 1000000000000000000)
            (7838441784058874 # 100000000000000) (29815 # 100) = false.
Proof. vm_compute. reflexivity. Qed.
Example check_sites_example : check_sites [(1, 3 # 10); (2, 35 # 100)] 1 = true.
Proof. vm_compute. reflexivity. Qed.
Example check_linear_example : check_linear [(1, 1 # 964935)] 1 1 (1 # 2) (2 # 10) = true.
Proof. vm_compute. reflexivity. Qed.
