(* C15 -- results are invariant under physically irrelevant changes of the input.
   Statements only; proofs are in IPV.C15.*.  Gen_C15_engine is regenerated from /repo on every run. *)
From Coq Require Import QArith List String Permutation.
Require Import IPV.C15.Ir IPV.C15.Units IPV.C15.Convert IPV.C15.ConvertBody IPV.C15.Checker IPV.Gen.Gen_C15_engine.
Import ListNotations.
Open Scope string_scope.
Open Scope Q_scope.

(* One iteration of the constituent loop of the regenerated Phreeqc::convert_units, started in any state
   whose solution has per-kgw default units su and totals T, on a line that describes m mol/kgw of
   constituent d in ANY of the nine per-kgw units with ANY formula-weight source (-gfw, `as`, master
   species; alkalinity `as CaCO3` halved), stores a value equal to m under key d. *)
Theorem convert_line_correct :
  forall (o : oracles) st su T l m g,
  SolIn su T st -> strstr_val su "/l" = VP false ->
  good_desc o (l_desc l) ->
  spec_gfw o (l_desc l) (l_src l) = Some g -> 0 < g -> 0 < m ->
  l_conc l = describe (l_unit l) m g ->
  (match l_src l with GAs f => f <> "" | _ => True end) ->
  exists fl st' q, exec_list o no_funs comps_body (bind_record (line_record l) st) = Some (fl, st')
    /\ fl <> FReturn /\ q == m /\ SolIn su (map_put (l_desc l) (VQ q) T) st'.
Proof. exact body_ok. Qed.
Print Assumptions convert_line_correct.

Theorem checker_sound : forall k a b, pair_ok k a b = true -> close a (k * b).
Proof. exact pair_ok_sound. Qed.
Print Assumptions checker_sound.
