(* C15 -- results are invariant under physically irrelevant changes of the input.
   Statements only; proofs are in IPV.C15.*.
   IPV.Gen.Gen_C15_engine (gen_convert_units, gen_add_solution, gen_add_mix) is regenerated from
   /repo's prep.cpp and step.cpp on every run, so the theorems that mention comps_body, as_prefix,
   as_totals_body, gen_add_mix, run_convert are re-proved about what the code says now. *)
From Coq Require Import QArith List String ZArith Permutation.
Require Import IPV.C15.Ir IPV.C15.Units IPV.C15.Convert IPV.C15.ExecLemmas IPV.C15.ConvertBody IPV.C15.UnitsProofs
               IPV.C15.ConvertSamples IPV.C15.Store IPV.C15.Mix IPV.C15.MixGen IPV.C15.MixGenSamples IPV.C15.Homog IPV.C15.Dens IPV.C15.Block IPV.C15.ReadTaint IPV.C15.Checker IPV.Gen.Gen_C15_engine.
Import ListNotations.
Open Scope string_scope.
Open Scope Q_scope.

(* ---------------- unit conversion: the regenerated code ---------------- *)

(* One iteration of the constituent loop of the regenerated Phreeqc::convert_units, started in ANY state
   whose solution has per-kgw default units su and totals T, on a line that describes m mol/kgw of
   constituent d in ANY of the nine per-kgw units (Mol mMol uMol g mg ug eq meq ueq) with ANY
   formula-weight source (-gfw number, `as` formula, master species; alkalinity `as CaCO3` halved),
   stores a value equal to m under key d and touches no other total. *)
Theorem convert_line_correct :
  forall (o : oracles) st su T l m g,
  SolIn su T st -> strstr_val su "/l" = VP false ->
  good_desc o (l_desc l) ->
  spec_gfw o (l_desc l) (l_src l) = Some g -> 0 < g -> 0 < m ->
  l_conc l = describe (l_unit l) m g ->
  (match l_src l with GAs f => f <> "" | _ => True end) ->
  exists fl st' q, exec_list o no_funs comps_body (bind_record (line_record l) st) = Some (fl, st')
    /\ fl <> FReturn /\ q == m /\ SolIn su (map_put (l_desc l) (VQ q) T) st'.
Proof. exact body_ok. Qed.
Print Assumptions convert_line_correct.

(* UNIT CHANGE: the same amount written in two different units gives equal mole totals *)
Theorem unit_change_same_totals :
  forall (o : oracles) st su T d src m g u1 u2,
  SolIn su T st -> strstr_val su "/l" = VP false ->
  good_desc o d -> spec_gfw o d src = Some g -> 0 < g -> 0 < m ->
  (match src with GAs f => f <> "" | _ => True end) ->
  exists fl1 st1 q1 fl2 st2 q2,
    exec_list o no_funs comps_body (bind_record (line_record (mkLine d u1 src (describe u1 m g))) st) = Some (fl1, st1) /\
    exec_list o no_funs comps_body (bind_record (line_record (mkLine d u2 src (describe u2 m g))) st) = Some (fl2, st2) /\
    fl1 <> FReturn /\ fl2 <> FReturn /\ q1 == q2 /\
    SolIn su (map_put d (VQ q1) T) st1 /\ SolIn su (map_put d (VQ q2) T) st2.
Proof. exact unit_change_gen. Qed.
Print Assumptions unit_change_same_totals.

(* hypotheses are satisfiable: 100 mg/kgw alkalinity as CaCO3 is a line of the family *)
Example unit_change_premises_example :
  let o := mkOracles (fun f => if String.eqb f "CaCO3" then Some (1001 # 10) else None)
                     (fun e => Some (5005 # 100, 0)) (fun e => Some e) (fun _ => None) in
  good_desc o "Alkalinity" /\ spec_gfw o "Alkalinity" (GAs "CaCO3") = Some ((1001 # 10) / 2)
  /\ describe (mkUnit PMilli KGram) (2 # 1000) ((1001 # 10) / 2) == 1001 # 10.
Proof. simpl. split; [repeat split; eexists; reflexivity|]. split; [reflexivity|]. vm_compute. reflexivity. Qed.

(* the whole regenerated convert_units (prelude, loop, water scaling) agrees with the clean model on
   concrete solutions: closed computation on the generated code *)
Theorem gen_convert_units_agrees_on_samples :
  forallb (fun s => gen_matches_model (fst s) (snd s)) sample_lines = true.
Proof. exact ConvertSamples.gen_convert_units_agrees_on_samples. Qed.
Print Assumptions gen_convert_units_agrees_on_samples.

(* ---------------- unit conversion and water scaling: the clean model ---------------- *)

Theorem unit_change_same_molality : forall o d src m g u1 u2,
  spec_gfw o d src = Some g -> ~ g == 0 ->
  exists q1 q2, line_molality o (mkLine d u1 src (describe u1 m g)) = Some q1 /\
                line_molality o (mkLine d u2 src (describe u2 m g)) = Some q2 /\ q1 == q2.
Proof. exact UnitsProofs.unit_change_same_molality. Qed.
Print Assumptions unit_change_same_molality.

(* WATER SCALING: k times the water gives k times every mole total (totals per kg water unchanged) *)
Theorem water_scaling : forall o k w ls t,
  convert_model o w ls = Some t ->
  exists t', convert_model o (k * w) ls = Some t' /\ nd_equiv t' (nd_scale k t).
Proof. exact water_scaling_model. Qed.
Print Assumptions water_scaling.

(* ---------------- order, repetition, renumbering (key-ordered maps) ---------------- *)

(* ORDER INDEPENDENCE: constituents / blocks with distinct keys can be read in any order *)
Theorem order_independent : forall (l1 l2 : list (string * Q)),
  Permutation l1 l2 -> NoDup (map fst l1) ->
  forall k, get string Q String.eqb k (of_list string Q String.compare l1)
          = get string Q String.eqb k (of_list string Q String.compare l2).
Proof. exact (of_list_perm string Q String.compare String.eqb String.compare_eq_iff string_compare_refl String.eqb_eq). Qed.
Print Assumptions order_independent.

(* REPEATED DEFINITION: an identical definition repeated later changes nothing *)
Theorem repeated_definition : forall (l : list (string * Q)) k v,
  In (k, v) l -> NoDup (map fst l) ->
  forall k', get string Q String.eqb k' (of_list string Q String.compare (l ++ [(k, v)]))
           = get string Q String.eqb k' (of_list string Q String.compare l).
Proof. exact (of_list_repeat string Q String.compare String.eqb String.compare_eq_iff string_compare_refl String.eqb_eq). Qed.
Print Assumptions repeated_definition.

Theorem redefinition_idempotent : forall (k : Z) (v : Q) l,
  put Z Q Z.compare k v (put Z Q Z.compare k v l) = put Z Q Z.compare k v l.
Proof. exact (put_idempotent Z Q Z.compare Z.compare_refl). Qed.
Print Assumptions redefinition_idempotent.

(* RENUMBERING: defining the same entities under an injective renumbering gives the renumbered store *)
Theorem renumbering_commutes : forall (V : Type) (sigma : Z -> Z),
  (forall a b, sigma a = sigma b -> a = b) ->
  forall (l : list (Z * V)) n,
  zget V (sigma n) (zof_list V (map (fun kv => (sigma (fst kv), snd kv)) l)) = zget V n (zof_list V l).
Proof. exact renumber_commutes. Qed.
Print Assumptions renumbering_commutes.

(* ---------------- mixing: the regenerated code ---------------- *)

(* for ALL accumulator values, solution properties and factors: extensive properties are added with the
   extensive factor, intensive ones with the intensive factor *)
Theorem add_solution_scalars : forall (o : oracles) acc fieldv e i,
  exists st', exec_list o no_funs as_prefix (as_state acc fieldv e i) = Some (FNormal, st')
    /\ Forall (acc_ok acc fieldv e i st') as_table.
Proof. exact MixGen.add_solution_scalars. Qed.
Print Assumptions add_solution_scalars.

Theorem add_solution_totals_step : forall (o : oracles) el p v e old T,
  primary_of o el = Some p ->
  (map_get p T = Some (VQ old) \/ (map_get p T = None /\ old = 0)) ->
  exists st' q,
    exec_list o no_funs as_totals_body
      (mkState (combine gen_add_solution_params [VP true; VQ e; VQ 0]) [("input_error", VQ 0)]
               [(pair_first, VS el); (pair_second, VQ v)] [(master_totals, T)]) = Some (FNormal, st')
    /\ q == old + v * e
    /\ clookup master_totals (conts st') = Some (map_put p (VQ q) T).
Proof. exact MixGen.add_solution_totals_step. Qed.
Print Assumptions add_solution_totals_step.

Theorem gen_add_mix_agrees_on_samples : forallb (fun ds => agrees ds ["Ca"; "Cl"; "Na"]) samples = true.
Proof. exact MixGenSamples.gen_add_mix_agrees_on_samples. Qed.
Print Assumptions gen_add_mix_agrees_on_samples.

(* ---------------- mixing: the clean model (all sizes) ---------------- *)

Theorem mix_commutes : forall cs cs', Permutation cs cs' -> mixed_equiv (mix cs) (mix cs').
Proof. exact Mix.mix_commutes. Qed.
Print Assumptions mix_commutes.

Theorem self_mix : forall f1 f2 s cs,
  mixed_equiv (mix ((f1, s) :: (f2, s) :: cs)) (mix ((f1 + f2, s) :: cs)).
Proof. exact Mix.self_mix. Qed.
Print Assumptions self_mix.

Theorem self_mix_identity : forall s, ~ m_water s == 0 ->
  let x := mix [(1, s)] in
  x_water x == m_water s /\ x_cb x == m_cb s /\ x_th x == m_th s /\ x_to x == m_to s /\
  (forall e, x_tot x e == m_tot s e) /\ x_tc x == m_tc s /\ x_ph x == m_ph s.
Proof. exact Mix.self_mix_identity. Qed.
Print Assumptions self_mix_identity.

Theorem mix_water_scaling : forall k cs, ~ k == 0 -> ~ sumf fw cs == 0 ->
  let a := mix (scale_comps k cs) in
  let b := mix cs in
  x_water a == k * x_water b /\ x_cb a == k * x_cb b /\ x_th a == k * x_th b /\ x_to a == k * x_to b /\
  (forall e, x_tot a e == k * x_tot b e) /\ x_tc a == x_tc b /\ x_ph a == x_ph b.
Proof. exact Mix.mix_water_scaling. Qed.
Print Assumptions mix_water_scaling.

(* ---------------- density and solution volume: the regenerated calc_dens ---------------- *)

(* the scaling law behind the next three theorems: a syntactic homogeneity certificate is sound *)
Theorem homogeneity_certificate_sound : forall ext c env e d, ~ c == 0 ->
  degree ext e = Some d ->
  evalq (scale_env ext c env) e == c ^ d * evalq env e.
Proof. exact degree_sound. Qed.
Print Assumptions homogeneity_certificate_sound.

(* DENSITY IS INTENSIVE: scaling mass of water, total solute mass and total solute volume by a common
   factor c leaves the expression the regenerated calc_dens assigns to density_x unchanged *)
Theorem density_scale_invariant : forall (env : string -> Q) c, ~ c == 0 ->
  evalq (scale_env dens_ext c env) dens_expr == evalq env dens_expr.
Proof. exact Dens.density_scale_invariant. Qed.
Print Assumptions density_scale_invariant.

Theorem solution_mass_extensive : forall (env : string -> Q) c, ~ c == 0 ->
  evalq (scale_env mass_ext c env) mass_expr == c * evalq env mass_expr.
Proof. exact Dens.solution_mass_extensive. Qed.
Print Assumptions solution_mass_extensive.

Theorem solution_volume_extensive : forall (env : string -> Q) c, ~ c == 0 ->
  evalq (scale_env vol_ext c env) vol_expr == c * evalq env vol_expr.
Proof. exact Dens.solution_volume_extensive. Qed.
Print Assumptions solution_volume_extensive.

(* ---------------- reading a SOLUTION block: position of `units` among the constituent lines ---------------- *)

(* model: a constituent line keeps only its OWN units; the block units are supplied after the whole block has been
   read.  Then the resolved units and amount of every constituent are independent of the order of the items. *)
Theorem block_read_order_independent : forall items items',
  Permutation items items' ->
  (List.length (units_of items) <= 1)%nat ->
  NoDup (map fst (lines_of items)) ->
  forall d, resolved (read_block items) d = resolved (read_block items') d.
Proof. exact Block.block_read_order_independent. Qed.
Print Assumptions block_read_order_independent.

(* tie to the code: in the regenerated cxxISolutionComp::read no assignment to the constituent's units depends on the
   units of the enclosing solution (flow-insensitive taint over the generated statements) *)
Theorem isc_read_units_own_only :
  assigns_units gen_isc_read = true /\ units_taint_free gen_isc_read = true.
Proof. exact ReadTaint.isc_read_units_own_only. Qed.
Print Assumptions isc_read_units_own_only.

(* ---------------- the verified checker used on the implementation's output ---------------- *)

Theorem checker_sound : forall k a b, pair_ok k a b = true -> close a (k * b).
Proof. exact pair_ok_sound. Qed.
Print Assumptions checker_sound.

Theorem cell_checker_sound : forall l k a b,
  cell_ok l k a b = true -> close a (k * b) \/ (l = true /\ Qabs.Qabs (a - b) <= log_tol).
Proof. exact cell_ok_sound. Qed.
Print Assumptions cell_checker_sound.
