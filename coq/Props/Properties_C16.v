(* C16 — Activity-coefficient models follow their defining equations and Gibbs-Duhem.
   g*_lg, g*_dg, llnl_*, init_LOG_10, pitzer_AW, sit_AW are REGENERATED from /repo on every run
   (coq/Gen/Gen_C16_gammas.v, Gen_C16_aw.v); davies, ext_dh, bdot_dh, neutral_lin, co2_drummond,
   water_isotope, water_activity are the textbook definitions of coq/C16/Spec.v. *)
From Coq Require Import Reals QArith Qreals Qabs List String.
From Coquelicot Require Import Coquelicot.
From IPV Require Import Base.RExpr Base.IntervalEval C16.Spec C16.Checker C16.GammaProofs C16.GammaDeriv C16.GammaLLNL C16.GammaAW C16.PitzerTerms
  Gen.Gen_C16_gammas Gen.Gen_C16_aw Gen.Gen_C16_pitzer Gen.Gen_C16_sit.
Import ListNotations.
Local Open Scope R_scope.
Local Open Scope string_scope.

(* --- the code's right-hand sides are the textbook models (all real arguments in the domain) --- *)

Theorem gamma_case0_is_neutral : forall b I,
  evalR (env_of [b; I]) g0_lg = neutral_lin b I.
Proof. exact g0_is_neutral. Qed.
Print Assumptions gamma_case0_is_neutral.

Theorem gamma_case1_is_davies : forall z A I, 0 <= I ->
  evalR (env_of [z; A; I]) g1_lg = davies A z I.
Proof. exact g1_is_davies. Qed.
Print Assumptions gamma_case1_is_davies.

Theorem gamma_case2_is_extended_debye_hueckel : forall z A B a0 b I, 0 <= I -> 0 <= a0 -> 0 <= B ->
  evalR (env_of [z; A; B; a0; b; I]) g2_lg = ext_dh A B z a0 b I.
Proof. exact g2_is_ext_dh. Qed.
Print Assumptions gamma_case2_is_extended_debye_hueckel.

Theorem gamma_case3_case5_are_one :
  evalR (env_of []) g3_lg = 0 /\ evalR (env_of []) g5_lg = 0 /\
  g3_lg_vars = [] /\ g5_lg_vars = [] /\ g3_lg_conds = [] /\ g5_lg_conds = [].
Proof. exact g3_g5_are_zero. Qed.
Print Assumptions gamma_case3_case5_are_one.

Theorem gamma_case7_is_bdot : forall z A B bdot a0 I, 0 <= I -> 0 <= a0 -> 0 <= B ->
  evalR (env_of [z; A; B; bdot; a0; I]) g7_lg = bdot_dh A B bdot z a0 I.
Proof. exact g7_is_bdot. Qed.
Print Assumptions gamma_case7_is_bdot.

Theorem gamma_case8_is_co2_drummond : forall c0 c1 c2 c3 c4 T I L,
  L = evalR (env_of []) init_LOG_10 -> 0 <= I -> T <> 0 ->
  evalR (env_of [c0; c1; c2; c3; c4; T; I; L]) g8_lg = co2_drummond c0 c1 c2 c3 c4 T I.
Proof. exact g8_is_co2_drummond. Qed.
Print Assumptions gamma_case8_is_co2_drummond.

Theorem gamma_case9_is_water_isotope : forall la L gfw,
  L = evalR (env_of []) init_LOG_10 -> 0 < gfw ->
  evalR (env_of [la; L; gfw]) g9_lg = water_isotope la gfw.
Proof. exact g9_is_water_isotope. Qed.
Print Assumptions gamma_case9_is_water_isotope.

Theorem gamma_case4_exchange : forall coef z A B bdot a0 b I equiv cec, 0 <= I -> 0 <= a0 -> 0 <= B ->
  evalR (env_of [coef; z; A; I; equiv; cec]) g4_lg_davies = coef * davies A z I + log10 (Rabs equiv / cec) /\
  evalR (env_of [coef; z; A; B; a0; b; I; equiv; cec]) g4_lg_dh = coef * ext_dh A B z a0 b I + log10 (Rabs equiv / cec) /\
  evalR (env_of [coef; z; A; B; bdot; a0; I; equiv; cec]) g4_lg_llnl = coef * bdot_dh A B bdot z a0 I + log10 (Rabs equiv / cec) /\
  evalR (env_of [equiv; cec]) g4_lg_plain = log10 (Rabs equiv / cec).
Proof. exact g4_exchange. Qed.
Print Assumptions gamma_case4_exchange.

Theorem gamma_case6_surface : forall equiv sites,
  evalR (env_of [equiv; sites]) g6_lg = log10 (equiv / sites)
  /\ g6_lg_vars = ["equiv"; "s_x[i]->alk"] /\ g6_lg_conds = ["s_x[i]->alk > 0"].
Proof. exact g6_surface. Qed.
Print Assumptions gamma_case6_surface.

Theorem LOG_10_constant_is_ln10 :
  evalR (env_of []) init_LOG_10 = ln 10 /\ init_LOG_10_vars = [] /\ init_LOG_10_conds = [].
Proof. exact LOG_10_is_ln10. Qed.
Print Assumptions LOG_10_constant_is_ln10.

(* --- the variable tables / guards of the extracted assignments (no extra operand, no extra guard) --- *)
Theorem gammas_tables_and_shape :
  (gammas_lg_cases = ["0"; "1"; "2"; "3"; "4"; "5"; "6"; "7"; "8"; "9"] /\ gammas_lg_sites_outside_switch = 0%nat) /\
  (g0_lg_vars = ["s_x[i]->dhb"; "mu"] /\ g0_lg_conds = []) /\
  (g1_lg_vars = ["s_x[i]->z"; "DH_A"; "mu"] /\ g1_lg_conds = []) /\
  (g2_lg_vars = ["s_x[i]->z"; "DH_A"; "DH_B"; "s_x[i]->dha"; "s_x[i]->dhb"; "mu"] /\ g2_lg_conds = []) /\
  (g7_lg_vars = ["s_x[i]->z"; "a_llnl"; "b_llnl"; "bdot_llnl"; "s_x[i]->dha"; "mu"] /\
   g7_lg_conds = ["llnl_temp.size() > 0"; "!(s_x[i]->z == 0)"] /\
   evalR (env_of []) g7_lg_z0 = 0 /\ g7_lg_z0_vars = [] /\ g7_lg_z0_conds = ["llnl_temp.size() > 0"; "s_x[i]->z == 0"]) /\
  (g8_lg_vars = ["llnl_co2_coefs[0]"; "llnl_co2_coefs[1]"; "llnl_co2_coefs[2]"; "llnl_co2_coefs[3]"; "llnl_co2_coefs[4]"; "tk_x"; "mu"; "LOG_10"] /\
   g8_lg_conds = ["llnl_temp.size() > 0"]) /\
  (g9_lg_vars = ["s_h2o->la"; "LOG_10"; "gfw_water"] /\ g9_lg_conds = []).
Proof. exact (conj gammas_shape (conj g0_table (conj g1_table (conj g2_table (conj g7_table (conj g8_table g9_table)))))). Qed.
Print Assumptions gammas_tables_and_shape.

(* --- dg = moles * d(ln gamma)/d(mu): the terms that feed the Jacobian are the true derivatives --- *)
Theorem dg_is_derivative :
  (forall b I moles,
     is_derive (fun x => moles * (ln 10 * neutral_lin b x)) I (evalR (env_of [b; ln 10; moles]) g0_dg)) /\
  (forall z A I moles, 0 < I ->
     is_derive (fun x => moles * (ln 10 * davies A z x)) I (evalR (env_of [z; A; I; ln 10; moles]) g1_dg)) /\
  (forall z A B a0 b I moles, 0 < I -> 0 <= a0 -> 0 <= B ->
     is_derive (fun x => moles * (ln 10 * ext_dh A B z a0 b x)) I (evalR (env_of [z; A; B; a0; b; I; ln 10; moles]) g2_dg)) /\
  (forall z A B bdot a0 I moles, 0 < I -> 0 <= a0 -> 0 <= B ->
     is_derive (fun x => moles * (ln 10 * bdot_dh A B bdot z a0 x)) I (evalR (env_of [z; A; B; bdot; a0; I; ln 10; moles]) g7_dg)) /\
  (forall c0 c1 c2 c3 c4 T I moles, 0 <= I -> T <> 0 ->
     is_derive (fun x => moles * (ln 10 * co2_drummond c0 c1 c2 c3 c4 T x)) I (evalR (env_of [c0; c1; c2; c3; c4; T; I; moles]) g8_dg)).
Proof. exact (conj g0_dg_is_derivative (conj g1_dg_is_derivative (conj g2_dg_is_derivative (conj g7_dg_is_derivative g8_dg_is_derivative)))). Qed.
Print Assumptions dg_is_derivative.

(* --- LLNL: A, B, Bdot are interpolated linearly in temperature between the bracketing grid points --- *)
Theorem llnl_parameters_interpolate_linearly : forall t t0 t1 p0 p1, t0 <> t1 ->
  let f := evalR (env_of [t; t0; t1]) llnl_f in
  evalR (env_of [f; p0; p1]) llnl_a = p0 + (p1 - p0) * (t - t0) / (t1 - t0) /\
  evalR (env_of [f; p0; p1]) llnl_b = p0 + (p1 - p0) * (t - t0) / (t1 - t0) /\
  evalR (env_of [f; p0; p1]) llnl_bdot = p0 + (p1 - p0) * (t - t0) / (t1 - t0).
Proof. exact llnl_interpolation. Qed.
Print Assumptions llnl_parameters_interpolate_linearly.

(* --- Pitzer / SIT: a_w := exp(-M_w phi sum m), M_w = 1/55.50837 kg/mol --- *)
Theorem water_activity_def : forall osum phi,
  evalR (env_of [osum; phi]) pitzer_AW = water_activity phi osum /\
  evalR (env_of [osum; phi]) sit_AW = water_activity phi osum.
Proof. exact aw_is_water_activity. Qed.
Print Assumptions water_activity_def.


(* --- Pitzer sums (pz_* regenerated from Phreeqc::pitzer, G, GP): every parameter type contributes to ln gamma and to
   the osmotic sum as the derivative / Euler complement of ONE potential g (consistent2 / consistent3 / consistent2X are
   defined in C16/PitzerTerms.v:  d0, d1(, d2) = dg/dm_k at fixed I, Z;  dX = dg/dX for X = I or Z;
   2 * OSMOT-increment = sum m_k dg/dm_k + X dg/dX - g).  Together with gibbs_duhem_from_potential this is Gibbs-Duhem
   for the implemented model, for all molalities, parameters and I > 0 — except the parts named below. --- *)
Theorem pitzer_terms_thermodynamically_consistent :
  (forall p m0 m1, consistent2 (fun a b => 2 * a * b * p) m0 m1
      (evalR (env_of [m0; m1; p]) pz_B0_g0) (evalR (env_of [m0; m1; p]) pz_B0_g1) (evalR (env_of [m0; m1; p]) pz_B0_os)) /\
  (forall th m0 m1, consistent2 (fun a b => 2 * a * b * th) m0 m1
      (evalR (env_of [m0; m1; th]) pz_TH_g0) (evalR (env_of [m0; m1; th]) pz_TH_g1) (evalR (env_of [m0; m1; th]) pz_TH_os)) /\
  (forall p m0 m1 m2,
    consistent3 (fun a b c => a * b * c * p) m0 m1 m2
      (evalR (env_of [m0; m1; m2; p]) pz_PSI_g0) (evalR (env_of [m0; m1; m2; p]) pz_PSI_g1) (evalR (env_of [m0; m1; m2; p]) pz_PSI_g2)
      (evalR (env_of [m0; m1; m2; p]) pz_PSI_os) /\
    consistent3 (fun a b c => a * b * c * p) m0 m1 m2
      (evalR (env_of [m0; m1; m2; p]) pz_ZETA_g0) (evalR (env_of [m0; m1; m2; p]) pz_ZETA_g1) (evalR (env_of [m0; m1; m2; p]) pz_ZETA_g2)
      (evalR (env_of [m0; m1; m2; p]) pz_ZETA_os) /\
    consistent3 (fun a b c => a * b * c * p) m0 m1 m2
      (evalR (env_of [m0; m1; m2; p]) pz_ETA_g0) (evalR (env_of [m0; m1; m2; p]) pz_ETA_g1) (evalR (env_of [m0; m1; m2; p]) pz_ETA_g2)
      (evalR (env_of [m0; m1; m2; p]) pz_ETA_os)) /\
  (forall C z0 z1 m0 m1 Z, z0 * z1 <> 0 ->
    let k := 2 * sqrt (Rabs (z0 * z1)) in
    consistent2X (fun a b u => a * b * u * C / k) m0 m1 Z
      (evalR (env_of [m0; m1; C; Z; z0; z1]) pz_C0_g0) (evalR (env_of [m0; m1; C; Z; z0; z1]) pz_C0_g1)
      (evalR (env_of [m0; m1; C; z0; z1]) pz_C0_csum) (evalR (env_of [m0; m1; C; Z; z0; z1]) pz_C0_os)) /\
  (forall beta al m0 m1 I, 0 < I -> al <> 0 ->
    let x := al * sqrt I in
    consistent2X (fun a b u => 2 * a * b * beta * Gf (al * sqrt u)) m0 m1 I
      (evalR (env_of [m0; m1; beta; Gf x]) pz_B1_g0) (evalR (env_of [m0; m1; beta; Gf x]) pz_B1_g1)
      (2 * evalR (env_of [m0; m1; beta; GPf x; I]) pz_B1_F) (evalR (env_of [m0; m1; beta; al; I]) pz_B1_os) /\
    consistent2X (fun a b u => 2 * a * b * beta * Gf (al * sqrt u)) m0 m1 I
      (evalR (env_of [m0; m1; beta; Gf x]) pz_B2_g0) (evalR (env_of [m0; m1; beta; Gf x]) pz_B2_g1)
      (2 * evalR (env_of [m0; m1; beta; GPf x; I]) pz_B2_F) (evalR (env_of [m0; m1; beta; al; I]) pz_B2_os)) /\
  (forall A0 I, 0 < I ->
    is_derive (fun u => f_DH A0 u) I (2 * evalR (env_of [A0; I]) pz_DH_F) /\
    2 * evalR (env_of [A0; I]) pz_DH_os = I * (2 * evalR (env_of [A0; I]) pz_DH_F) - f_DH A0 I) /\
  (forall z F CSUM,
    evalR (env_of [evalR (env_of [z]) pz_asm_z0; F; CSUM]) pz_asm_g = z * z * F + Rabs z * CSUM).
Proof.
  exact (conj pz_B0_consistent (conj pz_THETA_consistent (conj pz_PSI_ZETA_ETA_consistent (conj pz_C0_consistent
        (conj pz_B1_B2_consistent (conj pz_DH_consistent pz_assembly)))))).
Qed.
Print Assumptions pitzer_terms_thermodynamically_consistent.

(* the code's G and GP functions (x <> 0 branch) are Pitzer's g and g': g + g' = exp(-x), d/dI g(alpha sqrt I) = g'(alpha sqrt I)/I *)
Theorem pitzer_G_GP_functions :
  (forall x, x <> 0 -> Gf x + GPf x = exp (- x)) /\
  (forall al I, 0 < I -> al <> 0 -> is_derive (fun u => Gf (al * sqrt u)) I (GPf (al * sqrt I) / I)).
Proof. exact (conj G_plus_GP G_derivative). Qed.
Print Assumptions pitzer_G_GP_functions.

(* PARTIAL pieces of the Pitzer sums:
   - ETHETA (unsymmetrical mixing): consistent for ANY function thetaE whose derivative at I is the reported ethetap; that the
     numerical J-function code (ETHETAS / ETHETA_PARAMS) produces such a pair is NOT proved.
   - LAMBDA / MU: consistent when the data-dependent factors satisfy ln_coef[0] = ln_coef[1] (= ln_coef[2]) = c and
     os_coef = c/2 (LAMBDA) resp. c (MU); that pitzer_tidy sets them so is proved below (pitzer_lambda_mu_weights_consistent) for
     LAMBDA (different species and self-interaction) and for MU among three different species; MU with repeated species
     (weights 1/3/3) is NOT proved.
   - the pressure-dependent variants F1, F2 of the Debye-Hueckel term (patm > 1) are not covered. *)
Theorem pitzer_etheta_lambda_mu_consistent_partial :
  (forall (thetaE : R -> R) (ethetap I : R), is_derive thetaE I ethetap -> forall m0 m1,
    consistent2X (fun a b u => 2 * a * b * thetaE u) m0 m1 I
      (evalR (env_of [m0; m1; thetaE I]) pz_ET_g0) (evalR (env_of [m0; m1; thetaE I]) pz_ET_g1)
      (2 * evalR (env_of [m0; m1; ethetap]) pz_ET_F) (evalR (env_of [m0; m1; thetaE I; ethetap; I]) pz_ET_os)) /\
  (forall la c m0 m1,
    let env := env_of [m0; m1; la; c; c; c / 2] in
    consistent2 (fun a b => c * a * b * la) m0 m1 (evalR env pz_LA_g0) (evalR env pz_LA_g1) (evalR env pz_LA_os)) /\
  (forall mu c m0 m1 m2,
    let env := env_of [m0; m1; m2; mu; c; c; c; c] in
    consistent3 (fun a b w => c * a * b * w * mu) m0 m1 m2 (evalR env pz_MU_g0) (evalR env pz_MU_g1) (evalR env pz_MU_g2) (evalR env pz_MU_os)).
Proof. exact (conj pz_ETHETA_consistent (conj pz_LAMBDA_consistent pz_MU_consistent)). Qed.
Print Assumptions pitzer_etheta_lambda_mu_consistent_partial.

(* LAMBDA / MU with the weights pitzer_tidy actually assigns (tidy_* regenerated from Phreeqc::pitzer_tidy; kq e = evalR (env_of []) e):
   unconditional for LAMBDA between two different species (neutral-ion, neutral-neutral'), for the LAMBDA self-interaction (i0 = i1:
   both increments land on the same species) and for MU among three different species; plus the guards of those assignments and the
   fact that exactly these six statements assign weights in a TYPE_LAMBDA context. *)
Theorem pitzer_lambda_mu_weights_consistent :
  (forall la m0 m1,
    let env := env_of [m0; m1; la; kq tidy_LA_ln0_dist; kq tidy_LA_ln1_dist; kq tidy_LA_os_dist] in
    consistent2 (fun a b => 2 * a * b * la) m0 m1 (evalR env pz_LA_g0) (evalR env pz_LA_g1) (evalR env pz_LA_os)) /\
  (forall la m,
    let env := env_of [m; m; la; kq tidy_LA_ln0_self; kq tidy_LA_ln1_self; kq tidy_LA_os_self] in
    is_derive (fun x => la * x * x) m (evalR env pz_LA_g0 + evalR env pz_LA_g1) /\
    2 * evalR env pz_LA_os = m * (evalR env pz_LA_g0 + evalR env pz_LA_g1) - la * m * m) /\
  (forall mu m0 m1 m2 l0 l1 l2 os,
    In l0 [kq tidy_MU_ln_ion_dist; kq tidy_MU_ln_neutral_dist] -> In l1 [kq tidy_MU_ln_ion_dist; kq tidy_MU_ln_neutral_dist] ->
    In l2 [kq tidy_MU_ln_ion_dist; kq tidy_MU_ln_neutral_dist] -> In os [kq tidy_MU_os_dist; kq tidy_MU_os_dist_nnn] ->
    let env := env_of [m0; m1; m2; mu; l0; l1; l2; os] in
    consistent3 (fun a b w => 6 * a * b * w * mu) m0 m1 m2 (evalR env pz_MU_g0) (evalR env pz_MU_g1) (evalR env pz_MU_g2) (evalR env pz_MU_os)) /\
  (tidy_LA_os_self_conds = ["pitz_params[i]->type == TYPE_LAMBDA"; "i0 == i1"] /\
   tidy_LA_ln0_self_conds = tidy_LA_os_self_conds /\ tidy_LA_ln1_self_conds = tidy_LA_os_self_conds /\
   tidy_LA_os_dist_conds = ["pitz_params[i]->type == TYPE_LAMBDA"; "!(i0 == i1)"] /\
   tidy_LA_ln0_dist_conds = tidy_LA_os_dist_conds /\ tidy_LA_ln1_dist_conds = tidy_LA_os_dist_conds /\
   tidy_LAMBDA_assignments = 6%nat).
Proof.
  exact (conj pz_LAMBDA_tidy_distinct_consistent (conj pz_LAMBDA_tidy_self_consistent (conj pz_MU_tidy_distinct_consistent pz_tidy_tables))).
Qed.
Print Assumptions pitzer_lambda_mu_weights_consistent.

(* --- SIT sums (sit_* regenerated from Phreeqc::sit; log10 units, (phi-1) sum m = ln 10 * OSMOT) --- *)
Theorem sit_terms_thermodynamically_consistent :
  (forall eps m0 m1,
    let env := env_of [m0; m1; eps] in
    (is_derive (fun x => ln 10 * eps * x * m1) m0 (ln 10 * evalR env sit_EPS_g0)) /\
    (is_derive (fun y => ln 10 * eps * m0 * y) m1 (ln 10 * evalR env sit_EPS_g1)) /\
    (ln 10 * evalR env sit_EPS_os = m0 * (ln 10 * evalR env sit_EPS_g0) + m1 * (ln 10 * evalR env sit_EPS_g1) - ln 10 * eps * m0 * m1)) /\
  (forall A I, 0 < I ->
    exists dF, is_derive (fun u => evalR (env_of [A; u]) sit_DH_F) I dF /\
               is_derive (fun u => evalR (env_of [A; u]) sit_DH_os) I (2 * I * dF)) /\
  (forall z F, evalR (env_of [z; F]) sit_asm_g = z * z * F).
Proof. exact (conj sit_EPSILON_consistent (conj sit_DH_consistent sit_assembly)). Qed.
Print Assumptions sit_terms_thermodynamically_consistent.

(* --- Gibbs-Duhem from a potential, along ANY differentiable composition path (list of species of any length):
   if dG/dt = sum_i lngamma_i dm_i/dt then d/dt [ sum_i m_i lngamma_i - G ] = sum_i m_i d(lngamma_i)/dt,
   i.e.  sum_i m_i d ln gamma_i = d[(phi - 1) sum m]. --- *)
Theorem gibbs_duhem_from_potential : forall (l : list species_path) (G : R -> R) t,
  (forall s, In s l -> is_derive (sp_m s) t (sp_dm s) /\ is_derive (sp_lg s) t (sp_dlg s)) ->
  is_derive G t (sum_over l (fun s => sp_lg s t * sp_dm s)) ->
  is_derive (fun u => sum_over l (fun s => sp_m s u * sp_lg s u) - G u) t
            (sum_over l (fun s => sp_m s t * sp_dlg s)).
Proof. exact PitzerTerms.gibbs_duhem_from_potential. Qed.
Print Assumptions gibbs_duhem_from_potential.

(* --- verified checkers used by the correspondence run --- *)
Theorem check_gamma_sound : forall m o, check_gamma m o = true ->
  Rabs (Q2R (o_lg o) - spec_R m o) <= / 1000000000.
Proof. exact Checker.check_gamma_sound. Qed.
Print Assumptions check_gamma_sound.

(* LLNL-type databases: the checker that takes A, B, Bdot from the database's LLNL_AQUEOUS_MODEL_PARAMETERS grid
   (bracket br = the two grid temperatures around the reported temperature and the grid values there), interpolated
   linearly in exact arithmetic, not from the engine's DH_A / DH_B / DH_BDOT read-outs *)
Theorem check_gamma_llnl_sound : forall z a0 lg mu tc tk law br,
  check_gamma_llnl (GBdot z a0) lg mu tc tk law br = true ->
  let T := Q2R tc in let T0 := Q2R (g_t0 br) in let T1 := Q2R (g_t1 br) in
  Rabs (Q2R lg - bdot_dh (interpR T T0 T1 (Q2R (g_a0 br)) (Q2R (g_a1 br)))
                         (interpR T T0 T1 (Q2R (g_b0 br)) (Q2R (g_b1 br)))
                         (interpR T T0 T1 (Q2R (g_d0 br)) (Q2R (g_d1 br)))
                         (Q2R z) (Q2R a0) (Q2R mu)) <= / 1000000000.
Proof. exact Checker.check_gamma_llnl_sound. Qed.
Print Assumptions check_gamma_llnl_sound.

Theorem check_aw_sound : forall aw phi summ, check_aw aw phi summ = true ->
  Rabs (Q2R aw - water_activity (Q2R phi) (Q2R summ)) <= / 100000.
Proof. exact Checker.check_aw_sound. Qed.
Print Assumptions check_aw_sound.

(* PARTIAL.  Full statement wanted: along any smooth composition path the reported activities satisfy
   sum_s m_s d ln a_s + (1/M_w) d ln a_w = 0.  Proved here: the executable trapezoid checker accepts a step only if
   the discrete residual is within tol of the step's scale (mean absolute size of the solute and water terms), and that residual is independent of the single-ion
   activity convention for electroneutral end points.  NOT proved: the link between the discrete residual and the
   continuous relation (needs smoothness bounds on the Pitzer/SIT sums, which are not formalised). *)
Theorem discrete_gd_checker_sound_partial :
  (forall sp lw0 lw1 tol, gd_check sp lw0 lw1 tol = true ->
     (Qabs (gd_solute sp + gd_water lw0 lw1) <= tol * gd_scale sp lw0 lw1)%Q) /\
  (forall d0 d1 spz lw0 lw1, (charge0 spz == 0)%Q -> (charge1 spz == 0)%Q ->
     (gd_residual (map (shift d0 d1) spz) lw0 lw1 == gd_residual (map fst spz) lw0 lw1)%Q).
Proof. exact (conj gd_check_sound gd_residual_convention_invariant). Qed.
Print Assumptions discrete_gd_checker_sound_partial.
