(** C04 — results depend only on the input text, not on how it is delivered or split.
    Statements only; proofs in Wrapper/RunProofs.v (model: Wrapper/Run.v, transcribed from src/IPhreeqc.cpp). *)
From Coq Require Import List ZArith String Bool.
From IPV.Wrapper Require Import Run RunProofs.
From IPV.C04 Require Import PerCall.
From IPV.Gen Require Import Gen_C04.
Import ListNotations.
Local Open Scope list_scope.

Section C04.
Variable E ev S : Type.
Variable sim : E -> string -> bool -> E * list ev * bool.    (* the engine: one simulation *)
Variable fresh : E.
Variable load : string -> E * list ev * bool.
Variable n_err : ev -> Z.
Variable no_db_event no_file_event : ev.
Notation run_calls := (run_calls E ev S sim fresh load n_err no_db_event no_file_event).
Notation step := (step E ev S sim fresh load n_err no_db_event no_file_event).
Notation do_run := (do_run E ev sim).
Variable data : list ev -> list ev.                           (* result-carrying part of the events *)
Hypothesis data_app : forall a b, data (a ++ b) = data a ++ data b.
(** ENGINE HYPOTHESIS — whether a simulation is the first of its call (forced headings) changes neither the engine
    state, nor completion, nor the result data. This is what the differential correspondence tests. *)
Hypothesis first_irrelevant : forall e s,
  fst (fst (sim e s true)) = fst (fst (sim e s false)) /\
  snd (sim e s true) = snd (sim e s false) /\
  data (snd (fst (sim e s true))) = data (snd (fst (sim e s false))).

(** each entry point (RunString, RunFile, AccumulateLine*+RunAccumulated) runs exactly do_run on what was delivered *)
Theorem C04_deliver_is_do_run : forall (en : entry) sims i, loaded E ev S i = true -> accum_ok E ev S i -> sims <> [] ->
  let i' := run_calls i (deliver S en sims) in
  eng E ev S i' = fst (fst (do_run (eng E ev S i) true sims)) /\
  last_events E ev S i' = snd (fst (do_run (eng E ev S i) true sims)) /\
  last_ret E ev S i' = errors ev n_err (snd (fst (do_run (eng E ev S i) true sims))) /\
  loaded E ev S i' = true /\ accum_ok E ev S i' /\ settings E ev S i' = settings E ev S i /\ id E ev S i' = id E ev S i.
Proof. intros; eapply deliver_is_do_run_nonempty; eauto. Qed.

(** cutting an error-free input at END boundaries into ANY pieces, each delivered by ANY entry point, gives the same
    final engine state and the same result data as one call (no piece delivered through the accumulator is empty) *)
Theorem C04_run_chunks_eq_run_whole : forall pieces i, loaded E ev S i = true -> accum_ok E ev S i ->
  (forall sims, In (ByAccumulate, sims) pieces -> sims <> []) ->
  completes E ev sim (eng E ev S i) (List.concat (map snd pieces)) ->
  let whole := run_calls i [RunString S (List.concat (map snd pieces))] in
  eng E ev S (fst (run_pieces E ev S sim fresh load n_err no_db_event no_file_event data i pieces)) = eng E ev S whole /\
  snd (run_pieces E ev S sim fresh load n_err no_db_event no_file_event data i pieces) = data (last_events E ev S whole).
Proof. intros; eapply run_chunks_eq_run_whole_nonempty; eauto. Qed.

Theorem C04_accumulate_run_eq_runstring : forall sims i, loaded E ev S i = true -> accum_ok E ev S i ->
  (sims = [] -> accum E ev S i = []) ->
  let a := run_calls i (deliver S ByAccumulate sims) in let b := run_calls i (deliver S ByString sims) in
  eng E ev S a = eng E ev S b /\ last_events E ev S a = last_events E ev S b /\ last_ret E ev S a = last_ret E ev S b.
Proof. intros; eapply accumulate_run_eq_runstring_fixed; eauto. Qed.

(** definitions persist between calls: only a database load replaces the engine state *)
Theorem C04_definitions_persist : forall i c, (forall t, c <> LoadDatabase S t) ->
  eng E ev S (step i c) = eng E ev S i \/ exists sims, eng E ev S (step i c) = fst (fst (do_run (eng E ev S i) true sims)).
Proof. intros; eapply definitions_persist; eauto. Qed.
End C04.
Print Assumptions C04_deliver_is_do_run.
Print Assumptions C04_run_chunks_eq_run_whole.
Print Assumptions C04_accumulate_run_eq_runstring.
Print Assumptions C04_definitions_persist.

(** T-gen (regenerated on every run from src/IPhreeqc.cpp and the engine sources): do_run re-initialises exactly
    [first_read_input] and [simulation] per call, and every read of either is a reviewed site whose channel is not part
    of the compared result data (C04/PerCall.v) — the syntactic side of the engine hypothesis [first_irrelevant]. *)
Theorem C04_percall_state_reads_reviewed : percall_reads_reviewed percall_vars_set_by_do_run percall_reads = true.
Proof. vm_compute. reflexivity. Qed.
Print Assumptions C04_percall_state_reads_reviewed.
Theorem C04_percall_obligation_sound : forall vars reads, percall_reads_reviewed vars reads = true ->
  vars = ["first_read_input"; "simulation"]%string /\
  forall fn v, In (fn, v) reads -> exists c, In (fn, v, c) reviewed.
Proof. exact percall_obligation_sound. Qed.
Print Assumptions C04_percall_obligation_sound.
