(* C02 -- closed-system conservation of elements and charge in reaction steps: the theorems.
   Statements only; proofs are in IPV.C02.*.  Gen_C02_Step is regenerated from step.cpp on every run. *)
From Coq Require Import QArith Qabs String List Bool ZArith.
From IPV.C02 Require Import Inv Model AssembleProofs StepProofs SaverProofs StepTable Checker AccIR GenProofs.
From IPV.Gen Require Import Gen_C02_Step.
Import ListNotations.
Local Open Scope string_scope.
Local Open Scope list_scope.
Open Scope Q_scope.

(* What step() hands to the solver = sum of the selected parts (mix fractions applied) + amt * reaction
   stoichiometry + kinetic transfer; for every combination of reactant kinds, every mix, every amount. *)
Theorem assemble_is_sum : forall u amt x pp' ss',
  assemble u amt = Ok x pp' ss' ->
  ieq (flat x ++ oinv inv_pp pp' ++ oinv inv_pas ss')
      (inv_use u ++ iscale amt (oinv reaction_calc (u_reaction u)) ++ oinv k_totals (u_kinetics u)).
Proof. exact AssembleProofs.assemble_is_sum. Qed.
Print Assumptions assemble_is_sum.

(* add_pp_assemblage / add_ss_assemblage never leave a negative amount in a phase *)
Theorem nonneg_preserved_partial : forall u amt x pp' ss',
  assemble u amt = Ok x pp' ss' ->
  (forall p, u_pp u = Some p -> Forall (fun c => 0 <= pp_moles c) (ppa_comps p)) ->
  (forall s, u_ss u = Some s -> Forall (fun c => 0 <= pa_moles c) s) ->
  (forall p, pp' = Some p -> Forall (fun c => 0 <= pp_moles c) (ppa_comps p)) /\
  (forall s, ss' = Some s -> Forall (fun c => 0 <= pa_moles c) s).
Proof. exact AssembleProofs.assemble_nonneg. Qed.
Print Assumptions nonneg_preserved_partial.

(* One step: for ANY solver result whose written-back inventory is within eps of the assembled system,
   inventory(after saver) = inventory(before) + amt * stoichiometry, within eps -- for every element and the charge *)
Theorem step_conserves : forall (eps : elt -> Q) u amt x pp' ss' r kb,
  assemble u amt = Ok x pp' ss' ->
  u_kinetics u = kin_after kb ->
  residual_ok eps u x pp' ss' r ->
  forall e,
    Qabs (get e (inv_ents (saver u pp' ss' (kin_after kb) r)) -
          (get e (inv_use u) + get e (inv_kin_before kb) + amt * get e (oinv reaction_calc (u_reaction u))))
    <= eps e.
Proof. exact StepProofs.step_conserves. Qed.
Print Assumptions step_conserves.

(* saver / xexchange_save / xsurface_save / xgas_save / xpp_assemblage_save / xss_assemblage_save partition the
   solver's result back into the entity maps without creating or losing anything *)
Theorem saver_inventory : forall u pp' ss' r,
  res_wf u r -> inv_ents (saver u pp' ss' None r) = inv_result u pp' ss' r.
Proof. exact SaverProofs.saver_inventory. Qed.
Print Assumptions saver_inventory.

(* the same with the solver's guarantee stated on its raw result (species sums per entity, phase moles) *)
Theorem step_conserves_raw : forall (eps : elt -> Q) u amt x pp' ss' r kb,
  assemble u amt = Ok x pp' ss' ->
  u_kinetics u = kin_after kb ->
  res_wf u r ->
  (forall e, Qabs (get e (inv_result u pp' ss' r) - get e (flat x ++ oinv inv_pp pp' ++ oinv inv_pas ss')) <= eps e) ->
  forall e,
    Qabs (get e (inv_ents (saver u pp' ss' (kin_after kb) r)) -
          (get e (inv_use u) + get e (inv_kin_before kb) + amt * get e (oinv reaction_calc (u_reaction u))))
    <= eps e.
Proof. exact SaverProofs.step_conserves_raw. Qed.
Print Assumptions step_conserves_raw.

(* Chains of SAVE/USE steps of any length: the error grows at most linearly *)
Theorem steps_conserve : forall eps b l fin,
  chain eps b l fin ->
  forall e, Qabs (get e fin - (get e b + get e (List.concat (map io_rxn l))))
            <= inject_Z (Z.of_nat (length l)) * eps e.
Proof. exact StepProofs.steps_conserve. Qed.
Print Assumptions steps_conserve.

(* T-gen: the step selection + unit conversion regenerated from add_reaction equals the specification *)
Theorem gen_step_matches_model : forall sx iz equal steps count n c,
  gen_step_x sx iz equal steps count n c ==
  model_unit_factor c * model_step_x (negb (iz =? 0)%Z) equal steps count n.
Proof. exact GenProofs.gen_step_matches_model. Qed.
Print Assumptions gen_step_matches_model.

(* "x in N steps": the incremental steps of the regenerated code sum to its cumulative step, all N, all n *)
Theorem reaction_steps_sum : forall steps count c n,
  (1 <= count)%Z -> steps <> nil ->
  sum_to (fun k => gen_stepf true true steps count k c) n == gen_stepf false true steps count (Z.of_nat n) c.
Proof. exact GenProofs.gen_equal_increments_sum. Qed.
Print Assumptions reaction_steps_sum.

(* explicit step list: n incremental steps add unit * (sum of the first n entries) *)
Theorem reaction_steps_sum_list : forall steps c n,
  (n <= length steps)%nat ->
  sum_to (fun k => gen_stepf true false steps (lenZ steps) k c) n == model_unit_factor c * qsum (firstn n steps).
Proof. exact GenProofs.gen_list_increments_sum. Qed.
Print Assumptions reaction_steps_sum_list.

(* the executable exact-Q inventory checker is sound, for every element (listed or not) *)
Theorem check_balance_sound : forall tol floor expected after,
  0 <= tol -> 0 <= floor ->
  check_balance tol floor expected after = true -> forall e, bal_ok tol floor expected after e.
Proof. exact Checker.check_balance_sound. Qed.
Print Assumptions check_balance_sound.

(* a case accepted by the checker satisfies the property: after = parts + amount * stoichiometry within
   tol * inventory (+ floor), and no reactant amount is negative *)
Theorem check_case_sound : forall stepf tol floor c,
  0 <= tol -> 0 <= floor -> check_case stepf tol floor c = true ->
  (forall e, exists sys, ieq sys (expected_inv stepf c) /\
             Qabs (get e (inv_ents (c_after c)) - get e (expected_inv stepf c)) <= tol * scale sys e + floor) /\
  Forall (fun a => 0 <= a) (amounts (c_after c)).
Proof. exact Checker.check_case_sound. Qed.
Print Assumptions check_case_sound.

Theorem check_rows_sound : forall stepf tol floor c,
  check_rows stepf tol floor c = true ->
  forall k row, In (k, row) (combine (seq 1 (length (r_rows c))) (r_rows c)) ->
  forall e, In e (keys row) -> bal_ok tol floor (row_expected stepf c k) row e.
Proof. exact Checker.check_rows_sound. Qed.
Print Assumptions check_rows_sound.

(* T-gen: the accumulation statements of the add_* functions of step.cpp, as they are NOW *)
Theorem acc_add_reaction : acc_spec "add_reaction" gen_acc
  (let e := AMul (AVar "iter(cxxReaction.Get_elementList).second") (AMul (AVar "step_x") (AVar "step_fraction")) in
   [(T_H, 1%Z, e); (T_O, 1%Z, e); (T_TOT, 1%Z, e)]).
Proof. exact GenProofs.acc_add_reaction. Qed.
Print Assumptions acc_add_reaction.

Theorem acc_add_solution : acc_spec "add_solution" gen_acc
  [(T_CB, 1%Z, AMul (AVar "extensive") (AVar "cxxSolution.Get_cb"));
   (T_H, 1%Z, AMul (AVar "extensive") (AVar "cxxSolution.Get_total_h"));
   (T_O, 1%Z, AMul (AVar "extensive") (AVar "cxxSolution.Get_total_o"));
   (T_TOT, 1%Z, AMul (AVar "extensive") (AVar "iter.second"));
   (T_WATER, 1%Z, AMul (AVar "extensive") (AVar "cxxSolution.Get_mass_water"))].
Proof. exact GenProofs.acc_add_solution. Qed.
Print Assumptions acc_add_solution.

Theorem acc_add_kinetics : acc_spec "add_kinetics" gen_acc
  (let e := AVar "iter(cxxKinetics.Get_totals).second" in [(T_H, 1%Z, e); (T_O, 1%Z, e); (T_TOT, 1%Z, e)]).
Proof. exact GenProofs.acc_add_kinetics. Qed.
Print Assumptions acc_add_kinetics.

Theorem acc_add_exchange : acc_spec "add_exchange" gen_acc
  (let e := AVar "iter(cxxExchange.Get_exchange_comps[].Get_totals).second" in
   [(T_CB, 1%Z, AVar "cxxExchComp.Get_charge_balance"); (T_H, 1%Z, e); (T_O, 1%Z, e); (T_TOT, 1%Z, e)]).
Proof. exact GenProofs.acc_add_exchange. Qed.
Print Assumptions acc_add_exchange.

Theorem acc_add_surface : acc_spec "add_surface" gen_acc
  (let d := AVar "iter(cxxSurfaceCharge.Get_diffuse_layer_totals).second" in
   let t := AVar "iter(cxxSurfaceComp.Get_totals).second" in
   [(T_CB, 1%Z, AVar "cxxSurfaceCharge.Get_charge_balance"); (T_CB, 1%Z, AVar "cxxSurfaceComp.Get_charge_balance");
    (T_H, 1%Z, d); (T_H, 1%Z, t); (T_O, 1%Z, d); (T_O, 1%Z, t); (T_TOT, 1%Z, d); (T_TOT, 1%Z, t)]).
Proof. exact GenProofs.acc_add_surface. Qed.
Print Assumptions acc_add_surface.

Theorem acc_add_gas_phase : acc_spec "add_gas_phase" gen_acc
  (let e := AVar "elt_list[].coef" in
   [(T_ELT, 1%Z, AVar "cxxGasComp.Get_moles"); (T_H, 1%Z, e); (T_O, 1%Z, e); (T_TOT, 1%Z, e)]).
Proof. exact GenProofs.acc_add_gas_phase. Qed.
Print Assumptions acc_add_gas_phase.

Theorem acc_add_pp_assemblage : acc_spec "add_pp_assemblage" gen_acc
  (let e := AMul (AVar "dlocal0") (AVar "elt_list[].coef") in
   [(T_DELTA, 0%Z, AConst 0); (T_DELTA, 0%Z, AVar "dlocal0"); (T_ELT, 1%Z, AConst 1); (T_H, 1%Z, e);
    (T_MOLES, 0%Z, ASub (AVar "cxxPPassemblageComp.Get_moles") (AVar "dlocal0")); (T_O, 1%Z, e); (T_TOT, 1%Z, e)]).
Proof. exact GenProofs.acc_add_pp_assemblage. Qed.
Print Assumptions acc_add_pp_assemblage.

Theorem acc_add_ss_assemblage : acc_spec "add_ss_assemblage" gen_acc
  (let e := AMul (AVar "dlocal0") (AVar "elt_list[].coef") in
   [(T_DELTA, 0%Z, AConst 0); (T_DELTA, 0%Z, AVar "dlocal0"); (T_ELT, 1%Z, AConst 1); (T_H, 1%Z, e);
    (T_MOLES, 0%Z, ASub (AVar "cxxSScomp.Get_moles") (AVar "dlocal0")); (T_O, 1%Z, e); (T_TOT, 1%Z, e)]).
Proof. exact GenProofs.acc_add_ss_assemblage. Qed.
Print Assumptions acc_add_ss_assemblage.

Theorem acc_add_mix :
  acc_has "add_mix" gen_acc (T_CALL, 1%Z, AVar "dlocal2") /\
  acc_count "add_mix" gen_acc T_CALL = 1%nat /\
  acc_has "add_mix" gen_acc (T_LOCAL, 0%Z, ASub (AVar "dlocal2") (AVar "iter(cxxMix.Get_mixComps).second")).
Proof. exact GenProofs.acc_add_mix. Qed.
Print Assumptions acc_add_mix.

Theorem acc_reaction_calc : acc_spec "reaction_calc" gen_acc
  [(T_ELT, 1%Z, AVar "dlocal0");
   (T_LOCAL, 0%Z, ASub (AVar "dlocal0") (AVar "iter(cxxReaction.Get_reactantList).second"))].
Proof. exact GenProofs.acc_reaction_calc. Qed.
Print Assumptions acc_reaction_calc.

(* T-gen, guards: under which surface types / flags each accumulation statement of add_surface executes -- every
   electrostatic type (DDL, CCM, CD_MUSIC) adds its plane charges to cb_x, NO_EDL its site charges, the diffuse layer
   its totals when present and not new_def; quantified over ALL types *)
Theorem guard_add_surface : forall t d nd hp hw,
  forallb (fun a => Bool.eqb (geval (surf_env t d nd hp hw) (g_guard a))
                             (surf_expected t d nd hp hw (g_target a) (g_exp a)))
          (gaccs_of "add_surface" gen_guard) = true /\
  length (gaccs_of "add_surface" gen_guard) = 8%nat.
Proof. exact GenProofs.guard_add_surface. Qed.
Print Assumptions guard_add_surface.

Theorem guard_add_exchange : forall nd hp hw,
  forallb (fun a => Bool.eqb (geval (exch_env nd hp hw) (g_guard a)) (exch_expected nd hp hw (g_target a) (g_exp a)))
          (gaccs_of "add_exchange" gen_guard) = true /\
  length (gaccs_of "add_exchange" gen_guard) = 4%nat.
Proof. exact GenProofs.guard_add_exchange. Qed.
Print Assumptions guard_add_exchange.

(* in every add_* function H is routed to total_h_x, O to total_o_x, the rest to master->total *)
Theorem routing_all : Forall routing_ok routed_entries /\ (24 <= length routed_entries)%nat.
Proof. exact GenProofs.routing_all. Qed.
Print Assumptions routing_all.

(* the phase is debited under exactly the condition under which the solution is credited *)
Theorem debit_credit_pp : debit_credit "add_pp_assemblage".
Proof. exact GenProofs.debit_credit_pp. Qed.
Print Assumptions debit_credit_pp.

Theorem debit_credit_ss : debit_credit "add_ss_assemblage".
Proof. exact GenProofs.debit_credit_ss. Qed.
Print Assumptions debit_credit_ss.

(* T-gen (prep.cpp, check_same_model): the cached equation set is reused only if every ingredient baked into it is
   unchanged -- in particular the alternative reactant of each pure phase is compared by identity, not by presence *)
Theorem same_model_compares : all_present required_same_model gen_same_model = true.
Proof. exact GenProofs.same_model_compares. Qed.
Print Assumptions same_model_compares.
