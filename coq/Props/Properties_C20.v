(* C20 — Surface complexation obeys site balance, electrostatic mass action, charge laws.
   surf_res, ddl_res, ccm_res, cd_*, edl_*, pot_coef, cd_pot_coef*, surf_lg, *_fail_guards are REGENERATED from /repo on every run
   (coq/Gen/Gen_C20_surface.v: Phreeqc::residuals, diff_layer_total, add_potential_factor, add_cd_music_factors, gammas);
   gouy_chapman, ccm_sigma, boltzmann, grahame, cd_plane0/1, sigma_of_species, charge_sum are the textbook definitions of
   coq/C20/Spec.v (constants F_C, R_J, eps0 = PHREEQC's).  Related statements are grouped into one theorem (conjunction) to keep
   the number of Print Assumptions (0.9 - 3.5 s each) small. *)
From Coq Require Import Reals ZArith QArith Qreals Qabs List String.
From IPV Require Import Base.RExpr Base.IntervalEval C20.Spec C20.ResidualProofs C20.Guards C20.Checker C20.Summary Gen.Gen_C20_surface.
Import ListNotations.
Local Open Scope R_scope.

(* --- the SURFACE_CB row of a diffuse-double-layer surface is the Gouy-Chapman equation between the values that EDL("psi") and
   EDL("sigma") report: residual = 0 <-> sigma = sqrt(8000 eps eps0 R T I) sinh(F psi / 2RT) --- *)
Theorem ddl_residual_is_gouy_chapman :
  forall la mu eps tk f A g, 0 <= mu -> 0 <= eps -> 0 < tk -> A * g <> 0 ->
  let L := ln 10 in
  let psi := evalR (env_of [la; L; tk]) edl_psi in
  let sigma := evalR (env_of [f; A; g]) edl_sigma in
  evalR (env_of [la; L; mu; eps; tk; f; A; g]) ddl_res = 0 <-> sigma = gouy_chapman eps tk mu psi.
Proof. exact Summary.ddl_residual_is_gouy_chapman_all. Qed.
Print Assumptions ddl_residual_is_gouy_chapman.

(* --- constant capacitance: residual = 0 <-> sigma = C psi --- *)
Theorem ccm_residual_is_C_psi :
  forall la tk C f A g, A * g <> 0 ->
  let L := ln 10 in
  let psi := evalR (env_of [la; L; tk]) edl_psi in
  let sigma := evalR (env_of [f; A; g]) edl_sigma in
  evalR (env_of [la; L; tk; C; f; A; g]) ccm_res = 0 <-> sigma = ccm_sigma C psi.
Proof. exact Summary.ccm_residual_is_C_psi_all. Qed.
Print Assumptions ccm_residual_is_C_psi.

(* --- what EDL(...) reports: psi = 2 R T ln10 la / F (DDL, CCM), psi_k = - R T ln10 la_k / F (CD-MUSIC, identical to the cd_psi
   values used in the residuals), sigma = F charge / (A g), charge = f (sum of z n over the surface species); with an explicit
   diffuse layer the rows are residual = -f; LOG_10 = ln 10 --- *)
Theorem edl_readouts :
  forall la tk q A g, A * g <> 0 ->
  let L := ln 10 in
  evalR (env_of [la; L; tk]) edl_psi = 2 * R_J * tk * L * la / F_C /\
  evalR (env_of [q; A; g]) edl_sigma = F_C * q / (A * g) /\
  (evalR (env_of [q]) edl_charge = q /\ evalR (env_of [q]) edl_sigma_charge_nodl = q) /\
  (evalR (env_of [la; L; tk]) cd_psi0 = - R_J * tk * L * la / F_C /\
   evalR (env_of [la; L; tk]) cd_psi1 = - R_J * tk * L * la / F_C /\
   evalR (env_of [la; L; tk]) cd_psi2 = - R_J * tk * L * la / F_C /\
   evalR (env_of [la; L; tk]) edl_psi_cd = - R_J * tk * L * la / F_C /\
   evalR (env_of [la; L; tk]) edl_psi1_cd = - R_J * tk * L * la / F_C /\
   evalR (env_of [la; L; tk]) edl_psi2_cd = - R_J * tk * L * la / F_C) /\
  evalR (env_of []) c20_LOG_10 = L /\
  (evalR (env_of [q]) ddl_res_dl = - q /\ evalR (env_of [q]) ccm_res_dl = - q /\ evalR (env_of []) ddl_res_nograms = 0).
Proof. exact Summary.edl_readouts_all. Qed.
Print Assumptions edl_readouts.

(* --- CD-MUSIC planes 0 and 1: residual = 0 <-> sigma0 = C1 (psi0 - psi1), sigma0 + sigma1 = C2 (psi1 - psi2); the sigma_k are
   F * (moles of charge of the plane) / (A g); EDL("charge"/"sigma"/"sigma1"/"sigma2") report them; with an explicit diffuse
   layer the plane-2 row is f + (sigma0 + sigma1) A g / F --- *)
Theorem cd_music_planes_0_1 :
  forall s0 s1 C1 C2 psi0 psi1 psi2 f s A g, A * g <> 0 ->
  ((evalR (env_of [s0; C1; psi0; psi1]) cd_res0 = 0 <-> s0 = cd_plane0 C1 psi0 psi1) /\
   (evalR (env_of [s0; s1; C2; psi1; psi2]) cd_res1 = 0 <-> s0 + s1 = cd_plane1 C2 psi1 psi2)) /\
  (evalR (env_of [f; s; A; g]) cd_sigma0 = F_C * (f + s) / (A * g) /\
   evalR (env_of [f; A; g]) cd_sigma1 = F_C * f / (A * g) /\
   evalR (env_of [f; A; g]) cd_sigma2 = F_C * f / (A * g)) /\
  evalR (env_of [f; s0; s1; A; g]) cd_res2_dl = f + (s0 + s1) * (A * g) / F_C /\
  evalR (env_of [s0; A; g]) edl_charge_cd = s0 * (A * g) / F_C /\
  (evalR (env_of [s]) edl_sigma_cd = s /\ evalR (env_of [s]) edl_sigma1_cd = s /\ evalR (env_of [s]) edl_sigma2_cd = s).
Proof. exact Summary.cd_music_planes_0_1_all. Qed.
Print Assumptions cd_music_planes_0_1.

(* --- CD-MUSIC plane 2 (no explicit diffuse layer): for EVERY electrolyte (list of (molality, charge)) the loop of the SURFACE_CB2
   row (regenerated body cd_gsum_term, cd_gsum1_term, balancing ion cd_gsum_fict_pos / cd_gsum_fict_neg) is the Grahame sum, the
   stored sigma_ddl is minus the Grahame charge, residual = 0 <-> sigma0 + sigma1 + sigma2 = Grahame(psi2); the exponent
   negfpsirt is -F psi2 / RT with psi2 the value EDL("psi2") reports --- *)
Theorem cd_music_plane2_is_grahame :
  (forall eps tk ions psi2 s0 s1 s2, 0 <= eps -> 0 < tk -> psi2 <> 0 ->
    let y := - F_C * psi2 / (R_J * tk) in
    let sum := code_gsum_total ions y in
    0 <= sum ->
    let sd := if Rlt_dec y 0 then evalR (env_of [sum; eps; tk]) cd_sigmaddl_neg else evalR (env_of [sum; eps; tk]) cd_sigmaddl_pos in
    evalR (env_of [s0; s1; s2; sd]) cd_res2 = 0 <-> s0 + s1 + s2 = grahame eps tk (spec_balancing_ion ions :: ions) psi2) /\
  (forall la tk, 0 < tk ->
    evalR (env_of [la; ln 10]) cd_negfpsirt = - F_C * evalR (env_of [la; ln 10; tk]) edl_psi2_cd / (R_J * tk)).
Proof. exact Summary.cd_music_plane2_is_grahame_all. Qed.
Print Assumptions cd_music_plane2_is_grahame.

(* --- facts about the textbook relations themselves: for a symmetric 1:1 electrolyte the Grahame equation is Gouy-Chapman; Boltzmann
   factors of several planes multiply; a Donnan enrichment E_r^(z_i/z_r) is the species' own Boltzmann factor --- *)
Theorem spec_consistency :
  (forall eps tk m psi, 0 <= eps -> 0 < tk -> 0 <= m -> grahame eps tk [(m, 1); (m, -1)] psi = gouy_chapman eps tk m psi) /\
  (forall tk d0 p0 d1 p1 d2 p2,
    boltzmann 1 tk (d0 * p0 + d1 * p1 + d2 * p2) = boltzmann d0 tk p0 * boltzmann d1 tk p1 * boltzmann d2 tk p2) /\
  (forall zr zi tk psi : R, zr <> 0 -> Rpower (boltzmann zr tk psi) (zi / zr) = boltzmann zi tk psi).
Proof. exact Summary.spec_consistency_all. Qed.
Print Assumptions spec_consistency.

(* --- electrostatic term of the mass action: the potential master species enters with coefficient -2 dz (DDL, CCM) resp. dz_k per
   plane (CD-MUSIC), which is the Boltzmann factor exp(-dz F psi / RT) at the reported potential; dz is the sum over the
   AQUEOUS reactants (type AQ, H+, e-) of z * coefficient --- *)
Theorem surface_mass_action_has_boltzmann_term :
  (forall la tk dz, 0 < tk ->
    (let psi := evalR (env_of [la; ln 10; tk]) edl_psi in
     Rpower 10 (evalR (env_of [dz]) pot_coef * la) = boltzmann dz tk psi) /\
    (let psi := evalR (env_of [la; ln 10; tk]) edl_psi_cd in
     Rpower 10 (evalR (env_of [dz]) cd_pot_coef0 * la) = boltzmann dz tk psi /\
     Rpower 10 (evalR (env_of [dz]) cd_pot_coef1 * la) = boltzmann dz tk psi /\
     Rpower 10 (evalR (env_of [dz]) cd_pot_coef2 * la) = boltzmann dz tk psi)) /\
  ((forall z c, evalR (env_of [z; c]) pot_sum_z_term = z * c) /\
   pot_sum_z_guard = [("trxn.token[i].s->type == " ++ (if Z.eqb species_type_AQ 0 then "0" else "?") ++ " || trxn.token[i].s == s_hplus || trxn.token[i].s == s_eminus")%string]).
Proof. exact Summary.surface_mass_action_has_boltzmann_term_all. Qed.
Print Assumptions surface_mass_action_has_boltzmann_term.

(* --- surface species are on the site-fraction scale: 10^(lm + lg) = 10^lm * equiv / sites (10^lm = moles for SURF species);
   the SURFACE row is the site balance: residual = 0 <-> sum of sites in species (f) = defined sites --- *)
Theorem surface_activity_and_site_row :
  (forall lm equiv sites, 0 < equiv -> 0 < sites ->
    Rpower 10 (lm + evalR (env_of [equiv; sites]) surf_lg) = Rpower 10 lm * (equiv / sites)) /\
  (forall sites f, evalR (env_of [sites; f]) surf_res = 0 <-> f = sites).
Proof. exact Summary.surface_activity_and_site_row_all. Qed.
Print Assumptions surface_activity_and_site_row.

(* --- what "converged" means for the surface rows.  The regenerated guard texts have the expected shape (boolean check on generated
   data); charge_row_fails / site_row_fails (coq/C20/Guards.v) are their meaning --- *)
Theorem surface_row_guards_shape :
  guards_shape_ok = true.
Proof. vm_compute. reflexivity. Qed.
Print Assumptions surface_row_guards_shape.

(* --- CD-MUSIC plane 0: the master-charge part of sigma0 adds sites * z_master over the comp_unknowns of the charge unknown (regenerated
   loop body), and setup_surface (prep.cpp) appends the site unknown of EVERY site type of the surface to that list: exactly one
   registration statement, inside the component loop only (not the per-plane loop), under no condition on the plane or on the
   existence of the charge unknown (regenerated statement context; boolean check on generated data) --- *)
Theorem cd_music_plane0_counts_every_site_type :
  (forall m z, evalR (env_of [m; z]) cd_sum0_term = m * z) /\ cd_comp_registration_ok = true.
Proof. split; [exact Guards.cd_sum0_term_form | vm_compute; reflexivity]. Qed.
Print Assumptions cd_music_plane0_counts_every_site_type.

(* --- -diffuse_layer: in calc_all_g (integrate.cpp) the cache of already integrated charge numbers is declared (or cleared) inside the
   loop over the SURFACE_CB unknowns and looked up inside the species loop, i.e. every charged surface gets its own excess
   integrals (regenerated loop structure; boolean check on generated data) --- *)
Theorem diffuse_layer_integrals_cache_is_per_surface :
  dl_cache_per_surface_ok = true.
Proof. vm_compute. reflexivity. Qed.
Print Assumptions diffuse_layer_integrals_cache_is_per_surface.

(* --- PARTIAL w.r.t. the property: the charge rows are tested with an ABSOLUTE tolerance (C/m2, resp. mol of charge with an explicit
   diffuse layer), the property asks 1e-8 RELATIVE; they coincide only for |sigma| >= toler / 1e-8 (with -high_precision:
   toler = 1e-12, i.e. |sigma| >= 1e-4 C/m2 resp. |charge| >= 1e-4 mol).  The site row is relative when ineq_tol <= toler * sites.
   That the Newton iteration ends with all guards false ("OK") is an oracle.
   Full statement wanted: OK -> |sigma - law(psi)| <= 1e-8 |law(psi)|; proved: OK -> |sigma - law(psi)| <= toler --- *)
Theorem ok_implies_laws_partial :
  (forall la mu eps tk f A g minrel toler, 0 <= mu -> 0 <= eps -> 0 < tk -> A * g <> 0 -> g > minrel ->
    let L := ln 10 in
    let psi := evalR (env_of [la; L; tk]) edl_psi in
    let sigma := evalR (env_of [f; A; g]) edl_sigma in
    ~ charge_row_fails g minrel (evalR (env_of [la; L; mu; eps; tk; f; A; g]) ddl_res) toler ->
    Rabs (sigma - gouy_chapman eps tk mu psi) <= toler) /\
  (forall la tk C f A g minrel toler, A * g <> 0 -> g > minrel ->
    let L := ln 10 in
    let psi := evalR (env_of [la; L; tk]) edl_psi in
    let sigma := evalR (env_of [f; A; g]) edl_sigma in
    ~ charge_row_fails g minrel (evalR (env_of [la; L; tk; C; f; A; g]) ccm_res) toler ->
    Rabs (sigma - ccm_sigma C psi) <= toler) /\
  (forall f g minrel toler, g > minrel ->
    ~ charge_row_fails g minrel (evalR (env_of [f]) ddl_res_dl) toler -> Rabs f <= toler) /\
  (forall moles f minrel toler ineq_tol, moles > minrel -> 0 <= minrel -> ineq_tol <= toler * moles ->
    ~ site_row_fails moles minrel (evalR (env_of [moles; f]) surf_res) toler ineq_tol ->
    Rabs (f - moles) <= toler * moles).
Proof. exact Summary.ok_implies_laws_partial_all. Qed.
Print Assumptions ok_implies_laws_partial.

(* --- verified checkers used by the correspondence run, exact rational arithmetic (tolerance 1e-8 relative) --- *)
Theorem verified_exact_checkers_sound :
  (forall l sites, check_sites l sites = true ->
    Rabs (site_sum (to_R l) - Q2R sites) <= / 100000000 * Rabs (Q2R sites)) /\
  (forall l A g C dpsi, check_linear l A g C dpsi = true ->
    Rabs (sigma_of_species (to_R l) (Q2R A) (Q2R g) - Q2R C * Q2R dpsi) <= / 100000000 * Rabs (Q2R C * Q2R dpsi)) /\
  (forall surf dl, check_dl_balance surf dl = true ->
    Rabs (charge_sum (to_R surf) + charge_sum (to_R dl)) <= / 100000000 * Rabs (charge_sum (to_R surf))).
Proof. exact Summary.verified_exact_checkers_sound_all. Qed.
Print Assumptions verified_exact_checkers_sound.

(* --- verified checkers used by the correspondence run, interval arithmetic (Interval's BigZ floats, 80 bits): sound w.r.t. the
   textbook relations over Coq's Reals --- *)
Theorem verified_interval_checkers_sound :
  (forall l A g psi mu eps tk, check_ddl l A g psi mu eps tk = true ->
    let gc := gouy_chapman (Q2R eps) (Q2R tk) (Q2R mu) (Q2R psi) in
    Rabs (sigma_of_species (to_R l) (Q2R A) (Q2R g) - gc) <= / 100000000 * Rabs gc) /\
  (forall l A g psi mu eps tk, check_ddl_loose l A g psi mu eps tk = true ->
    let gc := gouy_chapman (Q2R eps) (Q2R tk) (Q2R mu) (Q2R psi) in
    Rabs (sigma_of_species (to_R l) (Q2R A) (Q2R g) - gc) <= / 10000 * Rabs gc) /\
  (forall l A g ions psi eps tk, check_grahame l A g ions psi eps tk = true ->
    let gr := grahame (Q2R eps) (Q2R tk) (to_R (balancing_ion ions :: ions)) (Q2R psi) in
    Rabs (sigma_of_species (to_R l) (Q2R A) (Q2R g) - gr) <= / 100000000 * Rabs gr) /\
  (forall l A g ions psi eps tk, check_grahame_loose l A g ions psi eps tk = true ->
    let gr := grahame (Q2R eps) (Q2R tk) (to_R (balancing_ion ions :: ions)) (Q2R psi) in
    Rabs (sigma_of_species (to_R l) (Q2R A) (Q2R g) - gr) <= / 10000 * Rabs gr) /\
  (forall la lk terms dz psi tk, check_mass_action la lk terms dz psi tk = true ->
    Rabs (Q2R la - (Q2R lk + charge_sum (to_R terms) + log10 (boltzmann (Q2R dz) (Q2R tk) (Q2R psi)))) <= / 100000000) /\
  (forall m equiv sites la, check_activity m equiv sites la = true ->
    Rabs (Q2R m * Q2R equiv / Q2R sites - Rpower 10 (Q2R la)) <= / 100000000 * Rabs (Rpower 10 (Q2R la))) /\
  (forall Ei Er zi zr, check_donnan_ratio Ei Er zi zr = true ->
    0 < Q2R Er /\ Q2R zr <> 0 /\
    Rabs (Q2R Ei - Rpower (Q2R Er) (Q2R zi / Q2R zr)) <= / 100000000 * Rabs (Rpower (Q2R Er) (Q2R zi / Q2R zr))).
Proof. exact Summary.verified_interval_checkers_sound_all. Qed.
Print Assumptions verified_interval_checkers_sound.
