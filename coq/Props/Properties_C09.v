(** C09 — file, string and line views of each output stream are identical.
    Statements only; proofs in Wrapper/RouteProofs.v. *)
From Coq Require Import List ZArith String Bool.
From IPV.Wrapper Require Import SelOut Route Lines RouteProofs LinesState.
Import ListNotations.
Local Open Scope list_scope.

Section Streams.
Variable chunk : Type.
Variable STOPPING : chunk.
Variable add_nl : chunk -> chunk.
Notation consume := (consume chunk STOPPING add_nl).

(** For EVERY event stream and EVERY switch setting: both sinks on => identical content. *)
Theorem C09_file_eq_string_output : forall sw evs, OutputFileOn sw = true -> OutputStringOn sw = true ->
  out_f chunk (consume sw evs) = out_s chunk (consume sw evs).
Proof. exact (file_eq_string_output chunk STOPPING add_nl). Qed.

Theorem C09_file_eq_string_log : forall sw evs, LogFileOn sw = true -> LogStringOn sw = true ->
  log_f chunk (consume sw evs) = log_s chunk (consume sw evs).
Proof. exact (file_eq_string_log chunk STOPPING add_nl). Qed.

Theorem C09_file_eq_string_selected : forall sw evs n, SelStringOn sw n = true ->
  no_reopen chunk n evs ->
  (forall e, In e evs -> self_chunks chunk n e = sel_chunks chunk n e) ->
  sel_file chunk (consume sw evs) n = sel_string chunk (consume sw evs) n.
Proof. exact (file_eq_string_selected chunk STOPPING add_nl). Qed.

(** Re-opening the selected-output file of n truncates it: what was offered before is lost from the
    file, while the string keeps it. *)
Theorem C09_reopen_truncates_file : forall sw evs1 evs2 n,
  sel_file chunk (consume sw (evs1 ++ EPunchOpen n true :: evs2)) n =
  sel_file chunk (consume sw (EPunchOpen n true :: evs2)) n.
Proof. exact (reopen_truncates chunk STOPPING add_nl). Qed.

Theorem C09_string_survives_reopen : forall sw evs1 evs2 n,
  sel_string chunk (consume sw (evs1 ++ EPunchOpen n true :: evs2)) n =
  sel_string chunk (consume sw (evs1 ++ evs2)) n.
Proof. exact (string_survives_reopen chunk STOPPING add_nl). Qed.

(** A disabled sink receives nothing. *)
Theorem C09_disabled_sinks_empty : forall sw evs,
  (OutputStringOn sw = false -> out_s chunk (consume sw evs) = []) /\
  (OutputFileOn sw = false -> out_f chunk (consume sw evs) = []) /\
  (LogStringOn sw = false -> log_s chunk (consume sw evs) = []) /\
  (LogFileOn sw = false -> log_f chunk (consume sw evs) = []) /\
  (ErrorStringOn sw = false -> err_s chunk (consume sw evs) = []) /\
  (ErrorFileOn sw = false -> err_f chunk (consume sw evs) = []) /\
  (forall n, SelStringOn sw n = false -> sel_string chunk (consume sw evs) n = []).
Proof. exact (disabled_sinks_empty chunk STOPPING add_nl). Qed.

(** What each sink holds, as a function of the stream alone (full characterisation). *)
Theorem C09_output_string_spec : forall sw evs,
  out_s chunk (consume sw evs) = if OutputStringOn sw then flat_map (out_chunks chunk add_nl) evs else [].
Proof. exact (out_string_spec chunk STOPPING add_nl). Qed.
Theorem C09_error_file_spec : forall sw evs,
  err_f chunk (consume sw evs) = if ErrorFileOn sw && ErrorOn sw then flat_map (errfile_chunks chunk STOPPING add_nl) evs else [].
Proof. exact (err_file_spec chunk STOPPING add_nl). Qed.

(** Every message of the error string appears in the error file, in order. *)
Theorem C09_error_string_in_file : forall sw evs, ErrorFileOn sw = true ->
  sublist (err_s chunk (consume sw evs)) (err_f chunk (consume sw evs)).
Proof. exact (error_string_in_file chunk STOPPING add_nl). Qed.

(** The value table does not depend on any switch (the wrapper adds no switch dependence). *)
Theorem C09_table_independent_of_switches : forall sw1 sw2 evs n,
  table_of chunk (consume sw1 evs) n = table_of chunk (consume sw2 evs) n.
Proof. exact (table_independent_of_switches chunk STOPPING add_nl). Qed.
End Streams.
Print Assumptions C09_file_eq_string_output.
Print Assumptions C09_file_eq_string_log.
Print Assumptions C09_file_eq_string_selected.
Print Assumptions C09_reopen_truncates_file.
Print Assumptions C09_string_survives_reopen.
Print Assumptions C09_disabled_sinks_empty.
Print Assumptions C09_output_string_spec.
Print Assumptions C09_error_file_spec.
Print Assumptions C09_error_string_in_file.
Print Assumptions C09_table_independent_of_switches.

(** Line accessors (all n : Z). *)
Theorem C09_line_accessor : forall s n,
  get_line s n = if (n <? 0)%Z || (Z.of_nat (List.length (split_lines s)) <=? n)%Z then EmptyString
                 else nth (Z.to_nat n) (split_lines s) EmptyString.
Proof. exact get_line_spec. Qed.
Print Assumptions C09_line_accessor.
Theorem C09_line_outside : forall s n, (n < 0 \/ line_count s <= n)%Z -> get_line s n = EmptyString.
Proof. exact get_line_outside. Qed.
Print Assumptions C09_line_outside.
Theorem C09_lines_are_the_string : forall s, (s = EmptyString \/ exists p, s = (p ++ String nl EmptyString)%string) ->
  unlines (split_lines s) = s.
Proof. exact unlines_split. Qed.
Print Assumptions C09_lines_are_the_string.
Theorem C09_appending_whole_lines : forall a b, (a = EmptyString \/ exists p, a = (p ++ String nl EmptyString)%string) ->
  split_lines (a ++ b)%string = split_lines a ++ split_lines b.
Proof. exact split_app_nl. Qed.
Print Assumptions C09_appending_whole_lines.

(** the line view over a call: equal to the lines of the string after every COMPLETED call, whatever the history;
    refuted for an aborted call (finding F9, recorded in KNOWN_FINDINGS.json) *)
Theorem C09_lines_are_string_after_completed_call : forall history chunks,
  let s := fold_left sstep (completed_call chunks) (srun history) in
  LinesState.lines s = split_lines (text s).
Proof. exact lines_are_string_after_completed_call. Qed.
Print Assumptions C09_lines_are_string_after_completed_call.
Theorem C09_lines_after_aborted_call_refuted :
  exists history chunks, let s := fold_left sstep (aborted_call chunks) (srun history) in
  LinesState.lines s <> split_lines (text s).
Proof. exact lines_are_string_after_aborted_call_refuted. Qed.
Print Assumptions C09_lines_after_aborted_call_refuted.
