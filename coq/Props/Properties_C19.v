(* C19 -- Gas phases obey their equation of state and fugacity-based equilibrium.
   p_* (prep.cpp: Phreeqc::calc_PR(phase_ptrs, P, TK, V_m)), g_* (gases.cpp: Phreeqc::calc_PR()), cg_* (model.cpp:
   calc_gas_pressures), fv_* (gases.cpp: calc_fixed_volume_gas_pressures), mb_* (model.cpp: mb_gases), bip_* (gases.cpp:
   calc_gas_binary_parameter) are REGENERATED from /repo on every run (coq/Gen/Gen_C19_gases.v);
   pr_a, pr_b, pr_alpha, pr_pressure, pr_cubic, cubic_disc, ln_phi_gen, ln_phi_PR, b_mix, a_mix, s2_of, R_gas ... are the
   textbook definitions of coq/C19/Spec.v; b_loop, a_loop, pr_p_loop, lp_loop, ideal_loop are the models of the code's loops
   (coq/C19/Mix.v) whose bodies are the regenerated increments. *)
From Coq Require Import Reals QArith Qreals List String.
From IPV Require Import Base.RExpr Base.IntervalEval C19.BExpr C19.Spec C19.PRProofs C19.Cardano C19.Mix C19.Kij C19.Checker C19.Summary Gen.Gen_C19_gases.
Import ListNotations.
Local Open Scope R_scope.

(* --- Peng-Robinson constants: a = 0.457235 (R Tc)^2/Pc, b = 0.077796 R Tc/Pc, alpha = (1 + kappa(omega)(1 - sqrt(T/Tc)))^2,
       in both copies of calc_PR and in both places alpha is (re)computed --- *)
Theorem pr_constants :
  ((forall Rg Tc Pc, Pc <> 0 -> evalR (env_of [Rg; Tc; Pc]) p_pr_a = pr_a Rg Tc Pc) /\
   (forall Rg Tc Pc, Pc <> 0 -> evalR (env_of [Rg; Tc; Pc]) p_pr_b = pr_b Rg Tc Pc) /\
   (forall T Tc w, Tc <> 0 -> evalR (env_of [T; Tc; w]) p_alpha0 = pr_alpha T Tc w) /\
   (forall T Tc w, Tc <> 0 -> evalR (env_of [T; Tc; w]) p_alpha1 = pr_alpha T Tc w)) /\
  ((forall Rg Tc Pc, Pc <> 0 -> evalR (env_of [Rg; Tc; Pc]) g_pr_a = pr_a Rg Tc Pc) /\
   (forall Rg Tc Pc, Pc <> 0 -> evalR (env_of [Rg; Tc; Pc]) g_pr_b = pr_b Rg Tc Pc) /\
   (forall T Tc w, Tc <> 0 -> evalR (env_of [T; Tc; w]) g_alpha0 = pr_alpha T Tc w) /\
   (forall T Tc w, Tc <> 0 -> evalR (env_of [T; Tc; w]) g_alpha1 = pr_alpha T Tc w)).
Proof. exact T_pr_constants. Qed.
Print Assumptions pr_constants.

(* alpha depends on T: it is recomputed exactly when the temperature it was computed for (pr_tk, stored at both places) differs *)
Theorem alpha_refreshed_when_temperature_changes :
  (forall tk T, evalB (env_of [tk; T]) p_alpha_refresh_guard <-> tk <> T) /\
  (forall tk T, evalB (env_of [tk; T]) g_alpha_refresh_guard <-> tk <> T) /\
  map snd p_pr_tk_stores = ["TK"%string; "TK"%string] /\ map snd g_pr_tk_stores = ["TK"%string; "TK"%string].
Proof. exact T_alpha_refreshed_when_temperature_changes. Qed.
Print Assumptions alpha_refreshed_when_temperature_changes.

(* the gas constant of the code (R_LITER_ATM) is the physical one to 3e-5 relative: inside the property's 1e-4 *)
Theorem gas_constant_within_tolerance :
  Rabs (evalR (env_of []) p_R - R_gas) <= 3 / 100000 * R_gas /\ Rabs (evalR (env_of []) g_R - R_gas) <= 3 / 100000 * R_gas.
Proof. exact T_gas_constant_within_tolerance. Qed.
Print Assumptions gas_constant_within_tolerance.

(* --- P from V_m: P = RT/(V-b) - a alpha/(V(V+2b)-b^2), also at the spinodal volume v1 of the three-root region --- *)
Theorem pressure_formula_is_PR :
  (forall RT V b a, V - b <> 0 -> V * (V + 2 * b) - b * b <> 0 -> evalR (env_of [RT; V; b; a]) p_P = pr_pressure RT V b a) /\
  (forall RT V b a, V - b <> 0 -> V * (V + 2 * b) - b * b <> 0 -> evalR (env_of [RT; V; b; a]) p_P_v1 = pr_pressure RT V b a) /\
  (forall RT V b a, V - b <> 0 -> V * (V + 2 * b) - b * b <> 0 -> evalR (env_of [RT; V; b; a]) g_P = pr_pressure RT V b a) /\
  (forall RT V b a, V - b <> 0 -> V * (V + 2 * b) - b * b <> 0 -> evalR (env_of [RT; V; b; a]) g_P_v1 = pr_pressure RT V b a).
Proof. exact T_pressure_formula_is_PR. Qed.
Print Assumptions pressure_formula_is_PR.

(* --- the cubic the code solves for V_m at given P (coefficients r3[1..3], both branches, both copies) has exactly the
       molar volumes satisfying the Peng-Robinson equation as its roots --- *)
Theorem cubic_equivalent :
  forall RT P b a V, P <> 0 -> V - b <> 0 -> V * V + 2 * b * V - b * b <> 0 ->
    let env := env_of [b; RT; a; P] in
    (P = pr_pressure RT V b a <-> V * V * V + evalR env p_r31_p * (V * V) + evalR env p_r32_p * V + evalR env p_r33_p = 0) /\
    (P = pr_pressure RT V b a <-> V * V * V + evalR env p_r31_v * (V * V) + evalR env p_r32_v * V + evalR env p_r33_v = 0) /\
    (P = pr_pressure RT V b a <-> V * V * V + evalR env g_r31_p * (V * V) + evalR env g_r32_p * V + evalR env g_r33_p = 0) /\
    (P = pr_pressure RT V b a <-> V * V * V + evalR env g_r31_v * (V * V) + evalR env g_r32_v * V + evalR env g_r33_v = 0).
Proof. exact T_cubic_equivalent. Qed.
Print Assumptions cubic_equivalent.

(* discriminant used for the three-root (two-phase) test; depressed cubic t^3 + rp t + rq with t = V + r1/3 *)
Theorem cubic_discriminant_and_depressed_form :
  (forall r1 r2 r3, evalR (env_of [r1; r2; r3]) p_disct = cubic_disc r1 r2 r3) /\
  (forall r1 r2 r3, evalR (env_of [r1; r2; r3]) g_disct = cubic_disc r1 r2 r3) /\
  (forall r1 r2 r3 V, let env := env_of [r1; r2; r3] in let t := V + r1 / 3 in
     V * V * V + r1 * (V * V) + r2 * V + r3 = t * t * t + evalR env p_rp * t + evalR env p_rq) /\
  (forall r1 r2 r3 V, let env := env_of [r1; r2; r3] in let t := V + r1 / 3 in
     V * V * V + r1 * (V * V) + r2 * V + r3 = t * t * t + evalR env g_rp * t + evalR env g_rq).
Proof. exact T_cubic_discriminant_and_depressed_form. Qed.
Print Assumptions cubic_discriminant_and_depressed_form.

(* PARTIAL (root finding).  Proved: in the Cardano branch `sqrt(rz) + rq/2 > 0` the value the code returns,
   V = u - rp/(3u) - r1/3, is a root of the depressed cubic PROVIDED u is the exact real cube root of -(sqrt(rz) + rq/2);
   the literal 0.33333333333333333 is 1/3 to 1e-17.  NOT proved: that pow(x, 0.33333333333333333) in binary64 is that cube
   root to any accuracy, the other Cardano branch and the trigonometric (three real roots) branch, the secant/bisection search
   for the spinodal volume.  These are covered on the implementation by the verified checker check_eos. *)
Theorem cardano_branch_root_partial :
  (forall rp rq r1 u, u <> 0 -> let rz := evalR (env_of [rp; rq]) p_rzc in
     0 <= rz -> u * u * u = - (sqrt rz + rq / 2) ->
     let V := evalR (env_of [u; rp; r1]) p_Vm_card2 in let t := V + r1 / 3 in t * t * t + rp * t + rq = 0) /\
  (forall rp rq r1 u, u <> 0 -> let rz := evalR (env_of [rp; rq]) g_rzc in
     0 <= rz -> u * u * u = - (sqrt rz + rq / 2) ->
     let V := evalR (env_of [u; rp; r1]) g_Vm_card2 in let t := V + r1 / 3 in t * t * t + rp * t + rq = 0) /\
  Rabs (evalR (env_of []) p_one_3 - 1 / 3) <= 1 / 100000000000000000 /\ Rabs (evalR (env_of []) g_one_3 - 1 / 3) <= 1 / 100000000000000000.
Proof. exact T_cardano_branch_root_partial. Qed.
Print Assumptions cardano_branch_root_partial.

(* PARTIAL (root finding, continued).  The other Cardano branch (two real cube roots) and the trigonometric branch (three real
   roots; the code returns 2 ri^(1/3) cos(acos(-rq/2/ri)/3) - r1/3, the largest root) return roots of the depressed cubic
   PROVIDED pow(x, one_3) is an exact real cube root cr on positive arguments and th = acos(arg) satisfies cos th = arg.
   NOT proved: accuracy of pow/acos/cos in binary64, that the root returned is the largest one, the degenerate cases
   sqrt(rz) + rq/2 = 0, rz = 0. *)
Theorem cardano_and_trigonometric_roots_partial :
  forall (cr : R -> R) (one3 : R), (forall x, cr x * cr x * cr x = x) -> (forall x, 0 < x -> Rpower x one3 = cr x) ->
  (forall rp rq r1, let rz := evalR (env_of [rp; rq]) p_rzc in
     0 <= rz -> 0 < sqrt rz - rq / 2 -> 0 < - sqrt rz - rq / 2 ->
     let V := evalR (env_of [sqrt rz; rq; r1; one3]) p_Vm_card1 in let t := V + r1 / 3 in t * t * t + rp * t + rq = 0) /\
  (forall rp rq r1, let rz := evalR (env_of [rp; rq]) g_rzc in
     0 <= rz -> 0 < sqrt rz - rq / 2 -> 0 < - sqrt rz - rq / 2 ->
     let V := evalR (env_of [sqrt rz; rq; r1; one3]) g_Vm_card1 in let t := V + r1 / 3 in t * t * t + rp * t + rq = 0) /\
  (forall rp rq r1 th, rp < 0 -> let ri := evalR (env_of [rp]) p_ri_trig in
     cos th = evalR (env_of [rq; ri]) p_acos_arg ->
     let V := evalR (env_of [ri; one3; th; r1]) p_Vm_trig in let t := V + r1 / 3 in t * t * t + rp * t + rq = 0) /\
  (forall rp rq r1 th, rp < 0 -> let ri := evalR (env_of [rp]) g_ri_trig in
     cos th = evalR (env_of [rq; ri]) g_acos_arg ->
     let V := evalR (env_of [ri; one3; th; r1]) g_Vm_trig in let t := V + r1 / 3 in t * t * t + rp * t + rq = 0).
Proof. exact T_cardano_and_trigonometric_roots_partial. Qed.
Print Assumptions cardano_and_trigonometric_roots_partial.

(* --- ln(phi_i): the textbook formula, with the code's decimal literals for 2 sqrt 2, 1 + sqrt 2, sqrt 2 - 1 BOUNDED --- *)
Theorem phi_formula_is_PR :
  (exists c1 c2 c3 : R,
    Rabs (c1 - 2 * sqrt 2) <= 3 / 10 ^ 7 /\ Rabs (c2 - (1 + sqrt 2)) <= 1 / 10 ^ 8 /\ Rabs (c3 - (sqrt 2 - 1)) <= 1 / 10 ^ 8 /\
    forall P V RT b a bi s2, RT <> 0 -> b <> 0 -> a <> 0 -> P <> 0 ->
      let Z := P * V / RT in let B := b * P / RT in Z - c3 * B <> 0 ->
      evalR (env_of [P; V; RT; b; a; bi; s2]) p_lnphi = ln_phi_gen c1 c2 c3 Z (a * P / (RT * RT)) B (bi / b) s2 a) /\
  (exists c1 c2 c3 : R,
    Rabs (c1 - 2 * sqrt 2) <= 3 / 10 ^ 7 /\ Rabs (c2 - (1 + sqrt 2)) <= 1 / 10 ^ 8 /\ Rabs (c3 - (sqrt 2 - 1)) <= 1 / 10 ^ 8 /\
    forall P V RT b a bi s2, RT <> 0 -> b <> 0 -> a <> 0 -> P <> 0 ->
      let Z := P * V / RT in let B := b * P / RT in Z - c3 * B <> 0 ->
      evalR (env_of [P; V; RT; b; a; bi; s2]) g_lnphi = ln_phi_gen c1 c2 c3 Z (a * P / (RT * RT)) B (bi / b) s2 a).
Proof. exact T_phi_formula_is_PR. Qed.
Print Assumptions phi_formula_is_PR.

(* Z, A, B; the guard of the logarithm; the clamp 0.01 <= phi <= 85 (ln phi cut to [-4.6, 4.44]); what is stored *)
Theorem phi_guard_clamp_and_outputs :
  ((forall P V RT, RT <> 0 -> evalR (env_of [P; V; RT]) p_Z = P * V / RT) /\
   (forall a P RT, RT <> 0 -> evalR (env_of [a; P; RT]) p_A = a * P / (RT * RT)) /\
   (forall b P RT, RT <> 0 -> evalR (env_of [b; P; RT]) p_B = b * P / RT)) /\
  ((forall P V RT, RT <> 0 -> evalR (env_of [P; V; RT]) g_Z = P * V / RT) /\
   (forall a P RT, RT <> 0 -> evalR (env_of [a; P; RT]) g_A = a * P / (RT * RT)) /\
   (forall b P RT, RT <> 0 -> evalR (env_of [b; P; RT]) g_B = b * P / RT)) /\
  (forall P V RT b, RT <> 0 -> (evalB (env_of [P; V; RT; b]) p_lnphi_guard <-> P * V / RT > b * P / RT)) /\
  (forall P V RT b, RT <> 0 -> (evalB (env_of [P; V; RT; b]) g_lnphi_guard <-> P * V / RT > b * P / RT)) /\
  (forall x r, evalC (env_of [x]) p_lnphi_clamp r -> r = Rmax (-4.6) (Rmin 4.44 x)) /\
  (forall x r, evalC (env_of [x]) g_lnphi_clamp r -> r = Rmax (-4.6) (Rmin 4.44 x)) /\
  (evalR (env_of []) p_lnphi_else = -4.6 /\ (forall l, evalR (env_of [l]) p_pr_phi = exp l) /\
   (forall l, evalR (env_of [l; ln 10]) p_si_f = ln (exp l) / ln 10)) /\
  (evalR (env_of []) g_lnphi_else = -4.6 /\ (forall l, evalR (env_of [l]) g_pr_phi = exp l) /\
   (forall l, evalR (env_of [l; ln 10]) g_si_f = ln (exp l) / ln 10)) /\
  (p_pr_phi_site_conds = [["phase_ptr->fraction_x == 0.0"%string]; []] /\
   p_pr_si_f_site_conds = [["phase_ptr->fraction_x == 0.0"%string]; []] /\
   p_pr_p_site_conds = [["phase_ptr->fraction_x == 0.0"%string]; []] /\
   g_pr_phi_site_conds = [["phase_ptr->fraction_x == 0.0"%string]; []] /\
   g_pr_si_f_site_conds = [["phase_ptr->fraction_x == 0.0"%string]; []] /\
   g_pr_p_site_conds = [["phase_ptr->fraction_x == 0.0"%string]; []]).
Proof. exact T_phi_guard_clamp_and_outputs. Qed.
Print Assumptions phi_guard_clamp_and_outputs.

(* --- mixing rules, for mixtures of ANY number of components: the loops over the gas components compute
       b = sum x_i b_i,  a alpha = sum_i sum_j x_i x_j sqrt(a_i alpha_i a_j alpha_j)(1 - k_ij)  and store
       s2_i = sum_j x_j a_ij per component;  the binary interaction entry of the database enters as (1 - k_ij) --- *)
Theorem mixing_rules : forall (kf : nat -> nat -> R) (cs : list comp),
  (b_loop p_bsum_inc cs = b_mix cs /\
   fst (a_loop p_aa p_aasum_inc p_aasum2_inc kf cs) = a_mix kf cs /\
   snd (a_loop p_aa p_aasum_inc p_aasum2_inc kf cs) = map (fun p => s2_of kf cs (fst p) (snd p)) (combine (seq 0 (List.length cs)) cs)) /\
  (b_loop g_bsum_inc cs = b_mix cs /\
   fst (a_loop g_aa g_aasum_inc g_aasum2_inc kf cs) = a_mix kf cs /\
   snd (a_loop g_aa g_aasum_inc g_aasum2_inc kf cs) = map (fun p => s2_of kf cs (fst p) (snd p)) (combine (seq 0 (List.length cs)) cs)) /\
  (forall s, evalR (env_of [s]) p_aasum2_store = s) /\ (forall s, evalR (env_of [s]) g_aasum2_store = s) /\
  (forall k, evalR (env_of [k]) bip_from_table = 1 - k) /\ evalR (env_of []) bip_default = 1.
Proof. exact T_mixing_rules. Qed.
Print Assumptions mixing_rules.

(* --- the k_ij table read by read_gas_binary_parameters (model: every line `gas1 gas2 d` executes the regenerated stores
       gas_binary_parameters[(x, y)] = v, operator[] + assignment = overwrite, in source order) is SYMMETRIC after ANY sequence of
       definitions and redefinitions, in either ordering, and the last definition of a pair is the one in force for both
       orderings - calc_PR looks k_ij up as (name_i, name_j), so this is what makes a_ij = a_ji --- *)
Theorem binary_parameter_table_symmetric :
  (forall ds a b, read_all bip_reader_stores ds (a, b) = read_all bip_reader_stores ds (b, a)) /\
  (forall ds g1 g2 v, let t := read_all bip_reader_stores (ds ++ [(g1, g2, v)]) in t (g1, g2) = Some v /\ t (g2, g1) = Some v) /\
  bip_reader_other_mutations = [].
Proof. exact T_binary_parameter_table_symmetric. Qed.
Print Assumptions binary_parameter_table_symmetric.

(* --- partial pressures are mole-fraction shares of the total and sum to it (any number of components) --- *)
Theorem partial_pressures_sum : forall (ns : list R) (P : R), sumR ns <> 0 ->
  (pr_p_loop p_x_frac p_pr_p ns P = map (fun n => n / sumR ns * P) ns /\ sumR (pr_p_loop p_x_frac p_pr_p ns P) = P) /\
  (pr_p_loop g_x_frac g_pr_p ns P = map (fun n => n / sumR ns * P) ns /\ sumR (pr_p_loop g_x_frac g_pr_p ns P) = P).
Proof. exact T_partial_pressures_sum. Qed.
Print Assumptions partial_pressures_sum.

(* --- the equilibrium partial pressure p_soln of a gas satisfies  phi * p_soln = 10^lp  where lp = log10 IAP - log10 K is the
       saturation index assembled by the loop over the reaction tokens; all four combinations of the two calc_PR copies with
       calc_gas_pressures / calc_fixed_volume_gas_pressures --- *)
Theorem fugacity_is_10_pow_SI :
  (forall lp lnphi, let sif := evalR (env_of [lnphi; ln 10]) p_si_f in
     exp lnphi * evalR (env_of [ln 10; lp; sif]) cg_p_soln = Rpower 10 lp) /\
  (forall lp lnphi, let sif := evalR (env_of [lnphi; ln 10]) g_si_f in
     exp lnphi * evalR (env_of [ln 10; lp; sif]) fv_p_soln = Rpower 10 lp) /\
  (forall lp lnphi, let sif := evalR (env_of [lnphi; ln 10]) p_si_f in
     exp lnphi * evalR (env_of [ln 10; lp; sif]) fv_p_soln = Rpower 10 lp) /\
  (forall lk toks, lp_loop cg_lp0 cg_lp_inc lk toks = sumR (map (fun t => fst t * snd t) toks) - lk) /\
  (forall lk toks, lp_loop fv_lp0 fv_lp_inc lk toks = sumR (map (fun t => fst t * snd t) toks) - lk).
Proof. exact T_fugacity_is_10_pow_SI. Qed.
Print Assumptions fugacity_is_10_pow_SI.

(* --- moles from equilibrium partial pressures: fixed pressure n_i = p_i n/P (so x_i = p_i/P); fixed volume with PR
       n_i = (p_i/P) V/V_m, V_m = V/n; without critical constants the loop n_i = p_i V/(R T), P += p_i gives the ideal-gas law
       P V = n R T for any number of gases, with R the literal 0.0820597 --- *)
Theorem moles_from_partial_pressures_and_ideal_gas_law :
  ((forall p n P, evalR (env_of [p; n; P]) cg_moles_fp = p * n / P) /\
   (forall p n P, n <> 0 -> P <> 0 -> evalR (env_of [p; n; P]) cg_frac_fp = p / P) /\
   (forall p P V Vm, evalR (env_of [p; P; V; Vm]) cg_moles_pr_fv = p / P * V / Vm) /\
   (forall p P V Vm, evalR (env_of [p; P; V; Vm]) fv_moles_pr = p / P * V / Vm) /\
   (forall V n, evalR (env_of [V; n]) cg_Vm0 = V / n)) /\
  (forall V T ps, 820597 / 10000000 * T <> 0 ->
     let st := ideal_loop cg_moles_ideal cg_totp_ideal V T ps in
     fst st = sumR ps /\ fst st * V = snd st * (820597 / 10000000) * T) /\
  (forall V T ps, 820597 / 10000000 * T <> 0 ->
     let st := ideal_loop fv_moles_ideal fv_totp_ideal V T ps in
     fst st = sumR ps /\ fst st * V = snd st * (820597 / 10000000) * T).
Proof. exact T_moles_from_partial_pressures_and_ideal_gas_law. Qed.
Print Assumptions moles_from_partial_pressures_and_ideal_gas_law.

(* --- initial state built by tidy_gas_phase from the initial partial pressures (any number of gases): without critical
       constants P = sum p_i and P V = n R T; with Peng-Robinson n_i = (p_i / P) V / V_m, hence V / n = V_m, the molar volume
       calc_PR returns for (P, T, x) (cubic_equivalent: a root of the Peng-Robinson cubic) --- *)
Theorem initial_moles_from_partial_pressures :
  (forall V T ps, T <> 0 ->
     let st := init_ideal td_moles_ideal_fp td_P_inc_fp V T ps in
     fst st = sumR ps /\ fst st * V = snd st * (820597 / 10000000) * T) /\
  (forall V T ps, T <> 0 ->
     let st := init_ideal td_moles_ideal_fv td_P_inc_fv V T ps in
     fst st = sumR ps /\ fst st * V = snd st * (820597 / 10000000) * T) /\
  (forall V Vm ps, sumR ps <> 0 -> Vm <> 0 ->
     init_pr td_x td_moles_pr V Vm ps = map (fun p => p / sumR ps * V / Vm) ps /\ sumR (init_pr td_x td_moles_pr V Vm ps) = V / Vm).
Proof. exact T_initial_moles_from_partial_pressures. Qed.
Print Assumptions initial_moles_from_partial_pressures.

(* --- gases as EQUILIBRIUM_PHASES / solution phase boundaries: adjust_setup_pure_phases and adjust_setup_solution (prep.cpp) call
       calc_PR(phase_ptrs, p, t, 0) unless the fugacity coefficient cached on the phase is valid (pr_in) and was computed for the SAME
       pressure and the SAME temperature; i.e. the cached phi is reused only if pr_in <> 0, p = pr_p and t = pr_tk --- *)
Theorem cached_phi_reused_only_for_same_pressure_and_temperature :
  (forall pr_in p pr_p t pr_tk,
     evalB (env_of [pr_in; p; pr_p; t; pr_tk]) pp_phi_cache_guard <-> (pr_in = 0 \/ p <> pr_p \/ t <> pr_tk)) /\
  (forall pr_in p pr_p t pr_tk,
     evalB (env_of [pr_in; p; pr_p; t; pr_tk]) sb_phi_cache_guard <-> (pr_in = 0 \/ p <> pr_p \/ t <> pr_tk)) /\
  pp_calc_PR_call = "calc_PR(phase_ptrs, p, t, 0)"%string /\ sb_calc_PR_call = "calc_PR(phase_ptrs, p, t, 0)"%string.
Proof. exact T_cached_phi_reused_only_for_same_pressure_and_temperature. Qed.
Print Assumptions cached_phi_reused_only_for_same_pressure_and_temperature.

(* --- histories on one instance: phase_init - called by phase_alloc for a new phase and by phase_store for an EXISTING phase
       that a PHASES block redefines - resets everything the gas code caches in the phase record: pr_si_f (log10 phi, subtracted
       by calc_gas_pressures for ideal gases too), pr_phi := 1, pr_p, pr_tk, pr_a, pr_b, pr_alpha, pr_aa_sum2, pr_in := false,
       T_c, P_c, omega, p_soln_x, moles_x, fraction_x --- *)
Theorem phase_redefinition_resets_cached_gas_state :
  (forall f, In f ["pr_si_f"; "pr_p"; "pr_tk"; "pr_a"; "pr_b"; "pr_alpha"; "pr_aa_sum2"; "t_c"; "p_c"; "omega"; "p_soln_x"; "moles_x";
                   "fraction_x"; "lk"; "in"]%string -> exists q, In (f, q) phase_init_consts /\ (q == 0)%Q) /\
  (exists q, In ("pr_phi"%string, q) phase_init_consts /\ (q == 1)%Q) /\ In ("pr_in"%string, "false"%string) phase_init_others /\
  (exists c, In (c, "phase_init(phase_ptr)"%string) phase_store_reinit_calls) /\ (1 <= phase_alloc_init_calls)%nat.
Proof. exact T_phase_redefinition_resets_cached_gas_state. Qed.
Print Assumptions phase_redefinition_resets_cached_gas_state.

(* --- a fixed-pressure gas phase is switched on iff the sum f of the equilibrium partial pressures exceeds the fixed
       pressure (by 1e-7) or it already holds more than MIN_TOTAL moles; gas_in starts FALSE and this is the only place of the
       fixed-pressure branch that sets it --- *)
Theorem fixed_pressure_exists_iff : forall f P moles min_total,
  (evalB (env_of [f; P; moles; min_total]) mb_gas_in_guard <-> (f > P + 1 / 10000000 \/ moles > min_total)) /\
  mb_gas_in_initially_false = true /\ mb_gas_in_sites_fixed_pressure = 1%nat.
Proof. exact T_fixed_pressure_exists_iff. Qed.
Print Assumptions fixed_pressure_exists_iff.

(* --- verified checkers used by the correspondence run (Checker.v; independent of the generated files) --- *)
Theorem check_gas_sound :
  (forall T P V m cs, check_eos_any T P V m cs = true ->
     exists Rg, (Rg = R_code \/ Rg = R_codata) /\ Rabs (P_eos_R Rg T V m cs - Q2R P) <= / 10000 * Rabs (Q2R P)) /\
  (forall T P V cs, check_ideal_any T P V cs = true ->
     exists Rg, (Rg = R_code \/ Rg = R_codata) /\
       Rabs (ideal_pressure (Q2R Rg) (Q2R T) (Q2R V) (ntot_R cs) - Q2R P) <= / 10000 * Rabs (Q2R P)) /\
  (forall Rg T P V m cs k ck phi, check_phi Rg T P V m cs k ck phi = true ->
     Rabs (exp (lnphi_R Rg T P V m cs k ck) - Q2R phi) <= / 1000000 * Rabs (Q2R phi)) /\
  (forall tolw Rg T P Vw m cs k ck phi, check_phi_at tolw Rg T P Vw m cs k ck phi = true ->
     Rabs (P_eos_R Rg T Vw m cs - Q2R P) <= Q2R tolw * Rabs (Q2R P) /\
     Rabs (exp (lnphi_R Rg T P Vw m cs k ck) - Q2R phi) <= / 1000000 * Rabs (Q2R phi)) /\
  (forall Rg T P V m cs k ck,
     (check_clamped_hi Rg T P V m cs k ck = true -> 4.44 <= lnphi_R Rg T P V m cs k ck) /\
     (check_clamped_lo Rg T P V m cs k ck = true -> lnphi_R Rg T P V m cs k ck <= -4.6)) /\
  (forall tol P cs ck p, check_partial tol P cs ck p = true ->
     Rabs (Q2R (g_n ck) / ntot_R cs * Q2R P - Q2R p) <= Q2R tol * Rabs (Q2R p)) /\
  (forall tol P cs ck p, check_partial_floor tol P cs ck p = true ->
     Rabs (Q2R (g_n ck) / ntot_R cs * Q2R P - Q2R p) <= Q2R tol * Q2R P) /\
  (forall tol P ps, check_psum tol P ps = true -> Rabs (sumR (map Q2R ps) - Q2R P) <= Q2R tol * Rabs (Q2R P)) /\
  (forall tol phi p si, check_fug tol phi p si = true ->
     Rabs (Q2R phi * Q2R p - Rpower 10 (Q2R si)) <= Q2R tol * Rabs (Rpower 10 (Q2R si))) /\
  (forall tol phi p si P, check_fug_floor tol phi p si P = true ->
     Rabs (Q2R phi * Q2R p - Rpower 10 (Q2R si)) <= Q2R tol * Q2R P) /\
  (forall tol P l, check_reaches tol P l = true -> Q2R P * (1 - Q2R tol) <= peq_sum_R l) /\
  (forall tol P l, check_below tol P l = true -> peq_sum_R l <= Q2R P * (1 + Q2R tol)) /\
  (forall Rg T P m cs, check_three_roots Rg T P m cs = true -> 0 < disc_R Rg T P m cs) /\
  (forall Rg T V m cs, check_three_roots_at_V Rg T V m cs = true -> 0 < disc_Rg Rg T (P_eos_R Rg T V m cs) m cs) /\
  (forall Rg T V m cs, check_nonpositive_pressure_at_V Rg T V m cs = true -> P_eos_R Rg T V m cs <= 0).
Proof. exact T_check_gas_sound. Qed.
Print Assumptions check_gas_sound.
