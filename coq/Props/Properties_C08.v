(** C08 — bad input is reported as errors; it never crashes or poisons the instance.
    What is a theorem here: the return-code / error-record protocol of the wrapper (models Wrapper/Run.v and
    Wrapper/Route.v). Absence of crashes / invalid memory accesses for all byte sequences is a run-time property
    that no Gallina model can exhibit: it is supported by sanitizer runs in the correspondence, not proved. *)
From Coq Require Import List ZArith String Bool.
From IPV.Wrapper Require Import Run RunProofs SelOut Route RouteProofs.
Import ListNotations.
Local Open Scope Z_scope.

Section C08.
Variable E ev S : Type.
Variable sim : E -> string -> bool -> E * list ev * bool.
Variable fresh : E.
Variable load : string -> E * list ev * bool.
Variable n_err : ev -> Z.
Variable no_db_event no_file_event : ev.
Hypothesis n_err_nonneg : forall e, 0 <= n_err e.
Notation run_calls := (Run.run_calls E ev S sim fresh load n_err no_db_event no_file_event).
Notation step := (Run.step E ev S sim fresh load n_err no_db_event no_file_event).

(** the return value of a Run*/Load* call is non-zero exactly when an error event was recorded during THAT call *)
Theorem C08_nonzero_iff_error_recorded : forall i c, is_run_or_load S c = true ->
  (last_ret E ev S (step i c) <> 0 <-> exists e, In e (last_events E ev S (step i c)) /\ 0 < n_err e).
Proof. intros; eapply nonzero_iff_error_recorded; eauto. Qed.

(** the record (events, hence error/warning strings) of a call does not depend on what earlier calls recorded *)
Theorem C08_record_describes_this_call_only : forall i evs r c, is_run_or_load S c = true ->
  let i' := mkI E ev S (id E ev S i) (settings E ev S i) (loaded E ev S i) (eng E ev S i) (accum E ev S i) (clear_flag E ev S i) evs r in
  last_events E ev S (step i' c) = last_events E ev S (step i c) /\ last_ret E ev S (step i' c) = last_ret E ev S (step i c).
Proof. intros; eapply record_describes_this_call_only; eauto. Qed.

(** after ANY call (a failed one included) a successful load restores the fresh-state behaviour of C07 *)
Theorem C08_failed_call_then_load_is_fresh : forall i c t cs k, id E ev S i = k ->
  run_calls (step (step i c) (LoadDatabase S t)) cs =
  run_calls (step (create E ev S fresh k (settings E ev S (step i c))) (LoadDatabase S t)) cs.
Proof. intros; eapply failed_call_then_load_is_fresh; eauto. Qed.

(** a run call (even an aborted one) keeps the instance usable: database still loaded, accumulator well formed *)
Theorem C08_run_keeps_instance_usable : forall i c, accum_ok E ev S i -> (forall t, c <> AccumulateSim S t) -> c <> ClearAccumulatedLines S ->
  (forall t, c <> LoadDatabase S t) -> (forall f, c <> SetSettings S f) ->
  accum_ok E ev S (step i c) /\ loaded E ev S (step i c) = loaded E ev S i.
Proof. intros; eapply run_keeps_accum_ok_and_loaded; eauto. Qed.
End C08.
Print Assumptions C08_nonzero_iff_error_recorded.
Print Assumptions C08_record_describes_this_call_only.
Print Assumptions C08_failed_call_then_load_is_fresh.
Print Assumptions C08_run_keeps_instance_usable.

(** error string = exactly the error messages of the call, when error recording is enabled (routing model) *)
Section C08r.
Variable chunk : Type.
Variable STOPPING : chunk.
Variable add_nl : chunk -> chunk.
Theorem C08_error_string_is_the_calls_errors : forall sw evs,
  err_s chunk (consume chunk STOPPING add_nl sw evs) =
  if ErrorStringOn sw && ErrorOn sw then flat_map (err_chunks chunk) evs else [].
Proof. exact (err_string_spec chunk STOPPING add_nl). Qed.
End C08r.
Print Assumptions C08_error_string_is_the_calls_errors.
