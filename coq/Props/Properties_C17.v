(* C17 — BASIC programs compute standard arithmetic, string and control-flow semantics.
   Only statements here; proofs live in coq/C17/*.v. Generated constants come from
   coq/Gen/Gen_C17_basic.v (regenerated from PBasic.cpp / PBasic.h and the host files on every run). *)
From Coq Require Import ZArith Bool List String.
From IPV.C17 Require Import Num Tok Eval Exec Ast Tie.
From IPV.Gen Require Import Gen_C17_basic.
Import ListNotations.

(* T-gen: every documented keyword is spelled in PBasic::command_tokens and denotes the model's keyword;
   operator/structural keywords have exactly one spelling *)
Theorem keyword_table_matches_model : keywords_ok command_tokens = true.
Proof. vm_compute. reflexivity. Qed.
Print Assumptions keyword_table_matches_model.

(* T-gen: expr/andexpr/relexpr/sexpr/term/upexpr call the next level first, evaluate the right operand at the
   model's rhs_level, and their while-conditions accept exactly the enumerators the model's op_at accepts
   (the C++ conditions are evaluated for every BASIC_TOKEN value by the translator) *)
Theorem precedence_levels_match_source : levels_ok level_table basic_token_enum = true.
Proof. vm_compute. reflexivity. Qed.
Print Assumptions precedence_levels_match_source.

Theorem statement_dispatch_matches_source : dispatch_ok exec_dispatch = true.
Proof. vm_compute. reflexivity. Qed.
Print Assumptions statement_dispatch_matches_source.

Theorem function_cases_match_source : factor_ok factor_calls = true.
Proof. vm_compute. reflexivity. Qed.
Print Assumptions function_cases_match_source.

(* hosts_same: USER_PUNCH, USER_PRINT, RATES and CALCULATE_VALUES all go through Phreeqc::basic_compile /
   Phreeqc::basic_run, which forward to the one interpreter object *)
Theorem hosts_share_interpreter : hosts_ok host_calls = true.
Proof. vm_compute. reflexivity. Qed.
Print Assumptions hosts_share_interpreter.
