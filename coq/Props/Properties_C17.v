(* C17 — BASIC programs compute standard arithmetic, string and control-flow semantics.
   Statements only; proofs live in coq/C17/*.v.  Generated constants (command_tokens, basic_token_enum,
   level_table, exec_dispatch, factor_calls, host_calls) come from coq/Gen/Gen_C17_basic.v, regenerated from
   PBasic.cpp / PBasic.h and the host files by translator/c17_gen.py on every run. *)
From Coq Require Import ZArith Bool List String Floats.
From IPV.C17 Require Import Num Tok Eval Exec Ast Tie PrecProof ExecProof StrProof.
From IPV.Gen Require Import Gen_C17_basic.
Import ListNotations.

(* ---------------------------------------------------------------- tie to the current source (T-gen) *)

(* every documented keyword is spelled in PBasic::command_tokens and denotes the model's keyword;
   operator / structural keywords have exactly one spelling *)
Theorem keyword_table_matches_model : keywords_ok command_tokens = true.
Proof. vm_compute. reflexivity. Qed.
Print Assumptions keyword_table_matches_model.

Theorem keyword_table_denotes : forall s k, In (s, k) doc_keywords ->
  exists en, kw_lookup command_tokens s = Some en /\ kw_eqb (kw_of_enum en) k = true.
Proof. exact (keywords_ok_sound command_tokens keyword_table_matches_model). Qed.
Print Assumptions keyword_table_denotes.

(* expr/andexpr/relexpr/sexpr/term/upexpr call the next level first, evaluate the right operand at the model's
   rhs_level, and their while-conditions (evaluated by the translator for every BASIC_TOKEN value) accept exactly
   the enumerators the model's op_at accepts *)
Theorem precedence_levels_match_source : levels_ok level_table basic_token_enum = true.
Proof. vm_compute. reflexivity. Qed.
Print Assumptions precedence_levels_match_source.

Theorem precedence_levels_accept : forall L, L < 6 -> exists first rhs opl,
    nth_error level_table L = Some (level_name L, first, rhs, opl) /\ first = level_name (S L) /\ rhs = level_name (rhs_level L) /\
    forall en z, In (en, z) basic_token_enum -> (mem_s en opl = true <-> op_at L (TK (kw_of_enum en)) <> None).
Proof. exact (levels_ok_sound level_table basic_token_enum precedence_levels_match_source). Qed.
Print Assumptions precedence_levels_accept.

Theorem statement_dispatch_matches_source : dispatch_ok exec_dispatch = true.
Proof. vm_compute. reflexivity. Qed.
Print Assumptions statement_dispatch_matches_source.

Theorem function_cases_match_source : factor_ok factor_calls = true.
Proof. vm_compute. reflexivity. Qed.
Print Assumptions function_cases_match_source.

(* the subscript loop of PBasic::findvar, executed symbolically by the translator for 1..4 dimensions (maxdims = 4):
   the element offset is the row-major polynomial j0*d1*..*d(n-1) + ... + j(n-1), subscript t is tested against extent t,
   a comma is required after every subscript but the last *)
Theorem findvar_offset_matches_model : findvar_ok findvar_index findvar_bounds findvar_commas = true.
Proof. vm_compute. reflexivity. Qed.
Print Assumptions findvar_offset_matches_model.

(* ... and the row-major polynomials are what the model's flat_index computes, for all extents and in-range subscripts *)
Theorem findvar_offset_is_flat_index : forall (rho : string -> Z),
  let d := fun s => rho s in
  let inr := fun j e => ((0 <=? rho j) && (rho j <? rho e))%Z%bool in
  (inr "j0" "d0" = true -> flat_index [d "d0"] [d "j0"] 0%Z = Some (poly_eval rho (expected_index 1))) /\
  (inr "j0" "d0" = true -> inr "j1" "d1" = true ->
     flat_index [d "d0"; d "d1"] [d "j0"; d "j1"] 0%Z = Some (poly_eval rho (expected_index 2))) /\
  (inr "j0" "d0" = true -> inr "j1" "d1" = true -> inr "j2" "d2" = true ->
     flat_index [d "d0"; d "d1"; d "d2"] [d "j0"; d "j1"; d "j2"] 0%Z = Some (poly_eval rho (expected_index 3))) /\
  (inr "j0" "d0" = true -> inr "j1" "d1" = true -> inr "j2" "d2" = true -> inr "j3" "d3" = true ->
     flat_index [d "d0"; d "d1"; d "d2"; d "d3"] [d "j0"; d "j1"; d "j2"; d "j3"] 0%Z = Some (poly_eval rho (expected_index 4))).
Proof. exact row_major_is_flat_index. Qed.
Print Assumptions findvar_offset_is_flat_index.

(* hosts_same: USER_PUNCH, USER_PRINT, RATES and CALCULATE_VALUES all go through Phreeqc::basic_compile /
   Phreeqc::basic_run, which forward to the one interpreter *)
Theorem hosts_share_interpreter : hosts_ok host_calls = true.
Proof. vm_compute. reflexivity. Qed.
Print Assumptions hosts_share_interpreter.

(* ---------------------------------------------------------------- theorems about the interpreter model *)

(* precedence and associativity, any nesting depth, any number structure, any keyword table, any environment:
   the token stream printed from an expression AST (numbers, strings, variables, unary - NOT, the 14 one-argument
   functions, all 15 binary operators) with minimal parentheses evaluates (precedence climbing, token level, enough
   fuel) to the AST's reference value and consumes exactly the printed tokens.
   FULL statement of DESIGN.md (not proved here): `expr (pr 0 a ++ rest) = eval_ast a` also when eval_ast a is a BASIC
   error (type mismatch, negative base with fractional exponent): the error direction is missing, hence _partial. *)
Theorem expr_tokens_eval_eq_ast_partial :
  forall (num : Type) (ops : numops num) (tbl : kwtable) (hp : bool) (e : env num) (a : ex) (v : val num) (rest : list tok),
    eval_ast num ops hp e a = Ok v -> not_operator rest -> no_lp rest ->
    exists N, forall f, N <= f -> expr num ops tbl hp f e (pr 0 a ++ rest) = Ok (v, rest).
Proof. exact PrecProof.expr_tokens_eval_eq_ast. Qed.
Print Assumptions expr_tokens_eval_eq_ast_partial.

(* the hypotheses are satisfiable, on binary64 with the regenerated keyword table:
   1 + 2 * 3 ^ 2 / 4 - 5 < 7 AND NOT 0   and   "ab" + "c" = "abc" *)
Example expr_tokens_eval_eq_ast_example_str :
  let a := EBin Beq (EBin Badd (EStr "ab") (EStr "c")) (EStr "abc") in
  eval_ast float float_ops true (empty_env float) a = Ok (VNum 1%float) /\
  expr float float_ops command_tokens true 200 (empty_env float) (pr 0 a) = Ok (VNum 1%float, []).
Proof. vm_compute. split; reflexivity. Qed.

Example expr_tokens_eval_eq_ast_example :
  let a := EBin Band (EBin Blt (EBin Bsub (EBin Badd (ENum 1 0) (EBin Bdiv (EBin Bmul (ENum 2 0) (EBin Bpow (ENum 3 0) (ENum 2 0))) (ENum 4 0))) (ENum 5 0)) (ENum 7 0))
                (ENot (ENum 0 0)) in
  eval_ast float float_ops true (empty_env float) a = Ok (VNum 1%float) /\
  expr float float_ops command_tokens true 200 (empty_env float) (pr 0 a) = Ok (VNum 1%float, []).
Proof. vm_compute. split; reflexivity. Qed.

(* FOR v = a TO b STEP s runs its body max 0 (floor((b-a)/s)+1) times (s>0; mirrored for s<0), for all integers on which
   the arithmetic of the number structure is exact (hypotheses; binary64: |.| <= 2^53) *)
Theorem for_loop_count :
  forall (num : Type) (ops : numops num) (inj : Z -> num) (B : Z),
    (forall a b, Z.abs a <= B -> Z.abs b <= B -> Z.abs (a + b) <= B -> n_add ops (inj a) (inj b) = inj (a + b))%Z ->
    (forall a b, Z.abs a <= B -> Z.abs b <= B -> n_ltb ops (inj a) (inj b) = (a <? b))%Z ->
    (forall a b, Z.abs a <= B -> Z.abs b <= B -> n_eqb ops (inj a) (inj b) = (a =? b))%Z ->
    n_ofZ ops 0 = inj 0%Z -> (0 <= B)%Z ->
    forall a b s f,
      (s <> 0)%Z -> (Z.abs a <= B)%Z -> (Z.abs b <= B)%Z -> (Z.abs s <= B)%Z -> (Z.abs (b + s) <= B)%Z ->
      Z.to_nat (trips a b s) <= f ->
      trip_count num ops f (inj a) (inj b) (inj s) = Z.to_nat (trips a b s).
Proof. exact ExecProof.for_loop_count. Qed.
Print Assumptions for_loop_count.

(* satisfiable: exact integers, any range *)
Theorem for_loop_count_integers : forall a b s f, (s <> 0)%Z -> Z.to_nat (trips a b s) <= f ->
  trip_count Z z_ops f a b s = Z.to_nat (trips a b s).
Proof. exact for_loop_count_Z. Qed.
Print Assumptions for_loop_count_integers.

(* NEXT loops back with the FOR record kept exactly when next_continues holds, else pops it *)
Theorem cmdnext_spec :
  forall (num : Type) (ops : numops num) (tbl : kwtable) (hp : bool) (efuel : nat) (s : state num) name mx st hl ht rest t,
    s_loops num s = LFor num name mx st hl ht :: rest -> iseos t = true ->
    let v' := n_add ops (scal_num num ops (s_env num s) name) st in
    let e' := assign num (s_env num s) (TScal name) (VNum v') in
    cmdnext num ops tbl hp efuel s t =
    Ok (if next_continues num ops st v' mx
        then with_pos num (with_loops num (with_env num s e') (LFor num name mx st hl ht :: rest)) hl ht
        else with_t num (with_loops num (with_env num s e') rest) t).
Proof. exact ExecProof.cmdnext_spec. Qed.
Print Assumptions cmdnext_spec.

(* GOSUB pushes one record and jumps; a later RETURN (FOR/WHILE records opened in the subroutine are discarded) resumes
   at the end of the GOSUB statement with the loop stack restored *)
Theorem gosub_return_stack :
  forall (num : Type) (ops : numops num) (tbl : kwtable) (hp : bool) (prog : program) (efuel : nat) (s : state num) t s1,
    cmdgosub num ops tbl hp prog efuel s t = Ok s1 ->
    s_loops num s1 = LGosub num (s_line num s) t :: s_loops num s /\ s_goto num s1 = true /\
    (exists l, s_line num s1 = Some l) /\ s_env num s1 = s_env num s /\
    forall (s2 : state num) extra t2,
      s_loops num s2 = (extra ++ s_loops num s1)%list -> forallb (fun l => negb (is_gosub num l)) extra = true ->
      exists s3, cmdreturn num s2 t2 = Ok s3 /\ s_loops num s3 = s_loops num s /\ s_line num s3 = s_line num s /\
                 s_t num s3 = skiptoeos t /\ s_env num s3 = s_env num s2 /\ s_out num s3 = s_out num s2.
Proof. exact ExecProof.gosub_return_stack. Qed.
Print Assumptions gosub_return_stack.

(* DIM/PUT/GET store laws: PUT then GET of the same subscripts yields the value, every other key is untouched;
   the same for scalar variables *)
Theorem put_get_laws : forall (A : Type) (l : list (list Z * A)) k v,
  assoc_k (set_k l k v) k = Some v /\ forall k', k' <> k -> assoc_k (set_k l k v) k' = assoc_k l k'.
Proof. exact (@ExecProof.put_get_laws). Qed.
Print Assumptions put_get_laws.

Theorem var_store_laws : forall (A : Type) (l : list (string * A)) x v,
  assoc_s (set_s l x v) x = Some v /\ forall y, y <> x -> assoc_s (set_s l x v) y = assoc_s l y.
Proof. exact (@ExecProof.var_store_laws). Qed.
Print Assumptions var_store_laws.

(* arrays, numeric and string: assignment to an element stores into exactly the addressed element (it reads back the
   value; all other elements, arrays, scalars and the PUT/GET store are untouched), and element designators with
   different in-range subscripts denote different cells.  In the model the target of LET is fixed by findvar BEFORE the
   right-hand side is evaluated (cmdlet), so `a$(2) = a$(1) + "cd"` and shift loops `t$(i) = t$(i-1)` obey these laws. *)
Theorem array_store_laws : forall (num : Type) (e : env num) name dims cells k v,
  assoc_s (e_arr num e) name = Some (dims, cells) ->
  let e' := assign num e (TElem name k) v in
  (exists cells', assoc_s (e_arr num e') name = Some (dims, cells') /\ assoc_z cells' k = Some v /\
                  forall k', k' <> k -> assoc_z cells' k' = assoc_z cells k') /\
  (forall other, other <> name -> assoc_s (e_arr num e') other = assoc_s (e_arr num e) other) /\
  e_scal num e' = e_scal num e /\ e_saved num e' = e_saved num e /\ e_host num e' = e_host num e.
Proof. exact ExecProof.array_store_laws. Qed.
Print Assumptions array_store_laws.

Theorem array_cells_distinct : forall dims subs subs' k k',
  flat_index dims subs 0%Z = Some k -> flat_index dims subs' 0%Z = Some k' -> subs <> subs' -> k <> k'.
Proof. exact ExecProof.array_cells_distinct. Qed.
Print Assumptions array_cells_distinct.

(* malformed programs end in a BASIC error *)
Theorem malformed_line_is_error : forall (tbl : kwtable) lines s m,
  In s lines -> parse_line tbl s = LineErr m -> forall p p', compile tbl lines p <> Ok p'.
Proof. exact ExecProof.malformed_line_is_error. Qed.
Print Assumptions malformed_line_is_error.

Theorem return_without_gosub_error : forall (num : Type) (s : state num) t,
  forallb (fun l => negb (is_gosub num l)) (s_loops num s) = true ->
  cmdreturn num s t = Err "RETURN without GOSUB".
Proof. exact ExecProof.return_without_gosub_error. Qed.
Print Assumptions return_without_gosub_error.

Theorem next_without_for_error : forall (num : Type) (ops : numops num) (tbl : kwtable) (hp : bool) (efuel : nat) (s : state num) t,
  s_loops num s = [] -> iseos t = true -> cmdnext num ops tbl hp efuel s t = Err "NEXT without FOR".
Proof. exact ExecProof.next_without_for_error. Qed.
Print Assumptions next_without_for_error.

Theorem goto_undefined_line_error :
  forall (num : Type) (ops : numops num) (tbl : kwtable) (hp : bool) (prog : program) (efuel : nat) (s : state num) t n r,
    intexpr num ops tbl hp efuel (s_env num s) t = Ok (n, r) -> findline prog n = None ->
    cmdgoto num ops tbl hp prog efuel s t = Err "Undefined line".
Proof. exact ExecProof.goto_undefined_line_error. Qed.
Print Assumptions goto_undefined_line_error.

Theorem extra_information_error :
  forall (num : Type) (ops : numops num) (tbl : kwtable) (hp : bool) (prog : program) (efuel : nat) (s s1 : state num) first t,
    skip_colons (s_t num s) = first :: t ->
    dispatch num ops tbl hp prog efuel
      (mkState num (s_env num s) (s_loops num s) (s_line num s) (first :: t) false false (s_dataline num s) (s_datatok num s) (s_out num s) (s_save num s))
      first t = Ok s1 ->
    s_else num s1 = false -> iseos (s_t num s1) = false ->
    step num ops tbl hp prog efuel s = Err "Extra information on line".
Proof. exact ExecProof.extra_information_error. Qed.
Print Assumptions extra_information_error.

(* the interpreter is total (a Coq function) and its result does not depend on the fuel once it suffices;
   a run yields either delivered values (Ok) or an error, never both *)
Theorem run_fuel_irrelevant :
  forall (num : Type) (ops : numops num) (tbl : kwtable) (hp : bool) (prog : program) (efuel : nat) f (s : state num) r,
    run num ops tbl hp prog efuel f s = r -> r <> NoFuel -> forall f', f <= f' -> run num ops tbl hp prog efuel f' s = r.
Proof. exact ExecProof.run_fuel_irrelevant. Qed.
Print Assumptions run_fuel_irrelevant.

(* ---------------------------------------------------------------- string primitives are the textbook functions *)

(* INSTR: 1-based position of the FIRST occurrence of p in s (occurs_at p s k: p is a prefix of s from offset k),
   0 exactly when p occurs nowhere *)
Theorem instr_spec : forall (p s : list Ascii.ascii),
  let r := str_find p s 1%Z in
  (r = 0%Z /\ forall j, j <= List.length s -> ~ occurs_at p s j) \/
  ((1 <= r <= 1 + Z.of_nat (List.length s))%Z /\ occurs_at p s (Z.to_nat (r - 1)) /\
   forall j, j < Z.to_nat (r - 1) -> ~ occurs_at p s j).
Proof. exact StrProof.instr_spec. Qed.
Print Assumptions instr_spec.

Theorem is_prefix_iff : forall (p s : list Ascii.ascii), is_prefix p s = true <-> exists t, s = (p ++ t)%list.
Proof. exact StrProof.is_prefix_iff. Qed.
Print Assumptions is_prefix_iff.

(* string relations (= <> < > <= >=) are a total order on strings: Eq is equality, swapping the operands swaps
   the outcome, < is transitive *)
Theorem str_cmp_eq : forall a b : string, str_cmp a b = Eq <-> a = b.
Proof. exact StrProof.str_cmp_eq. Qed.
Print Assumptions str_cmp_eq.

Theorem str_cmp_antisym : forall a b : string, str_cmp b a = CompOpp (str_cmp a b).
Proof. exact StrProof.str_cmp_antisym. Qed.
Print Assumptions str_cmp_antisym.

Theorem str_cmp_trans_lt : forall a b c : string, str_cmp a b = Lt -> str_cmp b c = Lt -> str_cmp a c = Lt.
Proof. exact StrProof.str_cmp_trans_lt. Qed.
Print Assumptions str_cmp_trans_lt.

(* LTRIM$ / RTRIM$ remove blanks only, all of them, and are idempotent *)
Theorem drop_spaces_suffix : forall l, exists sp, l = (sp ++ drop_spaces l)%list /\ forallb is_space sp = true.
Proof. exact StrProof.drop_spaces_suffix. Qed.
Print Assumptions drop_spaces_suffix.

Theorem drop_spaces_head : forall l, match drop_spaces l with (c :: _)%list => is_space c = false | nil => True end.
Proof. exact StrProof.drop_spaces_head. Qed.
Print Assumptions drop_spaces_head.

Theorem drop_spaces_idem : forall l, drop_spaces (drop_spaces l) = drop_spaces l.
Proof. exact StrProof.drop_spaces_idem. Qed.
Print Assumptions drop_spaces_idem.

(* PAD$(s, i) keeps s as its prefix and has length max(len s, i) *)
Theorem pad_s_length : forall s i, String.length (pad_s s i) = Nat.max (String.length s) (Z.to_nat i).
Proof. exact StrProof.pad_s_length. Qed.
Print Assumptions pad_s_length.

Theorem pad_s_prefix : forall s i, substring 0 (String.length s) (pad_s s i) = s.
Proof. exact StrProof.pad_s_prefix. Qed.
Print Assumptions pad_s_prefix.

(* MID$(s, i, j) = substring (i-1) j s in the model: j characters or as many as remain; MID$(s, 1, LEN(s)) = s *)
Theorem substring_length : forall s n m, String.length (substring n m s) = Nat.min m (String.length s - n).
Proof. exact StrProof.substring_length. Qed.
Print Assumptions substring_length.

Theorem substring_all : forall s, substring 0 (String.length s) s = s.
Proof. exact StrProof.substring_all. Qed.
Print Assumptions substring_all.
