(* C01 — Speciation results satisfy the database's equilibrium and balance equations.
   kcalc_*, c01_LOG_10, dh_factor_*, mol_*, ss_*, ro_* are REGENERATED from /repo on every run
   (coq/Gen/Gen_C01_code.v: prep.cpp k_calc, Phreeqc.cpp init, read.cpp read_delta_h_only, model.cpp molalities and
   sum_species, basicsubs.cpp log_activity and saturation_index);  logK_T, vant_hoff, analytic, mass_action_holds,
   balance_holds are the textbook definitions of coq/C01/Spec.v;  rewrite is the executable model of the rewriting of
   reactions to master species (coq/C01/Rewrite.v);  the check_* / *_failures functions are the executable checkers
   that ./check C01 applies (by vm_compute) to what the implementation reports (coq/C01/Checker.v). *)
From Coq Require Import Reals QArith Qreals Qabs List String PArith FMapPositive Lra.
From IPV Require Import Base.RExpr Base.IntervalEval C01.Spec C01.Rewrite C01.KCalcProofs C01.EndToEnd C01.Checker C01.CheckerProofs
  Gen.Gen_C01_code.
Import ListNotations.
Local Open Scope R_scope.
Local Open Scope string_scope.

(* ---- T-gen: log K(T,P) as the code computes it ------------------------------------------------------------- *)

(* the initialisation of lk in k_calc is van 't Hoff + analytical expression, for all real parameters and T > 0 *)
Theorem kcalc_is_vant_hoff_plus_analytic : forall k T, 0 < T ->
  evalR (env_of [kr0 k; krh k; kr1 k; kr2 k; kr3 k; kr4 k; kr5 k; kr6 k; T; ln 10]) kcalc_lk
  = kr0 k - krh k / (ln 10 * (83147 / 10000000)) * (1 / T - 1 / (29815 / 100))
    + (kr1 k + kr2 k * T + kr3 k / T + kr4 k * (ln T / ln 10) + kr5 k / (T * T) + kr6 k * (T * T)).
Proof. c01_kcalc_lk. Qed.
Print Assumptions kcalc_is_vant_hoff_plus_analytic.

(* the whole function (pressure term included, guarded by delta_p > 0 with delta_p = presPa - 101325) returns that
   value at 1 atm and below; shape of the extracted statements *)
Theorem kcalc_at_one_atmosphere :
  (forall k dv T P, 0 < T -> P <= 101325 -> kcalc_model k dv T P (ln 10) = logK_T k T) /\
  kcalc_lk_site_kinds = ["init"; "compound"] /\ kcalc_pcorr_conds = ["delta_p > 0"] /\
  kcalc_dp_vars = ["presPa"] /\ evalR (env_of [101325]) kcalc_dp = 0 /\
  kcalc_ret = Var 0 /\ kcalc_ret_vars = ["lk"] /\ kcalc_return_sites = 1%nat /\
  kcalc_lk_vars = ["l_logk[logK_T0]"; "l_logk[delta_h]"; "l_logk[T_A1]"; "l_logk[T_A2]"; "l_logk[T_A3]"; "l_logk[T_A4]";
                   "l_logk[T_A5]"; "l_logk[T_A6]"; "tempk"; "LOG_10"] /\ kcalc_lk_conds = [].
Proof.
  split; [|repeat split; try reflexivity; c01_leaf].
  intros k dv T P HT HP. unfold kcalc_model.
  assert (E : evalR (env_of [P]) kcalc_dp = P - 101325) by c01_leaf.
  rewrite E. destruct (Rlt_dec 0 (P - 101325)) as [H|_]; [lra|].
  unfold kenv. rewrite (kcalc_is_vant_hoff_plus_analytic k T HT). reflexivity.
Qed.
Print Assumptions kcalc_at_one_atmosphere.

(* k_calc is linear in the log K vector: adding reactions coefficient-wise (trxn_add) adds their log K(T) *)
Theorem kcalc_linear : forall c a b T L,
  evalR (kenv (kadd (kscale c a) b) T L) kcalc_lk = c * evalR (kenv a T L) kcalc_lk + evalR (kenv b T L) kcalc_lk.
Proof. c01_kcalc_linear. Qed.
Print Assumptions kcalc_linear.

Theorem kcalc_at_25C : forall logk dh,
  evalR (kenv (mkKR logk dh 0 0 0 0 0 0) (29815 / 100) (ln 10)) kcalc_lk = logk.
Proof.
  intros. unfold kenv. rewrite (kcalc_is_vant_hoff_plus_analytic (mkKR logk dh 0 0 0 0 0 0) (29815 / 100)) by lra.
  cbn [kr0 krh kr1 kr2 kr3 kr4 kr5 kr6]. unfold Rdiv. ring.
Qed.
Print Assumptions kcalc_at_25C.

Theorem LOG_10_constant_is_ln10 : evalR (env_of []) c01_LOG_10 = ln 10 /\ c01_LOG_10_vars = [].
Proof. split; [|reflexivity]. unfold c01_LOG_10. unfold_evalR. f_equal. lra. Qed.
Print Assumptions LOG_10_constant_is_ln10.

(* delta_h given in J / cal / kcal is converted to kJ with 1/1000 and 4.184 *)
Theorem delta_h_units :
  dh_compound_ops = ["/="; "*="] /\
  evalR (env_of []) dh_factor_0 = 1000 /\ evalR (env_of []) dh_factor_1 = 4184 / 1000 /\
  dh_factor_0_vars = [] /\ dh_factor_1_vars = [] /\
  dh_compound_conds = [["j == 4 || j == 5"; "strstr(token, ""k"") != token"];
                       ["j == 4 || j == 5"; "strstr(token, ""c"") != NULL"]].
Proof. repeat split; try reflexivity; c01_leaf. Qed.
Print Assumptions delta_h_units.

(* ---- T-gen: molalities / sum_species / read-outs ------------------------------------------------------------ *)

(* the loop of Phreeqc::molalities gives  lm + lg = lk + sum coef*la(master)  for every token list *)
Theorem molalities_satisfy_mass_action : forall lk lg toks,
  lm_model lk lg toks + lg = lk + fold_right (fun t acc => snd t * fst t + acc) 0 toks.
Proof.
  intros lk lg toks. unfold lm_model. rewrite fold_left_is_sum.
  replace (evalR (env_of [lk; lg]) mol_lm_init) with (lk - lg) by c01_leaf.
  rewrite (fold_right_sum_ext _ (fun t => snd t * fst t)) by c01_leaf. lra.
Qed.
Print Assumptions molalities_satisfy_mass_action.

Theorem molalities_statement_shape :
  mol_lm_site_kinds = ["assign"; "compound:+="] /\ mol_lm_init_vars = ["s_x[i]->lk"; "s_x[i]->lg"] /\
  mol_lm_inc_vars = ["rxn_ptr->s->la"; "rxn_ptr->coef"] /\ mol_lm_init_conds = [] /\ mol_lm_inc_conds = [] /\
  (forall lm lg, evalR (env_of [lm; lg]) mol_master_la = lm + lg).
Proof. repeat split; try reflexivity; c01_leaf. Qed.
Print Assumptions molalities_statement_shape.

(* charge balance, alkalinity and valence-state totals in sum_species are the weighted sums of the species moles *)
Theorem sum_species_is_weighted_sum : forall l,
  sum_model ss_cb_init ss_cb_inc l = dot l /\ sum_model ss_alk_init ss_alk_inc l = dot l /\
  sum_model (Const 0) ss_tot_inc l = dot l.
Proof. intros l. repeat split; apply sum_model_dot; c01_leaf. Qed.
Print Assumptions sum_species_is_weighted_sum.

Theorem ph_pe_readout : forall la,
  evalR (env_of [la]) ss_ph = - la /\ evalR (env_of [la]) ss_pe = - la /\
  ss_ph_vars = ["s_hplus->la"] /\ ss_pe_vars = ["s_eminus->la"] /\ ss_ph_conds = [] /\ ss_pe_conds = [].
Proof. intros. repeat split; try reflexivity; c01_leaf. Qed.
Print Assumptions ph_pe_readout.

Theorem activity_and_si_readout :
  (forall lm lg, evalR (env_of [lm; lg]) ro_la = lm + lg /\ ro_la_vars = ["s_ptr->lm"; "s_ptr->lg"]) /\
  (forall lk toks, si_model lk toks = fold_right (fun t acc => snd t * fst t + acc) 0 toks - lk).
Proof.
  split; [intros; split; [c01_leaf|reflexivity]|].
  intros lk toks. unfold si_model. rewrite (sum_model_dot_swapped ro_iap_init ro_iap_inc) by c01_leaf. c01_leaf.
Qed.
Print Assumptions activity_and_si_readout.

(* ---- T-gen, partial correctness of the ionic-strength balance -------------------------------------------------
   The reported ionic strength MU is an UNKNOWN of the Newton iteration, not a sum.  residuals() computes the row
   residual  W*mu - f/2  with f = sum z^2 * moles (mb_sums), check_residuals() raises an ERROR when
   |residual| >= epsilon * mu * W  with epsilon = convergence_tolerance (default 1e-8; 1e-12 with -high_precision).
   Hence: a calculation that completes WITHOUT that error has |mu - (1/2) sum z^2 m| < 1e-8 mu  (< the property's 1e-7).
   Partial: termination / convergence of the iteration is not proved; only the ionic-strength row is treated here (the
   reported element totals, charge balance and alkalinity ARE sums of the species moles: sum_species_is_weighted_sum). *)
Theorem no_ionic_strength_error_implies_balance_partial :
  (forall res eps mu W f, 0 < mu -> 0 < W -> 0 <= eps -> eps <= evalR (env_of []) init_convergence_tolerance ->
     res = evalR (env_of [W; mu; f]) res_mu ->
     ~ (evalR (env_of [res; eps; mu; W]) cr_mu_lhs >= evalR (env_of [res; eps; mu; W]) cr_mu_rhs) ->
     Rabs (mu - f / 2 / W) < / 10000000 * mu) /\
  cr_mu_op = ">=" /\ evalR (env_of []) init_convergence_tolerance = / 100000000 /\
  cr_epsilon = Var 0 /\ cr_epsilon_vars = ["convergence_tolerance"] /\
  res_mu_vars = ["mass_water_aq_x"; "mu_x"; "x[i]->f"] /\
  cr_mu_lhs_vars = ["residual[i]"; "epsilon"; "mu_x"; "mass_water_aq_x"] /\
  cr_mu_rhs_vars = ["residual[i]"; "epsilon"; "mu_x"; "mass_water_aq_x"].
Proof.
  assert (TOL : evalR (env_of []) init_convergence_tolerance = / 100000000)
    by (unfold init_convergence_tolerance; unfold_evalR; lra).
  split; [|repeat split; try reflexivity; exact TOL].
  intros res eps mu W f Hmu HW He0 He Hres Hg. rewrite TOL in He.
  assert (R1 : res = W * mu - f / 2) by (rewrite Hres; unfold res_mu; unfold_evalR; lra).
  assert (G : Rabs res < eps * mu * W).
  { apply Rnot_ge_lt. intros C. apply Hg. unfold cr_mu_lhs, cr_mu_rhs. unfold_evalR. exact C. }
  assert (E : mu - f / 2 / W = res / W) by (rewrite R1; field; lra).
  rewrite E. unfold Rdiv. rewrite Rabs_mult, (Rabs_pos_eq (/ W)) by (left; apply Rinv_0_lt_compat; exact HW).
  apply (Rmult_lt_reg_r W); [exact HW|]. rewrite Rmult_assoc, Rinv_l, Rmult_1_r by lra.
  pose proof (Rabs_pos res). nra.
Qed.
Print Assumptions no_ionic_strength_error_implies_balance_partial.

(* ---- T-gen: redox couples in write_mass_action_eqn_x -------------------------------------------------------------
   A secondary master species M flagged REWRITE that occurs with stoichiometric coefficient c in a reaction is replaced
   by c times its rxn_secondary; if that reaction contains ce electrons, the e- are replaced by the element's redox-couple
   reaction (pe_x[pe_rxn]).  In the rewriting model this is the nested substitution  fscale c (... fscale ce f_couple),
   whose value is (c * ce) times the couple reaction; every couple trxn_add in the code must use exactly that multiplier
   (operands: the token's coefficient and coef_e = rxn_find_coef(rxn_secondary, "e-"), nothing else). *)
Theorem redox_couple_multiplier :
  Forall (fun e => forall c ce, evalR (env_of [c; ce]) e = c * ce) wma_couple_mults /\
  (forall c ce, evalR (env_of [c; ce]) wma_secondary_mult = c) /\
  wma_secondary_mult_vars = ["trxn.token[i].coef"; "coef_e"] /\
  wma_coef_e_source = "rxn_find_coef(trxn.token[i].s->secondary->rxn_secondary, ""e-"")" /\
  (forall (c ce : Q) f la K, evalF (fscale c (fscale ce f)) la K = (Q2R c * Q2R ce) * evalF f la K).
Proof.
  split; [unfold wma_couple_mults; repeat constructor; intros c ce;
          match goal with |- evalR _ ?e = _ => unfold e end; unfold_evalR; lra|].
  split; [intros; unfold wma_secondary_mult; unfold_evalR; reflexivity|].
  repeat split; try reflexivity.
  intros. rewrite !evalF_scale. ring.
Qed.
Print Assumptions redox_couple_multiplier.

(* ---- model: rewriting of reactions to master species (any database size, any substitution depth) ----------- *)

Theorem rewrite_preserves_equilibrium : forall is_stop rxn fuel (la K : sid -> R),
  master_form is_stop rxn fuel la K ->
  forall s r f, is_stop s = false -> rxn s = Some r -> rewrite is_stop rxn fuel s = Some f ->
  la s = K s + evalL r la.
Proof. exact C01.Rewrite.rewrite_preserves_equilibrium. Qed.
Print Assumptions rewrite_preserves_equilibrium.

Theorem rewrite_is_sound : forall is_stop rxn (la K : sid -> R),
  db_form is_stop rxn la K -> forall fuel, master_form is_stop rxn fuel la K.
Proof. exact C01.Rewrite.rewrite_sound. Qed.
Print Assumptions rewrite_is_sound.

Theorem rewrite_preserves_elements_and_charge : forall is_stop rxn (w : sid -> R),
  (forall s r, is_stop s = false -> rxn s = Some r -> w s = evalL r w) ->
  forall fuel s f, rewrite is_stop rxn fuel s = Some f -> w s = evalL (f_act f) w.
Proof. exact C01.Rewrite.rewrite_preserves_elements_and_charge. Qed.
Print Assumptions rewrite_preserves_elements_and_charge.

Theorem rewrite_reaches_only_masters : forall is_stop rxn fuel s f, rewrite is_stop rxn fuel s = Some f ->
  forall x, In x (f_act f) -> is_stop (snd x) = true.
Proof. exact C01.Rewrite.rewrite_only_masters. Qed.
Print Assumptions rewrite_reaches_only_masters.

(* ---- composition: the regenerated k_calc and molalities loop on top of the rewriting model -------------------
   If every species' log activity is  lm + lg  with lm computed by the code's molalities loop from its MASTER-form
   reaction and the constant k_calc returns for the coefficient-wise sum of the log K vectors (kcomb), then every
   DATABASE reaction holds with the log K(T) of its own database entry.  Any database, any depth, any T > 0, 1 atm. *)
Theorem regenerated_code_satisfies_database_mass_action : forall T, 0 < T ->
  forall is_stop rxn fuel (la lg : sid -> R) (kv : sid -> kvecR),
  computed_like_molalities (fun k => evalR (kenv k T (ln 10)) kcalc_lk) lm_model is_stop rxn fuel la lg kv ->
  forall s r f, is_stop s = false -> rxn s = Some r -> rewrite is_stop rxn fuel s = Some f ->
  la s = logK_T (kv s) T + evalL r la.
Proof.
  intros T HT. apply molalities_give_database_mass_action.
  - intros k. unfold kenv. rewrite kcalc_is_vant_hoff_plus_analytic by exact HT. reflexivity.
  - exact molalities_satisfy_mass_action.
Qed.
Print Assumptions regenerated_code_satisfies_database_mass_action.

(* ---- log K(T) of the database text: selection rule and named expressions ------------------------------------ *)

Theorem database_logK_rule : forall nd k adds kk T, combined nd k adds = Some kk ->
  logK_T (toR kk) T =
  (if is_analytic k then analytic (Q2R (k1 k)) (Q2R (k2 k)) (Q2R (k3 k)) (Q2R (k4 k)) (Q2R (k5 k)) (Q2R (k6 k)) T
   else vant_hoff (Q2R (k0 k)) (Q2R (kh k)) T) + adds_value (named_k nd 16) adds T.
Proof. intros nd k adds kk T H. rewrite (combined_spec nd k adds kk T H), select_spec. reflexivity. Qed.
Print Assumptions database_logK_rule.

(* ---- the verified checker that ./check C01 runs on the implementation's reports ---------------------------- *)

Theorem check_speciation_mass_action_sound : forall nd T la exempt sps,
  ma_failures nd (tterms T) la exempt sps = [] ->
  forall sp, In sp sps -> mem exempt (sp_id sp) = false ->
  forall terms, lookup_terms la (sp_eq sp) = Some terms ->
  exists k, combined nd (sp_k sp) (sp_add sp) = Some k /\
            Rabs (dot (map toRR terms) - logK_T (toR k) (Q2R T)) <= / 1000000000.
Proof. exact ma_failures_sound. Qed.
Print Assumptions check_speciation_mass_action_sound.

Theorem check_logK_sound : forall T lin k, check_lin (tterms T) lin k = true ->
  Rabs (Q2R lin - logK_T (toR k) (Q2R T)) <= / 1000000000.
Proof. exact check_lin_sound. Qed.
Print Assumptions check_logK_sound.

Theorem check_saturation_index_sound : forall nd T la obs, si_failures nd (tterms T) la obs = [] ->
  forall ph si, In (ph, si) obs -> forall terms, lookup_terms la (sp_eq ph) = Some terms ->
  exists k, combined nd (sp_k ph) (sp_add ph) = Some k /\
            Rabs (Q2R si - (dot (map toRR terms) - logK_T (toR k) (Q2R T))) <= / 1000000000.
Proof. exact si_failures_sound. Qed.
Print Assumptions check_saturation_index_sound.

Theorem check_balances_sound : forall l, balance_failures l = [] ->
  forall id terms rep, In (id, terms, rep) l ->
  Rabs (dot (map toRR terms) - Q2R rep) <= / 10000000 * dot_abs (map toRR terms).
Proof. exact balance_failures_sound. Qed.
Print Assumptions check_balances_sound.

Theorem check_readouts_sound : forall l, readout_failures l = [] ->
  forall id la lm lg mol act, In (id, (la, lm, lg, mol, act)) l ->
  Rabs (Q2R la - (Q2R lm + Q2R lg)) <= / 1000000000 /\
  (-40 <= Q2R lm -> Rabs (Q2R mol - pow10 (Q2R lm)) <= / 10000000 * Rabs (pow10 (Q2R lm))) /\
  (-300 <= Q2R la -> Rabs (Q2R act - pow10 (Q2R la)) <= / 10000000 * Rabs (pow10 (Q2R la))).
Proof. exact readout_failures_sound. Qed.
Print Assumptions check_readouts_sound.

(* pH = -log a(H+), pe = -log a(e-), and the BASIC / SELECTED_OUTPUT read-outs of the same quantity agree *)
Theorem check_ph_and_duplicate_readouts_sound : forall l, close_failures l = [] ->
  forall id a b, In (id, a, b) l -> Rabs (Q2R a - Q2R b) <= / 1000000000.
Proof. exact close_failures_sound. Qed.
Print Assumptions check_ph_and_duplicate_readouts_sound.
