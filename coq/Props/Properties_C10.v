(* C10 -- captured reaction state can be re-instated without changing behaviour.
   Statements only; proofs are in IPV.C10.*.  S_cxx*, schemas_level*, all_serial are GENERATED from the
   current /repo sources (coq/Gen/Gen_C10_schemas.v), so every theorem mentioning them is re-checked
   against what dump_raw / read_raw / Serialize / Deserialize say now. *)
From Coq Require Import String List ZArith QArith.
Require Import IPV.C10.Raw IPV.C10.RawSpec IPV.C10.RawProofs IPV.C10.RawLevels IPV.C10.Serial IPV.C10.Copy IPV.C10.Extra IPV.C10.MergeRedox IPV.C10.NdRow IPV.C10.RawFinal.
Require Import IPV.Gen.Gen_C10_schemas.
Import ListNotations.
Open Scope string_scope.
Open Scope list_scope.

(* Generic, for ALL schemas and ALL records: if the decidable agreement predicate holds for a class
   (and the nested component readers round-trip), reading the text written for a well-formed record
   returns exactly the written values, in the members they belong to, consumes exactly that text and
   raises no error. *)
Theorem raw_roundtrip :
  forall (cres : Type) (cread : string -> list line -> result (cres * list line))
         (crec : Type) (cdump : string -> crec -> list line)
         (child_ok : string -> bool) (cstop_opt : string -> string -> bool)
         (cwf : string -> crec -> Prop) (cintended : string -> crec -> cres),
    (forall c x rest, child_ok c = true -> cwf c x -> cstops cstop_opt c rest ->
                      cread c (cdump c x ++ rest) = Ok (cintended c x, rest)) ->
    forall s, schema_ok child_ok cstop_opt s = true ->
    forall vs rest, wf child_ok cstop_opt crec cwf s vs -> stops s rest ->
      read_top cres cread s (dump crec cdump s vs ++ rest)
      = Ok (kept child_ok cstop_opt crec cres cintended s vs, rest).
Proof. exact raw_roundtrip_level. Qed.
Print Assumptions raw_roundtrip.

(* The generated classes: component classes (level 0), entity classes with components (level 1),
   cxxSSassemblage (level 2) -- no hypotheses left. *)
Theorem raw_roundtrip_level0 :
  forall s, In s schemas_level0 -> ~ In (sname s) ["cxxSolutionIsotope"] ->
  forall r, wf0 s r -> read0 s (dump0 s r) = Ok (kept0 s r, []).
Proof. exact roundtrip_gen0. Qed.
Print Assumptions raw_roundtrip_level0.

Theorem raw_roundtrip_level1 :
  forall s, In s schemas_level1 -> ~ In (sname s) ["cxxSolutionIsotope"] ->
  forall r, wf1 schemas_level0 s r ->
    read1 schemas_level0 s (dump1 schemas_level0 s r) = Ok (kept1 schemas_level0 s r, []).
Proof. exact roundtrip_gen1. Qed.
Print Assumptions raw_roundtrip_level1.

Theorem raw_roundtrip_level2 :
  forall s, In s schemas_level2 -> ~ In (sname s) ["cxxSolutionIsotope"] ->
  forall r, wf2 schemas_level0 schemas_level1 s r ->
    read2 schemas_level0 schemas_level1 s (dump2 schemas_level0 schemas_level1 s r)
    = Ok (kept2 schemas_level0 schemas_level1 s r, []).
Proof. exact roundtrip_gen2. Qed.
Print Assumptions raw_roundtrip_level2.

(* schema_ok holds for every generated class except the listed one *)
Theorem all_classes_ok :
  inclb (classes_not_ok schemas_level0 schemas_level1 schemas_level2) ["cxxSolutionIsotope"] = true.
Proof. exact not_ok_known. Qed.
Print Assumptions all_classes_ok.

(* ... and these are ALL the written items that are not restored faithfully (class, item, why) *)
Theorem defects_are_known :
  incl3b (all_defects schemas_level0 schemas_level1 schemas_level2)
         [ ("cxxSolutionIsotope", "-ratio_uncertainty", "broken");
           ("cxxSolutionIsotope", "required:ratio_defined", "never-set");
           ("cxxSolution", "-Isotope", "broken");
           ("cxxGasComp", "-p", "dropped");
           ("cxxExchange", "-totals", "rows-unreadable");
           ("cxxSurface", "-totals", "rows-unreadable") ] = true.
Proof. exact defects_known. Qed.
Print Assumptions defects_are_known.

Theorem class_names_unique : names_ok schemas_level0 schemas_level1 = true.
Proof. exact names_ok_gen. Qed.
Print Assumptions class_names_unique.

(* Binary copies: when the op list of Serialize agrees with that of Deserialize, Deserialize
   (Serialize r) = r for every record; nested objects / loop bodies are abstract self-delimiting codecs. *)
Theorem serialize_roundtrip :
  forall (X : Type) (enc : string -> X -> list Z * list Q)
         (dec : string -> list Z -> list Q -> option (X * list Z * list Q)),
    (forall t x iz dq, dec t (fst (enc t x) ++ iz) (snd (enc t x) ++ dq) = Some (x, iz, dq)) ->
    forall ser des r, ops_match ser des = true -> Forall2 (typed X) ser r ->
      deserialize X dec des (fst (serialize X enc ser r)) (snd (serialize X enc ser r)) = Some r.
Proof. exact Serial.serialize_roundtrip. Qed.
Print Assumptions serialize_roundtrip.

Theorem serialize_roundtrip_all_classes :
  forall (X : Type) (enc : string -> X -> list Z * list Q)
         (dec : string -> list Z -> list Q -> option (X * list Z * list Q)),
    (forall t x iz dq, dec t (fst (enc t x) ++ iz) (snd (enc t x) ++ dq) = Some (x, iz, dq)) ->
    forall cls ser des, In (cls, ser, des) all_serial ->
    forall r, Forall2 (typed X) (map to_op ser) r ->
      deserialize X dec (map to_op des) (fst (serialize X enc (map to_op ser) r))
                  (snd (serialize X enc (map to_op ser) r)) = Some r.
Proof. exact serialize_roundtrip_gen. Qed.
Print Assumptions serialize_roundtrip_all_classes.

(* every member printed by dump_raw is also pushed by Serialize (so the binary copy carries what the
   text carries), except the listed one *)
Theorem copy_path_covers_dump :
  incl3b (copy_defects all_schemas all_serial) [ ("cxxSolution", "serialize:viscos_0", "not-copied") ] = true.
Proof. exact copy_defects_known. Qed.
Print Assumptions copy_path_covers_dump.

(* ... and every member Serialize pushes is carried by the RAW text too (written, or restored from a literal,
   or the component key written by the parent, or the user number), except the listed workspace members *)
Theorem dump_covers_copy_path :
  incl3b (dump_defects key_members all_schemas all_serial)
         [ ("cxxSolution", "dump:new_def", "not-dumped");
           ("cxxKineticsComp", "dump:moles_of_reaction", "not-dumped") ] = true.
Proof. exact dump_defects_known. Qed.
Print Assumptions dump_covers_copy_path.

(* the option matcher of the model is "first table entry that starts with the lower-cased token"
   (CParser::find_option with exact = false), and None means no entry starts with it *)
Theorem option_first_prefix_match : forall item vopts i,
    find_option item vopts = Some i ->
    (exists e, nth_error vopts i = Some e /\ String.prefix (lower item) e = true)
    /\ forall j e, (j < i)%nat -> nth_error vopts j = Some e -> String.prefix (lower item) e = false.
Proof. exact find_option_first_match. Qed.
Print Assumptions option_first_prefix_match.

Theorem option_no_match : forall item vopts,
    find_option item vopts = None -> forall e, In e vopts -> String.prefix (lower item) e = false.
Proof. exact find_option_none. Qed.
Print Assumptions option_no_match.

(* cxxNameDouble::merge_redox (totals of SOLUTION_RAW / SOLUTION_MODIFY; model tied by correspondence with
   harness/c10_nd.cpp).  The restart-scan loop removes exactly the keys that match, for every map: *)
Theorem merge_redox_scan_removes_all_matching :
  forall (V : Type) fuel p (m : ndmap V), (length m <= fuel)%nat -> scan fuel p m = remove_if p m.
Proof. exact scan_is_filter. Qed.
Print Assumptions merge_redox_scan_removes_all_matching.

(* merging a total named by ELEMENT stores it, leaves no valence-state entry of that element, and changes
   no other entry *)
Theorem merge_redox_element_total :
  forall (V : Type) (m : ndmap V) k v,
    index_paren k = None ->
    lookup k (merge1 m (k, v)) = Some v
    /\ (forall k', String.prefix (k ++ "(") k' = true -> lookup k' (merge1 m (k, v)) = None)
    /\ (forall k', k' <> k -> String.prefix (k ++ "(") k' = false -> lookup k' (merge1 m (k, v)) = lookup k' m).
Proof. exact merge_element_total. Qed.
Print Assumptions merge_redox_element_total.

(* merging a total named by VALENCE STATE stores it and removes the total named by the element (the text in
   front of "("), nothing else.  (Before the repair of finding restore:SOLUTION_RAW:-totals:F the key removed
   was one character short -- Fe(2) removed F; kept as MergeRedox.old_redox_branch_refuted.) *)
Theorem merge_redox_valence_state :
  forall (V : Type) (m : ndmap V) k v pos,
    index_paren k = Some pos ->
    lookup k (merge1 m (k, v)) = Some v
    /\ (forall k', k' <> k -> k' <> redox_elt_name k pos -> lookup k' (merge1 m (k, v)) = lookup k' m)
    /\ (redox_elt_name k pos <> k -> lookup (redox_elt_name k pos) (merge1 m (k, v)) = None).
Proof. exact merge_redox_state. Qed.
Print Assumptions merge_redox_valence_state.

(* cxxNameDouble::dump_raw (every name/value row of the RAW text; model tied by correspondence with
   harness/c10_nd.cpp): for every name of ANY length and every value, both without blanks, the written row
   tokenises back to exactly [name; value] -- there is always a separator between them *)
Theorem name_value_row_tokenises :
  forall indent name value,
    (2 * indent <= 29)%nat ->
    no_blank name = true -> no_blank value = true -> name <> "" -> value <> "" ->
    tokens (nd_row indent name value) = [name; value].
Proof. exact nd_row_tokens. Qed.
Print Assumptions name_value_row_tokenises.
