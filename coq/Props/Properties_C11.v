(* C11 - transport only moves dissolved mass: theorems, statements in full; proofs are in the files of IPV.C11 *)
From Coq Require Import QArith Qabs ZArith List Bool.
From IPV.C11 Require Import Transport MixProofs InitMixProofs Checker.
Import ListNotations.
Open Scope Q_scope.

(* the factors init_mix hands to the mixing loop are a stable convex stencil, for ANY column:
   0 <= m[i], 0 <= m1[i], m[i] + m1[i] <= 2/3 (so the self fraction 1 - m[i] - m1[i] is in [1/3, 1]) *)
Theorem mixf_convex : forall c : cfg,
  cfg_ok c ->
  Forall (fun p : Q * Q => 0 <= fst p /\ 0 <= snd p /\ fst p + snd p <= 2 # 3) (snd (mixf c)).
Proof. exact InitMixProofs.mixf_convex. Qed.
Print Assumptions mixf_convex.

(* maximum principle: with one diffusion coefficient, after any number of shifts (each = pre-mixes,
   advective copy, remaining mixes) every cell stays within [lo, hi] of the initial column and
   the two boundary solutions *)
Theorem bounded_mixing : forall (c : cfg) (lo hi cL cR : Q) (k : nat) (cs : list Q),
  cfg_ok c -> lo <= cL <= hi -> lo <= cR <= hi -> Forall (fun x => lo <= x <= hi) cs ->
  Forall (fun x => lo <= x <= hi) (transport c cL cR k cs).
Proof. exact InitMixProofs.bounded_mixing. Qed.
Print Assumptions bounded_mixing.

(* closed boundaries, no advection, equal cell lengths: the column inventory is invariant for all time *)
Theorem diffusion_conserves : forall (c : cfg) (L cL cR : Q) (k : nat) (cs : list Q),
  ishift c = 0%Z -> bcf c <> 1%Z -> bcl c <> 1%Z ->
  Forall (fun x => len x == L) (cells c) -> cells c <> [] -> length cs = length (cells c) ->
  total (transport c cL cR k cs) == total cs.
Proof. exact InitMixProofs.diffusion_conserves. Qed.
Print Assumptions diffusion_conserves.

(* the inventory change of one mix run is exactly what crosses the two ends (any symmetric chain) *)
Theorem mix_run_inventory : forall (ms : list (Q * Q)) (cL : Q) (cs : list Q) (cR : Q),
  length ms = length cs -> chain ms -> ms <> [] ->
  total (mix_step ms cL cR cs) ==
  total cs + fst (hd (0, 0) ms) * (cL - hd 0 cs) + snd (last ms (0, 0)) * (cR - last cs 0).
Proof. exact MixProofs.mix_step_total. Qed.
Print Assumptions mix_run_inventory.

(* pure advection (no dispersivity, no diffusion, no constant boundary): after one shift cell i holds
   the previous content of its upstream neighbour (solution 0 / n+1 enters at the inflow end) *)
Theorem advection_is_exact_shift : forall (c : cfg) (cL cR : Q) (cs : list Q) (i : nat),
  diffc c * timest c == 0 -> Forall (fun x => disp x == 0) (cells c) -> bcf c <> 1%Z -> bcl c <> 1%Z ->
  (i < length cs)%nat ->
  (ishift c = 1%Z -> nth i (transport c cL cR 1 cs) 0 = nth i (cL :: cs) 0) /\
  (ishift c = (-1)%Z -> nth i (transport c cL cR 1 cs) 0 = nth (S i) (cs ++ [cR]) 0).
Proof. exact InitMixProofs.advection_is_exact_shift. Qed.
Print Assumptions advection_is_exact_shift.

(* soundness of the executable checker that is run on the implementation's reports *)
Theorem check_transport_sound : forall (c : cfg) (r : Z) (mm : list (Q * Q)) (ds : list obs_shift),
  check_case c r mm ds = true ->
  cfg_ok c /\ fst (mixf (read_bc c)) = r /\
  forall d, In d ds -> close_list (transport c (o_cL d) (o_cR d) 1 (o_prev d)) (o_obs d) (o_tol d).
Proof. exact Checker.check_case_sound. Qed.
Print Assumptions check_transport_sound.

(* documentation: with unequal cell lengths the single-coefficient scheme does NOT conserve *)
Theorem unequal_lengths_not_conservative :
  exists c cs, bcf c = 2%Z /\ bcl c = 2%Z /\ ishift c = 0%Z /\ ~ total (transport c 0 0 1 cs) == total cs.
Proof. exact Checker.unequal_lengths_refute. Qed.
Print Assumptions unequal_lengths_not_conservative.

(* ---------------------------------------------------------------------------------------------
   T-gen: the statements below mention constants of coq/Gen/Gen_C11_initmix.v, which is regenerated
   from the current transport.cpp (Phreeqc::init_mix) on every run. *)
From Coq Require Import String.
From IPV.Gen Require Import Gen_C11_initmix.
From IPV.C11 Require Import GenTie.

(* guards / loop headers / assignment targets of init_mix (common prefix + single-coefficient branch),
   in source order, are the ones the model was transcribed from *)
Theorem gen_initmix_shape : Gen_C11_initmix.shape = GenTie.expected_shape.
Proof. exact GenTie.shape_ok. Qed.
Print Assumptions gen_initmix_shape.

Theorem gen_initmix_corr_disp : forall c : cfg,
  corr_disp c ==
  (let n := inject_Z (ncells c) in
   let x0 := L_v04_1 (env []) in
   if corrd c && adv c then
     let x1 := if Z.eqb (bcf c) 3 then L_v04_2 (env [("v04"%string, x0); ("count_cells"%string, n)]) else x0 in
     if Z.eqb (bcl c) 3 then L_v04_3 (env [("v04"%string, x1); ("count_cells"%string, n)]) else x1
   else x0).
Proof. exact GenTie.gen_corr_disp. Qed.
Print Assumptions gen_initmix_corr_disp.

Theorem gen_initmix_diffc_here : forall cs d t sh b1 b2 cd,
  diffc_here (mkCfg cs d t sh b1 b2 cd) == L_v05_1 (env [("diffc_tr"%string, d); ("timest"%string, t)]).
Proof. exact GenTie.gen_diffc_here. Qed.
Print Assumptions gen_initmix_diffc_here.

Theorem gen_initmix_dav_up : forall dav a b,
  dav_upd dav a b ==
  (let E := fun d => env [("v01"%string, d); ("length[v08]"%string, len a); ("disp[v08]"%string, disp a);
                           ("length[v08+1]"%string, len b); ("disp[v08+1]"%string, disp b)] in
   let d1 := if Qnz (disp a) then L_v01_2 (E dav) else dav in
   if Qnz (disp b) then L_v01_3 (E d1) else d1).
Proof. exact GenTie.gen_dav_up. Qed.
Print Assumptions gen_initmix_dav_up.

Theorem gen_initmix_dav_lo : forall dav a b,
  dav_upd dav a b ==
  (let E := fun d => env [("v01"%string, d); ("length[v08]"%string, len a); ("disp[v08]"%string, disp a);
                           ("length[v08-1]"%string, len b); ("disp[v08-1]"%string, disp b)] in
   let d1 := if Qnz (disp a) then L_v01_4 (E dav) else dav in
   if Qnz (disp b) then L_v01_5 (E d1) else d1).
Proof. exact GenTie.gen_dav_lo. Qed.
Print Assumptions gen_initmix_dav_lo.

Theorem gen_initmix_factor_up : forall a corr dh dav cur nx,
  fst (half_factor a corr dh dav cur nx) ==
  (let dav' := snd (half_factor a corr dh dav cur nx) in
   let E := fun m => env [("v11[v08]"%string, m); ("v01"%string, dav'); ("v05"%string, dh); ("v04"%string, corr);
                           ("length[v08]"%string, len cur); ("length[v08+1]"%string, len nx)] in
   let m0 := L_v11_v08_1 (E 0) in
   let m1 := if a && Qnz dav' then L_v11_v08_2 (E m0) else m0 in
   let m2 := L_v11_v08_3 (E m1) in
   L_v11_v08_4 (E m2)).
Proof. exact GenTie.gen_factor_up. Qed.
Print Assumptions gen_initmix_factor_up.

Theorem gen_initmix_factor_lo : forall a corr dh dav cur pv,
  fst (half_factor a corr dh dav cur pv) ==
  (let dav' := snd (half_factor a corr dh dav cur pv) in
   let E := fun m => env [("v10[v08]"%string, m); ("v01"%string, dav'); ("v05"%string, dh); ("v04"%string, corr);
                           ("length[v08]"%string, len cur); ("length[v08-1]"%string, len pv)] in
   let m0 := L_v10_v08_1 (E 0) in
   let m1 := if a && Qnz dav' then L_v10_v08_2 (E m0) else m0 in
   let m2 := L_v10_v08_3 (E m1) in
   L_v10_v08_4 (E m2)).
Proof. exact GenTie.gen_factor_lo. Qed.
Print Assumptions gen_initmix_factor_lo.

Theorem gen_initmix_bnd_first : forall a dh c,
  bnd_factor a dh c ==
  (let E := fun m => env [("v10[1]"%string, m); ("v05"%string, dh); ("length[1]"%string, len c); ("disp[1]"%string, disp c)] in
   let m0 := L_v10_1_1 (E 0) in if a then L_v10_1_2 (E m0) else m0).
Proof. exact GenTie.gen_bnd_first. Qed.
Print Assumptions gen_initmix_bnd_first.

Theorem gen_initmix_bnd_last : forall a dh c,
  bnd_factor a dh c ==
  (let E := fun m => env [("v11[count_cells]"%string, m); ("v05"%string, dh); ("length[count_cells]"%string, len c);
                           ("disp[count_cells]"%string, disp c)] in
   let m0 := L_v11_count_cells_1 (E 0) in if a then L_v11_count_cells_2 (E m0) else m0).
Proof. exact GenTie.gen_bnd_last. Qed.
Print Assumptions gen_initmix_bnd_last.

Theorem gen_initmix_maxmix : forall mx m m1,
  L_v03_1 (env []) == 0 /\
  upmax mx (sum2 (m, m1)) ==
    (let mf := L_v02_1 (env [("v10[v08]"%string, m); ("v11[v08]"%string, m1)]) in
     if Qltb mx mf then L_v03_2 (env [("v02"%string, mf)]) else mx) /\
  upmax mx (sum2 (m, m1)) ==
    (let mf := L_v02_2 (env [("v10[1]"%string, m); ("v11[1]"%string, m1)]) in
     if Qltb mx mf then L_v03_3 (env [("v02"%string, mf)]) else mx) /\
  upmax mx (sum2 (m, m1)) ==
    (let mf := L_v02_3 (env [("v10[count_cells]"%string, m); ("v11[count_cells]"%string, m1)]) in
     if Qltb mx mf then L_v03_4 (env [("v02"%string, mf)]) else mx).
Proof. exact GenTie.gen_maxmix. Qed.
Print Assumptions gen_initmix_maxmix.

Theorem gen_initmix_nmix : forall c mx,
  inject_Z (nmix_of c mx) ==
  (if Qeq_bool mx 0 then L_v09_1 (env [])
   else let k := L_v09_2 (env [("v03"%string, mx)]) in
        if adv c && (Z.eqb (bcf c) 1 || Z.eqb (bcl c) 1) && Qltb k (2 # 1) then L_v09_3 (env []) else k).
Proof. exact GenTie.gen_nmix. Qed.
Print Assumptions gen_initmix_nmix.

Theorem gen_initmix_divide : forall m n,
  m / n == L_v10_v08_5 (env [("v10[v08]"%string, m); ("v09"%string, n)]) /\
  m / n == L_v11_v08_5 (env [("v11[v08]"%string, m); ("v09"%string, n)]) /\
  L_return_1 (env [("v09"%string, n)]) == n.
Proof. exact GenTie.gen_divide. Qed.
Print Assumptions gen_initmix_divide.

Theorem gen_initmix_mix_coefficients : forall m m1 prev c next,
  m * prev + (1 - m - m1) * c + m1 * next ==
  (let E := env [("v10[v08]"%string, m); ("v11[v08]"%string, m1)] in
   L_v13_Add_arg1_1 E * prev + L_v13_Add_arg1_3 E * c + L_v13_Add_arg1_2 E * next).
Proof. exact GenTie.gen_mix_coefficients. Qed.
Print Assumptions gen_initmix_mix_coefficients.

(* ---------------------------------------------------------------------------------------------
   Multicomponent diffusion: bookkeeping (the species fluxes of find_J are arbitrary rationals) *)
From IPV.C11 Require Import Mcd McdProofs.
From IPV.Gen Require Import Gen_C11_mcd.

(* partial: explicit branch of fill_m_s and step 3 of multi_D only (no interlayer, surface, implicit
   branch); for ANY fluxes with tot1 = tot2 (as find_J sets them) what leaves cell i enters cell j,
   for every element b (all its redox states together) *)
Theorem mcd_flux_antisymmetric_partial : forall (b : string) (js : list jflux) (tI tJ : totals),
  Forall (fun f => j_tot1 f == j_tot2 f /\ Forall (fun ec => base (fst ec) = fst ec) (j_elts f)) js ->
  fsum b (book_out (fill_m_s js) tI) + fsum b (book_in (fill_m_s js) tJ) == fsum b tI + fsum b tJ.
Proof. exact McdProofs.mcd_exchange_conserves. Qed.
Print Assumptions mcd_flux_antisymmetric_partial.

(* the negative-total repair with the whole-name test never moves mass between elements: the total of
   every element changes exactly by the non-negative amounts added to that element *)
Theorem mcd_repair_conserves_elements : forall (b : string) (t : totals),
  fsum b (fst (repair same_element t)) == fsum b t + asum b (snd (repair same_element t)) /\
  Forall (fun e => 0 <= snd e) (snd (repair same_element t)).
Proof. exact McdProofs.repair_conserves_elements. Qed.
Print Assumptions mcd_repair_conserves_elements.

(* documentation of the defect repaired by commit 8a017ddf: with the prefix test a Ca deficit is taken out of C *)
Theorem mcd_prefix_test_refuted :
  let t := [("C"%string, 1); ("Ca"%string, - (1 # 2))] in
  snd (repair same_prefix t) = [] /\ ~ fsum "C" (fst (repair same_prefix t)) == fsum "C" t.
Proof. exact McdProofs.prefix_test_moves_mass_between_elements. Qed.
Print Assumptions mcd_prefix_test_refuted.

(* T-gen: the name tests in the current source of multi_D are the ones modelled by Mcd.book / Mcd.same_element *)
Theorem gen_mcd_name_tests : Gen_C11_mcd.name_tests = GenTie.expected_name_tests.
Proof. exact GenTie.name_tests_ok. Qed.
Print Assumptions gen_mcd_name_tests.

(* ---------------------------------------------------------------------------------------------
   Multicomponent diffusion: how many sub-steps init_mix chooses (explicit branch; diffc_max is a parameter) *)
From IPV.C11 Require Import McdMix McdMixProofs.

(* for ANY column (any number of cells, any lengths) the count returned keeps the Fourier number per sub-step of EVERY
   interface at or below 2/3 and the doubled boundary number of a constant boundary at or below 4/9 *)
Theorem mcd_substeps_bound_every_interface : forall (c : cfg) (dmax s : Q),
  let mx := snd (mcd_maxmix c dmax) in
  let nm := inject_Z (mcd_nmix c mx s) in
  Forall (fun p => fourier (dmax * timest c) (fst p) (snd p) <= (2 # 3) * nm) (interfaces (cells c)) /\
  (bcf c = 1%Z -> bnd_fourier (dmax * timest c) (head_cell (cells c)) <= (4 # 9) * nm) /\
  (bcl c = 1%Z -> bnd_fourier (dmax * timest c) (last_cell (cells c)) <= (4 # 9) * nm).
Proof. exact McdMixProofs.mcd_substeps_bound_every_interface. Qed.
Print Assumptions mcd_substeps_bound_every_interface.

(* the checker run on the implementation: reported number of mixruns = model's, hence every interface is stable *)
Theorem check_mcd_nmix_sound : forall (c : cfg) (dmax s : Q) (r : Z),
  check_mcd_nmix c dmax s r = true ->
  Forall (fun p => fourier (dmax * timest c) (fst p) (snd p) <= (2 # 3) * inject_Z r) (interfaces (cells c)).
Proof. exact McdMixProofs.check_mcd_nmix_sound. Qed.
Print Assumptions check_mcd_nmix_sound.

(* T-gen for the multi_D branch of init_mix *)
Theorem gen_initmix_mcd_shape : Gen_C11_initmix.shape_mcd = GenTie.expected_shape_mcd.
Proof. exact GenTie.shape_mcd_ok. Qed.
Print Assumptions gen_initmix_mcd_shape.

Theorem gen_initmix_mcd_fourier : forall dmax t a b,
  fourier (dmax * t) a b ==
  (let lv := D_v00_1 (env [("length[v08+1]"%string, len b); ("length[v08]"%string, len a)]) in
   D_v06_1 (env [("diffc_max"%string, dmax); ("timest"%string, t); ("v00"%string, lv)])).
Proof. exact GenTie.gen_mcd_fourier. Qed.
Print Assumptions gen_initmix_mcd_fourier.

Theorem gen_initmix_mcd_bnd_fourier : forall dmax t c,
  bnd_fourier (dmax * t) c == D_v06_2 (env [("diffc_max"%string, dmax); ("timest"%string, t); ("length[1]"%string, len c)]) /\
  bnd_fourier (dmax * t) c == D_v06_3 (env [("diffc_max"%string, dmax); ("timest"%string, t); ("length[count_cells]"%string, len c)]).
Proof. exact GenTie.gen_mcd_bnd_fourier. Qed.
Print Assumptions gen_initmix_mcd_bnd_fourier.

Theorem gen_initmix_mcd_maxmix : forall mx v m m1,
  upmax mx v == (if Qltb mx v then D_v03_1 (env [("v06"%string, v)]) else mx) /\
  upmax mx v == (if Qltb mx v then D_v03_3 (env [("v06"%string, v)]) else mx) /\
  upmax mx v == (if Qltb mx v then D_v03_5 (env [("v06"%string, v)]) else mx) /\
  upmax mx (m + m1) == (let mf := D_v02_1 (env [("v10[v08]"%string, m); ("v11[v08]"%string, m1)]) in
                        if Qltb mx mf then D_v03_2 (env [("v02"%string, mf)]) else mx) /\
  upmax mx (sum2 (m, m1)) == (let mf := D_v02_2 (env [("v10[1]"%string, m); ("v11[1]"%string, m1)]) in
                        if Qltb mx mf then D_v03_4 (env [("v02"%string, mf)]) else mx) /\
  upmax mx (sum2 (m, m1)) == (let mf := D_v02_3 (env [("v10[count_cells]"%string, m); ("v11[count_cells]"%string, m1)]) in
                        if Qltb mx mf then D_v03_6 (env [("v02"%string, mf)]) else mx).
Proof. exact GenTie.gen_mcd_maxmix. Qed.
Print Assumptions gen_initmix_mcd_maxmix.

Theorem gen_initmix_mcd_nmix : forall c mx s,
  inject_Z (mcd_nmix c mx s) ==
  (if Qeq_bool mx 0 then D_v09_1 (env [])
   else let cb := Z.eqb (bcf c) 1 || Z.eqb (bcl c) 1 in
        let k := if cb then D_v09_7 (env [("v03"%string, mx)]) else D_v09_8 (env [("v03"%string, mx)]) in
        let k' := if adv c && cb && Qltb k (2 # 1) then D_v09_9 (env []) else k in
        if Qltb 1 s then D_v09_10 (env [("v09"%string, k'); ("mcd_substeps"%string, s)]) else k').
Proof. exact GenTie.gen_mcd_nmix. Qed.
Print Assumptions gen_initmix_mcd_nmix.

(* ---------------------------------------------------------------------------------------------
   Cell set-up of a TRANSPORT run (read_transport); cell_data persists between runs of one instance *)
From IPV.C11 Require Import Setup SetupProofs.
From IPV.Gen Require Import Gen_C11_setup.

(* a later run with MORE cells and no -lengths is a column of equal 1 m cells, whatever the former run left behind:
   closed diffusion conserves the inventory for all time *)
Theorem grown_column_default_lengths_conserves :
  forall (old cc : nat) (prevL prevD gd : list Q) (dc ts : Q) (b1 b2 : Z) (cd : bool) (cL cR : Q) (k : nat) (cs : list Q),
  (old < max_cells cc [] gd)%nat -> b1 <> 1%Z -> b2 <> 1%Z -> List.length cs = max_cells cc [] gd ->
  let c := setup_cfg old cc prevL prevD [] gd dc ts 0 b1 b2 cd in
  total (transport c cL cR k cs) == total cs.
Proof. exact SetupProofs.grown_column_default_lengths_conserves. Qed.
Print Assumptions grown_column_default_lengths_conserves.

(* a later run with MORE cells, no -dispersivities and no diffusion is a pure shift, whatever the former run left behind *)
Theorem grown_column_default_disp_exact_shift :
  forall (old cc : nat) (prevL prevD gl : list Q) (dc ts : Q) (sh b1 b2 : Z) (cd : bool) (cL cR : Q) (cs : list Q) (i : nat),
  (old < max_cells cc gl [])%nat -> dc * ts == 0 -> b1 <> 1%Z -> b2 <> 1%Z -> (i < List.length cs)%nat ->
  let c := setup_cfg old cc prevL prevD gl [] dc ts sh b1 b2 cd in
  (sh = 1%Z -> nth i (transport c cL cR 1 cs) 0 = nth i (cL :: cs) 0) /\
  (sh = (-1)%Z -> nth i (transport c cL cR 1 cs) 0 = nth (S i) (cs ++ [cR]) 0).
Proof. exact SetupProofs.grown_column_default_disp_exact_shift. Qed.
Print Assumptions grown_column_default_disp_exact_shift.

(* T-gen: loops, guards and targets of the set-up blocks of the current read_transport are the ones Setup.v transcribes *)
Theorem gen_setup_shape : Gen_C11_setup.shape_setup = GenTie.expected_shape_setup.
Proof. exact GenTie.shape_setup_ok. Qed.
Print Assumptions gen_setup_shape.

Theorem gen_setup_max_cells : forall (cc : nat) (gl gd : list Q),
  inject_Z (Z.of_nat (max_cells cc gl gd)) ==
  (let c := inject_Z (Z.of_nat cc) in let nl := inject_Z (Z.of_nat (List.length gl)) in let nd := inject_Z (Z.of_nat (List.length gd)) in
   let m0 := S_max_cells_1 (env [("count_cells"%string, c)]) in
   let m1 := if Qltb m0 nl then S_max_cells_2 (env [("v00"%string, nl)]) else m0 in
   if Qltb m1 nd then S_max_cells_3 (env [("v01"%string, nd)]) else m1).
Proof. exact GenTie.gen_setup_max_cells. Qed.
Print Assumptions gen_setup_max_cells.
