(* C11 - transport only moves dissolved mass: theorems, statements in full; proofs are in the files of IPV.C11 *)
From Coq Require Import QArith Qabs ZArith List Bool.
From IPV.C11 Require Import Transport MixProofs InitMixProofs Checker.
Import ListNotations.
Open Scope Q_scope.

(* the factors init_mix hands to the mixing loop are a stable convex stencil, for ANY column:
   0 <= m[i], 0 <= m1[i], m[i] + m1[i] <= 2/3 (so the self fraction 1 - m[i] - m1[i] is in [1/3, 1]) *)
Theorem mixf_convex : forall c : cfg,
  cfg_ok c ->
  Forall (fun p : Q * Q => 0 <= fst p /\ 0 <= snd p /\ fst p + snd p <= 2 # 3) (snd (mixf c)).
Proof. exact InitMixProofs.mixf_convex. Qed.
Print Assumptions mixf_convex.

(* maximum principle: with one diffusion coefficient, after any number of shifts (each = pre-mixes,
   advective copy, remaining mixes) every cell stays within [lo, hi] of the initial column and
   the two boundary solutions *)
Theorem bounded_mixing : forall (c : cfg) (lo hi cL cR : Q) (k : nat) (cs : list Q),
  cfg_ok c -> lo <= cL <= hi -> lo <= cR <= hi -> Forall (fun x => lo <= x <= hi) cs ->
  Forall (fun x => lo <= x <= hi) (transport c cL cR k cs).
Proof. exact InitMixProofs.bounded_mixing. Qed.
Print Assumptions bounded_mixing.

(* closed boundaries, no advection, equal cell lengths: the column inventory is invariant for all time *)
Theorem diffusion_conserves : forall (c : cfg) (L cL cR : Q) (k : nat) (cs : list Q),
  ishift c = 0%Z -> bcf c <> 1%Z -> bcl c <> 1%Z ->
  Forall (fun x => len x == L) (cells c) -> cells c <> [] -> length cs = length (cells c) ->
  total (transport c cL cR k cs) == total cs.
Proof. exact InitMixProofs.diffusion_conserves. Qed.
Print Assumptions diffusion_conserves.

(* the inventory change of one mix run is exactly what crosses the two ends (any symmetric chain) *)
Theorem mix_run_inventory : forall (ms : list (Q * Q)) (cL : Q) (cs : list Q) (cR : Q),
  length ms = length cs -> chain ms -> ms <> [] ->
  total (mix_step ms cL cR cs) ==
  total cs + fst (hd (0, 0) ms) * (cL - hd 0 cs) + snd (last ms (0, 0)) * (cR - last cs 0).
Proof. exact MixProofs.mix_step_total. Qed.
Print Assumptions mix_run_inventory.

(* pure advection (no dispersivity, no diffusion, no constant boundary): after one shift cell i holds
   the previous content of its upstream neighbour (solution 0 / n+1 enters at the inflow end) *)
Theorem advection_is_exact_shift : forall (c : cfg) (cL cR : Q) (cs : list Q) (i : nat),
  diffc c * timest c == 0 -> Forall (fun x => disp x == 0) (cells c) -> bcf c <> 1%Z -> bcl c <> 1%Z ->
  (i < length cs)%nat ->
  (ishift c = 1%Z -> nth i (transport c cL cR 1 cs) 0 = nth i (cL :: cs) 0) /\
  (ishift c = (-1)%Z -> nth i (transport c cL cR 1 cs) 0 = nth (S i) (cs ++ [cR]) 0).
Proof. exact InitMixProofs.advection_is_exact_shift. Qed.
Print Assumptions advection_is_exact_shift.

(* soundness of the executable checker that is run on the implementation's reports *)
Theorem check_transport_sound : forall (c : cfg) (r : Z) (mm : list (Q * Q)) (ds : list obs_shift),
  check_case c r mm ds = true ->
  cfg_ok c /\ fst (mixf (read_bc c)) = r /\
  forall d, In d ds -> close_list (transport c (o_cL d) (o_cR d) 1 (o_prev d)) (o_obs d) (o_tol d).
Proof. exact Checker.check_case_sound. Qed.
Print Assumptions check_transport_sound.

(* documentation: with unequal cell lengths the single-coefficient scheme does NOT conserve *)
Theorem unequal_lengths_not_conservative :
  exists c cs, bcf c = 2%Z /\ bcl c = 2%Z /\ ishift c = 0%Z /\ ~ total (transport c 0 0 1 cs) == total cs.
Proof. exact Checker.unequal_lengths_refute. Qed.
Print Assumptions unequal_lengths_not_conservative.
