(** C05 — selected-output table, string, lines and file describe the same data.
    Only statements + [exact]; the proofs live in Wrapper/SelOutProofs.v and Wrapper/RouteProofs.v. *)
From Coq Require Import List ZArith String Bool.
From IPV.Wrapper Require Import SelOut SelOutSpec SelOutProofs Route Lines RouteProofs Order.
From IPV.Gen Require Import Gen_C05.
Import ListNotations.
Local Open Scope list_scope.

(** Representation invariant of the column-major table, for EVERY operation sequence. *)
Theorem C05_so_invariant : forall ops, Inv (run ops).
Proof. exact so_invariant. Qed.
Print Assumptions C05_so_invariant.

(** After EndRow every column holds exactly nrow cells: every row has exactly ColumnCount cells. *)
Theorem C05_rows_have_colcount_cells : forall ops j, j < List.length (heads (end_row (run ops))) ->
  List.length (nth j (cols (end_row (run ops))) []) = nrow (end_row (run ops)).
Proof. exact so_rows_have_colcount_cells. Qed.
Print Assumptions C05_rows_have_colcount_cells.

(** Refinement: Get(r,c) on a finished row is the last value pushed under heading c while row r was
    open, and EMPTY if the cell was never punched (late columns padded). *)
Theorem C05_so_refines_table : forall ops (r c : nat),
  1 <= r <= nrow (run ops) -> c < List.length (heads (run ops)) ->
  get (run ops) (Z.of_nat r) (Z.of_nat c) = (VR_OK, spec_get (spec_run ops) r c).
Proof. exact so_refines_table. Qed.
Print Assumptions C05_so_refines_table.

(** Row 0 is one heading per column, in order of first appearance. *)
Theorem C05_heading_row : forall ops (c : nat), c < List.length (heads (run ops)) ->
  get (run ops) 0%Z (Z.of_nat c) = (VR_OK, CStr (nth c (t_heads (spec_run ops)) EmptyString)).
Proof. exact so_heading_row. Qed.
Print Assumptions C05_heading_row.

Theorem C05_rowcount : forall ops,
  row_count (run ops) = match t_heads (spec_run ops) with [] => 0%Z | _ => (Z.of_nat (List.length (t_closed (spec_run ops))) + 1)%Z end.
Proof. exact so_rowcount_spec. Qed.
Print Assumptions C05_rowcount.

(** Out-of-range rows/columns (all of Z, negatives included): documented error code, error-typed VAR,
    row test before column test; [get] is a pure function of the table, so the table is unchanged. *)
Theorem C05_get_out_of_range : forall s (r c : Z),
  ((r < 0 \/ row_count s <= r)%Z -> get s r c = (VR_INVALIDROW, CErr VR_INVALIDROW)) /\
  ((0 <= r < row_count s)%Z -> (c < 0 \/ col_count s <= c)%Z -> get s r c = (VR_INVALIDCOL, CErr VR_INVALIDCOL)).
Proof. exact so_get_out_of_range. Qed.
Print Assumptions C05_get_out_of_range.

(** Columns in the same order: a finished row that punched pairwise distinct names forming a prefix of the heading list, in
    heading order, has its k-th value in column k (text cells are positional, table cells are stored by name); the
    hypothesis is checked on every recorded row (check row:column-order) and is necessary (SelOutProofs.skipped_value_misaligns). *)
Theorem C05_aligned_row_positional : forall t r k d,
  aligned (t_heads t) (nth (r - 1) (t_closed t) []) -> k < List.length (nth (r - 1) (t_closed t) []) ->
  spec_get t r k = snd (nth k (nth (r - 1) (t_closed t) []) d).
Proof. exact aligned_row_positional. Qed.
Print Assumptions C05_aligned_row_positional.

(** Three sinks, one event stream: for every recorded engine->io stream and every switch setting the
    string of user number n, its file and its table are folds of the SAME events. *)
Section Sinks.
Variable chunk : Type.
Variable STOPPING : chunk.
Variable add_nl : chunk -> chunk.

Theorem C05_sel_string_is_event_fold : forall sw evs n,
  sel_string chunk (consume chunk STOPPING add_nl sw evs) n =
  if SelStringOn sw n then flat_map (sel_chunks chunk n) evs else [].
Proof. exact (sel_string_spec chunk STOPPING add_nl). Qed.

Theorem C05_sel_file_is_event_fold : forall sw evs n,
  sel_file chunk (consume chunk STOPPING add_nl sw evs) n =
  flat_map (self_chunks chunk n) (after_last_open chunk n evs).
Proof. exact (sel_file_spec chunk STOPPING add_nl). Qed.

Theorem C05_table_is_event_fold : forall sw evs n, wf chunk n false evs = true ->
  table_of chunk (consume chunk STOPPING add_nl sw evs) n = run (flat_map (so_ops chunk n) evs).
Proof. exact (table_spec chunk STOPPING add_nl). Qed.

Theorem C05_file_eq_string_selected : forall sw evs n, SelStringOn sw n = true ->
  no_reopen chunk n evs ->
  (forall e, In e evs -> self_chunks chunk n e = sel_chunks chunk n e) ->
  sel_file chunk (consume chunk STOPPING add_nl sw evs) n = sel_string chunk (consume chunk STOPPING add_nl sw evs) n.
Proof. exact (file_eq_string_selected chunk STOPPING add_nl). Qed.

(** every value that reaches the table of n also reaches its string, in order, when values are punched only while the
    text sinks are on (the stream hypothesis checked on every recorded run); the hypothesis is necessary *)
Theorem C05_table_values_in_string : forall sw evs n, SelStringOn sw n = true -> vals_on chunk n evs ->
  sublist (flat_map (val_texts chunk n) evs) (sel_string chunk (consume chunk STOPPING add_nl sw evs) n).
Proof. exact (table_values_in_string chunk STOPPING add_nl). Qed.

Theorem C05_punch_on_needed : forall sw (name : string) (v : cell) (c : chunk), SelStringOn sw 1%Z = true ->
  let evs : list (ev chunk) := [ENewTable 1%Z; EPunchVal 1%Z false false name v c; EEndRow 1%Z []] in
  sel_string chunk (consume chunk STOPPING add_nl sw evs) 1%Z = [] /\ flat_map (val_texts chunk 1%Z) evs = [c] /\
  flat_map (so_ops chunk 1%Z) evs = [OPush name v; OEndRow].
Proof. exact (punch_on_needed chunk STOPPING add_nl). Qed.
End Sinks.
Print Assumptions C05_table_values_in_string.
Print Assumptions C05_punch_on_needed.
Print Assumptions C05_sel_string_is_event_fold.
Print Assumptions C05_sel_file_is_event_fold.
Print Assumptions C05_table_is_event_fold.
Print Assumptions C05_file_eq_string_selected.

(** Line accessors: accessor i is line i of the string, "" outside 0..count-1; a newline-terminated
    string is exactly the concatenation of its lines. *)
Theorem C05_line_outside : forall s n, (n < 0 \/ line_count s <= n)%Z -> get_line s n = EmptyString.
Proof. exact get_line_outside. Qed.
Print Assumptions C05_line_outside.
Theorem C05_lines_are_the_string : forall s, (s = EmptyString \/ exists p, s = (p ++ String nl EmptyString)%string) ->
  unlines (split_lines s) = s.
Proof. exact unlines_split. Qed.
Print Assumptions C05_lines_are_the_string.

(** T-gen (regenerated on every run from print.cpp / tidy.cpp): the heading blocks are emitted by tidy_punch in the order in
    which punch_all emits the values, the identifier flags are tested in the same order in both, user-punch headings come last:
    the heading line of string/file and row 0 of the table name the same columns in the same order. *)
Theorem C05_heading_order_eq_value_order :
  heading_order_eq_value_order punch_all_calls value_flag_order heading_flag_order heading_list_order user_punch_headings_last = true.
Proof. vm_compute. reflexivity. Qed.
Print Assumptions C05_heading_order_eq_value_order.
Theorem C05_order_obligation_sound : forall pc vf hf hl ul,
  heading_order_eq_value_order pc vf hf hl ul = true ->
  map block_of pc = "identifiers"%string :: hl ++ ["user_punch"%string] /\ vf = hf /\ ul = true.
Proof. exact order_obligation_sound. Qed.
Print Assumptions C05_order_obligation_sound.

(** Non-vacuity: a concrete reachable table with a late column and an unpunched cell. *)
Example C05_example :
  let ops := [OPush "a" (CLong 1); OEndRow; OPush "b" (CLong 2); OPush "a" (CLong 3); OEndRow; OPush "b" (CLong 9)] in
  get (run ops) 1 1 = (VR_OK, CEmpty) /\ get (run ops) 2 1 = (VR_OK, CLong 2) /\ row_count (run ops) = 3%Z /\
  get (run ops) 3 0 = (VR_INVALIDROW, CErr VR_INVALIDROW).
Proof. vm_compute. repeat split; reflexivity. Qed.
