(** C06 — deterministic results; instances isolated and usable from parallel threads.
    Statements + [exact] only. Gen_C06 is regenerated from /repo's sources and the fresh library on every run. *)
From Coq Require Import List ZArith String Bool Arith.
From IPV.Wrapper Require Import Registry RegistryProofs.
From IPV.C06 Require Import Interleave InterleaveProofs Statics.
From IPV.Gen Require Import Gen_C06.
Import ListNotations.

(** every id handed out to any thread under ANY schedule is distinct from every other *)
Theorem C06_ids_unique_all_schedules : forall progs sched,
  NoDup (all_ids (snd (run_sched sys0 (start progs) sched))).
Proof. exact ids_unique_all_schedules. Qed.
Print Assumptions C06_ids_unique_all_schedules.

Theorem C06_registry_invariant_all_schedules : forall progs sched, RInv (fst (run_sched sys0 (start progs) sched)).
Proof. exact rinv_all_schedules. Qed.
Print Assumptions C06_registry_invariant_all_schedules.

(** isolation: a thread observes under any schedule exactly what it observes running alone *)
Theorem C06_isolation_all_schedules : forall progs sched i p,
  nth_error progs i = Some p -> forallb (fun q => forallb top_ok q) progs = true ->
  forall t, nth_error (snd (run_sched sys0 (start progs) sched)) i = Some t ->
  outs t = outs (snd (run_alone sys0 (mkT p [] []) (count_occ Nat.eq_dec sched i))) /\
  prog t = prog (snd (run_alone sys0 (mkT p [] []) (count_occ Nat.eq_dec sched i))).
Proof. exact isolation_all_schedules. Qed.
Print Assumptions C06_isolation_all_schedules.

Theorem C06_observations_schedule_independent : forall progs s1 s2 i p t1 t2,
  nth_error progs i = Some p -> forallb (fun q => forallb top_ok q) progs = true ->
  count_occ Nat.eq_dec s1 i = count_occ Nat.eq_dec s2 i ->
  nth_error (snd (run_sched sys0 (start progs) s1)) i = Some t1 ->
  nth_error (snd (run_sched sys0 (start progs) s2)) i = Some t2 ->
  outs t1 = outs t2.
Proof. exact observations_schedule_independent. Qed.
Print Assumptions C06_observations_schedule_independent.

(** what the lock buys: the lock-free Create (read; write) hands out a duplicate id under a two-thread schedule *)
Theorem C06_lock_free_variant_refuted : exists l, rgot (rrun l) = [(1%nat, 0%Z); (0%nat, 0%Z)].
Proof. exact racy_duplicate_ids. Qed.
Print Assumptions C06_lock_free_variant_refuted.

(** T-gen obligations on the CURRENT sources / library *)
Theorem C06_registry_accesses_guarded : registry_accesses_guarded registry_accesses = true.
Proof. vm_compute. reflexivity. Qed.
Theorem C06_qsort_only_under_lock : qsort_ok qsort_macro_locks qsort_bypass = true.
Proof. vm_compute. reflexivity. Qed.
Theorem C06_no_new_shared_mutable_state : no_new_shared_state static_symbols = true.
Proof. vm_compute. reflexivity. Qed.
Theorem C06_no_time_or_random_dependence : no_time_dependence time_like_calls = true.
Proof. vm_compute. reflexivity. Qed.
Print Assumptions C06_registry_accesses_guarded.
Print Assumptions C06_qsort_only_under_lock.
Print Assumptions C06_no_new_shared_mutable_state.
Print Assumptions C06_no_time_or_random_dependence.
