(** Property C14 — numbered solutions and reactants behave as a keyed store under
    definition / SAVE / COPY / DELETE / *_MODIFY / *_MIX / RUN_CELLS / USE.

    [tables] (coq/Gen/Gen_C14.v) is regenerated from /repo on every run; [run_step ... (gen_prims C tables)]
    is the pipeline of one simulation interpreted from those tables, [run] a sequence of simulations.
    [C] content, [D] modification requests, [M] mixing recipes; [modify], [react], [mixf] are the
    (arbitrary) chemistry oracles; [look_of st k i] is the content stored under (kind k, number i). *)
From Coq Require Import ZArith List Bool.
From IPV.C14 Require Import Store MapFacts Tie Spec Theorems GenOk.
From IPV.Gen Require Import Gen_C14.
Import ListNotations.
Open Scope Z_scope.

(** T-gen: the current sources have the shape the model assumes *)
Theorem C14_tables_ok : tables_ok tables = true.
Proof. exact tables_ok_now. Qed.
Print Assumptions C14_tables_ok.

(** every sequence of simulations acts on the store exactly as on the finite map (kind, number) -> content *)
Theorem C14_refines_spec :
  forall (C D : Type) (modify : kind -> D -> C -> C) (react : Z -> Z -> list (kind * C) -> kind -> C)
         (M : Type) (mix_nums : M -> list Z) (mixf : kind -> M -> list (Z * option C) -> C)
         (steps : list (step C D M)) (st : store C),
    look_of (run modify react mix_nums mixf (gen_prims C tables) steps st)
    = sp_run modify react mix_nums mixf steps (look_of st).
Proof. exact (fun C D modify react M mix_nums mixf => refines_spec C D modify react M mix_nums mixf tables tables_ok_now). Qed.
Print Assumptions C14_refines_spec.

(** ... and so does each simulation, including the store a DUMP in the same simulation sees
    (after COPY, before DELETE) and whether a USE of a missing reactant stopped the run *)
Theorem C14_step_refines_spec :
  forall (C D : Type) (modify : kind -> D -> C -> C) (react : Z -> Z -> list (kind * C) -> kind -> C)
         (M : Type) (mix_nums : M -> list Z) (mixf : kind -> M -> list (Z * option C) -> C)
         (stp : step C D M) (st : store C),
    look_of (r_store (run_step modify react mix_nums mixf (gen_prims C tables) stp st))
    = sr_store (sp_step modify react mix_nums mixf stp (look_of st))
    /\ look_of (r_dump (run_step modify react mix_nums mixf (gen_prims C tables) stp st))
       = sr_dump (sp_step modify react mix_nums mixf stp (look_of st))
    /\ r_stopped (run_step modify react mix_nums mixf (gen_prims C tables) stp st)
       = sr_stopped (sp_step modify react mix_nums mixf stp (look_of st)).
Proof. exact (fun C D modify react M mix_nums mixf => step_refines_spec C D modify react M mix_nums mixf tables tables_ok_now). Qed.
Print Assumptions C14_step_refines_spec.

(** the number an entity carries (what DUMP prints) is always the key it is stored under *)
Theorem C14_number_matches_key :
  forall (C D : Type) (modify : kind -> D -> C -> C) (react : Z -> Z -> list (kind * C) -> kind -> C)
         (M : Type) (mix_nums : M -> list Z) (mixf : kind -> M -> list (Z * option C) -> C)
         (steps : list (step C D M)) (k : kind) (i : Z) (e : ent C),
    zfind i (run modify react mix_nums mixf (gen_prims C tables) steps (empty_store C) k) = Some e ->
    e_num e = i.
Proof. exact (fun C D modify react M mix_nums mixf => number_matches_key_from_empty C D modify react M mix_nums mixf tables tables_ok_now). Qed.
Print Assumptions C14_number_matches_key.

(** definitions and number ranges create exactly the entries n and n+1..n_end of that kind *)
Theorem C14_define_range_creates :
  forall (C D : Type) (modify : kind -> D -> C -> C) (react : Z -> Z -> list (kind * C) -> kind -> C)
         (M : Type) (mix_nums : M -> list Z) (mixf : kind -> M -> list (Z * option C) -> C)
         (st : store C) (k : kind) (n n_end : Z) (c : C) (k' : kind) (i : Z),
    look_of (r_store (run_step modify react mix_nums mixf (gen_prims C tables)
                               (st_reads C D M [RDefine k n n_end c]) st)) k' i
    = if kind_eqb k' k && ((i =? n) || ((n <? i) && (i <=? n_end))) then Some c else look_of st k' i.
Proof. exact (fun C D modify react M mix_nums mixf => define_range_creates C D modify react M mix_nums mixf tables tables_ok_now). Qed.
Print Assumptions C14_define_range_creates.

(** SAVE writes the calculated result under exactly the given numbers *)
Theorem C14_save_writes_exactly :
  forall (C D : Type) (modify : kind -> D -> C -> C) (react : Z -> Z -> list (kind * C) -> kind -> C)
         (M : Type) (mix_nums : M -> list Z) (mixf : kind -> M -> list (Z * option C) -> C)
         (st : store C) (tag : Z) (u : use_req) (k : kind) (n n_end : Z),
    reacts u = true ->
    use_missing u (look_of st) = false -> mem_kind k savable_kinds = true -> used_kind u k = true ->
    forall (k' : kind) (i : Z),
      look_of (r_store (run_step modify react mix_nums mixf (gen_prims C tables)
                                 (st_react C D M tag u [(k, n, n_end)]) st)) k' i
      = if kind_eqb k' k && ((i =? n) || ((n <? i) && (i <=? n_end)))
        then Some (react tag (-1) (used_of u (look_of st)) k) else look_of st k' i.
Proof. exact (fun C D modify react M mix_nums mixf => save_writes_exactly C D modify react M mix_nums mixf tables tables_ok_now). Qed.
Print Assumptions C14_save_writes_exactly.

(** SAVE of a kind that took no part in the calculation writes no result; the code still performs its
    range copy, duplicating an already existing entity n over n+1..n_end (modelled as the code does it) *)
Theorem C14_save_unused_only_copies :
  forall (C D : Type) (modify : kind -> D -> C -> C) (react : Z -> Z -> list (kind * C) -> kind -> C)
         (M : Type) (mix_nums : M -> list Z) (mixf : kind -> M -> list (Z * option C) -> C)
         (st : store C) (tag : Z) (u : use_req) (k : kind) (n n_end : Z),
    reacts u = true ->
    use_missing u (look_of st) = false -> mem_kind k savable_kinds = true -> used_kind u k = false ->
    forall (k' : kind) (i : Z),
      look_of (r_store (run_step modify react mix_nums mixf (gen_prims C tables)
                                 (st_react C D M tag u [(k, n, n_end)]) st)) k' i
      = match look_of st k n with
        | Some c => if kind_eqb k' k && ((n <? i) && (i <=? n_end)) then Some c else look_of st k' i
        | None => look_of st k' i
        end.
Proof. exact (fun C D modify react M mix_nums mixf => save_unused_only_copies C D modify react M mix_nums mixf tables tables_ok_now). Qed.
Print Assumptions C14_save_unused_only_copies.

(** a USE of a reactant that does not exist stops the run and leaves the store untouched *)
Theorem C14_use_missing_stops :
  forall (C D : Type) (modify : kind -> D -> C -> C) (react : Z -> Z -> list (kind * C) -> kind -> C)
         (M : Type) (mix_nums : M -> list Z) (mixf : kind -> M -> list (Z * option C) -> C)
         (st : store C) (tag : Z) (u : use_req) (sv : save_req),
    reacts u = true -> use_missing u (look_of st) = true ->
    r_stopped (run_step modify react mix_nums mixf (gen_prims C tables) (st_react C D M tag u sv) st) = true
    /\ look_of (r_store (run_step modify react mix_nums mixf (gen_prims C tables) (st_react C D M tag u sv) st))
       = look_of st.
Proof. exact (fun C D modify react M mix_nums mixf => use_missing_stops C D modify react M mix_nums mixf tables tables_ok_now). Qed.
Print Assumptions C14_use_missing_stops.

(** USE of a solution alone (no other reactant) is not a batch reaction: nothing is calculated or saved *)
Theorem C14_use_solution_alone_is_noop :
  forall (C D : Type) (modify : kind -> D -> C -> C) (react : Z -> Z -> list (kind * C) -> kind -> C)
         (M : Type) (mix_nums : M -> list Z) (mixf : kind -> M -> list (Z * option C) -> C)
         (st : store C) (tag : Z) (u : use_req) (sv : save_req),
    reacts u = false ->
    r_stopped (run_step modify react mix_nums mixf (gen_prims C tables) (st_react C D M tag u sv) st) = false
    /\ look_of (r_store (run_step modify react mix_nums mixf (gen_prims C tables) (st_react C D M tag u sv) st))
       = look_of st.
Proof. exact (fun C D modify react M mix_nums mixf => use_solution_alone_is_noop C D modify react M mix_nums mixf tables tables_ok_now). Qed.
Print Assumptions C14_use_solution_alone_is_noop.

(** USE reads the current content: the calculation only sees what is stored under the used numbers *)
Theorem C14_use_reads_current :
  forall (C : Type) (u : use_req) (S S' : kind -> Z -> option C),
    (forall k n, u k = Some n -> S k n = S' k n) -> used_of u S = used_of u S'.
Proof. exact use_reads_current. Qed.
Print Assumptions C14_use_reads_current.

(** COPY makes content-identical entries lo..hi and changes nothing else *)
Theorem C14_copy_identical :
  forall (C D : Type) (modify : kind -> D -> C -> C) (react : Z -> Z -> list (kind * C) -> kind -> C)
         (M : Type) (mix_nums : M -> list Z) (mixf : kind -> M -> list (Z * option C) -> C)
         (st : store C) (k : kind) (src lo hi : Z) (c : C),
    look_of st k src = Some c -> same_sign lo hi = true ->
    forall (k' : kind) (i : Z),
      look_of (r_store (run_step modify react mix_nums mixf (gen_prims C tables)
                                 (st_copies C D M [COKind k src lo hi]) st)) k' i
      = if kind_eqb k' k && (lo <=? i) && (i <=? hi) then Some c else look_of st k' i.
Proof. exact (fun C D modify react M mix_nums mixf => copy_identical C D modify react M mix_nums mixf tables tables_ok_now). Qed.
Print Assumptions C14_copy_identical.

(** COPY cell: the same, for every kind that has an entry numbered src *)
Theorem C14_copy_cell_identical :
  forall (C D : Type) (modify : kind -> D -> C -> C) (react : Z -> Z -> list (kind * C) -> kind -> C)
         (M : Type) (mix_nums : M -> list Z) (mixf : kind -> M -> list (Z * option C) -> C)
         (st : store C) (src lo hi : Z),
    same_sign lo hi = true ->
    forall (k : kind) (i : Z),
      look_of (r_store (run_step modify react mix_nums mixf (gen_prims C tables)
                                 (st_copies C D M [COCell src lo hi]) st)) k i
      = match look_of st k src with
        | Some c => if (lo <=? i) && (i <=? hi) then Some c else look_of st k i
        | None => look_of st k i
        end.
Proof. exact (fun C D modify react M mix_nums mixf => copy_cell_identical C D modify react M mix_nums mixf tables tables_ok_now). Qed.
Print Assumptions C14_copy_cell_identical.

(** no sharing: modifying a copy leaves the source alone, and vice versa *)
Theorem C14_copy_independent :
  forall (C D : Type) (modify : kind -> D -> C -> C) (react : Z -> Z -> list (kind * C) -> kind -> C)
         (M : Type) (mix_nums : M -> list Z) (mixf : kind -> M -> list (Z * option C) -> C)
         (st : store C) (k : kind) (src j : Z) (c : C) (d : D),
    look_of st k src = Some c -> j <> src -> same_sign j j = true ->
    let st' := run modify react mix_nums mixf (gen_prims C tables)
                   [st_copies C D M [COKind k src j j]; st_reads C D M [RModify k j d]] st in
    look_of st' k j = Some (modify k d c) /\ look_of st' k src = Some c
    /\ let st'' := run modify react mix_nums mixf (gen_prims C tables)
                       [st_copies C D M [COKind k src j j]; st_reads C D M [RModify k src d]] st in
       look_of st'' k src = Some (modify k d c) /\ look_of st'' k j = Some c.
Proof. exact (fun C D modify react M mix_nums mixf => copy_independent C D modify react M mix_nums mixf tables tables_ok_now). Qed.
Print Assumptions C14_copy_independent.

(** DELETE removes exactly the named entries, whatever else the simulation contains
    (relative to the store a DUMP in the same simulation shows) *)
Theorem C14_delete_exactly_named :
  forall (C D : Type) (modify : kind -> D -> C -> C) (react : Z -> Z -> list (kind * C) -> kind -> C)
         (M : Type) (mix_nums : M -> list Z) (mixf : kind -> M -> list (Z * option C) -> C)
         (stp : step C D M) (st : store C) (opts : list del_opt),
    s_delete stp = Some opts ->
    r_stopped (run_step modify react mix_nums mixf (gen_prims C tables) stp st) = false ->
    forall (k : kind) (i : Z),
      look_of (r_store (run_step modify react mix_nums mixf (gen_prims C tables) stp st)) k i
      = if named opts k i then None
        else look_of (r_dump (run_step modify react mix_nums mixf (gen_prims C tables) stp st)) k i.
Proof. exact (fun C D modify react M mix_nums mixf => delete_exactly_named C D modify react M mix_nums mixf tables tables_ok_now). Qed.
Print Assumptions C14_delete_exactly_named.

(** what a DELETE block names: one kind with numbers / ranges (none = all of that kind), -all, -cell *)
Theorem C14_named_kind :
  forall (k : kind) (rs : list (Z * Z)) (k' : kind) (i : Z),
    named [DOKind k rs] k' i = kind_eqb k' k && (is_nil rs || zmem i (expand_ranges rs)).
Proof. exact named_kind. Qed.
Print Assumptions C14_named_kind.

Theorem C14_named_all : forall (k' : kind) (i : Z), named [DOAll] k' i = true.
Proof. exact named_all. Qed.
Print Assumptions C14_named_all.

Theorem C14_named_cell :
  forall (rs : list (Z * Z)) (k' : kind) (i : Z),
    named [DOCell rs] k' i = is_nil rs || zmem i (expand_ranges rs).
Proof. exact named_cell. Qed.
Print Assumptions C14_named_cell.

(** *_MODIFY changes only the named entry, and only through [modify] *)
Theorem C14_modify_only_named :
  forall (C D : Type) (modify : kind -> D -> C -> C) (react : Z -> Z -> list (kind * C) -> kind -> C)
         (M : Type) (mix_nums : M -> list Z) (mixf : kind -> M -> list (Z * option C) -> C)
         (st : store C) (k : kind) (n : Z) (d : D) (k' : kind) (i : Z),
    look_of (r_store (run_step modify react mix_nums mixf (gen_prims C tables)
                               (st_reads C D M [RModify k n d]) st)) k' i
    = match look_of st k n with
      | Some c => if kind_eqb k' k && (i =? n) then Some (modify k d c) else look_of st k' i
      | None => look_of st k' i
      end.
Proof. exact (fun C D modify react M mix_nums mixf => modify_only_named C D modify react M mix_nums mixf tables tables_ok_now). Qed.
Print Assumptions C14_modify_only_named.

(** RUN_CELLS on cell n = USE of every reactant numbered n followed by SAVE to n, provided the cell has
    some reactant besides its solution (USE of a solution alone calculates nothing, RUN_CELLS does) and
    the chemistry gives the same result whether it is reached through run_as_cells or reactions
    (hypothesis on the oracle; checked on the implementation by the twin histories) *)
Theorem C14_runcells_eq_use_save :
  forall (C D : Type) (modify : kind -> D -> C -> C) (react : Z -> Z -> list (kind * C) -> kind -> C)
         (M : Type) (mix_nums : M -> list Z) (mixf : kind -> M -> list (Z * option C) -> C)
         (st : store C) (tag n : Z),
    0 <= n -> present st KSol n = true \/ present st KMix n = true ->
    reacts (cell_use st n) = true ->
    (forall used k, react tag n used k = react tag (-1) used k) ->
    r_store (run_step modify react mix_nums mixf (gen_prims C tables) (st_cells C D M tag [n]) st)
    = r_store (run_step modify react mix_nums mixf (gen_prims C tables)
                        (st_react C D M tag (cell_use st n) (cell_save st n)) st).
Proof. exact (fun C D modify react M mix_nums mixf => runcells_eq_use_save C D modify react M mix_nums mixf tables tables_ok_now). Qed.
Print Assumptions C14_runcells_eq_use_save.

Theorem C14_cell_use_spec :
  forall (C : Type) (st : store C) (n : Z) (k : kind), k <> KSol -> k <> KKin ->
    cell_use st n k = if present st k n then Some n else None.
Proof. exact cell_use_spec. Qed.
Print Assumptions C14_cell_use_spec.

Theorem C14_cell_save_spec :
  forall (C : Type) (st : store C) (n : Z) (k : kind) (a b : Z),
    In (k, a, b) (cell_save st n) <->
    a = n /\ b = n /\ (k = KSol \/ (In k [KPP; KExch; KSurf; KGas; KSS] /\ present st k n = true)).
Proof. exact cell_save_spec. Qed.
Print Assumptions C14_cell_save_spec.

(** after any sequence of simulations the component list (taken over the maps list_components
    iterates in the current sources) contains every element of every stored reactant ... *)
Theorem C14_components_cover :
  forall (C D : Type) (modify : kind -> D -> C -> C) (react : Z -> Z -> list (kind * C) -> kind -> C)
         (M : Type) (mix_nums : M -> list Z) (mixf : kind -> M -> list (Z * option C) -> C)
         (E : Type) (elements : kind -> C -> list E)
         (steps : list (step C D M)) (st : store C) (k : kind) (i : Z) (e : ent C) (x : E),
    In k reactant_kinds ->
    zfind i (run modify react mix_nums mixf (gen_prims C tables) steps st k) = Some e ->
    In x (elements k (e_body e)) ->
    In x (components_g elements (g_components tables)
                       (run modify react mix_nums mixf (gen_prims C tables) steps st)).
Proof. exact (fun C D modify react M mix_nums mixf E elements => components_cover C D modify react M mix_nums mixf E elements tables tables_ok_now). Qed.
Print Assumptions C14_components_cover.

(** ... and nothing that is not in some stored entry *)
Theorem C14_components_only_present :
  forall (C : Type) (E : Type) (elements : kind -> C -> list E) (st : store C) (x : E),
    In x (components_g elements (g_components tables) st) ->
    exists k i e, In k (g_components tables) /\ In (i, e) (st k) /\ In x (elements k (e_body e)).
Proof. exact (fun C E elements => components_only_present C E elements tables). Qed.
Print Assumptions C14_components_only_present.
