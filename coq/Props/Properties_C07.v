(** C07 — loading a database returns the instance to the fresh state.
    (a) protocol model (Wrapper/Run.v): the post-load instance is a function of id, surviving settings and the
    database text only, for EVERY prior history; (b) T-gen reset-coverage obligations over the inventory
    regenerated from the current sources (Gen/Gen_C07.v). *)
From Coq Require Import List ZArith String Bool.
From IPV.Wrapper Require Import Run RunProofs.
From IPV.C07 Require Import Inventory.
From IPV.Gen Require Import Gen_C07.
Import ListNotations.

Section C07.
Variable E ev S : Type.
Variable sim : E -> string -> bool -> E * list ev * bool.
Variable fresh : E.
Variable load : string -> E * list ev * bool.
Variable n_err : ev -> Z.
Variable no_db_event no_file_event : ev.
Notation run_calls := (run_calls E ev S sim fresh load n_err no_db_event no_file_event).
Notation step := (step E ev S sim fresh load n_err no_db_event no_file_event).

Theorem C07_load_forgets_history : forall i1 i2 t, id E ev S i1 = id E ev S i2 -> settings E ev S i1 = settings E ev S i2 ->
  step i1 (LoadDatabase S t) = step i2 (LoadDatabase S t).
Proof. intros; eapply load_forgets_history; eauto. Qed.

(** whatever preceded the load (any call history h, failed calls included), every later call sequence cs gives what a
    newly created instance with the same id and surviving settings gives after the same load and the same calls *)
Theorem C07_load_after_any_history_eq_fresh : forall h k s0 t cs,
  let i := run_calls (create E ev S fresh k s0) h in
  run_calls (step i (LoadDatabase S t)) cs = run_calls (step (create E ev S fresh k (settings E ev S i)) (LoadDatabase S t)) cs.
Proof. intros; eapply load_after_any_history_eq_fresh; eauto. Qed.

Theorem C07_only_id_and_settings_survive : forall i t,
  id E ev S (step i (LoadDatabase S t)) = id E ev S i /\ settings E ev S (step i (LoadDatabase S t)) = settings E ev S i.
Proof. intros; eapply only_id_and_settings_survive_load; eauto. Qed.
End C07.
Print Assumptions C07_load_forgets_history.
Print Assumptions C07_load_after_any_history_eq_fresh.
Print Assumptions C07_only_id_and_settings_survive.

(** T-gen: every data member of class IPhreeqc is reset by UnLoadDatabase, or is a documented survivor (id, global
    switches, user-set file names), or is cleared at the start of every call / recomputed at its end; no surviving
    switch or name is reset; UnLoadDatabase calls clean_up, init and do_initialize. *)
Theorem C07_wrapper_reset_covers_every_field :
  wrapper_reset_ok iphreeqc_members unload_mentions unload_writes call_start_mentions update_errors_mentions listcomponents_mentions unload_calls = true.
Proof. vm_compute. reflexivity. Qed.
Print Assumptions C07_wrapper_reset_covers_every_field.

(** T-gen: every data member of class Phreeqc that the reset path (clean_up, init, do_initialize/initialize, pitzer/sit
    init and clean-up) does not mention is in the reviewed allow-list. *)
Theorem C07_phreeqc_reset_covers_every_field : phreeqc_reset_ok phreeqc_not_reset = true.
Proof. vm_compute. reflexivity. Qed.
Print Assumptions C07_phreeqc_reset_covers_every_field.

(** T-gen: the reset path still makes every call of the reviewed list (sub-objects with state of their own are freed and
    re-created: BASIC interpreter, pitzer/sit tables, CVODE work space, rates, calculate_values, string pool ...). *)
Theorem C07_reset_path_makes_required_calls : reset_calls_ok reset_path_calls = true.
Proof. vm_compute. reflexivity. Qed.
Print Assumptions C07_reset_path_makes_required_calls.

Example C07_inventory_not_vacuous : (400 <=? List.length phreeqc_members)%nat = true /\ (40 <=? List.length iphreeqc_members)%nat = true.
Proof. vm_compute. split; reflexivity. Qed.
