(* C03 — Reactant assemblages end in a valid heterogeneous equilibrium state.
   Statements only; proofs are in IPV.C03.Tie / IPV.C03.SpecProofs.  All constants named res_*, chk_*, model_*,
   pp_f_terms, ss_*, reset_pp, save_pp, set_inert, unset_inert, equal_body, c_* are REGENERATED from the
   checked source tree (coq/Gen/Gen_C03_model.v) by translator/c03_gen.py on every run. *)
From Coq Require Import QArith Reals String List Qreals.
Require Import IPV.C03.Syntax IPV.C03.SymExec IPV.C03.Hetero IPV.C03.Spec IPV.C03.SpecProofs IPV.Gen.Gen_C03_model IPV.C03.Tie.
Import ListNotations.
Open Scope string_scope.
Open Scope R_scope.

(* libm enters only through Hetero.libm_ok: `log` is the natural logarithm *)

(* x[i]->f of a pure-phase row, as registered by build_pure_phases, is  target - SI  *)
Theorem pp_f_is_target_minus_si : forall fun1 fun2 (e : env) (toks : list (R * R)),
    f_value fun1 fun2 pp_f_terms e toks = e "x.si" - (log_iap toks - e "x.phase.lk").
Proof. exact Tie.pp_f_is_target_minus_si. Qed.
Print Assumptions pp_f_is_target_minus_si.

(* unrestricted / force_equality phases: when residuals() reports convergence and check_residuals() neither asks
   for another pass nor reports an error (the only way model() returns OK, see model_exit_ok), then, f being
   target - SI:   present -> |SI - target| <= 1e-6   and   in every case  SI - target <= 1e-6 *)
Theorem ok_implies_pp_state : forall fun1 fun2, libm_ok fun1 -> forall e : env,
    row_env fun1 fun2 e ->
    e "x.pp_assemblage_comp_ptr.add_formula.size" = 0 ->
    e "x.dissolve_only" = Q2R c_FALSE ->
    e "residual" = eden fun1 fun2 e res_pp_residual ->
    keeps fun1 fun2 "converge" res_pp e ->
    keeps fun1 fun2 "remove_unstable_phases" chk_pp e ->
    keeps fun1 fun2 "called:error_msg" chk_pp e ->
    (e "x.moles" > 0 -> Rabs (e "x.f") <= tolSI) /\ - tolSI <= e "x.f".
Proof. exact Tie.ok_implies_pp_state. Qed.
Print Assumptions ok_implies_pp_state.

Theorem ok_implies_pp_state_dissolve_only : forall fun1 fun2, libm_ok fun1 -> forall e : env,
    row_env fun1 fun2 e ->
    e "x.pp_assemblage_comp_ptr.add_formula.size" = 0 ->
    e "x.dissolve_only" = Q2R c_TRUE ->
    e "residual" = eden fun1 fun2 e res_pp_residual ->
    keeps fun1 fun2 "converge" res_pp e ->
    (e "x.moles" > 0 -> e "x.f" <= tolSI) /\
    (e "x.pp_assemblage_comp_ptr.initial_moles" - e "x.moles" > 0 -> - tolSI <= e "x.f").
Proof. exact Tie.ok_implies_pp_state_dissolve_only. Qed.
Print Assumptions ok_implies_pp_state_dissolve_only.

Theorem precipitate_only_inert : forall fun1 fun2 (e : env) (a : R),
    e "x.type" = e "PP" ->
    e "x.pp_assemblage_comp_ptr.precipitate_only" <> 0 ->
    wp fun1 fun2 set_inert e (fun e1 _ =>
      e1 "x.moles" = 0 /\
      wp fun1 fun2 unset_inert (upd e1 "x.moles" a)
         (fun e2 _ => e2 "x.moles" = a + e "x.moles" /\ e2 "x.inert_moles" = 0)).
Proof. exact Tie.precipitate_only_inert. Qed.
Print Assumptions precipitate_only_inert.

Theorem absent_is_exact_zero : forall fun1 fun2 (e : env),
    e "x.dissolve_only" = Q2R c_FALSE ->
    Rabs (e "x.moles" - e "delta") <= e "ineq_tol" ->
    wp fun1 fun2 reset_pp e (fun e1 _ =>
      e1 "x.moles" = 0 /\
      (e1 "x.type" = e1 "PP" -> wp fun1 fun2 save_pp e1 (fun e2 _ => e2 save_pp_moles_var = 0))).
Proof. exact Tie.absent_is_exact_zero. Qed.
Print Assumptions absent_is_exact_zero.

Theorem equal_sem : forall fun1 fun2 (e : env),
    wp fun1 fun2 equal_body e
       (fun _ fl => (fl = FReturn (Q2R c_TRUE) <-> Rabs (e "a" - e "b") <= e "eps")
                    /\ (fl = FReturn (Q2R c_TRUE) \/ fl = FReturn (Q2R c_FALSE))).
Proof. exact Tie.equal_sem. Qed.
Print Assumptions equal_sem.

(* exchangers keep their capacity, surfaces their site totals (relative 1e-8) *)
Theorem site_totals_kept_exch : forall fun1 fun2 (e : env),
    row_env fun1 fun2 e ->
    e "residual" = eden fun1 fun2 e res_exch_residual ->
    keeps fun1 fun2 "converge" res_exch e ->
    e "x.moles" > e "MIN_RELATED_SURFACE" ->
    Rabs (e "x.f" - e "x.moles") <= tolSite * e "x.moles".
Proof. exact Tie.site_totals_kept_exch. Qed.
Print Assumptions site_totals_kept_exch.

Theorem site_totals_kept_surf : forall fun1 fun2 (e : env),
    row_env fun1 fun2 e ->
    e "residual" = eden fun1 fun2 e res_surf_residual ->
    keeps fun1 fun2 "converge" res_surf e ->
    e "x.moles" >= 1 / 10000000 ->
    Rabs (e "x.f" - e "x.moles") <= tolSite * e "x.moles".
Proof. exact Tie.site_totals_kept_surf. Qed.
Print Assumptions site_totals_kept_surf.

(* model() returns OK only through: inner while left with residuals() = CONVERGED and no pending removal,
   check_residuals() <> ERROR, no removal requested by it, stop_program not set *)
Theorem model_exit_ok : forall fun1 fun2 (e : env),
    (~ cden fun1 fun2 e model_while ->
       e "residuals()" = Q2R c_CONVERGED /\ e "remove_unstable_phases" <> Q2R c_TRUE) /\
    wp fun1 fun2 model_tail e (fun e' fl =>
       fl = FBreak -> e' "stop_program" <> Q2R c_TRUE ->
       e "check_residuals()" <> Q2R c_ERROR /\ e "remove_unstable_phases" = Q2R c_FALSE) /\
    wp fun1 fun2 model_ret e (fun _ fl =>
       (fl = FReturn (Q2R c_OK) \/ fl = FReturn (Q2R c_ERROR)) /\
       (fl = FReturn (Q2R c_OK) -> e "stop_program" <> Q2R c_TRUE)).
Proof. exact Tie.model_exit_ok. Qed.
Print Assumptions model_exit_ok.

(* calc_ss_fractions: mole fractions are non-negative and sum to one, for every component list *)
Theorem ss_fractions_simplex : forall fun1 fun2 (ms : list R) (e : env),
    e "MIN_TOTAL_SS" = Q2R c_MIN_TOTAL_SS ->
    e "n_tot" = 0 ->
    (exists m, In m ms /\ m <> 0) ->
    wp_foreach fun1 fun2 ss_acc ss_bind_var ms e (fun e1 =>
      wp_collect fun1 fun2 ss_frac ss_bind_var ss_frac_var ms e1 []
        (fun _ xs => length xs = length ms /\ Forall (fun x => 0 <= x) xs /\ sumR xs = 1)).
Proof. exact Tie.ss_fractions_simplex. Qed.
Print Assumptions ss_fractions_simplex.

(* component of a present solid solution: SI = log10 x + log10 lambda within the tolerance *)
Theorem ss_component_activity : forall fun1 fun2, libm_ok fun1 -> forall (e : env) (toks : list (R * R)),
    row_env fun1 fun2 e ->
    e "x.ss_in" <> Q2R c_FALSE ->
    e "x.f" = f_value fun1 fun2 ss_f_terms e toks ->
    e "residual" = eden fun1 fun2 e res_ss_residual ->
    keeps fun1 fun2 "converge" res_ss e ->
    Rabs ((log_iap toks - e "x.phase.lk") - (e "x.phase.log10_fraction_x" + e "x.phase.log10_lambda")) <= tolSI.
Proof. exact Tie.ss_component_activity. Qed.
Print Assumptions ss_component_activity.

(* ideal solid solutions (a0 = a1 = 0) go through ss_ideal, which sets log10 lambda = 0: activity = mole fraction *)
Theorem ideal_activity_is_fraction : forall fun1 fun2 (e : env),
    e "ss_ptr.a0" = 0 -> e "ss_ptr.a1" = 0 ->
    wp fun1 fun2 ss_dispatch e (fun e1 _ => e1 "called:ss_ideal" = 1 /\ e1 "called:ss_binary" = e "called:ss_binary") /\
    wp fun1 fun2 ss_ideal_body e (fun e1 _ => e1 ss_lambda_var = 0).
Proof. exact Tie.ideal_activity_is_fraction. Qed.
Print Assumptions ideal_activity_is_fraction.

(* Guggenheim activity coefficients and mole fractions of a binary non-ideal solid solution (ss_binary) *)
Theorem ss_binary_guggenheim : forall fun1 fun2 (e : env),
    let nc := e "ss_ptr.ss_comps[0].moles" in
    let nb := e "ss_ptr.ss_comps[1].moles" in
    let n := e "ss_ptr.total_moles" in
    let a0 := e "ss_ptr.a0" in let a1 := e "ss_ptr.a1" in
    let xb := nb / n in let xc := nc / n in
    e "LOG_10" <> 0 -> n <> 0 ->
    ~ (e "ss_ptr.miscibility" <> 0 /\ xb > e "ss_ptr.xb1" /\ xb < e "ss_ptr.xb2") ->
    wp fun1 fun2 ss_binary_body e (fun e1 _ =>
      e1 "ss_ptr.ss_comps[0].fraction_x" = xc /\ e1 "ss_ptr.ss_comps[1].fraction_x" = xb /\
      e1 "ss_ptr.ss_comps[0].log10_lambda" * e "LOG_10" = xb * xb * (a0 - a1 * (3 - 4 * xb)) /\
      e1 "ss_ptr.ss_comps[1].log10_lambda" * e "LOG_10" = xc * xc * (a0 + a1 * (4 * xb - 1))).
Proof. exact Tie.ss_binary_guggenheim. Qed.
Print Assumptions ss_binary_guggenheim.

Theorem ss_binary_fractions_sum : forall fun1 fun2 (e : env),
    e "ss_ptr.total_moles" = e "ss_ptr.ss_comps[0].moles" + e "ss_ptr.ss_comps[1].moles" ->
    e "ss_ptr.total_moles" <> 0 ->
    wp fun1 fun2 ss_binary_body e (fun e1 _ =>
      e1 "ss_ptr.ss_comps[0].fraction_x" + e1 "ss_ptr.ss_comps[1].fraction_x" = 1).
Proof. exact Tie.ss_binary_fractions_sum. Qed.
Print Assumptions ss_binary_fractions_sum.

Theorem ss_binary_lambda_of_stored_fractions : forall fun1 fun2 (e : env),
    e "LOG_10" <> 0 -> e "ss_ptr.total_moles" <> 0 ->
    wp fun1 fun2 ss_binary_body e (fun e1 _ =>
      let x0 := e1 "ss_ptr.ss_comps[0].fraction_x" in
      let x1 := e1 "ss_ptr.ss_comps[1].fraction_x" in
      (x0 = 1 - x1 \/ (x0 = e "ss_ptr.ss_comps[0].moles" / e "ss_ptr.total_moles"
                       /\ x1 = e "ss_ptr.ss_comps[1].moles" / e "ss_ptr.total_moles")) /\
      e1 "ss_ptr.ss_comps[0].log10_lambda" * e "LOG_10" = gugg1 (e "ss_ptr.a0") (e "ss_ptr.a1") x1 /\
      e1 "ss_ptr.ss_comps[1].log10_lambda" * e "LOG_10" = gugg2 (e "ss_ptr.a0") (e "ss_ptr.a1") x0 x1).
Proof. exact Tie.ss_binary_lambda_of_stored_fractions. Qed.
Print Assumptions ss_binary_lambda_of_stored_fractions.

(* end-to-end: a pure-phase row accepted by the regenerated convergence tests is a valid state of the property
   (the predicate the checker decides); from the solver only its sign / bound constraints on the amounts are taken *)
Theorem converged_pp_row_valid : forall fun1 fun2, libm_ok fun1 -> forall (e : env) (target si init : R),
    row_env fun1 fun2 e ->
    e "x.pp_assemblage_comp_ptr.add_formula.size" = 0 ->
    e "x.dissolve_only" = Q2R c_FALSE ->
    e "residual" = eden fun1 fun2 e res_pp_residual ->
    keeps fun1 fun2 "converge" res_pp e ->
    keeps fun1 fun2 "remove_unstable_phases" chk_pp e ->
    keeps fun1 fun2 "called:error_msg" chk_pp e ->
    e "x.f" = target - si ->
    0 <= e "x.moles" ->
    pp_validR KNormal target init (e "x.moles") si.
Proof. exact Tie.converged_pp_row_valid. Qed.
Print Assumptions converged_pp_row_valid.

Theorem converged_dissolve_only_row_valid : forall fun1 fun2, libm_ok fun1 -> forall (e : env) (target si : R),
    row_env fun1 fun2 e ->
    e "x.pp_assemblage_comp_ptr.add_formula.size" = 0 ->
    e "x.dissolve_only" = Q2R c_TRUE ->
    e "residual" = eden fun1 fun2 e res_pp_residual ->
    keeps fun1 fun2 "converge" res_pp e ->
    e "x.f" = target - si ->
    0 <= e "x.moles" <= e "x.pp_assemblage_comp_ptr.initial_moles" ->
    pp_validR KDissolve target (e "x.pp_assemblage_comp_ptr.initial_moles") (e "x.moles") si.
Proof. exact Tie.converged_dissolve_only_row_valid. Qed.
Print Assumptions converged_dissolve_only_row_valid.

Theorem converged_precipitate_only_row_valid : forall fun1 fun2, libm_ok fun1 -> forall (e : env) (target si init : R),
    row_env fun1 fun2 e ->
    e "x.pp_assemblage_comp_ptr.add_formula.size" = 0 ->
    e "x.dissolve_only" = Q2R c_FALSE ->
    e "residual" = eden fun1 fun2 e res_pp_residual ->
    keeps fun1 fun2 "converge" res_pp e ->
    keeps fun1 fun2 "remove_unstable_phases" chk_pp e ->
    keeps fun1 fun2 "called:error_msg" chk_pp e ->
    e "x.f" = target - si ->
    0 <= e "x.moles" -> 0 <= init ->
    pp_validR KPrecip target init (e "x.moles" + init) si.
Proof. exact Tie.converged_precipitate_only_row_valid. Qed.
Print Assumptions converged_precipitate_only_row_valid.

(* reuse of the equation system between consecutive calculations (prep.cpp quick_setup): everything the full build
   (setup_pure_phases) takes from the assemblage component - target SI, amount, delta, dissolve_only - is refreshed *)
Theorem quick_setup_refreshes_what_setup_builds :
    reuse_refreshes_all setup_comp setup_pp quick_comp quick_pp = true /\
    mem_str "si" (comp_fields setup_comp setup_pp) = true /\
    mem_str "moles" (comp_fields setup_comp setup_pp) = true /\
    mem_str "dissolve_only" (comp_fields setup_comp setup_pp) = true.
Proof. exact Tie.quick_setup_refreshes_what_setup_builds. Qed.
Print Assumptions quick_setup_refreshes_what_setup_builds.

Theorem quick_setup_refreshes_pp : forall fun1 fun2 (e : env),
    wp fun1 fun2 quick_pp e (fun e1 _ =>
      e1 "x.si" = e (quick_comp ++ ".si") /\
      e1 "x.moles" = e (quick_comp ++ ".moles") /\
      (e (quick_comp ++ ".dissolve_only") <> 0 -> e1 "x.dissolve_only" = Q2R c_TRUE) /\
      (e (quick_comp ++ ".dissolve_only") = 0 -> e1 "x.dissolve_only" = Q2R c_FALSE)).
Proof. exact Tie.quick_setup_refreshes_pp. Qed.
Print Assumptions quick_setup_refreshes_pp.

Theorem setup_pure_phases_fills_pp : forall fun1 fun2 (e : env),
    wp fun1 fun2 setup_pp e (fun e1 _ =>
      e1 "x.si" = e (setup_comp ++ ".si") /\
      e1 "x.moles" = e (setup_comp ++ ".moles") /\
      e1 "x.dissolve_only" = e (setup_comp ++ ".dissolve_only")).
Proof. exact Tie.setup_pure_phases_fills_pp. Qed.
Print Assumptions setup_pure_phases_fills_pp.

(* the shared phase record of a solid-solution component is refreshed from the component for EVERY solid solution
   (ideal or not), on full build and on reuse: all per-phase quantities the residual / Jacobian read *)
Theorem ss_phase_record_refreshed_for_every_solid_solution :
    copies_all_phase_fields ss_f_terms setup_ss_comp setup_ss = true /\
    copies_all_phase_fields ss_f_terms quick_ss_comp quick_ss = true /\
    mem_str "log10_lambda" (ss_phase_fields ss_f_terms) = true /\
    mem_str "log10_fraction_x" (ss_phase_fields ss_f_terms) = true.
Proof. exact Tie.ss_phase_record_refreshed_for_every_solid_solution. Qed.
Print Assumptions ss_phase_record_refreshed_for_every_solid_solution.

Theorem setup_ss_copies_lambda : forall fun1 fun2 (e : env),
    wp fun1 fun2 setup_ss e (fun e1 _ =>
      e1 "x.phase.log10_lambda" = e (setup_ss_comp ++ ".log10_lambda") /\
      e1 "x.phase.log10_fraction_x" = e (setup_ss_comp ++ ".log10_fraction_x") /\
      e1 "x.phase.dnc" = e (setup_ss_comp ++ ".dnc")).
Proof. exact Tie.setup_ss_copies_lambda. Qed.
Print Assumptions setup_ss_copies_lambda.

(* precipitate_only amounts are inert in EVERY solver that model() dispatches to (ion association loop, model_pz,
   model_sit) and are given back on every return: path analysis of the regenerated statements of model() *)
Theorem inert_amounts_cover_every_solver :
    call_order model_head false = OFalls true /\
    call_order model_ret true = OReturned /\
    stmt_uses ["model_pz()"] model_head = true /\ stmt_uses ["model_sit()"] model_head = true.
Proof. exact Tie.inert_amounts_cover_every_solver. Qed.
Print Assumptions inert_amounts_cover_every_solver.

(* reactions(): in every pass of the step loop the reference amounts of the restrictions (initial_moles) are reset
   to the amounts at the start of that step before the step is solved *)
Theorem every_step_resets_reference_amounts :
    call_before "set_initial_moles" "run_reactions" reaction_step_body false = Some true /\
    calls "run_reactions" reaction_step_body = true.
Proof. exact Tie.every_step_resets_reference_amounts. Qed.
Print Assumptions every_step_resets_reference_amounts.

(* ineq(): the saturation-index equation of a force_equality phase is always handed to the solver as an equality,
   whatever the amount of the phase and its saturation state *)
Theorem forced_phase_equation_always_copied : forall fun1 fun2 (e : env),
    e "x.type" = Q2R c_PP ->
    e "comp_ptr.force_equality" <> 0 ->
    e "x" <> e "mass_oxygen_unknown" ->
    wp fun1 fun2 ineq_equalities e (fun e1 fl => fl = FNormal /\ e1 "called:memcpy" = 1).
Proof. exact Tie.forced_phase_equation_always_copied. Qed.
Print Assumptions forced_phase_equation_always_copied.

(* the executable checker applied to what the implementation reports is sound for the property *)
Theorem check_hetero_sound : forall c : hcase, case_ok c = true -> hetero_valid c.
Proof. exact SpecProofs.case_ok_sound. Qed.
Print Assumptions check_hetero_sound.
