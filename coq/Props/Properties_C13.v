(** C13 — instance registry and C/C++/Fortran bindings behave as one consistent API.
    Statements + [exact] only. Gen_C13 is regenerated from /repo's sources on every run. *)
From Coq Require Import List ZArith String Bool Sorted.
From IPV.Wrapper Require Import Registry RegistryProofs Fwd.
From IPV.Gen Require Import Gen_C13.
Import ListNotations.
Local Open Scope Z_scope.

(** T-gen: every C wrapper of the CURRENT IPhreeqcLib.cpp forwards to the same-named method with its
    parameters in order (switch setters: value != 0), translates VR_x to IPQ_x, and has the documented
    invalid-instance result; every *F wrapper of the CURRENT IPhreeqc_interface_F.cpp adds exactly the
    documented n-1 shifts (none on row), blank padding via padfstring, row count minus heading. *)
Theorem C13_capi_wrappers_ok : forallb wrapper_ok capi = true.
Proof. vm_compute. reflexivity. Qed.
Theorem C13_fapi_wrappers_ok : forallb fwrapper_ok fapi = true.
Proof. vm_compute. reflexivity. Qed.
Theorem C13_every_prototype_has_a_wrapper :
  covers c_prototypes (map w_name capi) = true /\ covers f_prototypes (map f_name fapi) = true.
Proof. vm_compute. split; reflexivity. Qed.
Print Assumptions C13_capi_wrappers_ok.
Print Assumptions C13_fapi_wrappers_ok.
Print Assumptions C13_every_prototype_has_a_wrapper.

(** what the boolean obligation means, for any registry, any objects, any method semantics *)
Theorem C13_capi_forwards : forall (inst val : Type) (method : string -> list val -> inst -> inst * val)
  (neq_zero : val -> val) (conv : resx -> val -> val) (bad_val : badx -> val) w,
  wrapper_ok w = true -> mem (w_name w) callbacks = false -> mem (w_name w) registry_fns = false ->
  forall reg id env,
  (reg id = None -> exec_c inst val method neq_zero conv bad_val w reg id env = (reg, bad_val (doc_bad (w_name w)))) /\
  (forall i, reg id = Some i ->
     let (i', r) := method (w_name w) (map (eval_arg val neq_zero env) (w_args w)) i in
     snd (exec_c inst val method neq_zero conv bad_val w reg id env) = conv (w_res w) r /\
     fst (exec_c inst val method neq_zero conv bad_val w reg id env) id = Some i' /\
     (forall k, k <> id -> fst (exec_c inst val method neq_zero conv bad_val w reg id env) k = reg k)).
Proof. exact capi_forwards. Qed.
Print Assumptions C13_capi_forwards.

(** registry: ids are never reused while the process lives (every call sequence) *)
Theorem C13_ids_never_reused : forall cs, NoDup (created cs (snd (run_api sys0 cs))).
Proof. exact ids_never_reused. Qed.
Theorem C13_ids_strictly_increasing : forall cs st, RInv st ->
  StronglySorted Z.lt (created cs (snd (run_api st cs))) /\
  (forall z, In z (created cs (snd (run_api st cs))) -> next st <= z).
Proof. exact ids_strictly_increasing. Qed.
Theorem C13_reachable_invariant : forall cs, RInv (fst (run_api sys0 cs)).
Proof. intro cs. apply rinv_run. exact rinv_init. Qed.
Print Assumptions C13_ids_never_reused.
Print Assumptions C13_ids_strictly_increasing.
Print Assumptions C13_reachable_invariant.

(** a call with an id that is not live changes no instance and returns the documented result *)
Theorem C13_dead_id_noop_C : forall st id ic, (id < 0 \/ alookup id (insts st) = None) ->
  api st (CCall id ic) = (st, out_of (bad_result_C ic)).
Proof. exact dead_id_noop_C. Qed.
Theorem C13_dead_id_noop_F : forall st id ic cap, (id < 0 \/ alookup id (insts st) = None) ->
  fst (api st (FCall id ic cap)) = st.
Proof. exact dead_id_noop_F. Qed.
Theorem C13_double_destroy : forall st id, RInv st -> 0 <= id -> alookup id (insts st) <> None ->
  let st1 := fst (api st (Destroy id)) in
  snd (api st (Destroy id)) = OInt IPQ_OK /\ api st1 (Destroy id) = (st1, OInt IPQ_BADINSTANCE).
Proof. exact double_destroy. Qed.
Theorem C13_destroy_dead : forall st id, (id < 0 \/ alookup id (insts st) = None) ->
  api st (Destroy id) = (st, OInt IPQ_BADINSTANCE).
Proof. exact destroy_dead. Qed.
Theorem C13_instance_frame : forall st id ic k, k <> id ->
  alookup k (insts (fst (api st (CCall id ic)))) = alookup k (insts st) /\
  alookup k (insts (fst (api st (MCall id ic)))) = alookup k (insts st) /\
  forall cap, alookup k (insts (fst (api st (FCall id ic cap)))) = alookup k (insts st).
Proof. exact instance_frame. Qed.
Print Assumptions C13_dead_id_noop_C.
Print Assumptions C13_dead_id_noop_F.
Print Assumptions C13_double_destroy.
Print Assumptions C13_destroy_dead.
Print Assumptions C13_instance_frame.

(** the three bindings: same state change; C result = converted method result; F = C + blank padding + length *)
Theorem C13_bindings_same_state : forall st id ic cap, 0 <= id -> alookup id (insts st) <> None ->
  fst (api st (CCall id ic)) = fst (api st (MCall id ic)) /\ fst (api st (FCall id ic cap)) = fst (api st (MCall id ic)).
Proof. exact bindings_same_state. Qed.
Theorem C13_f_result_is_padded_c_result : forall st id ic cap,
  snd (api st (FCall id ic cap)) =
  match snd (api st (CCall id ic)) with OStr s => OPad (padf s cap) (Z.of_nat (String.length s)) | o => o end.
Proof. exact f_result_is_padded_c_result. Qed.
Theorem C13_padf_length : forall s cap, 0 <= cap -> String.length (padf s cap) = Z.to_nat cap.
Proof. exact padf_length. Qed.
Print Assumptions C13_bindings_same_state.
Print Assumptions C13_f_result_is_padded_c_result.
Print Assumptions C13_padf_length.

(** setters/getters are a simple store; invalid arguments are rejected and change nothing *)
Theorem C13_set_get_switch : forall i s b, snd (istep (fst (istep i (SetSw s b))) (GetSw s)) = RInt (if b then 1 else 0).
Proof. exact set_get_switch. Qed.
Theorem C13_set_switch_frame : forall i s b c, (forall b', c <> SetSw s b') -> c <> GetSw s ->
  snd (istep (fst (istep i (SetSw s b))) c) = snd (istep i c).
Proof. exact set_switch_frame. Qed.
Theorem C13_set_get_name : forall i n str, str <> EmptyString ->
  snd (istep (fst (istep i (SetName n (Some str)))) (GetName n)) = RStr str.
Proof. exact set_get_name. Qed.
Theorem C13_null_and_empty_names_rejected : forall i n, fst (istep i (SetName n None)) = i /\ fst (istep i (SetName n (Some EmptyString))) = i /\
  fst (istep i (SetSelName None)) = i /\ fst (istep i (SetSelName (Some EmptyString))) = i.
Proof. exact set_name_rejects_null_and_empty. Qed.
Theorem C13_negative_user_number_rejected : forall i n, n < 0 -> istep i (SetCur n) = (i, RInt IPQ_INVALIDARG).
Proof. exact set_cur_negative_rejected. Qed.
Theorem C13_sel_switches_per_user_number : forall i b n m, 0 <= n -> 0 <= m -> n <> m ->
  snd (istep (fst (istep (fst (istep (fst (istep i (SetCur n))) (SetSelFile b))) (SetCur m))) GetSelFile) =
  snd (istep (fst (istep i (SetCur m))) GetSelFile).
Proof. exact sel_switches_are_per_user_number. Qed.
Print Assumptions C13_set_get_switch.
Print Assumptions C13_set_switch_frame.
Print Assumptions C13_set_get_name.
Print Assumptions C13_null_and_empty_names_rejected.
Print Assumptions C13_negative_user_number_rejected.
Print Assumptions C13_sel_switches_per_user_number.

(** documented defaults of a fresh instance embed the id (statement in RegistryProofs.fresh_instance_defaults) *)
Theorem C13_fresh_instance_defaults : forall st, RInv st ->
  let id := next st in let st1 := fst (api st Create) in
  snd (api st Create) = OInt id /\
  snd (api st1 (CCall id (GetName NOutput))) = OStr ("phreeqc." ++ dec id ++ ".out")%string /\
  snd (api st1 (CCall id (GetName NDump))) = OStr ("dump." ++ dec id ++ ".out")%string /\
  snd (api st1 (CCall id GetSelName)) = OStr ("selected_1." ++ dec id ++ ".out")%string /\
  snd (api st1 (CCall id (GetSw ErrorString))) = OInt 1 /\ snd (api st1 (CCall id (GetSw OutputFile))) = OInt 0.
Proof. intros st H. pose proof (fresh_instance_defaults st H) as D. cbv zeta in D. cbv zeta. tauto. Qed.
Print Assumptions C13_fresh_instance_defaults.

(** a run gives a defined SELECTED_OUTPUT n its default file name unless a non-empty one is stored;
    a successful database load resets the per-user-number switches and the current number only *)
Theorem C13_run_defines_default_name : forall i n ns, In n ns -> alookup n (i_seln i) = None ->
  exists s, alookup n (i_seln (fst (istep i (RunDefines ns)))) = Some s /\ s = sel_default_name (i_id i) n.
Proof. exact run_defines_default_name. Qed.
Theorem C13_run_defines_keeps_set_name : forall i n ns str, str <> EmptyString -> alookup n (i_seln i) = Some str ->
  alookup n (i_seln (fst (istep i (RunDefines ns)))) = Some str.
Proof. exact run_defines_keeps_set_name. Qed.
Theorem C13_load_resets_per_number_switches : forall i, let i' := fst (istep i Load) in
  i_cur i' = 1%Z /\ i_self i' = [(1%Z, false)] /\ i_sels i' = [(1%Z, false)] /\ i_id i' = i_id i /\
  i_seln i' = i_seln i /\ (forall s, i_sw i' s = i_sw i s) /\ (forall n, i_name i' n = i_name i n).
Proof. exact load_resets_per_number_switches. Qed.
Print Assumptions C13_run_defines_default_name.
Print Assumptions C13_run_defines_keeps_set_name.
Print Assumptions C13_load_resets_per_number_switches.
