(* C18 — every reported inverse model is a genuine, admissible mole-balance model.
   Statements only; proofs are in coq/C18/*.v.  Gen_C18_bits.v is regenerated from /repo's
   src/phreeqcpp/inverse.cpp on every run, so the theorems that mention gen_* / t_sup / t_bad / t_min
   are re-checked against the current source. *)
From Coq Require Import QArith Qabs List Bool ZArith String.
From IPV Require Import C18.Check C18.CheckProofs C18.Search C18.SearchProofs C18.Bits Gen.Gen_C18_bits C18.GenProofs.
From IPV Require Import C18.Tidy C18.TidyProofs Gen.Gen_C18_tidy C18.TidyGen.
From IPV Require Import C18.Setup Gen.Gen_C18_setup C18.SetupGen.
From IPV Require Import C18.Shrink Gen.Gen_C18_shrink C18.ShrinkGen.
Import ListNotations.

(* ---------------------------------------------------------------- the verified checker (over Q) *)
Open Scope Q_scope.

(* [admissible pb md] (CheckProofs.v) says: for every element
     | Sum_states Sum_s sg_s (f_s T_{v,s} + eps_{v,s}) + Sum_p t_p c_{e,p} | <= tolb,
   every adjustment |eps_{v,s}| <= b_{v,s} f_s + tolu, f_s >= -tolu, dissolve-only t_p >= -tolu,
   precipitate-only t_p <= tolu, every value in its [min,max] (relative slack tolr), lists well-formed.
   The checker accepts exactly the admissible models. *)
Theorem check_inverse_sound : forall pb md, check_inverse_model pb md = true -> admissible pb md.
Proof. exact check_inverse_sound_lemma. Qed.
Print Assumptions check_inverse_sound.

Theorem check_inverse_complete : forall pb md, admissible pb md -> check_inverse_model pb md = true.
Proof. exact check_inverse_complete_lemma. Qed.
Print Assumptions check_inverse_complete.

(* with eps = f * delta the bounded residual is the textbook  Sum_s sg_s f_s (T_s + delta_s) *)
Theorem balance_delta_form : forall sg f T d, mix sg f T (mul2 f d) == mixd sg f T d.
Proof. exact balance_delta_form_lemma. Qed.
Print Assumptions balance_delta_form.

(* and for a solution that takes part (f > 0) the bound on eps is the declared bound on delta = eps / f *)
Theorem adj_delta_form : forall f e b tol, 0 < f -> Qabs e <= b * f + tol -> Qabs (e / f) <= b + tol / f.
Proof. exact adj_delta_form_lemma. Qed.
Print Assumptions adj_delta_form.

(* the -minimal inclusion check on reported masks decides the antichain property *)
Theorem antichain_b_iff : forall l, antichain_b l = true <-> antichain l.
Proof. exact antichain_b_iff_lemma. Qed.
Print Assumptions antichain_b_iff.

Close Scope Q_scope.
Open Scope Z_scope.

(* ---------------------------------------------------------------- the regenerated bit tests *)
Theorem gen_superset_minimal_decides_inclusion :
  looptest_shape "minimal" "count_minimal" gen_superset_minimal = true /\
  forall bits m, t_sup bits m = true <-> subset m bits.
Proof. exact gen_superset_minimal_ok. Qed.
Print Assumptions gen_superset_minimal_decides_inclusion.

Theorem gen_subset_bad_decides_inclusion :
  looptest_shape "bad" "count_bad" gen_subset_bad = true /\
  forall bits b, t_bad bits b = true <-> subset bits b.
Proof. exact gen_subset_bad_ok. Qed.
Print Assumptions gen_subset_bad_decides_inclusion.

Theorem gen_subset_minimal_decides_inclusion :
  looptest_shape "minimal" "count_minimal" gen_subset_minimal = true /\
  forall bits m, t_min bits m = true <-> subset bits m.
Proof. exact gen_subset_minimal_ok. Qed.
Print Assumptions gen_subset_minimal_decides_inclusion.

Theorem gen_set_bit_clears_and_sets : forall bits p, 0 <= p ->
  beval gen_set_bit_value0 bits (Z.shiftl 1 p) = Z.clearbit bits p /\
  beval gen_set_bit_value1 bits (Z.shiftl 1 p) = Z.setbit bits p.
Proof. exact gen_set_bit_ok. Qed.
Print Assumptions gen_set_bit_clears_and_sets.

Theorem gen_minimal_solve_bit_updates : forall mb i, 0 <= i -> Z.testbit mb i = true ->
  beval gen_ms_clear mb (Z.shiftl 1 i) = Z.clearbit mb i /\
  beval gen_ms_putback_subset_bad mb (Z.shiftl 1 i) = mb /\
  beval gen_ms_putback_infeasible mb (Z.shiftl 1 i) = mb.
Proof. exact gen_minimal_solve_bits_ok. Qed.
Print Assumptions gen_minimal_solve_bit_updates.

(* ---------------------------------------------------------------- the subset search with -minimal
   [search t_sup t_bad t_min solve nph nsol true range force] is the model of solve_inverse with
   -minimal (Search.v) using the regenerated tests; [solve] = solve_with_mask (shrink + cl1 + support
   extraction) is ANY function Z -> bool * Z. *)

(* any oracle whose support stays inside the mask: a model reported later never contains (nor equals)
   one reported earlier *)
Theorem later_model_never_contains_earlier :
  forall (solve : Z -> bool * Z) (nph nsol : nat) (range_opt : bool) (force_mask : Z),
  (forall m, subset (snd (solve m)) m) ->
  ForallOrdPairs (fun a b => ~ subset a b)
    (good (search t_sup t_bad t_min solve nph nsol true range_opt force_mask)).
Proof. exact later_never_contains_earlier_gen. Qed.
Print Assumptions later_model_never_contains_earlier.

(* a consistent feasibility oracle: the reported masks form an antichain (no reported model's set of
   phases and solutions contains that of another reported model) *)
Theorem minimal_models_antichain :
  forall (solve : Z -> bool * Z) (nph nsol : nat) (range_opt : bool) (force_mask : Z),
  (forall m, subset (snd (solve m)) m) ->
  (forall m i, Z.of_nat (nph + nsol) <= i -> Z.testbit (snd (solve m)) i = false) ->
  (forall a b, fst (solve a) = true -> subset a b -> fst (solve b) = true) ->
  (forall a, fst (solve a) = true -> fst (solve (snd (solve a))) = true) ->
  (forall a, fst (solve a) = true -> Z.testbit a (Z.of_nat (nph + nsol) - 1) = true) ->
  forall a b,
    In a (good (search t_sup t_bad t_min solve nph nsol true range_opt force_mask)) ->
    In b (good (search t_sup t_bad t_min solve nph nsol true range_opt force_mask)) ->
    subset a b -> a = b.
Proof. exact minimal_models_antichain_gen. Qed.
Print Assumptions minimal_models_antichain.

(* ... and every reported mask is feasible for the oracle *)
Theorem reported_models_feasible :
  forall (solve : Z -> bool * Z) (nph nsol : nat) (range_opt : bool) (force_mask : Z),
  (forall m, subset (snd (solve m)) m) ->
  (forall m i, Z.of_nat (nph + nsol) <= i -> Z.testbit (snd (solve m)) i = false) ->
  (forall a b, fst (solve a) = true -> subset a b -> fst (solve b) = true) ->
  (forall a, fst (solve a) = true -> fst (solve (snd (solve a))) = true) ->
  (forall a, fst (solve a) = true -> Z.testbit a (Z.of_nat (nph + nsol) - 1) = true) ->
  forall a, In a (good (search t_sup t_bad t_min solve nph nsol true range_opt force_mask)) -> fst (solve a) = true.
Proof. exact reported_models_feasible_gen. Qed.
Print Assumptions reported_models_feasible.

(* ---------------------------------------------------------------- declared limits reach the rows
   tidy.cpp: tidy_inverse — an uncertainty declared under -balances by the NAME OF A REDOX-ACTIVE ELEMENT
   ("S 0.01") is copied onto the mole-balance row of EVERY valence state of that element (rows = (primary
   element of the row's master species, uncertainty per solution); [run gen_tidy_primary_loop] is the
   regenerated loop, Gen_C18_tidy.v): every row of the named element receives exactly the declared
   values, no row is added, dropped or reordered, rows of other elements are untouched. *)
Theorem gen_tidy_element_limit_reaches_every_valence_state :
  scanloop_ok gen_tidy_primary_loop = true /\
  forall (rows : list row) (prim : Z) (vals : list Q),
    (forall r, In r rows -> List.length (snd r) = List.length vals) ->
    map fst (run gen_tidy_primary_loop rows prim vals) = map fst rows /\
    (forall r', In r' (run gen_tidy_primary_loop rows prim vals) -> fst r' = prim -> snd r' = vals) /\
    (forall r', In r' (run gen_tidy_primary_loop rows prim vals) -> fst r' <> prim -> In r' rows).
Proof. exact (conj gen_tidy_loop_ok gen_tidy_reaches_every_state). Qed.
Print Assumptions gen_tidy_element_limit_reaches_every_valence_state.

(* ---------------------------------------------------------------- phase columns count atoms
   inverse.cpp: setup_inverse, "mass_balance: phase data" — the entry written for token j of a candidate
   phase's reaction (regenerated expression, Gen_C18_setup.v) is the reaction coefficient rc times the
   number mc of atoms of the element per master species (N2, O2, H2: 2), so that the column counts ATOMS
   like the solution and redox columns do; a master species with coef <= 0 (e-) counts once. *)
Theorem gen_phase_column_entry_counts_atoms : forall rc mc : Q,
  (0 < mc -> qeval gen_phase_column_entry rc mc == rc * mc)%Q /\
  (mc <= 0 -> qeval gen_phase_column_entry rc mc == rc)%Q.
Proof. exact gen_phase_column_entry_ok. Qed.
Print Assumptions gen_phase_column_entry_counts_atoms.

(* ---------------------------------------------------------------- sign constraints survive shrink
   inverse.cpp: shrink — the only store into the sign-constraint vector (regenerated list, Gen_C18_shrink.v)
   is the compaction  delta_l[cur_col] = delta_l[i];  the in-place compaction loop yields exactly the kept
   entries in order, i.e. the constraint cl1 sees for the j-th kept column is the one declared for the
   original column (kept_indices keep 0) !! j. *)
Theorem gen_shrink_sign_constraints_travel_with_their_columns :
  stores_ok gen_shrink_sign_stores = true /\
  forall (keep : list bool) (delta : list Q), List.length keep = List.length delta ->
    inplace keep [] delta = compact keep delta /\
    compact keep delta = map (fun i => nth (i - 0) delta 0%Q) (kept_indices keep 0).
Proof. exact shrink_sign_vector_travels. Qed.
Print Assumptions gen_shrink_sign_constraints_travel_with_their_columns.
