(* C18 — every reported inverse model is a genuine, admissible mole-balance model.
   Statements only; proofs are in coq/C18/*.v. *)
From Coq Require Import QArith Qabs List Bool ZArith.
From IPV Require Import C18.Check C18.CheckProofs.
Import ListNotations.
Open Scope Q_scope.

(* The executable checker applied to every reported model accepts exactly the admissible ones. *)
Theorem check_inverse_sound : forall pb md, check_inverse_model pb md = true -> admissible pb md.
Proof. exact check_inverse_sound_lemma. Qed.
Print Assumptions check_inverse_sound.

Theorem check_inverse_complete : forall pb md, admissible pb md -> check_inverse_model pb md = true.
Proof. exact check_inverse_complete_lemma. Qed.
Print Assumptions check_inverse_complete.
