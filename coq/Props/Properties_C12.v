(* Properties_C12 — theorems for property C12 "kinetic reactions transfer exactly what they integrate".
   Statements only; proofs are in IPV.C12.*.  g_* are REGENERATED from /repo on every run
   (Gen_C12_Tableau.v from Phreeqc::rk_kinetics, Gen_C12_Step.v from cxxKinetics::Current_step). *)
From Coq Require Import Reals QArith Qabs ZArith List.
From IPV Require Import C12.MiniPrelude C12.RK C12.Step C12.Checker C12.Closed.
From IPV Require Import Gen.Gen_C12_Tableau Gen.Gen_C12_Step Gen.Gen_C12_Restart Gen.Gen_C12_Transport Gen.Gen_C12_Bind Gen.Gen_C12_Clamp.
From IPV Require Import C12.Inst C12.RKProofs C12.StepProofs C12.Controller C12.Transfer C12.Restart C12.TransportTime C12.BindModel C12.Bind C12.ClampTie.
Import ListNotations.
Open Scope Q_scope.

(* ---- the Runge-Kutta scheme coded in rk_kinetics ---------------------------------------------- *)

(* every Set_moles combination / the error estimate / the result is a linear combination of k1..k6 *)
Theorem stage_combinations_linear :
  comb_linear (s2 CK) /\ comb_linear (s3 CK) /\ comb_linear (s4 CK) /\ comb_linear (s5 CK) /\ comb_linear (s6 CK) /\
  comb_linear (res CK) /\ comb_linear (est CK) /\ comb_linear (x1 CK) /\ comb_linear (x2 CK) /\ comb_linear (x3 CK).
Proof. exact all_linear. Qed.
Print Assumptions stage_combinations_linear.

(* evaluation i only uses k1..k_{i-1} (explicit scheme) *)
(* the error estimate is divided by the reactant's tolerance and compared with 1 *)
Theorem error_scaled_by_tolerance : g_err_divided_by_tol = true /\ g_err_limit == 1.
Proof. exact err_scaled_by_tol. Qed.
Print Assumptions error_scaled_by_tolerance.

(* evaluation i only uses k1..k_{i-1} (explicit scheme) *)
Theorem tableau_lower_triangular : strictly_lower (tabA CK) = true.
Proof. exact lower_triangular. Qed.
Print Assumptions tableau_lower_triangular.

(* retry after a rejected step and continuation after a failed -runge_kutta 1 shortcut use the same state *)
Theorem restart_paths_agree : forall k1 k2 k3 k4 k5 k6,
  g_stage2_restart k1 k2 k3 k4 k5 k6 == g_stage2 k1 k2 k3 k4 k5 k6 /\
  g_stage2_after_rk1 k1 k2 k3 k4 k5 k6 == g_stage2 k1 k2 k3 k4 k5 k6.
Proof. exact stage2_variants. Qed.
Print Assumptions restart_paths_agree.

(* rate_sim_time handed to evaluation i is  start + h_sum + c_i h ... *)
Theorem time_offsets_affine : forall t0 hs h,
  g_time1 t0 hs h == t0 + hs + at6 (tabC CK) 0 * h /\
  g_time2 t0 hs h == t0 + hs + at6 (tabC CK) 1 * h /\
  g_time3 t0 hs h == t0 + hs + at6 (tabC CK) 2 * h /\
  g_time4 t0 hs h == t0 + hs + at6 (tabC CK) 3 * h /\
  g_time5 t0 hs h == t0 + hs + at6 (tabC CK) 4 * h /\
  g_time6 t0 hs h == t0 + hs + at6 (tabC CK) 5 * h.
Proof. exact time_affine. Qed.
Print Assumptions time_offsets_affine.

(* ... with c_i = sum_j a_ij *)
Theorem tableau_row_sums : veqb (tabC CK) (map qsum (tabA CK)) = true.
Proof. exact row_sums. Qed.
Print Assumptions tableau_row_sums.

(* the 17 order conditions (rooted trees of order <= 5) for the result weights *)
Theorem order5_conditions : order_ok (tabA CK) (tabB CK) trees_upto5 = true.
Proof. exact order5. Qed.
Print Assumptions order5_conditions.

(* the 8 order conditions (order <= 4) for the embedded weights  b* = b - d  (d = error-estimate weights) *)
Theorem embedded_order4_conditions : order_ok (tabA CK) (tabBstar CK) trees_upto4 = true.
Proof. exact embedded_order4. Qed.
Print Assumptions embedded_order4_conditions.

Theorem error_estimate_nontrivial : existsb (fun t => negb (cond_holds (tabA CK) (tabBstar CK) t)) T5 = true.
Proof. exact embedded_not_order5. Qed.
Print Assumptions error_estimate_nontrivial.

(* constant rate: the step transfers exactly r h and the estimate is 0, for all r h *)
Theorem zero_order_step_exact : forall r t0 hs h m0,
  step_moles CK (fun _ _ => r) t0 hs h m0 == r * h /\ step_est CK (fun _ _ => r) t0 hs h m0 == 0.
Proof. exact zero_order_exact. Qed.
Print Assumptions zero_order_step_exact.

(* first order m' = -lam m: one step multiplies m by the degree-5 Taylor polynomial of exp(-z) plus kappa z^6 *)
Theorem linear_exactness : forall lam t0 hs h m0,
  let z := lam * h in
  step_m CK (fun _ m => lam * m) t0 hs h m0 == m0 * (taylor5 z + kappa6 CK * (z*z*z*z*z*z)).
Proof. exact linear_exact. Qed.
Print Assumptions linear_exactness.

(* for 0 <= lam h <= 1 no stage state (and not the result) is negative: the "cannot deliver more than it has"
   clamp of calc_final_kinetic_reaction is inactive, so the unclamped model above is what the code computes *)
Theorem linear_stage_states_nonnegative : forall lam t0 hs h m0, 0 <= m0 -> 0 <= lam * h -> lam * h <= 1 ->
  let f := fun (_ : Q) m => lam * m in
  let a1 := k1 CK f t0 hs h m0 in let a2 := k2 CK f t0 hs h m0 in let a3 := k3 CK f t0 hs h m0 in
  let a4 := k4 CK f t0 hs h m0 in let a5 := k5 CK f t0 hs h m0 in let a6 := k6 CK f t0 hs h m0 in
  0 <= m0 - s2 CK a1 0 0 0 0 0 /\ 0 <= m0 - s3 CK a1 a2 0 0 0 0 /\ 0 <= m0 - s4 CK a1 a2 a3 0 0 0 /\
  0 <= m0 - s5 CK a1 a2 a3 a4 0 0 /\ 0 <= m0 - s6 CK a1 a2 a3 a4 a5 0 /\ 0 <= m0 - res CK a1 a2 a3 a4 a5 a6.
Proof. exact linear_states_nonneg. Qed.
Print Assumptions linear_stage_states_nonnegative.

Theorem kappa6_is_1_800 : kappa6 CK == 1 # 800.
Proof. exact kappa6_value. Qed.
Print Assumptions kappa6_is_1_800.

(* ... and the error estimate is O(z^5) with explicit coefficients *)
Theorem linear_error_estimate : forall lam t0 hs h m0,
  let z := lam * h in
  step_est CK (fun _ m => lam * m) t0 hs h m0 == - m0 * (z*z*z*z*z) * ((277 # 1228800) + (277 # 1638400) * z).
Proof. exact linear_est. Qed.
Print Assumptions linear_error_estimate.

(* accepted step => small local error, first-order decay: the result is within (2/3) z |estimate| of m0 * T6(z), T6 the
   degree-6 Taylor polynomial of exp(-z); the controller accepts only |estimate| <= tol, so for z = lam h <= 1 the step is within
   (2/3) tol of m0*T6(z)   (|exp(-z) - T6(z)| <= z^7/5040: classical alternating-series remainder, not re-proved) *)
Theorem linear_local_error_vs_estimate : forall lam t0 hs h m0, 0 <= m0 -> 0 <= lam * h ->
  let z := lam * h in
  Qabs (step_m CK (fun _ m => lam * m) t0 hs h m0 - m0 * taylor6 z) <= (2#3) * z * Qabs (step_est CK (fun _ m => lam * m) t0 hs h m0).
Proof. exact linear_local_error_bounded_by_estimate. Qed.
Print Assumptions linear_local_error_vs_estimate.

(* rate = polynomial of degree <= 4 in TOTAL_TIME: integrated exactly (uses the rate_sim_time offsets) *)
Theorem quadrature_exactness : forall a0 a1 a2 a3 a4 t0 hs h m0,
  step_moles CK (fun t _ => poly4 a0 a1 a2 a3 a4 t) t0 hs h m0 ==
  prim4 a0 a1 a2 a3 a4 (t0 + hs + h) - prim4 a0 a1 a2 a3 a4 (t0 + hs).
Proof. exact quadrature_exact. Qed.
Print Assumptions quadrature_exactness.

(* two coupled linear reactants y' = -M y: one step applies the same polynomial in hM *)
Theorem coupled_linear_exactness : forall a b c d t0 hs h y1 y2,
  let r := pair_m CK (fun _ u v => a*u + b*v) (fun _ u v => c*u + d*v) t0 hs h y1 y2 in
  let e := mapply (stab_poly CK (mscale h (a,b,c,d))) (y1, y2) in
  fst r == fst e /\ snd r == snd e.
Proof. exact coupled_linear_exact. Qed.
Print Assumptions coupled_linear_exactness.

(* -runge_kutta 1/2/3 early exits: weights sum to 1; rates equal within tol => result within 0.7 / 3.5 tol of k1 *)
Theorem early_exits_consistent : forall k1 k2 k3 tol,
  Qabs (k2 - k1) <= tol -> Qabs (k3 - k1) <= tol ->
  g_exit1 k1 0 0 0 0 0 == k1 /\
  Qabs (g_exit2 k1 k2 0 0 0 0 - k1) <= (7#10) * tol /\
  Qabs (g_exit3 k1 k2 k3 0 0 0 - k1) <= (7#2) * tol.
Proof. exact early_exit_consistent. Qed.
Print Assumptions early_exits_consistent.

(* ---- step controller (while loop of rk_kinetics) ------------------------------------------------ *)
(* on normal return the accepted step sizes add up to kin_time exactly, every accepted step is positive and
   had scaled error estimate <= 1; pow is any function positive on positive arguments and <= 1 on (x>1, e<0);
   termination itself is NOT provable (h can shrink for ever, DESIGN finding F4): fuel / Finished *)
Theorem accepted_steps_sum_to_T : forall pw att
  (Hpw : forall x e, 0 < x -> 0 < pw x e) (Hpw1 : forall x e, 1 < x -> e < 0 -> pw x e <= 1)
  T fuel bad_max acc n_bad,
  0 < T -> rk_loop pw att T bad_max fuel = Finished acc n_bad ->
  qsum_list (map fst acc) == T /\ Forall (fun he => 0 < fst he /\ snd he <= g_err_limit) acc.
Proof. exact controller_sums_to_T. Qed.
Print Assumptions accepted_steps_sum_to_T.

(* ---- CVODE continuation loop of run_reactions (label RESTART) ------------------------------------------ *)

(* however often and wherever the CVode calls stop early (gs = their cvode_last_good_time, own clocks), the call that finally
   reaches its target hands back a state integrated over exactly kin_time — PROVIDED cvode_last_good_y is the solution
   at cvode_last_good_time (contract of CVStep; CVODE itself is not modelled) *)
Theorem cvode_continuation_integrates_kin_time : forall kin_time gs, final_time kin_time gs == kin_time.
Proof. exact restart_integrates_kin_time. Qed.
Print Assumptions cvode_continuation_integrates_kin_time.

(* one pass: sum_t accumulates, the next call is asked for tout - sum_t on a clock starting at 0, tout is not touched *)
Theorem cvode_continuation_asks_for_remaining_time : forall tout sum_t last,
  g_cv_sum_next sum_t last == sum_t + last /\
  g_cv_loop_target tout sum_t last - g_cv_loop_tstart tout sum_t last == tout - g_cv_sum_next sum_t last /\
  g_cv_loop_tstart tout sum_t last == 0 /\
  g_cv_tout_next tout sum_t last == tout.
Proof. exact pass_shape. Qed.
Print Assumptions cvode_continuation_asks_for_remaining_time.

(* the continuation starts from cvode_last_good_y (factor 1), with cvode_last_good_time reset to 0 and CVODE's t0 = tstart *)
Theorem cvode_continuation_restart_state :
  g_cv_restart_from_last_good = true /\ g_cv_restart_factor == 1 /\
  (forall tout sum_t last, g_cv_last_good_reset tout sum_t last == 0) /\
  (forall k, g_cv_first_t0 k == g_cv_first_tstart k) /\ (forall a b c, g_cv_loop_t0 a b c == g_cv_loop_tstart a b c).
Proof. exact restart_shape. Qed.
Print Assumptions cvode_continuation_restart_state.

(* ---- kinetic time handed to the cells by one transport step (Phreeqc::transport) -------------------------- *)

(* advection, forward or backward, any number nmix of dispersive mixing runs, any boundary conditions, any column length:
   every cell c of the column - the inflow cell with its two half steps included - receives exactly timest per shift *)
Theorem transport_advective_step_integrates_timest : forall ishift nmix cells bcf bcl timest c,
  ishift <> 0%Z -> (0 <= nmix)%Z -> (1 <= c <= cells)%Z ->
  exists t, cell_time ishift nmix cells bcf bcl true timest c = Some t /\ t == timest.
Proof. exact advective_step_integrates_timest. Qed.
Print Assumptions transport_advective_step_integrates_timest.

(* diffusion only: the nmix >= 1 mixing runs of one diffusion period add up to timest *)
Theorem transport_diffusive_step_integrates_timest : forall nmix cells bcf bcl has_kin timest c,
  (1 <= nmix)%Z ->
  exists t, cell_time 0 nmix cells bcf bcl has_kin timest c = Some t /\ t == timest.
Proof. exact diffusive_step_integrates_timest. Qed.
Print Assumptions transport_diffusive_step_integrates_timest.

(* the two mixing loops together make exactly nmix runs, whatever the boundary conditions (the counter is never used uninitialised) *)
Theorem transport_mixing_runs_total : forall ishift bcf bcl nmix, (0 <= nmix)%Z -> mixruns (g_tr_b_c ishift bcf bcl) nmix = Some nmix.
Proof. exact mixruns_total. Qed.
Print Assumptions transport_mixing_runs_total.

(* the loop over cells after the shift: cell c gets half a step iff it is the inflow cell of a column with more than one cell,
   a whole step otherwise (induction over the cells, the loop-carried kin_time is restored after the inflow cell) *)
Theorem transport_cell_loop_times : forall fc n kt save c, kt == save -> (1 <= c <= n)%Z ->
  adv_time fc n kt save c == if Z.eqb c fc && Z.ltb 1 n then save / 2 else save.
Proof. exact adv_time_spec. Qed.
Print Assumptions transport_cell_loop_times.

(* ---- time bookkeeping ---------------------------------------------------------------------------- *)
Theorem current_step_matches_spec : forall steps cnt eq inc n,
  g_current_step steps cnt eq inc n == current_step_spec steps cnt eq inc n.
Proof. exact gen_step_matches_spec. Qed.
Print Assumptions current_step_matches_spec.

(* "T in N steps": after j incremental steps the elapsed time is the cumulative time of step j, for all j N T *)
Theorem time_division_equal_increments : forall (s0 : Q) (rest : list Q) (cnt : Z), (0 < cnt)%Z -> forall j : nat,
  elapsed_incremental (current_step_spec (s0 :: rest) cnt true true) j ==
  current_step_spec (s0 :: rest) cnt true false (Z.of_nat j).
Proof. exact equal_increments_consistent. Qed.
Print Assumptions time_division_equal_increments.

(* explicit step list: increments run incrementally reach the running totals run cumulatively *)
Theorem time_division_step_list : forall (L : list Q) cnt cnt' (j : nat), (1 <= j <= length L)%nat ->
  elapsed_incremental (current_step_spec L cnt false true) j ==
  current_step_spec (psums L) cnt' false false (Z.of_nat j).
Proof. exact step_list_consistent. Qed.
Print Assumptions time_division_step_list.

(* ---- transfer to the solution and non-negativity --------------------------------------------------- *)
Theorem transfer_is_formula_times_delta : forall comps elt,
  Forall no_tiny comps ->
  totals_of (final_reaction comps) elt ==
  - qsum_list (map (fun p => coef_of (kc_formula (fst p)) elt * (kc_m (snd p) - kc_m (fst p)))
                   (combine comps (apply_reaction comps))).
Proof. exact transfer_formula_delta. Qed.
Print Assumptions transfer_is_formula_times_delta.

Theorem reactants_never_negative : forall comps, Forall (fun c => 0 <= kc_m c) (apply_reaction comps).
Proof. exact apply_reaction_nonneg_all. Qed.
Print Assumptions reactants_never_negative.

(* ---- closed forms and the verified checker --------------------------------------------------------- *)
Open Scope R_scope.

Theorem closed_form_checker_sound : forall cf t reported bound,
  check_closed cf t reported bound = true -> Rabs (Q2R reported - cf_R cf (Q2R t)) <= Q2R bound.
Proof. exact check_closed_sound. Qed.
Print Assumptions closed_form_checker_sound.

Theorem agreement_checker_sound : forall a b bound, check_agree a b bound = true -> (Qabs (a - b) <= bound)%Q.
Proof. exact check_agree_sound. Qed.
Print Assumptions agreement_checker_sound.

Theorem first_order_closed_form : forall m0 k t,
  derivable_pt_lim (cf_R (cf_first m0 k)) t (- Q2R k * cf_R (cf_first m0 k) t) /\ cf_R (cf_first m0 k) 0 = Q2R m0.
Proof. exact first_order_solves. Qed.
Print Assumptions first_order_closed_form.

Theorem zero_order_closed_form : forall m0 r t,
  derivable_pt_lim (cf_R (cf_zero m0 r)) t (- Q2R r) /\ cf_R (cf_zero m0 r) 0 = Q2R m0.
Proof. exact zero_order_solves. Qed.
Print Assumptions zero_order_closed_form.

Theorem ramp_closed_form : forall m0 r0 r1 t,
  derivable_pt_lim (cf_R (cf_ramp m0 r0 r1)) t (- (Q2R r0 + Q2R r1 * t)) /\ cf_R (cf_ramp m0 r0 r1) 0 = Q2R m0.
Proof. exact ramp_solves. Qed.
Print Assumptions ramp_closed_form.

Theorem reversible_closed_form : forall a0 b0 k1 k2 t, ~ (k1 + k2 == 0)%Q ->
  let A := cf_R (cf_revA a0 b0 k1 k2) in let B := cf_R (cf_revB a0 b0 k1 k2) in
  derivable_pt_lim A t (- Q2R k1 * A t + Q2R k2 * B t) /\
  derivable_pt_lim B t (Q2R k1 * A t - Q2R k2 * B t) /\
  A 0 = Q2R a0 /\ B 0 = Q2R b0.
Proof. exact reversible_solves. Qed.
Print Assumptions reversible_closed_form.

Theorem chain_closed_form : forall a0 b0 k1 k2 t, ~ (k2 - k1 == 0)%Q ->
  let A := cf_R (cf_first a0 k1) in let B := cf_R (cf_chainB a0 b0 k1 k2) in
  derivable_pt_lim B t (Q2R k1 * A t - Q2R k2 * B t) /\ B 0 = Q2R b0.
Proof. exact chain_solves. Qed.
Print Assumptions chain_closed_form.

(* rate k0*M0 + k1*M where M0 is the user-defined -m0 (constant for the life of the reactant) and m the amount the
   integration starts from (may differ from m0: -m, later incremental steps / shifts, re-used KINETICS) *)
Theorem m0_dependent_closed_form : forall m0 m k0 k1 t, ~ (k1 == 0)%Q ->
  let M := cf_R (cf_m0dep m0 m k0 k1) in
  derivable_pt_lim M t (- (Q2R k0 * Q2R m0 + Q2R k1 * M t)) /\ M 0 = Q2R m.
Proof. exact m0dep_solves. Qed.
Print Assumptions m0_dependent_closed_form.

(* ---- what the rate program sees (calc_kinetic_reaction copies + PBasic::factor reads, both regenerated) -------------- *)
Close Scope R_scope.
From Coq Require Import String.
Open Scope string_scope.

(* for every history of a reactant (set_initial_moles / integrations in any order and number: later incremental steps, shifts,
   re-used KINETICS, RUN_CELLS) the BASIC function M0 returns the user-defined -m0, M the current amount, TIME the time step *)
Theorem rate_program_sees_user_m0 : forall ops c ts,
  let now := history c ops in
  basic_value g_rate_bind g_basic_reads now ts "tokm0" = Some (r_m0 c) /\
  basic_value g_rate_bind g_basic_reads now ts "tokm" = Some (r_m now) /\
  basic_value g_rate_bind g_basic_reads now ts "toktime" = Some ts.
Proof. exact rate_program_sees. Qed.
Print Assumptions rate_program_sees_user_m0.

Theorem rate_program_reads_own_parameters :
  lookup "tokparm" g_basic_reads = Some ["count_rate_p"; "rate_p"] /\
  lookup "rate_p" g_rate_bind = Some (FromComp "Get_d_params") /\
  lookup "count_rate_p" g_rate_bind = Some (SizeOf "Get_d_params").
Proof. exact rate_program_parameters. Qed.
Print Assumptions rate_program_reads_own_parameters.

(* the exhaustion clamp of calc_final_kinetic_reaction compares with and clamps to the amount at the start of the current
   Runge-Kutta sub-step - the array rk_kinetics subtracts the delivered moles from and refreshes at every sub-step attempt -
   which is what Transfer.v models with the single field kc_m (transfer_is_formula_times_delta, reactants_never_negative) *)
Theorem exhaustion_clamp_uses_substep_amount :
  forallb (String.eqb g_clamp_cmp) g_update_bases = true /\ g_update_bases <> [] /\ g_clamp_set = g_clamp_cmp /\
  g_substep_snapshots = [g_clamp_cmp] /\ (g_clamp_m == 0)%Q.
Proof. exact clamp_tie. Qed.
Print Assumptions exhaustion_clamp_uses_substep_amount.
