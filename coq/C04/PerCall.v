(** C04 — per-call state of the engine.
    IPhreeqc::do_run re-initialises exactly two engine variables at the start of every call: the simulation counter
    [simulation] (restarts at 1) and the flag [first_read_input].  A result can differ between one call and a split
    delivery of the same text only through a READ of one of them (or through the wrapper's own "first simulation of the
    call" branch, which Run.v models as the [first] argument of [sim]).  The translator lists every such read
    (Gen/Gen_C04.v); each must be one of the sites reviewed here, together with the channel it feeds.  None of the
    channels is part of the compared result data of C04 (sim column and "after simulation N" descriptions are masked,
    SIM_NO is the documented BASIC read-out of the counter, status/chart are not results, the DATABASE diagnostic
    only concerns inputs that are not error-free in one call). *)
From Coq Require Import List String Bool.
Import ListNotations.
Local Open Scope string_scope.

Inductive channel :=
| WrapperFirstFlag      (* IPhreeqc::do_run: forces heading re-emission; the [first] flag of Run.sim *)
| SimColumn             (* the "sim" column of selected output: the counter itself, masked in comparisons *)
| Description           (* "... after simulation N." descriptions of saved entities, masked in comparisons *)
| BasicSimNo            (* BASIC SIM_NO: documented read-out of the counter *)
| ChartOnly             (* USER_GRAPH bookkeeping (not compiled into the library's result channels) *)
| StatusLine            (* screen status line *)
| StandaloneMain        (* Phreeqc::run_simulations: the stand-alone main loop, not used by IPhreeqc *)
| CopyConstructor       (* Phreeqc::InternalCopy copies the fields *)
| DatabaseReadOnly      (* simulation == 0 holds only while the database is read *)
| DatabaseKeywordDiag.  (* DATABASE not first keyword: error in one call; only inputs that are not error-free *)

Definition reviewed : list (string * string * channel) :=
  [ ("IPhreeqc::do_run", "simulation", WrapperFirstFlag);
    ("PBasic::cmdplot_xy", "simulation", ChartOnly);
    ("PBasic::factor", "simulation", BasicSimNo);
    ("Phreeqc::InternalCopy", "first_read_input", CopyConstructor);
    ("Phreeqc::InternalCopy", "simulation", CopyConstructor);
    ("Phreeqc::mobile_surface_copy", "simulation", Description);
    ("Phreeqc::punch_identifiers", "simulation", SimColumn);
    ("Phreeqc::punch_user_graph", "simulation", ChartOnly);
    ("Phreeqc::read_input", "first_read_input", DatabaseKeywordDiag);
    ("Phreeqc::run_simulations", "simulation", StandaloneMain);
    ("Phreeqc::saver", "simulation", Description);
    ("Phreeqc::status", "simulation", StatusLine);
    ("Phreeqc::tidy_model", "simulation", DatabaseReadOnly);
    ("Phreeqc::xexchange_save", "simulation", Description);
    ("Phreeqc::xgas_save", "simulation", Description);
    ("Phreeqc::xpp_assemblage_save", "simulation", Description);
    ("Phreeqc::xss_assemblage_save", "simulation", Description) ].

Definition site_eqb (a b : string * string) : bool := String.eqb (fst a) (fst b) && String.eqb (snd a) (snd b).

Definition site_reviewed (s : string * string) : bool := existsb (fun r => site_eqb s (fst r)) reviewed.

Fixpoint strs_eqb (a b : list string) : bool :=
  match a, b with
  | [], [] => true
  | x :: a', y :: b' => String.eqb x y && strs_eqb a' b'
  | _, _ => false
  end.

(** the obligation: do_run re-initialises exactly the two known variables, and every read of them is a reviewed site *)
Definition percall_reads_reviewed (vars : list string) (reads : list (string * string)) : bool :=
  strs_eqb vars ["first_read_input"; "simulation"] && forallb site_reviewed reads.

Lemma strs_eqb_eq : forall a b, strs_eqb a b = true -> a = b.
Proof.
  induction a as [|x a IH]; intros [|y b] H; simpl in H; try discriminate; [reflexivity|].
  apply andb_prop in H. destruct H as [H1 H2]. apply String.eqb_eq in H1. subst. f_equal. apply IH. exact H2.
Qed.

Lemma percall_obligation_sound : forall vars reads, percall_reads_reviewed vars reads = true ->
  vars = ["first_read_input"; "simulation"] /\
  forall fn v, In (fn, v) reads -> exists c, In (fn, v, c) reviewed.
Proof.
  intros vars reads H. unfold percall_reads_reviewed in H. apply andb_prop in H. destruct H as [Hv Hr].
  split; [apply strs_eqb_eq; exact Hv|].
  intros fn v Hin. rewrite forallb_forall in Hr. specialize (Hr _ Hin).
  unfold site_reviewed in Hr. apply existsb_exists in Hr. destruct Hr as [[[f' v'] c] [Hin' He]].
  unfold site_eqb in He. simpl in He. apply andb_prop in He. destruct He as [H1 H2].
  apply String.eqb_eq in H1. apply String.eqb_eq in H2. subst. exists c. exact Hin'.
Qed.
