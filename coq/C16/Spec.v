(* C16 — specification: the textbook activity-coefficient models of the ion-association
   databases, as plain real functions (log10 gamma), and the water-activity / osmotic-coefficient
   relation.  Nothing here depends on the C++ sources. *)
From Coq Require Import Reals Lra.
Local Open Scope R_scope.

Definition log10 (x : R) : R := ln x / ln 10.

(* Davies:  log g = -A z^2 ( sqrt I / (1 + sqrt I) - 0.3 I ) *)
Definition davies (A z I : R) : R := - A * (z * z) * (sqrt I / (1 + sqrt I) - 0.3 * I).

(* extended / WATEQ (Truesdell-Jones) Debye-Hueckel with ion-size a0 and b:
   log g = -A z^2 sqrt I / (1 + a0 B sqrt I) + b I *)
Definition ext_dh (A B z a0 b I : R) : R := - A * (z * z) * sqrt I / (1 + a0 * B * sqrt I) + b * I.

(* B-dot (LLNL / EQ3-6): the same form with the temperature-interpolated A, B and the global Bdot *)
Definition bdot_dh (A B bdot z a0 I : R) : R := ext_dh A B z a0 bdot I.

(* neutral species, Setchenow form  log g = b I   (default b = 0.1) *)
Definition neutral_lin (b I : R) : R := b * I.

(* LLNL CO2 (Drummond 1981):  ln g = (C0 + C1 T + C2/T) I - (C3 + C4 T) I/(I+1) ;  log g = ln g / ln 10 *)
Definition co2_drummond (c0 c1 c2 c3 c4 T I : R) : R :=
  ((c0 + c1 * T + c2 / T) * I - (c3 + c4 * T) * (I / (I + 1))) / ln 10.

(* isotopic water species (HDO, D2O, H2[18O] ...; -activity_water): their activity is
   a_w * (molality / (1/M_w)), i.e. gamma = a_w * M_w :  log g = log a_w + log10 M_w *)
Definition water_isotope (la_w gfw : R) : R := la_w + log10 gfw.

(* water activity from the osmotic coefficient phi and the sum of solute molalities *)
Definition M_w : R := 100000 / 5550837.          (* kg/mol: 1 / 55.50837 *)
Definition water_activity (phi summ : R) : R := exp (- M_w * phi * summ).

Lemma ln10_pos : 0 < ln 10.
Proof. rewrite <- ln_1. apply ln_increasing; lra. Qed.

Lemma one_plus_sqrt_pos : forall I, 0 < 1 + sqrt I.
Proof. intros I. pose proof (sqrt_pos I). lra. Qed.

Lemma dh_den_pos : forall a0 B I, 0 <= a0 -> 0 <= B -> 0 < 1 + a0 * B * sqrt I.
Proof.
  intros a0 B I Ha HB. pose proof (sqrt_pos I).
  assert (0 <= a0 * B * sqrt I) by (apply Rmult_le_pos; [apply Rmult_le_pos|]; assumption). lra.
Qed.

(* sanity: every model tends to the Debye-Hueckel limiting law / to 0 at I = 0 *)
Lemma davies_0 : forall A z, davies A z 0 = 0.
Proof. intros. unfold davies. rewrite sqrt_0. field. Qed.
Lemma ext_dh_0 : forall A B z a0 b, ext_dh A B z a0 b 0 = 0.
Proof. intros. unfold ext_dh. rewrite sqrt_0. field_simplify; lra. Qed.
