(* C16 — water activity assignment of pitzer() and sit() (split from GammaProofs.v so that independent regions fail independently). *)
From Coq Require Import Reals QArith Qreals List String Lra.
From Coquelicot Require Import Coquelicot.
From IPV Require Import Base.RExpr C16.Spec Gen.Gen_C16_gammas Gen.Gen_C16_aw.
Import ListNotations.
Local Open Scope R_scope.
Local Open Scope string_scope.

Ltac ev := unfold_evalR.

(* ---- Pitzer and SIT: the water activity is exp(-M_w * phi * sum m) with M_w = 1/55.50837 kg/mol *)
Lemma aw_is_water_activity : forall osum phi,
  evalR (env_of [osum; phi]) pitzer_AW = water_activity phi osum /\
  evalR (env_of [osum; phi]) sit_AW = water_activity phi osum.
Proof.
  intros. unfold pitzer_AW, sit_AW, water_activity, M_w. split; ev; f_equal; field.
Qed.
Lemma aw_table : pitzer_AW_vars = ["OSUM"; "COSMOT"] /\ sit_AW_vars = ["OSUM"; "COSMOT"] /\
  pitzer_AW_conds = [] /\ sit_AW_conds = [].
Proof. repeat split; reflexivity. Qed.
