(* C16 — dg terms of Phreeqc::gammas are moles * d(ln gamma)/d(mu) (split from GammaProofs.v so that independent regions fail independently). *)
From Coq Require Import Reals QArith Qreals List String Lra.
From Coquelicot Require Import Coquelicot.
From IPV Require Import Base.RExpr C16.Spec Gen.Gen_C16_gammas Gen.Gen_C16_aw.
Import ListNotations.
Local Open Scope R_scope.
Local Open Scope string_scope.

Ltac ev := unfold_evalR.

(* ---- dg = moles * d(ln gamma)/d mu   (ln gamma = ln 10 * log gamma); these feed the Jacobian *)
Ltac dsolve :=
  auto_derive;
  try (field; repeat split; lra);
  try (repeat split; first [assumption | lra | exact Logic.I]).

Lemma g0_dg_is_derivative : forall b I moles,
  is_derive (fun x => moles * (ln 10 * neutral_lin b x)) I (evalR (env_of [b; ln 10; moles]) g0_dg).
Proof.
  intros b I moles. unfold g0_dg, neutral_lin. ev. dsolve.
Qed.

Lemma g1_dg_is_derivative : forall z A I moles, 0 < I ->
  is_derive (fun x => moles * (ln 10 * davies A z x)) I (evalR (env_of [z; A; I; ln 10; moles]) g1_dg).
Proof.
  intros z A I moles HI. unfold g1_dg, davies. ev.
  pose proof (sqrt_lt_R0 I HI) as Hs. dsolve.
Qed.

Lemma g2_dg_is_derivative : forall z A B a0 b I moles, 0 < I -> 0 <= a0 -> 0 <= B ->
  is_derive (fun x => moles * (ln 10 * ext_dh A B z a0 b x)) I
            (evalR (env_of [z; A; B; a0; b; I; ln 10; moles]) g2_dg).
Proof.
  intros z A B a0 b I moles HI Ha HB. unfold g2_dg, ext_dh. ev.
  pose proof (sqrt_lt_R0 I HI) as Hs. pose proof (dh_den_pos a0 B I Ha HB) as Hd. dsolve.
Qed.

Lemma g7_dg_is_derivative : forall z A B bdot a0 I moles, 0 < I -> 0 <= a0 -> 0 <= B ->
  is_derive (fun x => moles * (ln 10 * bdot_dh A B bdot z a0 x)) I
            (evalR (env_of [z; A; B; bdot; a0; I; ln 10; moles]) g7_dg).
Proof.
  intros z A B bdot a0 I moles HI Ha HB. unfold g7_dg, bdot_dh, ext_dh. ev.
  pose proof (sqrt_lt_R0 I HI) as Hs. pose proof (dh_den_pos a0 B I Ha HB) as Hd. dsolve.
Qed.

Lemma g8_dg_is_derivative : forall c0 c1 c2 c3 c4 T I moles, 0 <= I -> T <> 0 ->
  is_derive (fun x => moles * (ln 10 * co2_drummond c0 c1 c2 c3 c4 T x)) I
            (evalR (env_of [c0; c1; c2; c3; c4; T; I; moles]) g8_dg).
Proof.
  intros c0 c1 c2 c3 c4 T I moles HI HT. unfold g8_dg, co2_drummond. ev.
  pose proof ln10_pos. dsolve.
Qed.
Lemma dg_table :
  g0_dg_vars = ["s_x[i]->dhb"; "LOG_10"; "s_x[i]->moles"] /\
  g1_dg_vars = ["s_x[i]->z"; "DH_A"; "mu"; "LOG_10"; "s_x[i]->moles"] /\
  g2_dg_vars = ["s_x[i]->z"; "DH_A"; "DH_B"; "s_x[i]->dha"; "s_x[i]->dhb"; "mu"; "LOG_10"; "s_x[i]->moles"] /\
  g7_dg_vars = ["s_x[i]->z"; "a_llnl"; "b_llnl"; "bdot_llnl"; "s_x[i]->dha"; "mu"; "LOG_10"; "s_x[i]->moles"] /\
  g8_dg_vars = ["llnl_co2_coefs[0]"; "llnl_co2_coefs[1]"; "llnl_co2_coefs[2]"; "llnl_co2_coefs[3]"; "llnl_co2_coefs[4]"; "tk_x"; "mu"; "s_x[i]->moles"].
Proof. repeat split; reflexivity. Qed.

