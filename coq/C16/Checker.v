(* C16 — executable verified checkers applied to what the implementation REPORTS
   (USER_PUNCH LG / MU / DH_A / DH_B / DH_BDOT / TK / LA("H2O") / OSMOTIC / MOL with -high_precision; every double is
   transmitted as its exact dyadic rational).  Independent of the generated files: when a regenerated
   formula no longer proves, these checkers still run and look for a concrete failing input.

   check_gamma  m o          : |LG - model m at the reported MU, A, B, ...| <= 1e-9        (interval arithmetic)
   check_aw     aw phi summ  : |a_w - exp(-M_w phi sum m)| <= 1e-5                          (interval arithmetic)
   gd_check     sp lw0 lw1 t : discrete (trapezoid) Gibbs-Duhem residual of one path step, exact Q arithmetic *)
From Coq Require Import Reals ZArith QArith Qreals Qabs List Lra Bool.
From IPV Require Import Base.RExpr Base.IntervalEval C16.Spec.
Import ListNotations.

(* the model the database assigns to a species, with its parameters (parsed from the database text) *)
Inductive gmodel : Type :=
| GNeutral  (b : Q)                       (* z = 0, default b = 0.1, or -gamma x b with z = 0 *)
| GDavies   (z : Q)
| GExtDH    (z a0 b : Q)                  (* -gamma a0 b *)
| GOne                                    (* e-, H2O, neutral species with -llnl_gamma *)
| GBdot     (z a0 : Q)                    (* -llnl_gamma a0, z <> 0 *)
| GCO2      (c0 c1 c2 c3 c4 : Q)          (* -co2_llnl_gamma with the database's -co2_coefs *)
| GWaterIso (gfw : Q).                    (* -activity_water *)

(* what the implementation reported for one species in one solution *)
Record obs : Type := mkObs {
  o_lg : Q;  o_mu : Q;  o_A : Q;  o_B : Q;  o_bdot : Q;  o_tk : Q;  o_law : Q }.

Definition obs_list (o : obs) : list Q := [o_lg o; o_mu o; o_A o; o_B o; o_bdot o; o_tk o; o_law o].
(* variable indices in obs_list *)
Definition vLG := Var 0. Definition vMU := Var 1. Definition vA := Var 2. Definition vB := Var 3.
Definition vBDOT := Var 4. Definition vTK := Var 5. Definition vLAW := Var 6.

Definition davies_expr (z : Q) : rexpr :=
  Mul (Mul (Neg vA) (Mul (Const z) (Const z)))
      (Sub (Div (Sqrt vMU) (Add (Const 1) (Sqrt vMU))) (Mul (Const (3 # 10)) vMU)).
Definition ext_dh_expr (A B : rexpr) (z a0 : Q) (b : rexpr) : rexpr :=
  Add (Div (Mul (Mul (Neg A) (Mul (Const z) (Const z))) (Sqrt vMU))
           (Add (Const 1) (Mul (Mul (Const a0) B) (Sqrt vMU))))
      (Mul b vMU).

Definition spec_expr (m : gmodel) : rexpr :=
  match m with
  | GNeutral b => Mul (Const b) vMU
  | GDavies z => davies_expr z
  | GExtDH z a0 b => ext_dh_expr vA vB z a0 (Const b)
  | GOne => Const 0
  | GBdot z a0 => ext_dh_expr vA vB z a0 vBDOT
  | GCO2 c0 c1 c2 c3 c4 =>
      Div (Sub (Mul (Add (Add (Const c0) (Mul (Const c1) vTK)) (Div (Const c2) vTK)) vMU)
               (Mul (Add (Const c3) (Mul (Const c4) vTK)) (Div vMU (Add vMU (Const 1)))))
          (Ln (Const 10))
  | GWaterIso gfw => Add vLAW (Log10 (Const gfw))
  end.

(* the textbook value (C16/Spec.v) at the reported ionic strength and Debye-Hueckel constants *)
Definition spec_R (m : gmodel) (o : obs) : R :=
  let I := Q2R (o_mu o) in let A := Q2R (o_A o) in let B := Q2R (o_B o) in
  match m with
  | GNeutral b => neutral_lin (Q2R b) I
  | GDavies z => davies A (Q2R z) I
  | GExtDH z a0 b => ext_dh A B (Q2R z) (Q2R a0) (Q2R b) I
  | GOne => 0%R
  | GBdot z a0 => bdot_dh A B (Q2R (o_bdot o)) (Q2R z) (Q2R a0) I
  | GCO2 c0 c1 c2 c3 c4 => co2_drummond (Q2R c0) (Q2R c1) (Q2R c2) (Q2R c3) (Q2R c4) (Q2R (o_tk o)) I
  | GWaterIso gfw => water_isotope (Q2R (o_law o)) (Q2R gfw)
  end.

Definition tol_gamma : Q := 1 # 1000000000.
Definition tol_aw : Q := 1 # 100000.

Definition check_gamma (m : gmodel) (o : obs) : bool :=
  check_eq_within_Q prec80 (obs_list o) vLG (spec_expr m) tol_gamma.

Lemma Q2R_0' : Q2R 0 = 0%R. Proof. apply RMicromega.Q2R_0. Qed.
Lemma Q2R_1' : Q2R 1 = 1%R. Proof. apply RMicromega.Q2R_1. Qed.
Lemma Q2R_3_10 : Q2R (3 # 10) = (3 / 10)%R. Proof. reflexivity. Qed.
Lemma Q2R_10 : Q2R 10 = 10%R. Proof. unfold Q2R; simpl. lra. Qed.

Lemma spec_expr_correct : forall m o,
  evalR (env_of_Q (obs_list o)) (spec_expr m) = spec_R m o.
Proof.
  intros m [lg mu A B bdot tk law]; destruct m; unfold spec_R, spec_expr, davies_expr, ext_dh_expr;
    cbv [evalR env_of_Q obs_list nth vLG vMU vA vB vBDOT vTK vLAW o_lg o_mu o_A o_B o_bdot o_tk o_law];
    rewrite ?Q2R_0', ?Q2R_1', ?Q2R_3_10, ?Q2R_10;
    unfold neutral_lin, davies, bdot_dh, ext_dh, co2_drummond, water_isotope, log10.
  all: reflexivity.
Qed.

(* Soundness: an accepted species satisfies the property's relation at 1e-9 (in exact real arithmetic). *)
Theorem check_gamma_sound : forall m o, check_gamma m o = true ->
  (Rabs (Q2R (o_lg o) - spec_R m o) <= / 1000000000)%R.
Proof.
  intros m o H. unfold check_gamma in H. apply check_eq_within_Q_sound in H.
  rewrite spec_expr_correct in H.
  replace (evalR (env_of_Q (obs_list o)) vLG) with (Q2R (o_lg o)) in H by (destruct o; reflexivity).
  replace (Q2R tol_gamma) with (/ 1000000000)%R in H by (unfold tol_gamma, Q2R; simpl; lra).
  exact H.
Qed.

(* ---- water activity:  a_w = exp(-M_w * phi * sum m) *)
Definition aw_expr : rexpr := Exp (Neg (Div (Mul (Var 1) (Var 2)) (Const (5550837 # 100000)))).
Definition check_aw (aw phi summ : Q) : bool :=
  check_eq_within_Q prec80 [aw; phi; summ] (Var 0) aw_expr tol_aw.

Theorem check_aw_sound : forall aw phi summ, check_aw aw phi summ = true ->
  (Rabs (Q2R aw - water_activity (Q2R phi) (Q2R summ)) <= / 100000)%R.
Proof.
  intros aw phi summ H. unfold check_aw in H. apply check_eq_within_Q_sound in H.
  cbv [evalR env_of_Q nth aw_expr] in H.
  replace (Q2R tol_aw) with (/ 100000)%R in H by (unfold tol_aw, Q2R; simpl; lra).
  unfold water_activity, M_w.
  replace (- (100000 / 5550837) * Q2R phi * Q2R summ)%R with (- (Q2R phi * Q2R summ / Q2R (5550837 # 100000)))%R.
  - exact H.
  - unfold Q2R at 3; simpl. field.
Qed.

(* ---- discrete Gibbs-Duhem along one step of a composition path (exact rational arithmetic).
   For every solute species s: molalities m0, m1 and log10-activities l0, l1 at the two ends of the step; for water the
   log10-activities lw0, lw1.  At constant T, P Gibbs-Duhem reads  sum_s m_s d ln a_s + (1/M_w) d ln a_w = 0; its
   trapezoid discretisation (divided by ln 10) is gd_residual. *)
Definition W : Q := 5550837 # 100000.      (* mol of water per kg *)
Definition gd_term (x : Q * Q * Q * Q) : Q := let '(m0, m1, l0, l1) := x in (m0 + m1) / 2 * (l1 - l0).
Definition gd_solute (sp : list (Q * Q * Q * Q)) : Q := fold_right (fun x acc => gd_term x + acc) 0 sp.
Definition gd_water (lw0 lw1 : Q) : Q := W * (lw1 - lw0).
Definition gd_residual (sp : list (Q * Q * Q * Q)) (lw0 lw1 : Q) : Q := gd_solute sp + gd_water lw0 lw1.
(* "relative": w.r.t. the mean size of the two sides that have to balance, measured term by term:
   (sum_s |solute term_s| + |water term|) / 2   (robust also on mixing paths where the water term is tiny) *)
Definition gd_scale (sp : list (Q * Q * Q * Q)) (lw0 lw1 : Q) : Q :=
  (fold_right (fun x acc => Qabs (gd_term x) + acc) 0 sp + Qabs (gd_water lw0 lw1)) / 2.
Definition gd_check (sp : list (Q * Q * Q * Q)) (lw0 lw1 tol : Q) : bool :=
  Qle_bool (Qabs (gd_residual sp lw0 lw1)) (tol * gd_scale sp lw0 lw1).

Theorem gd_check_sound : forall sp lw0 lw1 tol, gd_check sp lw0 lw1 tol = true ->
  Qabs (gd_solute sp + gd_water lw0 lw1) <= tol * gd_scale sp lw0 lw1.
Proof. intros sp lw0 lw1 tol H. apply Qle_bool_iff in H. exact H. Qed.

(* The residual does not depend on the single-ion activity convention: shifting every log-activity by
   z_s * d (MacInnes scaling: d0 at one end, d1 at the other) leaves it unchanged when both end
   points are electroneutral.  (So the check may use the conventional single-ion values.) *)
Definition shift (d0 d1 : Q) (xz : (Q * Q * Q * Q) * Q) : Q * Q * Q * Q :=
  let '((m0, m1, l0, l1), z) := xz in (m0, m1, l0 + z * d0, l1 + z * d1).
Definition charge0 (spz : list ((Q * Q * Q * Q) * Q)) : Q :=
  fold_right (fun xz acc => let '((m0, _, _, _), z) := xz in m0 * z + acc) 0 spz.
Definition charge1 (spz : list ((Q * Q * Q * Q) * Q)) : Q :=
  fold_right (fun xz acc => let '((_, m1, _, _), z) := xz in m1 * z + acc) 0 spz.

Lemma gd_solute_shift : forall d0 d1 spz,
  gd_solute (map (shift d0 d1) spz) == gd_solute (map fst spz) + (charge0 spz + charge1 spz) / 2 * (d1 - d0).
Proof.
  intros d0 d1 spz. unfold gd_solute. induction spz as [|[[[[m0 m1] l0] l1] z] spz IH]; simpl.
  - field.
  - rewrite IH. set (S := fold_right _ _ (map fst spz)). field.
Qed.

Theorem gd_residual_convention_invariant : forall d0 d1 spz lw0 lw1,
  charge0 spz == 0 -> charge1 spz == 0 ->
  gd_residual (map (shift d0 d1) spz) lw0 lw1 == gd_residual (map fst spz) lw0 lw1.
Proof.
  intros d0 d1 spz lw0 lw1 H0 H1. unfold gd_residual. rewrite gd_solute_shift, H0, H1. field.
Qed.


(* ---- LLNL-type databases: A, B, Bdot taken from the DATABASE TEXT (LLNL_AQUEOUS_MODEL_PARAMETERS grid), interpolated
   linearly in exact rational arithmetic at the reported temperature, instead of from the engine's DH_A/DH_B/DH_BDOT
   read-outs (which would repeat an interpolation mistake of the engine consistently). *)
Definition linQ (t t0 t1 p0 p1 : Q) : Q := p0 + (p1 - p0) * (t - t0) / (t1 - t0).

Lemma linQ_correct : forall t t0 t1 p0 p1, ~ t0 == t1 ->
  Q2R (linQ t t0 t1 p0 p1) = (Q2R p0 + (Q2R p1 - Q2R p0) * (Q2R t - Q2R t0) / (Q2R t1 - Q2R t0))%R.
Proof.
  intros t t0 t1 p0 p1 Hne. unfold linQ.
  assert (Hd : ~ t1 - t0 == 0).
  { intro H. apply Hne. assert (E : t1 == (t1 - t0) + t0) by ring. rewrite E, H. ring. }
  rewrite Q2R_plus, Q2R_div by exact Hd. rewrite Q2R_mult, !Q2R_minus. reflexivity.
Qed.

(* the two grid temperatures bracketing the solution temperature and the grid values of A, B, Bdot there *)
Record bracket : Type := mkBr { g_t0 : Q; g_t1 : Q; g_a0 : Q; g_a1 : Q; g_b0 : Q; g_b1 : Q; g_d0 : Q; g_d1 : Q }.

Definition obs_llnl (lg mu tc tk law : Q) (br : bracket) : obs :=
  mkObs lg mu (linQ tc (g_t0 br) (g_t1 br) (g_a0 br) (g_a1 br)) (linQ tc (g_t0 br) (g_t1 br) (g_b0 br) (g_b1 br))
        (linQ tc (g_t0 br) (g_t1 br) (g_d0 br) (g_d1 br)) tk law.

Definition check_gamma_llnl (m : gmodel) (lg mu tc tk law : Q) (br : bracket) : bool :=
  negb (Qeq_bool (g_t0 br) (g_t1 br)) && check_gamma m (obs_llnl lg mu tc tk law br).

Definition interpR (t t0 t1 p0 p1 : R) : R := (p0 + (p1 - p0) * (t - t0) / (t1 - t0))%R.

Theorem check_gamma_llnl_sound : forall z a0 lg mu tc tk law br,
  check_gamma_llnl (GBdot z a0) lg mu tc tk law br = true ->
  let T := Q2R tc in let T0 := Q2R (g_t0 br) in let T1 := Q2R (g_t1 br) in
  (Rabs (Q2R lg - bdot_dh (interpR T T0 T1 (Q2R (g_a0 br)) (Q2R (g_a1 br)))
                          (interpR T T0 T1 (Q2R (g_b0 br)) (Q2R (g_b1 br)))
                          (interpR T T0 T1 (Q2R (g_d0 br)) (Q2R (g_d1 br)))
                          (Q2R z) (Q2R a0) (Q2R mu)) <= / 1000000000)%R.
Proof.
  intros z a0 lg mu tc tk law br H T T0 T1. unfold check_gamma_llnl in H.
  apply andb_prop in H. destruct H as [Hne H].
  assert (Hne' : ~ g_t0 br == g_t1 br).
  { intro E. apply Qeq_bool_iff in E. rewrite E in Hne. discriminate. }
  apply check_gamma_sound in H. unfold spec_R, obs_llnl in H. simpl in H.
  rewrite !linQ_correct in H by exact Hne'. exact H.
Qed.

Example check_gamma_llnl_example :   (* 40 C between the 25 and 60 C grid points of llnl.dat, Na+-like ion at I = 0.1 *)
  check_gamma_llnl (GBdot 1 4) ((-113095249398) # 1000000000000) (1 # 10) 40 (31315 # 100) 0
    (mkBr 25 60 (5114 # 10000) (5465 # 10000) (3288 # 10000) (3346 # 10000) (41 # 1000) (438 # 10000)) = true.
Proof. vm_compute. reflexivity. Qed.

(* non-vacuity / self-test *)
Example check_gamma_example :
  check_gamma (GDavies 2) (mkObs ((-428916269638) # 1000000000000) (1 # 10) (51 # 100) (33 # 100) 0 (29815 # 100) 0) = true.
Proof. vm_compute. reflexivity. Qed.
Example check_gamma_rejects :
  check_gamma (GDavies 2) (mkObs ((-428916) # 1000000) (1 # 10) (51 # 100) (33 # 100) 0 (29815 # 100) 0) = false.
Proof. vm_compute. reflexivity. Qed.
Example check_aw_example : check_aw (98215 # 100000) (1 # 1) (1 # 1) = true.
Proof. vm_compute. reflexivity. Qed.
Example gd_check_example :   (* m: 1 -> 1.01 with la rising by 0.004, water la falling by 0.004*1.005/W *)
  gd_check [(1, 101 # 100, 0, 4 # 1000)] 0 (- (402 # 100000) / W) (1 # 10000) = true.
Proof. vm_compute. reflexivity. Qed.
Example gd_check_rejects :
  gd_check [(1, 101 # 100, 0, 4 # 1000)] 0 (- (403 # 100000) / W) (1 # 10000) = false.
Proof. vm_compute. reflexivity. Qed.
