(* C16 — LLNL temperature interpolation of A, B, Bdot (split from GammaProofs.v so that independent regions fail independently). *)
From Coq Require Import Reals QArith Qreals List String Lra.
From Coquelicot Require Import Coquelicot.
From IPV Require Import Base.RExpr C16.Spec Gen.Gen_C16_gammas Gen.Gen_C16_aw.
Import ListNotations.
Local Open Scope R_scope.
Local Open Scope string_scope.

Ltac ev := unfold_evalR.

(* ---- LLNL temperature interpolation: linear between the two bracketing grid temperatures *)
Lemma llnl_interpolation : forall t t0 t1 p0 p1, t0 <> t1 ->
  let f := evalR (env_of [t; t0; t1]) llnl_f in
  evalR (env_of [f; p0; p1]) llnl_a = p0 + (p1 - p0) * (t - t0) / (t1 - t0) /\
  evalR (env_of [f; p0; p1]) llnl_b = p0 + (p1 - p0) * (t - t0) / (t1 - t0) /\
  evalR (env_of [f; p0; p1]) llnl_bdot = p0 + (p1 - p0) * (t - t0) / (t1 - t0).
Proof.
  intros t t0 t1 p0 p1 Hne f. unfold f, llnl_f, llnl_a, llnl_b, llnl_bdot.
  repeat split; ev; field; lra.
Qed.
Lemma llnl_table :
  llnl_f_vars = ["tc_x"; "llnl_temp[ifirst]"; "llnl_temp[ilast]"] /\
  llnl_a_vars = ["f"; "llnl_adh[ifirst]"; "llnl_adh[ilast]"] /\
  llnl_b_vars = ["f"; "llnl_bdh[ifirst]"; "llnl_bdh[ilast]"] /\
  llnl_bdot_vars = ["f"; "llnl_bdot[ifirst]"; "llnl_bdot[ilast]"].
Proof. repeat split; reflexivity. Qed.

