(* C16 — the regenerated right-hand sides of Phreeqc::gammas (coq/Gen/Gen_C16_gammas.v, rebuilt from
   /repo/src/phreeqcpp/model.cpp on every run) ARE the textbook models of C16/Spec.v, for all real
   arguments in the stated domain.  Every lemma also pins the variable table and the enclosing
   if-conditions of the extracted assignment (string equalities decided by computation), so that an
   extra operand or an added guard in the C++ cannot slip through. *)
From Coq Require Import Reals QArith Qreals List String Lra.
From Coquelicot Require Import Coquelicot.
From IPV Require Import Base.RExpr C16.Spec Gen.Gen_C16_gammas Gen.Gen_C16_aw.
Import ListNotations.
Local Open Scope R_scope.
Local Open Scope string_scope.

Ltac ev := unfold_evalR.

(* ---- the constant LOG_10 (data member, assigned once in Phreeqc::init) *)
Lemma LOG_10_is_ln10 : evalR (env_of []) init_LOG_10 = ln 10 /\ init_LOG_10_vars = [] /\ init_LOG_10_conds = [].
Proof. split; [|split; reflexivity]. unfold init_LOG_10. ev. f_equal. lra. Qed.

(* ---- shape of the switch: every gflag case assigns lg, and nothing assigns lg outside the switch *)
Lemma gammas_shape :
  gammas_lg_cases = ["0"; "1"; "2"; "3"; "4"; "5"; "6"; "7"; "8"; "9"] /\ gammas_lg_sites_outside_switch = 0%nat.
Proof. split; reflexivity. Qed.

(* ---- case 0: uncharged species, b I *)
Lemma g0_is_neutral : forall b I,
  evalR (env_of [b; I]) g0_lg = neutral_lin b I.
Proof. intros. unfold g0_lg, neutral_lin. ev. reflexivity. Qed.
Lemma g0_table : g0_lg_vars = ["s_x[i]->dhb"; "mu"] /\ g0_lg_conds = [].
Proof. split; reflexivity. Qed.

(* ---- case 1: Davies *)
Lemma g1_is_davies : forall z A I, 0 <= I ->
  evalR (env_of [z; A; I]) g1_lg = davies A z I.
Proof.
  intros z A I HI. unfold g1_lg, davies. ev. pose proof (one_plus_sqrt_pos I). field. lra.
Qed.
Lemma g1_table : g1_lg_vars = ["s_x[i]->z"; "DH_A"; "mu"] /\ g1_lg_conds = [].
Proof. split; reflexivity. Qed.

(* ---- case 2: extended / WATEQ Debye-Hueckel *)
Lemma g2_is_ext_dh : forall z A B a0 b I, 0 <= I -> 0 <= a0 -> 0 <= B ->
  evalR (env_of [z; A; B; a0; b; I]) g2_lg = ext_dh A B z a0 b I.
Proof.
  intros z A B a0 b I HI Ha HB. unfold g2_lg, ext_dh. ev.
  pose proof (dh_den_pos a0 B I Ha HB). field. lra.
Qed.
Lemma g2_table : g2_lg_vars = ["s_x[i]->z"; "DH_A"; "DH_B"; "s_x[i]->dha"; "s_x[i]->dhb"; "mu"] /\ g2_lg_conds = [].
Proof. split; reflexivity. Qed.

(* ---- cases 3 and 5: gamma = 1 (e-, H2O, ...) *)
Lemma g3_g5_are_zero : evalR (env_of []) g3_lg = 0 /\ evalR (env_of []) g5_lg = 0 /\
  g3_lg_vars = [] /\ g5_lg_vars = [] /\ g3_lg_conds = [] /\ g5_lg_conds = [].
Proof. repeat split; try reflexivity; unfold g3_lg, g5_lg; ev; lra. Qed.

(* ---- case 7: LLNL B-dot *)
Lemma g7_is_bdot : forall z A B bdot a0 I, 0 <= I -> 0 <= a0 -> 0 <= B ->
  evalR (env_of [z; A; B; bdot; a0; I]) g7_lg = bdot_dh A B bdot z a0 I.
Proof.
  intros z A B bdot a0 I HI Ha HB. unfold g7_lg, bdot_dh, ext_dh. ev.
  pose proof (dh_den_pos a0 B I Ha HB). field. lra.
Qed.
Lemma g7_table :
  g7_lg_vars = ["s_x[i]->z"; "a_llnl"; "b_llnl"; "bdot_llnl"; "s_x[i]->dha"; "mu"] /\
  g7_lg_conds = ["llnl_temp.size() > 0"; "!(s_x[i]->z == 0)"] /\
  (* neutral species with -llnl_gamma: gamma = 1 *)
  evalR (env_of []) g7_lg_z0 = 0 /\ g7_lg_z0_vars = [] /\ g7_lg_z0_conds = ["llnl_temp.size() > 0"; "s_x[i]->z == 0"].
Proof. repeat split; try reflexivity. unfold g7_lg_z0; ev; lra. Qed.

(* ---- case 8: LLNL CO2 (Drummond) *)
Lemma g8_is_co2_drummond : forall c0 c1 c2 c3 c4 T I L, L = evalR (env_of []) init_LOG_10 -> 0 <= I -> T <> 0 ->
  evalR (env_of [c0; c1; c2; c3; c4; T; I; L]) g8_lg = co2_drummond c0 c1 c2 c3 c4 T I.
Proof.
  intros c0 c1 c2 c3 c4 T I L HL HI HT. rewrite (proj1 LOG_10_is_ln10) in HL. subst L.
  unfold g8_lg, co2_drummond. ev. pose proof ln10_pos. field. repeat split; lra.
Qed.
Lemma g8_table :
  g8_lg_vars = ["llnl_co2_coefs[0]"; "llnl_co2_coefs[1]"; "llnl_co2_coefs[2]"; "llnl_co2_coefs[3]"; "llnl_co2_coefs[4]"; "tk_x"; "mu"; "LOG_10"] /\
  g8_lg_conds = ["llnl_temp.size() > 0"].
Proof. split; reflexivity. Qed.

(* ---- case 9: isotopic water species *)
Lemma g9_is_water_isotope : forall la L gfw, L = evalR (env_of []) init_LOG_10 -> 0 < gfw ->
  evalR (env_of [la; L; gfw]) g9_lg = water_isotope la gfw.
Proof.
  intros la L gfw HL Hg. rewrite (proj1 LOG_10_is_ln10) in HL. subst L.
  unfold g9_lg, water_isotope, log10. ev.
  rewrite ln_mult by (try apply exp_pos; assumption). rewrite ln_exp.
  pose proof ln10_pos. field. lra.
Qed.
Lemma g9_table : g9_lg_vars = ["s_h2o->la"; "LOG_10"; "gfw_water"] /\ g9_lg_conds = [].
Proof. split; reflexivity. Qed.

(* ---- case 4: exchange species when -pitzer_exchange_gammas is on: coef * (model of the exchanged ion)
        + log10(|equiv| / CEC);  otherwise only the equivalent-fraction term *)
Lemma g4_exchange : forall coef z A B bdot a0 b I equiv cec, 0 <= I -> 0 <= a0 -> 0 <= B ->
  evalR (env_of [coef; z; A; I; equiv; cec]) g4_lg_davies = coef * davies A z I + log10 (Rabs equiv / cec) /\
  evalR (env_of [coef; z; A; B; a0; b; I; equiv; cec]) g4_lg_dh = coef * ext_dh A B z a0 b I + log10 (Rabs equiv / cec) /\
  evalR (env_of [coef; z; A; B; bdot; a0; I; equiv; cec]) g4_lg_llnl = coef * bdot_dh A B bdot z a0 I + log10 (Rabs equiv / cec) /\
  evalR (env_of [equiv; cec]) g4_lg_plain = log10 (Rabs equiv / cec).
Proof.
  intros coef z A B bdot a0 b I equiv cec HI Ha HB.
  pose proof (one_plus_sqrt_pos I). pose proof (dh_den_pos a0 B I Ha HB). pose proof ln10_pos.
  unfold g4_lg_davies, g4_lg_dh, g4_lg_llnl, g4_lg_plain, davies, bdot_dh, ext_dh, log10.
  repeat split; ev; try reflexivity; field; lra.
Qed.
Lemma g4_table :
  g4_lg_davies_vars = ["coef"; "z"; "DH_A"; "mu"; "s_x[i]->equiv"; "s_x[i]->alk"] /\
  g4_lg_dh_vars = ["coef"; "z"; "DH_A"; "DH_B"; "s_x[i]->dha"; "s_x[i]->dhb"; "mu"; "s_x[i]->equiv"; "s_x[i]->alk"] /\
  g4_lg_llnl_vars = ["coef"; "z"; "a_llnl"; "b_llnl"; "bdot_llnl"; "s_x[i]->dha"; "mu"; "s_x[i]->equiv"; "s_x[i]->alk"] /\
  g4_lg_plain_vars = ["s_x[i]->equiv"; "s_x[i]->alk"].
Proof. repeat split; reflexivity. Qed.

(* ---- case 6: surface species, log10(equiv / sites) *)
Lemma g6_surface : forall equiv sites, evalR (env_of [equiv; sites]) g6_lg = log10 (equiv / sites)
  /\ g6_lg_vars = ["equiv"; "s_x[i]->alk"] /\ g6_lg_conds = ["s_x[i]->alk > 0"].
Proof. intros. repeat split; try reflexivity. Qed.

